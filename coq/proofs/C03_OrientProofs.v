(* C03_OrientProofs — part (b) of C03: sorted cells traverse shared entities in the same direction. *)
From Coq Require Import List Arith ZArith Bool Lia Sorted Permutation.
Import ListNotations.
Require Import Model.C03_Orient.

Lemma insert_nat_perm x l : Permutation (insert_nat x l) (x :: l).
Proof.
  induction l as [|y l IH]; simpl; [reflexivity|].
  destruct (x <=? y); [reflexivity|]. rewrite IH. apply perm_swap.
Qed.

Lemma sort_col_perm l : Permutation (sort_col l) l.
Proof.
  induction l as [|x l IH]; simpl; [constructor|].
  rewrite insert_nat_perm. now constructor.
Qed.

Lemma insert_nat_sorted x l : StronglySorted le l -> StronglySorted le (insert_nat x l).
Proof.
  induction l as [|y l IH]; intros Hs; simpl.
  - repeat constructor.
  - destruct (x <=? y) eqn:E.
    + apply Nat.leb_le in E. constructor; [exact Hs|].
      inversion Hs as [|? ? Hs' Hall]; subst. constructor; [exact E|].
      eapply Forall_impl; [|exact Hall]. intros z Hz; simpl in Hz. lia.
    + apply Nat.leb_gt in E. inversion Hs as [|? ? Hs' Hall]; subst.
      constructor; [now apply IH|].
      assert (HF : Forall (le y) (x :: l)) by (constructor; [lia | exact Hall]).
      exact (Permutation_Forall (Permutation_sym (insert_nat_perm x l)) HF).
Qed.

Lemma sort_col_sorted l : StronglySorted le (sort_col l).
Proof. induction l as [|x l IH]; simpl; [constructor | now apply insert_nat_sorted]. Qed.

Lemma sorted_le_nodup_lt l : StronglySorted le l -> NoDup l -> StronglySorted lt l.
Proof.
  induction 1 as [|x l Hs IH Hall]; intros Hnd; [constructor|].
  inversion Hnd as [|? ? Hnin Hnd']; subst. constructor; [now apply IH|].
  rewrite Forall_forall in *. intros y Hy. specialize (Hall y Hy).
  assert (x <> y) by (intros ->; contradiction). lia.
Qed.

(* the model of the per-cell sort: the cell keeps its vertices and lists them strictly ascending *)
Theorem sort_col_strict l : NoDup l -> StronglySorted lt (sort_col l) /\ Permutation (sort_col l) l.
Proof.
  intros Hnd. split; [|apply sort_col_perm].
  apply sorted_le_nodup_lt; [apply sort_col_sorted|].
  eapply Permutation_NoDup; [symmetry; apply sort_col_perm | exact Hnd].
Qed.

Lemma sorted_nth_lt l : StronglySorted lt l -> forall i j d, i < j -> j < length l -> nth i l d < nth j l d.
Proof.
  induction 1 as [|x l Hs IH Hall]; intros i j d Hij Hj; simpl in Hj; [lia|].
  destruct j as [|j]; [lia|]. destruct i as [|i]; simpl.
  - rewrite Forall_forall in Hall. apply Hall. apply nth_In. lia.
  - apply IH; lia.
Qed.

Lemma ascending_sorted l : ascending l = true -> StronglySorted lt l.
Proof.
  induction l as [|x l IH]; intros H; [constructor|].
  destruct l as [|y l']; [repeat constructor|].
  simpl in H. apply andb_true_iff in H. destruct H as [Hxy Hl]. apply Nat.ltb_lt in Hxy.
  specialize (IH Hl). constructor; [exact IH|].
  inversion IH as [|? ? _ Hall]; subst. constructor; [exact Hxy|].
  eapply Forall_impl; [|exact Hall]. intros z Hz; simpl in Hz; lia.
Qed.

(* (b) if the column of a cell is sorted and the local entity lists its local vertex indices ascending, the
   entity's global vertices come out strictly ascending *)
Theorem entity_vertices_ascending (t f : list nat) :
  StronglySorted lt t -> ascending f = true -> forallb (fun i => i <? length t) f = true ->
  StronglySorted lt (entity_vertices t f).
Proof.
  intros Ht Hf Hb. apply ascending_sorted in Hf. unfold entity_vertices.
  induction Hf as [|i f Hs IH Hall]; simpl; [constructor|].
  simpl in Hb. apply andb_true_iff in Hb. destruct Hb as [Hi Hb]. apply Nat.ltb_lt in Hi.
  constructor; [now apply IH|].
  rewrite Forall_forall in *. intros v Hv. apply in_map_iff in Hv. destruct Hv as [j [<- Hj]].
  rewrite forallb_forall in Hb. specialize (Hb j Hj). apply Nat.ltb_lt in Hb.
  apply sorted_nth_lt; [exact Ht | exact (Hall j Hj) | exact Hb].
Qed.

Lemma sorted_lt_perm_eq (l1 l2 : list nat) :
  StronglySorted lt l1 -> StronglySorted lt l2 -> Permutation l1 l2 -> l1 = l2.
Proof.
  intros H1; revert l2. induction H1 as [|x l1 Hs1 IH Hall1]; intros l2 H2 Hp.
  - apply Permutation_nil in Hp. now subst.
  - destruct H2 as [|y l2 Hs2 Hall2]; [apply Permutation_sym, Permutation_nil in Hp; discriminate|].
    rewrite Forall_forall in Hall1, Hall2.
    assert (x = y).
    { assert (Hx : In x (y :: l2)) by (eapply Permutation_in; [exact Hp | now left]).
      assert (Hy : In y (x :: l1)) by (eapply Permutation_in; [symmetry; exact Hp | now left]).
      destruct Hx as [->|Hx]; [reflexivity|]. destruct Hy as [->|Hy]; [reflexivity|].
      specialize (Hall1 y Hy). specialize (Hall2 x Hx). lia. }
    subst y. f_equal. apply IH; [exact Hs2|]. now apply Permutation_cons_inv in Hp.
Qed.

(* two cells with sorted columns that share an entity (same set of global vertices) list its vertices in the
   SAME order — both traverse the shared facet / edge in the same direction *)
Theorem shared_entity_same_direction (t1 t2 f1 f2 : list nat) :
  StronglySorted lt t1 -> StronglySorted lt t2 ->
  ascending f1 = true -> ascending f2 = true ->
  forallb (fun i => i <? length t1) f1 = true -> forallb (fun i => i <? length t2) f2 = true ->
  Permutation (entity_vertices t1 f1) (entity_vertices t2 f2) ->
  entity_vertices t1 f1 = entity_vertices t2 f2.
Proof.
  intros. apply sorted_lt_perm_eq; [now apply entity_vertices_ascending | now apply entity_vertices_ascending | assumption].
Qed.

(* ---- orientation signs ---- *)
Definition hcurl_ori_ok (ori : Z -> Z -> Z) : Prop :=
  forall a b : Z, a <> b ->
    (ori a b = 1 \/ ori a b = -1)%Z /\
    oriented_pair (ori a b) a b = (Z.min a b, Z.max a b) /\
    (ori a b * dirZ a b = 1)%Z /\ (ori b a = - ori a b)%Z.

Lemma hcurl_ori_ok_intro (ori : Z -> Z -> Z) :
  (forall a b, ori a b = 1 - 2 * b2z (a >? b)%Z)%Z -> hcurl_ori_ok ori.
Proof.
  intros H a b Hab. rewrite !H. unfold oriented_pair, dirZ, b2z.
  destruct (Z.gtb_spec a b); destruct (Z.gtb_spec b a); destruct (Z.ltb_spec a b); try lia;
    simpl; repeat split; try lia; f_equal; lia.
Qed.

(* the tangential trace of an oriented basis function relative to the global direction: the product
   ori * (slot sign) * (local direction).  It equals the slot sign, so two cells agree iff their slot signs do *)
Theorem hcurl_single_valued (ori : Z -> Z -> Z) : hcurl_ori_ok ori ->
  forall a b sA sB : Z, a <> b ->
    (ori a b * sA * dirZ a b = sA)%Z /\
    (sA = sB -> ori a b * sA * dirZ a b = ori b a * sB * dirZ b a)%Z /\
    (sA = sB -> ori a b * sA * dirZ a b = ori a b * sB * dirZ a b)%Z /\
    (sA = - sB -> sB <> 0 -> ori a b * sA * dirZ a b <> ori b a * sB * dirZ b a)%Z.
Proof.
  intros Hok a b sA sB Hab.
  destruct (Hok a b Hab) as [_ [_ [H1 _]]]. destruct (Hok b a (not_eq_sym Hab)) as [_ [_ [H2 _]]].
  assert (E1 : (ori a b * sA * dirZ a b = sA * (ori a b * dirZ a b))%Z) by ring.
  assert (E2 : (ori b a * sB * dirZ b a = sB * (ori b a * dirZ b a))%Z) by ring.
  repeat split; intros; rewrite ?E1, ?E2, ?H1, ?H2; try lia.
  assert (E3 : (ori a b * sB * dirZ a b = sB * (ori a b * dirZ a b))%Z) by ring. rewrite E3, H1. lia.
Qed.

Definition hdiv_ori_ok (ori : Z -> Z -> Z) : Prop :=
  (* ori first cell: first = f2t[0, facet] *)
  forall c0 c1 : Z, c0 <> c1 ->
    ori c0 c0 = 1%Z /\ ori c0 c1 = (-1)%Z /\ (ori c0 c0 + ori c0 c1 = 0)%Z.

Lemma hdiv_ori_ok_intro (ori : Z -> Z -> Z) :
  (forall first cell, ori first cell = -1 + 2 * b2z (first =? cell)%Z)%Z -> hdiv_ori_ok ori.
Proof.
  intros H c0 c1 Hc. rewrite !H. unfold b2z. rewrite Z.eqb_refl.
  destruct (Z.eqb_spec c0 c1); [contradiction|]. repeat split; lia.
Qed.
