(* C12/C13 — a refinement step maps a mesh whose cells have pairwise distinct, existing vertices to a mesh with the
   same property.  The new node numbers off + (entity number) differ from the old vertex numbers (ranges) and from each
   other: within a cell the entity numbers of different slots are different (C11: t2f_eq_iff + distinct vertex sets). *)
From Coq Require Import List Arith Bool Lia.
Import ListNotations.
Require Import Base.C11_Unique Model.C11_Topo Proofs.C11_TopoProofs.
Require Import Model.C12_Refine Model.C12_Global Model.C13_Adaptive Proofs.C12_RefineProofs Proofs.C13_AdaptiveProofs.
Local Open Scope nat_scope.

Lemma NoDup_map_inj_on {A B} (f : A -> B) (l : list A) :
  NoDup l -> (forall x y, In x l -> In y l -> f x = f y -> x = y) -> NoDup (map f l).
Proof.
  induction l as [|a l IH]; intros Hnd Hinj; simpl; constructor.
  - intros Hin. apply in_map_iff in Hin. destruct Hin as [y [Hy Hyl]]. inversion Hnd as [|? ? Hna _]; subst.
    apply Hna. rewrite (Hinj a y (or_introl eq_refl) (or_intror Hyl) (eq_sym Hy)). exact Hyl.
  - inversion Hnd; subst. apply IH; [assumption|]. intros x y Hx Hy. apply Hinj; now right.
Qed.

Section Child.
  Variables (cells rf re : list (list nat)) (nn np : nat).
  Hypothesis Hrf : slots_ok nn rf = true.
  Hypothesis Hre : slots_ok nn re = true.
  Hypothesis Hcells : cells_ok nn np cells.
  Variable tb : tables.
  Hypothesis Ht : tb_t tb = cells.
  Hypothesis HF : forall k a, k < length cells -> a < length rf -> nth a (nth k (tb_t2f tb) []) 0 = t2f_at cells rf a k.
  Hypothesis HE : forall k a, k < length cells -> a < length re -> nth a (nth k (tb_t2e tb) []) 0 = t2f_at cells re a k.
  Notation nE := (length (entities true cells re)).
  Notation nF := (length (entities true cells rf)).
  Variables cE cF cC : nat.        (* how many nodes of each kind the step creates *)
  Let o := canon_offs np cE cF.

  Definition nref_ok (r : nref) : Prop :=
    match r with
    | NV i => i < nn
    | NE j => j < length re /\ cE = nE
    | NF j => j < length rf /\ cF = nF
    | NC => cC = length cells
    end.

  Lemma cells_nodup : Forall (fun c => NoDup c /\ length c = nn) cells.
  Proof. eapply Forall_impl; [|exact Hcells]. intros c [H1 [H2 _]]. auto. Qed.

  Lemma cell_k k : k < length cells -> cell_ok nn np (nth k cells []).
  Proof. intros Hk. unfold cells_ok in Hcells. rewrite Forall_forall in Hcells. apply Hcells. now apply nth_In. Qed.

  Lemma resolve_bound k r : k < length cells -> nref_ok r -> resolve o (cell_ctx tb k) r < np + cE + cF + cC.
  Proof.
    intros Hk Hr. destruct (cell_k k Hk) as [Hnd [Hlen Hb]]. rewrite Forall_forall in Hb.
    destruct r as [i|j|j|]; simpl in *; rewrite ?Ht.
    - assert (nth i (nth k cells []) 0 < np) by (apply Hb, nth_In; lia). lia.
    - destruct Hr as [Hj Hc]. rewrite HE by assumption. pose proof (t2f_bound cells re j k Hj Hk). lia.
    - destruct Hr as [Hj Hc]. rewrite HF by assumption. pose proof (t2f_bound cells rf j k Hj Hk). lia.
    - lia.
  Qed.

  Lemma resolve_bound_nc k r : k < length cells -> nref_ok r -> r <> NC -> resolve o (cell_ctx tb k) r < np + cE + cF.
  Proof.
    intros Hk Hr Hnc. destruct (cell_k k Hk) as [Hnd [Hlen Hb]]. rewrite Forall_forall in Hb.
    destruct r as [i|j|j|]; simpl in *; rewrite ?Ht; try congruence.
    - assert (nth i (nth k cells []) 0 < np) by (apply Hb, nth_In; lia). lia.
    - destruct Hr as [Hj Hc]. rewrite HE by assumption. pose proof (t2f_bound cells re j k Hj Hk). lia.
    - destruct Hr as [Hj Hc]. rewrite HF by assumption. pose proof (t2f_bound cells rf j k Hj Hk). lia.
  Qed.

  Lemma resolve_inj k r r' : k < length cells -> nref_ok r -> nref_ok r' ->
    resolve o (cell_ctx tb k) r = resolve o (cell_ctx tb k) r' -> r = r'.
  Proof.
    intros Hk Hr Hr' E. destruct (cell_k k Hk) as [Hnd [Hlen Hb]]. rewrite Forall_forall in Hb.
    pose proof (slots_injective_of_distinct cells rf nn Hrf cells_nodup) as IF.
    pose proof (slots_injective_of_distinct cells re nn Hre cells_nodup) as IE.
    assert (BV : forall i, i < nn -> nth i (nth k cells []) 0 < np) by (intros i Hi; apply Hb, nth_In; lia).
    destruct r as [i|j|j|], r' as [i'|j'|j'|]; simpl in *; rewrite ?Ht in E;
      repeat match goal with H : _ /\ _ |- _ => destruct H end;
      try (rewrite ?HE, ?HF in E by assumption);
      try (pose proof (BV _ Hr)); try (pose proof (BV _ Hr'));
      try (match goal with H : ?j < length re |- _ => pose proof (t2f_bound cells re j k H Hk) end);
      try (match goal with H : ?j < length rf |- _ => pose proof (t2f_bound cells rf j k H Hk) end);
      try lia.
    - f_equal. apply (proj1 (NoDup_nth (nth k cells []) 0) Hnd); [lia | lia | exact E].
    - f_equal. apply (IE k j j' Hk); [assumption | assumption | lia].
    - f_equal. apply (IF k j j' Hk); [assumption | assumption | lia].
    - reflexivity.
  Qed.

  (* every child has pairwise distinct vertices, all below the new number of points *)
  Theorem child_ok k tpl : k < length cells -> NoDup tpl -> Forall nref_ok tpl -> length tpl = nn ->
    cell_ok nn (np + cE + cF + cC) (child o (cell_ctx tb k) tpl).
  Proof.
    intros Hk Hnd Hok Hl. rewrite Forall_forall in Hok. unfold child. split; [|split].
    - apply NoDup_map_inj_on; [exact Hnd|]. intros x y Hx Hy. apply resolve_inj; auto.
    - now rewrite map_length.
    - apply Forall_forall. intros v Hv. apply in_map_iff in Hv. destruct Hv as [r [<- Hr]]. apply resolve_bound; auto.
  Qed.
End Child.

(* the cells of the stacked connectivity are children of cells *)
Lemma in_refine_t o tpls cs c : In c (refine_t o tpls cs) -> exists tpl x, In tpl tpls /\ In x cs /\ c = child o x tpl.
Proof.
  unfold refine_t. rewrite in_concat. intros [blk [Hb Hc]]. apply in_map_iff in Hb. destruct Hb as [tpl [<- Ht]].
  unfold block in Hc. apply in_map_iff in Hc. destruct Hc as [x [<- Hx]]. now exists tpl, x.
Qed.

Lemma in_refine_t_interleaved o tpls cs c :
  In c (refine_t_interleaved o tpls cs) -> exists tpl x, In tpl tpls /\ In x cs /\ c = child o x tpl.
Proof.
  unfold refine_t_interleaved. rewrite in_flat_map. intros [x [Hx Hc]]. apply in_map_iff in Hc.
  destruct Hc as [tpl [<- Ht]]. now exists tpl, x.
Qed.

Lemma in_cls_filter cls c cs x : In x (cls_filter cls c cs) -> In x cs.
Proof.
  unfold cls_filter. intros H. apply in_map_iff in H. destruct H as [[a b] [<- Hin]]. apply filter_In in Hin.
  destruct Hin as [Hin _]. simpl. eapply in_combine_r; eauto.
Qed.

Lemma in_refine_t_tet o tpls cls cs c : length tpls = 16 ->
  In c (refine_t_tet o tpls cls cs) -> exists tpl x, In tpl tpls /\ In x cs /\ c = child o x tpl.
Proof.
  intros H16. unfold refine_t_tet, tet_blocks. rewrite in_concat. intros [blk [Hb Hc]]. apply in_app_or in Hb. destruct Hb as [Hb|Hb].
  - apply in_map_iff in Hb. destruct Hb as [tpl [<- Ht]]. unfold block in Hc. apply in_map_iff in Hc.
    destruct Hc as [x [<- Hx]]. exists tpl, x. split; [eapply firstn_In; eauto | auto].
  - apply in_map_iff in Hb. destruct Hb as [i [<- Hi]]. unfold block in Hc. apply in_map_iff in Hc.
    destruct Hc as [x [<- Hx]]. apply in_seq in Hi.
    exists (nth (4 + i) tpls []), x. split; [apply nth_In; lia | split; [eapply in_cls_filter; eauto | reflexivity]].
Qed.

Lemma in_mk_ctxs tb x : In x (mk_ctxs (tb_t tb) (tb_t2e tb) (tb_t2f tb)) -> exists k, k < length (tb_t tb) /\ x = cell_ctx tb k.
Proof.
  intros H. destruct (In_nth _ _ (cell_ctx tb 0) H) as [k [Hk Hn]]. rewrite mk_ctxs_length in Hk.
  exists k. split; [exact Hk|]. rewrite <- Hn. now apply mk_ctxs_nth_eq.
Qed.

Lemma nref_eqb_refl r : nref_eqb r r = true.
Proof. destruct r; simpl; auto using Nat.eqb_refl. Qed.
Lemma nref_eqb_true a b : nref_eqb a b = true -> a = b.
Proof. destruct a, b; simpl; intros H; try discriminate; try reflexivity; apply Nat.eqb_eq in H; now subst. Qed.

Lemma nodup_nref_spec l : nodup_nref l = true -> NoDup l.
Proof.
  induction l as [|x r IH]; intros H; simpl in H; constructor.
  - apply andb_true_iff in H. destruct H as [H _]. apply negb_true_iff in H. intros Hin.
    assert (existsb (nref_eqb x) r = true) by (apply existsb_exists; exists x; split; [exact Hin | apply nref_eqb_refl]).
    congruence.
  - apply andb_true_iff in H. now apply IH.
Qed.

Lemma uses_false_E tpls tpl j : uses KE tpls = false -> In tpl tpls -> ~ In (NE j) tpl.
Proof.
  intros H Ht Hin. assert (uses KE tpls = true); [|congruence]. unfold uses. apply existsb_exists. exists tpl. split; [exact Ht|].
  apply existsb_exists. exists (NE j). auto.
Qed.
Lemma uses_false_F tpls tpl j : uses KF tpls = false -> In tpl tpls -> ~ In (NF j) tpl.
Proof.
  intros H Ht Hin. assert (uses KF tpls = true); [|congruence]. unfold uses. apply existsb_exists. exists tpl. split; [exact Ht|].
  apply existsb_exists. exists (NF j). auto.
Qed.
Lemma uses_false_C tpls tpl : uses KC tpls = false -> In tpl tpls -> ~ In NC tpl.
Proof.
  intros H Ht Hin. assert (uses KC tpls = true); [|congruence]. unfold uses. apply existsb_exists. exists tpl. split; [exact Ht|].
  apply existsb_exists. exists NC. auto.
Qed.

(* what a class of tables must provide: the numbers of Mesh.build_entities *)
Definition tables_of (tb : tables) (cells rf re : list (list nat)) : Prop :=
  tb_t tb = cells /\
  (forall k a, k < length cells -> a < length rf -> nth a (nth k (tb_t2f tb) []) 0 = t2f_at cells rf a k) /\
  (forall k a, k < length cells -> a < length re -> nth a (nth k (tb_t2e tb) []) 0 = t2f_at cells re a k).

Section Step.
  Variables (tpls : list (list nref)) (o : offs) (cells rf re : list (list nat)) (nn np : nat) (tb : tables) (cE cF cC : nat).
  Hypothesis Hrf : slots_ok nn rf = true.
  Hypothesis Hre : slots_ok nn re = true.
  Hypothesis Hcells : cells_ok nn np cells.
  Hypothesis Htb : tables_of tb cells rf re.
  Hypothesis Htpls : tpls_okb nn (length re) (length rf) tpls = true.
  Hypothesis HuE : uses KE tpls = true -> offE o = np /\ cE = length (entities true cells re).
  Hypothesis HuF : uses KF tpls = true -> offF o = np + cE /\ cF = length (entities true cells rf).
  Hypothesis HuC : uses KC tpls = true -> offC o = np + cE + cF /\ cC = length cells.

  (* every child of every cell, for the offsets the library uses, is a good cell of the refined mesh *)
  Theorem step_child_ok k tpl : k < length cells -> In tpl tpls ->
    cell_ok nn (np + cE + cF + cC) (child o (cell_ctx tb k) tpl).
  Proof.
    intros Hk Hin. destruct Htb as [Ht [HF HE]].
    unfold tpls_okb in Htpls. rewrite forallb_forall in Htpls. specialize (Htpls tpl Hin).
    rewrite !andb_true_iff in Htpls. destruct Htpls as [[Hnd Hinb] Hlen].
    apply nodup_nref_spec in Hnd. apply Nat.eqb_eq in Hlen. rewrite forallb_forall in Hinb.
    assert (Echild : child o (cell_ctx tb k) tpl = child (canon_offs np cE cF) (cell_ctx tb k) tpl).
    { unfold child. apply map_ext_in. intros r Hr. destruct r as [i|j|j|]; simpl; [reflexivity| | |].
      - destruct (uses KE tpls) eqn:U; [destruct (HuE eq_refl) as [-> _]; reflexivity|].
        exfalso. exact (uses_false_E tpls tpl j U Hin Hr).
      - destruct (uses KF tpls) eqn:U; [destruct (HuF eq_refl) as [-> _]; reflexivity|].
        exfalso. exact (uses_false_F tpls tpl j U Hin Hr).
      - destruct (uses KC tpls) eqn:U; [destruct (HuC eq_refl) as [-> _]; reflexivity|].
        exfalso. exact (uses_false_C tpls tpl U Hin Hr). }
    rewrite Echild.
    apply (child_ok cells rf re nn np Hrf Hre Hcells tb Ht HF HE cE cF cC k tpl Hk Hnd); [|exact Hlen].
    apply Forall_forall. intros r Hr. specialize (Hinb r Hr). destruct r as [i|j|j|]; simpl in *.
    - now apply Nat.ltb_lt.
    - split; [now apply Nat.ltb_lt|]. destruct (uses KE tpls) eqn:U; [exact (proj2 (HuE eq_refl))|].
      exfalso. exact (uses_false_E tpls tpl j U Hin Hr).
    - split; [now apply Nat.ltb_lt|]. destruct (uses KF tpls) eqn:U; [exact (proj2 (HuF eq_refl))|].
      exfalso. exact (uses_false_F tpls tpl j U Hin Hr).
    - destruct (uses KC tpls) eqn:U; [exact (proj2 (HuC eq_refl))|]. exfalso. exact (uses_false_C tpls tpl U Hin Hr).
  Qed.
End Step.

(* the three layouts of the stacked connectivity *)
Theorem block_step_ok (s : spec) dim p cells rf re nn tb cE cF cC :
  slots_ok nn rf = true -> slots_ok nn re = true -> cells_ok nn (length p) cells -> tables_of tb cells rf re ->
  tpls_okb nn (length re) (length rf) (sp_tpls s) = true ->
  (uses KE (sp_tpls s) = true -> offE (offs_of s p tb) = length p /\ cE = length (entities true cells re)) ->
  (uses KF (sp_tpls s) = true -> offF (offs_of s p tb) = length p + cE /\ cF = length (entities true cells rf)) ->
  (uses KC (sp_tpls s) = true -> offC (offs_of s p tb) = length p + cE + cF /\ cC = length cells) ->
  length (fst (uniform_block s dim p tb)) = length p + cE + cF + cC ->
  cells_ok nn (length (fst (uniform_block s dim p tb))) (snd (uniform_block s dim p tb)).
Proof.
  intros Hrf Hre Hc Htb Htp HE HF HC Hlen. rewrite Hlen. unfold uniform_block. cbn [snd].
  apply Forall_forall. intros c Hin. apply in_refine_t in Hin. destruct Hin as [tpl [x [Ht [Hx ->]]]].
  apply in_mk_ctxs in Hx. destruct Hx as [k [Hk ->]]. destruct Htb as [Et Hrest]. rewrite Et in Hk.
  exact (step_child_ok (sp_tpls s) (offs_of s p tb) cells rf re nn (length p) tb cE cF cC Hrf Hre Hc (conj Et Hrest) Htp HE HF HC
                       k tpl Hk Ht).
Qed.

(* ------------------------------------------------------------------ the tables of C11 *)
Lemma c11_entry (cells idx : list (list nat)) k a : k < length cells -> a < length idx ->
  nth a (nth k (map (fun k => map (fun a => nth k (nth a (mapping cells idx) []) 0) (seq 0 (length idx)))
                    (seq 0 (length cells))) []) 0 = t2f_at cells idx a k.
Proof.
  intros Hk Ha. unfold t2f_at. rewrite (nth_seq_map _ (length cells) k []) by exact Hk.
  now rewrite (nth_seq_map _ (length idx) a 0) by exact Ha.
Qed.

Lemma tables_of_c11 cells rf : tables_of (c11_tables cells rf) cells rf [].
Proof.
  split; [reflexivity|]. split.
  - intros k a Hk Ha. apply c11_entry; assumption.
  - intros k a _ Ha. simpl in Ha. lia.
Qed.

Lemma tables_of_c11_3 cells rf re : tables_of (c11_tables3 cells rf re) cells rf re.
Proof. split; [reflexivity|]. split; intros k a Hk Ha; apply c11_entry; assumption. Qed.

Lemma lmax_ge l x : In x l -> x <= C12_Refine.list_max l.
Proof. induction l as [|y l IH]; intros H; [destruct H|]. simpl. destruct H as [->|H]; [lia | specialize (IH H); lia]. Qed.
Lemma lmax_le l b : (forall x, In x l -> x <= b) -> C12_Refine.list_max l <= b.
Proof. induction l as [|y l IH]; intros H; simpl; [lia|]. apply Nat.max_lub; [apply H; now left | apply IH; intros x Hx; apply H; now right]. Qed.

(* max(t2f) + 1 = number of facets (np.max(t2f) in the offsets of MeshQuad1 / MeshHex1): the numbering is onto *)
Lemma c11_tab_max cells idx : 0 < length cells -> 0 < length idx ->
  tab_max (map (fun k => map (fun a => nth k (nth a (mapping cells idx) []) 0) (seq 0 (length idx))) (seq 0 (length cells))) + 1
  = length (entities true cells idx).
Proof.
  intros Hc Hi. set (T := map _ (seq 0 (length cells))).
  assert (Hent : forall k a, k < length cells -> a < length idx -> nth a (nth k T []) 0 = t2f_at cells idx a k)
    by (intros; apply c11_entry; assumption).
  assert (Hpos : 0 < length (entities true cells idx)) by (pose proof (t2f_bound cells idx 0 0 Hi Hc); lia).
  assert (Hup : tab_max T <= length (entities true cells idx) - 1).
  { unfold tab_max. apply lmax_le. intros x Hx. apply in_map_iff in Hx. destruct Hx as [row [<- Hrow]].
    apply lmax_le. intros y Hy. unfold T in Hrow. apply in_map_iff in Hrow. destruct Hrow as [k [<- Hk]]. apply in_seq in Hk.
    apply in_map_iff in Hy. destruct Hy as [a [<- Ha]]. apply in_seq in Ha.
    pose proof (t2f_bound cells idx a k ltac:(lia) ltac:(lia)) as Hb. unfold t2f_at in Hb. lia. }
  destruct (t2f_onto cells idx (length (entities true cells idx) - 1) ltac:(lia)) as [s [e [Hs [He Hse]]]].
  assert (Hlow : length (entities true cells idx) - 1 <= tab_max T).
  { rewrite <- Hse, <- (Hent e s He Hs). unfold tab_max.
    assert (He' : e < length T) by (unfold T; now rewrite map_length, seq_length).
    assert (Hs' : s < length (nth e T [])) by (unfold T; rewrite (nth_seq_map _ (length cells) e []) by exact He; now rewrite map_length, seq_length).
    eapply Nat.le_trans; [apply lmax_ge, nth_In, Hs'|].
    apply lmax_ge. apply in_map_iff. exists (nth e T []). split; [reflexivity | now apply nth_In]. }
  lia.
Qed.

Lemma refine_t_nil o tpls : refine_t o tpls [] = [].
Proof. unfold refine_t. induction tpls as [|t tpls IH]; simpl; auto. Qed.

(* ------------------------------------------------------------------ induction over refined(k) *)
Section RefinedInv.
  Variables (step : list point -> tables -> list point * list (list nat)) (tabs : list (list nat) -> tables) (nn : nat).
  Hypothesis step_ok : forall p t, cells_ok nn (length p) t ->
    cells_ok nn (length (fst (step p (tabs t)))) (snd (step p (tabs t))).

  Theorem refined_k_cells_ok k : forall p t, cells_ok nn (length p) t ->
    cells_ok nn (length (fst (refined_k step tabs k p t))) (snd (refined_k step tabs k p t)).
  Proof.
    induction k as [|k IH]; intros p t H; simpl; [exact H|].
    destruct (step p (tabs t)) as [p' t'] eqn:E. apply IH. pose proof (step_ok p t H) as H'. now rewrite E in H'.
  Qed.
End RefinedInv.

Lemma refine_p_length dim bl p tb :
  length (refine_p dim bl p tb) = length p + list_sum (map (fun b => length (ent_of tb (bkind b))) bl).
Proof. unfold refine_p. now rewrite app_length, flat_map_pblock_length. Qed.

Theorem tet_layout_step_ok (s : spec) diags comps classes p cells rf re nn tb cE :
  length (sp_tpls s) = 16 ->
  slots_ok nn rf = true -> slots_ok nn re = true -> cells_ok nn (length p) cells -> tables_of tb cells rf re ->
  tpls_okb nn (length re) (length rf) (sp_tpls s) = true ->
  uses KF (sp_tpls s) = false -> uses KC (sp_tpls s) = false ->
  offE (offs_of s p tb) = length p -> cE = length (entities true cells re) ->
  length (fst (fst (uniform_tet s diags comps classes p tb))) = length p + cE ->
  cells_ok nn (length (fst (fst (uniform_tet s diags comps classes p tb)))) (snd (fst (uniform_tet s diags comps classes p tb))).
Proof.
  intros H16 Hrf Hre Hc Htb Htp UF UC HoE HcE Hlen. rewrite Hlen. unfold uniform_tet. cbn [fst snd].
  apply Forall_forall. intros c Hin. apply (in_refine_t_tet _ _ _ _ _ H16) in Hin. destruct Hin as [tpl [x [Ht [Hx ->]]]].
  apply in_mk_ctxs in Hx. destruct Hx as [k [Hk ->]]. destruct Htb as [Et Hrest]. rewrite Et in Hk.
  replace (length p + cE) with (length p + cE + 0 + 0) by lia.
  apply (step_child_ok (sp_tpls s) (offs_of s p tb) cells rf re nn (length p) tb cE 0 0 Hrf Hre Hc (conj Et Hrest) Htp); auto.
  - intros U. rewrite UF in U. discriminate.
  - intros U. rewrite UC in U. discriminate.
Qed.

Lemma cells_ok_distinct nn np t : cells_ok nn np t -> Forall (fun c => NoDup c /\ length c = nn) t.
Proof. intros H. eapply Forall_impl; [|exact H]. intros c [H1 [H2 _]]. auto. Qed.

(* the offsets the library uses and the canonical ones give the same children (for the node kinds the templates use) *)
Lemma child_canon tpls o np cE cF (ctx : cctx) tpl :
  (uses KE tpls = true -> offE o = np) -> (uses KF tpls = true -> offF o = np + cE) ->
  (uses KC tpls = true -> offC o = np + cE + cF) -> In tpl tpls ->
  child o ctx tpl = child (canon_offs np cE cF) ctx tpl.
Proof.
  intros HE HF HC Hin. unfold child. apply map_ext_in. intros r Hr. destruct r as [i|j|j|]; simpl; [reflexivity| | |].
  - destruct (uses KE tpls) eqn:U; [now rewrite (HE eq_refl)|]. exfalso. exact (uses_false_E tpls tpl j U Hin Hr).
  - destruct (uses KF tpls) eqn:U; [now rewrite (HF eq_refl)|]. exfalso. exact (uses_false_F tpls tpl j U Hin Hr).
  - destruct (uses KC tpls) eqn:U; [now rewrite (HC eq_refl)|]. exfalso. exact (uses_false_C tpls tpl U Hin Hr).
Qed.
