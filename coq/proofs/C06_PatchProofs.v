(* C06 — the patch test from Green's identity, with explicit hypotheses instead of prose.
   Setting: any ring, any local-to-global map, local stiffness matrices K_e and local load vectors L_e assembled as the
   library does.  For the coefficient vector x* (the discrete function u_h = sum_j x*_j phi_j):
     (cell)   K_e x*|_e (i) = vol e i + sum_s flux e s i        Green's identity on cell e for u_h and test function phi_{e,i}:
                                                                vol = -int_K (laplace u_h) phi,  flux e s = int_{facet s} (grad u_h . n) phi
     (load)   L_e (i) = vol e i + sum_{s Neumann} flux e s i     the load = volume data f = -laplace u and the natural data g = grad u . n
     (cancel) for a free dof I the non-Neumann facet terms of all (e, i) with g(e, i) = I sum to zero
              (interior facets: phi_I single-valued and the two normals opposite; Dirichlet facets: phi_I vanishes there)
   Then x* satisfies every free row of the assembled system, and (C05/C06 algebra) the condensed solve returns x*. *)
From Coq Require Import List ZArith Bool Arith Lia Ring.
Import ListNotations.
Require Import Base.C05_Np Model.C05_BC Model.C06_Galerkin Proofs.C05_CondenseProofs Proofs.C06_GalerkinProofs.

Section Patch.
  Context {R : Type} (o : ring_ops R).
  Hypothesis Rth : ring_theory (r0 o) (r1 o) (radd o) (rmul o) (rsub o) (ropp o) (@eq R).
  Add Ring Rring8 : Rth.
  Local Notation "a [+] b" := (radd o a b) (at level 50, left associativity).
  Local Notation "a [*] b" := (rmul o a b) (at level 40, left associativity).
  Local Notation zero := (r0 o).
  Local Notation lsum := (C06_Galerkin.lsum o).

  Variables (N ne nl nfac : nat) (g : nat -> nat -> nat).
  Variable K : nat -> nat -> nat -> R.
  Variable L : nat -> nat -> R.

  Lemma ls_ext {A} (f h : A -> R) l : (forall a, In a l -> f a = h a) -> lsum f l = lsum h l.
  Proof. induction l as [|a l IH]; intros H; simpl; [reflexivity|]. rewrite H by now left. rewrite IH; auto. intros; apply H; now right. Qed.
  Lemma ls_app {A} (f : A -> R) l1 l2 : lsum f (l1 ++ l2) = lsum f l1 [+] lsum f l2.
  Proof. induction l1 as [|a l1 IH]; simpl; [ring | rewrite IH; ring]. Qed.
  Lemma ls_flat_map {A B} (f : B -> R) (h : A -> list B) l : lsum f (flat_map h l) = lsum (fun a => lsum f (h a)) l.
  Proof. induction l as [|a l IH]; simpl; [reflexivity|]. now rewrite ls_app, IH. Qed.
  Lemma ls_map {A B} (f : B -> R) (h : A -> B) l : lsum f (map h l) = lsum (fun a => f (h a)) l.
  Proof. induction l as [|a l IH]; simpl; [reflexivity | now rewrite IH]. Qed.
  Lemma ls_filter {A} (f : A -> R) (p : A -> bool) l : lsum f (filter p l) = lsum (fun a => if p a then f a else zero) l.
  Proof. induction l as [|a l IH]; simpl; [reflexivity|]. destruct (p a); simpl; rewrite IH; ring. Qed.
  Lemma ls_zero {A} (l : list A) : lsum (fun _ => zero) l = zero.
  Proof. induction l; simpl; [reflexivity | rewrite IHl; ring]. Qed.
  Lemma ls_add {A} (f h : A -> R) l : lsum (fun a => f a [+] h a) l = lsum f l [+] lsum h l.
  Proof. induction l as [|a l IH]; simpl; [ring | rewrite IH; ring]. Qed.
  Lemma ls_if {A} (b : bool) (f : A -> R) l : lsum (fun a => if b then f a else zero) l = if b then lsum f l else zero.
  Proof. destruct b; [reflexivity | apply ls_zero]. Qed.
  Lemma ls_exchange {A B} (F : A -> B -> R) la lb :
    lsum (fun a => lsum (fun b => F a b) lb) la = lsum (fun b => lsum (fun a => F a b) la) lb.
  Proof. induction la as [|a la IH]; simpl; [now rewrite ls_zero|]. rewrite IH, <- ls_add. reflexivity. Qed.

  (* row I of the assembled matrix applied to x = sum over the (e, i) that carry dof I of the local row i of K_e applied to x|_e *)
  Lemma assembled_row (x : list R) I : I < N ->
    vnth o (matvec o (assembled_matrix N ne nl g K) x) I
    = lsum (fun i => lsum (fun e => if Nat.eqb (g e i) I
                                    then lsum (fun j => K e i j [*] vnth o x (g e j)) (seq 0 nl) else zero) (seq 0 ne)) (seq 0 nl).
  Proof.
    intros HI. rewrite vnth_matvec. unfold assembled_matrix. rewrite (mrow_coo_rows N _ I HI).
    change (row_dot o ?r x) with (lsum (fun cv => snd cv [*] vnth o x (fst cv)) r). rewrite ls_map, ls_filter.
    unfold local_coo. rewrite ls_flat_map.
    transitivity (lsum (fun j => lsum (fun i => lsum (fun e =>
                   if Nat.eqb (g e i) I then K e i j [*] vnth o x (g e j) else zero) (seq 0 ne)) (seq 0 nl)) (seq 0 nl)).
    { apply ls_ext. intros j _. rewrite ls_flat_map. apply ls_ext. intros i _. rewrite ls_map. reflexivity. }
    rewrite ls_exchange. apply ls_ext. intros i _. rewrite ls_exchange. apply ls_ext. intros e _. now rewrite ls_if.
  Qed.
  Lemma assembled_load I : I < N ->
    vnth o (assembled_vector o N ne nl g L) I
    = lsum (fun i => lsum (fun e => if Nat.eqb (g e i) I then L e i else zero) (seq 0 ne)) (seq 0 nl).
  Proof.
    intros HI. unfold assembled_vector. rewrite (vnth_coo_vec o N _ I HI). unfold local_load_coo.
    rewrite ls_flat_map. apply ls_ext. intros i _. now rewrite ls_map.
  Qed.

  (* ---- Green's identity cell by cell  =>  the free rows hold *)
  Variable xstar : list R.
  Variables (vol : nat -> nat -> R) (flux : nat -> nat -> nat -> R) (neumann : nat -> nat -> bool).
  Definition facets_sum (e i : nat) (sel : nat -> bool) : R := lsum (fun s => if sel s then flux e s i else zero) (seq 0 nfac).

  Hypothesis green_cell : forall e i, e < ne -> i < nl ->
    lsum (fun j => K e i j [*] vnth o xstar (g e j)) (seq 0 nl) = vol e i [+] facets_sum e i (fun _ => true).
  Hypothesis load_is_data : forall e i, e < ne -> i < nl -> L e i = vol e i [+] facets_sum e i (neumann e).
  Variable free : nat -> Prop.
  Hypothesis other_facets_cancel : forall I, free I ->
    lsum (fun i => lsum (fun e => if Nat.eqb (g e i) I then facets_sum e i (fun s => negb (neumann e s)) else zero) (seq 0 ne)) (seq 0 nl) = zero.

  Lemma facets_split e i : facets_sum e i (fun _ => true) = facets_sum e i (neumann e) [+] facets_sum e i (fun s => negb (neumann e s)).
  Proof.
    unfold facets_sum. rewrite <- ls_add. apply ls_ext. intros s _. destruct (neumann e s); simpl; ring.
  Qed.

  Theorem free_rows_from_green I : I < N -> free I ->
    vnth o (matvec o (assembled_matrix N ne nl g K) xstar) I = vnth o (assembled_vector o N ne nl g L) I.
  Proof.
    intros HI HF. rewrite assembled_row, assembled_load by assumption.
    transitivity (lsum (fun i => lsum (fun e => (if Nat.eqb (g e i) I then L e i else zero)
                                            [+] (if Nat.eqb (g e i) I then facets_sum e i (fun s => negb (neumann e s)) else zero))
                                      (seq 0 ne)) (seq 0 nl)).
    { apply ls_ext. intros i Hi. apply ls_ext. intros e He. apply in_seq in Hi, He.
      destruct (Nat.eqb (g e i) I); [|ring].
      rewrite green_cell, load_is_data, facets_split by lia. ring. }
    rewrite (ls_ext _ (fun i => lsum (fun e => if Nat.eqb (g e i) I then L e i else zero) (seq 0 ne)
                               [+] lsum (fun e => if Nat.eqb (g e i) I then facets_sum e i (fun s => negb (neumann e s)) else zero) (seq 0 ne)))
      by (intros i _; apply ls_add).
    rewrite ls_add, (other_facets_cancel I HF). ring.
  Qed.

  (* ... and therefore the condensed solve, expanded, is x* (A_II nonsingular) *)
  Theorem patch_test_from_green (x z : list R) (I D : list nat) :
    length x = N -> length xstar = N -> split_ok N I D ->
    rows_in_range N (assembled_matrix N ne nl g K) ->
    (forall i, In i I -> free i) ->
    (forall d, In d D -> vnth o x d = vnth o xstar d) ->
    injective_on o (length I) (condense_A (assembled_matrix N ne nl g K) I) ->
    length z = length I ->
    matvec o (condense_A (assembled_matrix N ne nl g K) I) z
      = condense_b o (assembled_matrix N ne nl g K) (assembled_vector o N ne nl g L) x I D ->
    forall c, c < N -> vnth o (expand x I z) c = vnth o xstar c.
  Proof.
    intros Hx Hs HS HA HI HD Hinj Hz Hsolve.
    apply (patch_test_algebra o Rth N (assembled_matrix N ne nl g K) (assembled_vector o N ne nl g L) x xstar z I D); auto.
    intros i Hi. apply free_rows_from_green; [|now apply HI]. destruct HS as (_ & _ & BI & _). now apply BI.
  Qed.
End Patch.
