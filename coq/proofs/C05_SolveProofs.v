(* C05 — forwarding theorems for solve of condense(...), solve of enforce(...) and the eigen form: the tuple returned by
   condense / enforce, passed POSITIONALLY to solve, reaches the solver and the expansion with the right roles, for all
   argument values and any solver; with a solver that solves, the end-to-end statement of the property follows. *)
From Coq Require Import List ZArith Bool Arith Lia Ring.
Import ListNotations.
Require Import Base.C05_Np Model.C05_BC Model.C05_MPC Model.C05_Solve Proofs.C05_CondenseProofs.

Section SolveProofs.
  Context {R : Type} (o : ring_ops R).
  Hypothesis Rth : ring_theory (r0 o) (r1 o) (radd o) (rmul o) (rsub o) (ropp o) (@eq R).
  Variable lin : list (list (nat * R)) -> list R -> list R.
  Variable eig : list (list (nat * R)) -> list (list (nat * R)) -> list R * list (list R).

  (* solve applied to the tuple of condense(A, b, x, I= / D=): the four returned values are (matrix, rhs, x, I) in this order *)
  Theorem solve_condense_forwarding A b (x : list R) Isel Dsel AII bI x' I' :
    condense o A b x Isel Dsel = Some (AII, bI, x', I') ->
    solve_model o lin eig AII (RVec bI) (Some x') (Some (IArr I')) = Some (SVec (expand x' I' (lin AII bI))).
  Proof. reflexivity. Qed.

  (* ... hence, if the solver solves the condensed system, the result carries x on D and satisfies the kept equations *)
  Theorem solve_condense_end_to_end A b (x : list R) Isel Dsel AII bI x' I' y :
    length x = length A -> rows_in_range (length A) A ->
    (forall S, Isel = Some S -> given_ok (length A) S) -> (forall S, Dsel = Some S -> given_ok (length A) S) ->
    condense o A b x Isel Dsel = Some (AII, bI, x', I') ->
    length (lin AII bI) = length I' -> matvec o AII (lin AII bI) = bI ->
    solve_model o lin eig AII (RVec bI) (Some x') (Some (IArr I')) = Some (SVec y) ->
    exists D', init_bc (length A) Isel Dsel = Some (I', D') /\ length y = length A /\
      (forall d, In d D' -> vnth o y d = vnth o x d) /\ (forall i, In i I' -> vnth o (matvec o A y) i = vnth o b i).
  Proof.
    intros Hx HA HI HD Hc Hl Hs Hy. simpl in Hy. injection Hy as <-.
    destruct (condense_expand_sound o Rth A b x Isel Dsel AII bI x' I' (lin AII bI) Hx HA HI HD Hc Hl Hs) as (D' & E & _ & H1 & H2 & H3).
    exists D'. auto.
  Qed.

  (* solve applied to the pair of enforce(A, b, x, D=): a pair, so x and I stay None: the solver's result is returned as it is *)
  Theorem solve_enforce_forwarding (M' : list (list (nat * R))) (b' : list R) :
    solve_model o lin eig M' (RVec b') None None = Some (SVec (lin M' b')).
  Proof. reflexivity. Qed.

  (* a sparse second argument dispatches to the eigen path; condense's (A_II, B_II, x, I) expands every eigenvector *)
  Theorem solve_condense_eig_forwarding A B (x : list R) Isel Dsel AII BII x' I' :
    condense_eig A B x Isel Dsel = Some (AII, BII, x', I') ->
    solve_model o lin eig AII (RMat BII) (Some x') (Some (IArr I'))
    = Some (SEig (fst (eig AII BII)) (expand_eig x' I' (snd (eig AII BII)))).
  Proof. reflexivity. Qed.

  (* solve applied to the tuple of mpc(...): the fourth value is the (indices, expansion) pair *)
  Theorem solve_mpc_forwarding (Bm : list (list (nat * R))) (y x0 : list R) perm f :
    solve_model o lin eig Bm (RVec y) (Some x0) (Some (ITup perm f)) = Some (SVec (expand_tuple o x0 perm f (lin Bm y))).
  Proof. reflexivity. Qed.

  Theorem solve_other_raises A x I : solve_model o lin eig A ROther x I = None.
  Proof. reflexivity. Qed.
End SolveProofs.
