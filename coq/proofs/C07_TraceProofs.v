(* C07 — trace support: the one-sided trace of a discrete function on a selected facet depends on no DOF outside the set the
   facet query returns.  Abstract over the two facts it combines:
     (C03, trace lemma)  a local basis function that is not attached to the closure of the local facet has zero trace there;
     (C07, facet_query_exact) the query returns every DOF attached to the closure of every selected facet. *)
From Coq Require Import List Arith Lia Bool.
Import ListNotations.
Require Import Base.C11_Unique Model.C04_Dofs Model.C07_Query Proofs.C04_DofsProofs Proofs.C07_QueryProofs.

Section TraceSupport.
  Variable A : Type.
  Variables (zero : A) (add mul : A -> A -> A).
  Hypothesis mul_zero_r : forall x, mul x zero = zero.

  Variables dim nd ed fd id nv ne nf nt : nat.
  Variables t t2e t2f : list (list nat).
  Notation D := (dofs_init dim nd ed fd id 0 nv ne nf nt t t2e t2f).
  Hypothesis Hwf : wf dim fd nv ne nf nt t t2e t2f.

  Variable dofnames : list nat.
  Variable offs : offsets.
  Variables facets f2e : list (list nat).
  Variable dim3 : bool.
  Variable F : list nat.                       (* the selected facets *)
  Hypothesis BF : forall f, In f F -> f < nf.
  Hypothesis Bv : forall f v, In f F -> In v (nth f facets []) -> v < nv.
  Hypothesis Be : forall row f, In row f2e -> In f F -> nth f row 0 < ne.

  Variable e : nat.                            (* a cell one of whose local facets is a selected facet *)
  Hypothesis He : e < nt.
  Variable tr : nat -> A.                      (* trace, on that local facet, of local basis function r of cell e *)
  Variable att : kind -> nat -> bool.          (* (kind, local slot) attached to the closure of that local facet *)

  (* C03: only attached basis functions have a trace *)
  Hypothesis trace_of_unattached_is_zero : forall r, r < length (D_element D) ->
    tr r = zero \/ exists kd s' k, s' < nslots t t2e t2f kd /\ k < cnt dim nd ed fd id kd /\
                                   r = rowpos dim nd ed fd t t2e t2f kd s' k /\ att kd s' = true.
  (* connectivity (C11 t2f_slotwise / f2e): the entity of an attached slot of cell e is a vertex of / an edge of / a selected facet *)
  Hypothesis attached_in_closure : forall kd s', att kd s' = true -> s' < nslots t t2e t2f kd ->
    facet_selected facets f2e dim3 F kd (slot_ent t t2e t2f kd s' e).

  (* trace of u = sum_d w(d) phi_d, seen from cell e *)
  Definition trace (w : nat -> A) : A :=
    fold_right add zero (map (fun r => mul (w (nth e (nth r (D_element D) []) 0)) (tr r)) (seq 0 (length (D_element D)))).

  Theorem trace_support (w w' : nat -> A) :
    (forall d, In d (flatten D (get_facet_dofs D dofnames offs nd ed fd facets f2e dim3 F [])) -> w d = w' d) ->
    trace w = trace w'.
  Proof.
    intros Hagree. unfold trace. f_equal. apply map_ext_in. intros r Hr. apply in_seq in Hr.
    destruct Hwf as [Hfd [Ht [Ht2e Ht2f]]].
    destruct (trace_of_unattached_is_zero r ltac:(lia)) as [Hz | [kd [s' [k [Hs [Hk [-> Hatt]]]]]]].
    - now rewrite Hz, !mul_zero_r.
    - f_equal. apply Hagree.
      rewrite (element_entry dim nd ed fd id 0 nv ne nf nt t t2e t2f Hfd Ht Ht2e Ht2f kd s' k e Hs Hk He).
      apply (facet_query_exact dim nd ed fd id 0 nv ne nf nt t t2e t2f Hfd dofnames offs facets f2e dim3 F [] _ BF Bv Be).
      exists kd, (slot_ent t t2e t2f kd s' e), k. split; [|split; [reflexivity|split]].
      + now apply slot_valid.
      + unfold row_selected. destruct offs as [[of_ oe] oi]. split.
        * now rewrite (blk_rows dim nd ed fd id 0 nv ne nf nt t t2e t2f Hfd).
        * simpl. split; [intros [] | discriminate].
      + now apply attached_in_closure.
  Qed.
End TraceSupport.

(* ------------------------------------------------------------------ the same over a setoid (traces live in a ring with its own equality) *)
Section TraceSupportSetoid.
  Variable A : Type.
  Variables (zero : A) (add mul : A -> A -> A) (eqA : A -> A -> Prop).
  Hypothesis eqA_refl : forall x, eqA x x.
  Hypothesis eqA_sym : forall x y, eqA x y -> eqA y x.
  Hypothesis eqA_trans : forall x y z, eqA x y -> eqA y z -> eqA x z.
  Hypothesis add_proper : forall a a' b b', eqA a a' -> eqA b b' -> eqA (add a b) (add a' b').
  Hypothesis mul_zero_r : forall x z, eqA z zero -> eqA (mul x z) zero.

  Variables dim nd ed fd id nv ne nf nt : nat.
  Variables t t2e t2f : list (list nat).
  Notation D := (dofs_init dim nd ed fd id 0 nv ne nf nt t t2e t2f).
  Hypothesis Hwf : wf dim fd nv ne nf nt t t2e t2f.
  Variable dofnames : list nat.
  Variable offs : offsets.
  Variables facets f2e : list (list nat).
  Variable dim3 : bool.
  Variable F : list nat.
  Hypothesis BF : forall f, In f F -> f < nf.
  Hypothesis Bv : forall f v, In f F -> In v (nth f facets []) -> v < nv.
  Hypothesis Be : forall row f, In row f2e -> In f F -> nth f row 0 < ne.
  Variable e : nat.
  Hypothesis He : e < nt.
  Variable tr : nat -> A.
  Variable att : kind -> nat -> bool.
  Hypothesis trace_of_unattached_is_zero : forall r, r < length (D_element D) ->
    eqA (tr r) zero \/ exists kd s' k, s' < nslots t t2e t2f kd /\ k < cnt dim nd ed fd id kd /\
                                       r = rowpos dim nd ed fd t t2e t2f kd s' k /\ att kd s' = true.
  Hypothesis attached_in_closure : forall kd s', att kd s' = true -> s' < nslots t t2e t2f kd ->
    facet_selected facets f2e dim3 F kd (slot_ent t t2e t2f kd s' e).

  Definition trace_s (w : nat -> A) : A :=
    fold_right add zero (map (fun r => mul (w (nth e (nth r (D_element D) []) 0)) (tr r)) (seq 0 (length (D_element D)))).

  Theorem trace_support_setoid (w w' : nat -> A) :
    (forall d, In d (flatten D (get_facet_dofs D dofnames offs nd ed fd facets f2e dim3 F [])) -> w d = w' d) ->
    eqA (trace_s w) (trace_s w').
  Proof.
    intros Hagree. unfold trace_s.
    assert (G : forall l, (forall r, In r l -> r < length (D_element D)) ->
              eqA (fold_right add zero (map (fun r => mul (w (nth e (nth r (D_element D) []) 0)) (tr r)) l))
                  (fold_right add zero (map (fun r => mul (w' (nth e (nth r (D_element D) []) 0)) (tr r)) l))).
    { induction l as [|r l IH]; intros Hl; cbn [map fold_right]; [apply eqA_refl|]. apply add_proper; [|apply IH; intros; apply Hl; now right].
      destruct Hwf as [Hfd [Ht [Ht2e Ht2f]]].
      destruct (trace_of_unattached_is_zero r (Hl r (or_introl eq_refl))) as [Hz | [kd [s' [k [Hs [Hk [-> Hatt]]]]]]].
      - eapply eqA_trans; [apply mul_zero_r, Hz | apply eqA_sym, mul_zero_r, Hz].
      - assert (Ew : w (nth e (nth (rowpos dim nd ed fd t t2e t2f kd s' k) (D_element D) []) 0)
                     = w' (nth e (nth (rowpos dim nd ed fd t t2e t2f kd s' k) (D_element D) []) 0)).
        { apply Hagree.
          rewrite (element_entry dim nd ed fd id 0 nv ne nf nt t t2e t2f Hfd Ht Ht2e Ht2f kd s' k e Hs Hk He).
          apply (facet_query_exact dim nd ed fd id 0 nv ne nf nt t t2e t2f Hfd dofnames offs facets f2e dim3 F [] _ BF Bv Be).
          exists kd, (slot_ent t t2e t2f kd s' e), k. split; [|split; [reflexivity|split]].
          + now apply slot_valid.
          + unfold row_selected. destruct offs as [[of_ oe] oi]. split.
            * now rewrite (blk_rows dim nd ed fd id 0 nv ne nf nt t t2e t2f Hfd).
            * simpl. split; [intros [] | discriminate].
          + now apply attached_in_closure. }
        cbv beta in *. rewrite Ew. apply eqA_refl. }
    apply G. intros r Hr. apply in_seq in Hr. lia.
  Qed.
End TraceSupportSetoid.
