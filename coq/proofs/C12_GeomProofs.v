(* C12/C13 — soundness of the executable geometry checks: determinant identities for ALL parent
   coordinates (ring identities over Q; every binary64 is a rational), convexity of the weights,
   separating functionals, multilinear maps. *)
From Coq Require Import List Arith Bool ZArith QArith Qabs Lia Lqa.
Import ListNotations.
Require Import Model.C12_Refine Model.C12_Geom.
Local Open Scope Q_scope.

Lemma tri_child_det a0 a1 a2 b0 b1 b2 c0 c1 c2 x0 y0 x1 y1 x2 y2 :
  a0 + a1 + a2 == 1 -> b0 + b1 + b2 == 1 -> c0 + c1 + c2 == 1 ->
  tri_det (a0*x0+a1*x1+a2*x2) (a0*y0+a1*y1+a2*y2) (b0*x0+b1*x1+b2*x2) (b0*y0+b1*y1+b2*y2)
          (c0*x0+c1*x1+c2*x2) (c0*y0+c1*y1+c2*y2)
  == det3 a0 a1 a2 b0 b1 b2 c0 c1 c2 * tri_det x0 y0 x1 y1 x2 y2.
Proof.
  intros Ha Hb Hc.
  assert (Ea : a2 == 1 - a0 - a1) by (rewrite <- Ha; ring).
  assert (Eb : b2 == 1 - b0 - b1) by (rewrite <- Hb; ring).
  assert (Ec : c2 == 1 - c0 - c1) by (rewrite <- Hc; ring).
  unfold tri_det, det2, det3. rewrite Ea, Eb, Ec. ring.
Qed.

Lemma tet_child_det a0 a1 a2 a3 b0 b1 b2 b3 c0 c1 c2 c3 d0 d1 d2 d3 x0 y0 z0 x1 y1 z1 x2 y2 z2 x3 y3 z3 :
  a0 + a1 + a2 + a3 == 1 -> b0 + b1 + b2 + b3 == 1 -> c0 + c1 + c2 + c3 == 1 -> d0 + d1 + d2 + d3 == 1 ->
  tet_det (a0*x0+a1*x1+a2*x2+a3*x3) (a0*y0+a1*y1+a2*y2+a3*y3) (a0*z0+a1*z1+a2*z2+a3*z3)
          (b0*x0+b1*x1+b2*x2+b3*x3) (b0*y0+b1*y1+b2*y2+b3*y3) (b0*z0+b1*z1+b2*z2+b3*z3)
          (c0*x0+c1*x1+c2*x2+c3*x3) (c0*y0+c1*y1+c2*y2+c3*y3) (c0*z0+c1*z1+c2*z2+c3*z3)
          (d0*x0+d1*x1+d2*x2+d3*x3) (d0*y0+d1*y1+d2*y2+d3*y3) (d0*z0+d1*z1+d2*z2+d3*z3)
  == det4 [[a0;a1;a2;a3];[b0;b1;b2;b3];[c0;c1;c2;c3];[d0;d1;d2;d3]]
     * tet_det x0 y0 z0 x1 y1 z1 x2 y2 z2 x3 y3 z3.
Proof.
  intros Ha Hb Hc Hd.
  assert (Ea : a3 == 1 - a0 - a1 - a2) by (rewrite <- Ha; ring).
  assert (Eb : b3 == 1 - b0 - b1 - b2) by (rewrite <- Hb; ring).
  assert (Ec : c3 == 1 - c0 - c1 - c2) by (rewrite <- Hc; ring).
  assert (Ed : d3 == 1 - d0 - d1 - d2) by (rewrite <- Hd; ring).
  unfold tet_det, det4, det3. rewrite Ea, Eb, Ec, Ed. ring.
Qed.

(* ------------------------------------------------------------------ rows *)
Lemma nonneg_spec w : nonneg w = true -> forall a, In a w -> 0 <= a.
Proof.
  unfold nonneg. rewrite forallb_forall. intros H a Ha. apply Qle_bool_iff. now apply H.
Qed.

Lemma row_ok_spec w : row_ok w = true -> sumq w == 1 /\ forall a, In a w -> 0 <= a.
Proof.
  unfold row_ok. rewrite andb_true_iff. intros [H1 H2]. split.
  - now apply Qeq_bool_iff.
  - now apply nonneg_spec.
Qed.

Definition convex_rows (W : list (list Q)) : Prop :=
  forall w, In w W -> sumq w == 1 /\ forall a, In a w -> 0 <= a.

(* ------------------------------------------------------------------ triangles *)
Theorem tri_child_sound W s :
  tri_child_check W = Some s ->
  convex_rows W /\
  forall x0 x1 x2 y0 y1 y2,
    tri_det_l (comb W [x0; x1; x2]) (comb W [y0; y1; y2]) == s * tri_det x0 y0 x1 y1 x2 y2.
Proof.
  unfold tri_child_check.
  destruct W as [|[|a0 [|a1 [|a2 [|]]]] [|[|b0 [|b1 [|b2 [|]]]] [|[|c0 [|c1 [|c2 [|]]]] [|]]]]; try discriminate.
  destruct (row_ok [a0; a1; a2]) eqn:Ha; [|discriminate].
  destruct (row_ok [b0; b1; b2]) eqn:Hb; [|discriminate].
  destruct (row_ok [c0; c1; c2]) eqn:Hc; [|discriminate].
  simpl. intros H. inversion H; subst s. clear H.
  apply row_ok_spec in Ha, Hb, Hc. split.
  - intros w [<-|[<-|[<-|[]]]]; assumption.
  - intros. simpl.
    destruct Ha as [Ha _], Hb as [Hb _], Hc as [Hc _]. simpl in Ha, Hb, Hc.
    rewrite <- (tri_child_det a0 a1 a2 b0 b1 b2 c0 c1 c2 x0 y0 x1 y1 x2 y2).
    + unfold tri_det, det2. ring.
    + rewrite <- Ha. ring.
    + rewrite <- Hb. ring.
    + rewrite <- Hc. ring.
Qed.

(* ------------------------------------------------------------------ tetrahedra *)
Theorem tet_child_sound W s :
  tet_child_check W = Some s ->
  convex_rows W /\
  forall x0 x1 x2 x3 y0 y1 y2 y3 z0 z1 z2 z3,
    tet_det_l (comb W [x0; x1; x2; x3]) (comb W [y0; y1; y2; y3]) (comb W [z0; z1; z2; z3])
    == s * tet_det x0 y0 z0 x1 y1 z1 x2 y2 z2 x3 y3 z3.
Proof.
  unfold tet_child_check.
  destruct W as [|[|a0 [|a1 [|a2 [|a3 [|]]]]] [|[|b0 [|b1 [|b2 [|b3 [|]]]]] [|[|c0 [|c1 [|c2 [|c3 [|]]]]]
                 [|[|d0 [|d1 [|d2 [|d3 [|]]]]] [|]]]]]; try discriminate.
  destruct (row_ok [a0; a1; a2; a3]) eqn:Ha; [|discriminate].
  destruct (row_ok [b0; b1; b2; b3]) eqn:Hb; [|discriminate].
  destruct (row_ok [c0; c1; c2; c3]) eqn:Hc; [|discriminate].
  destruct (row_ok [d0; d1; d2; d3]) eqn:Hd; [|discriminate].
  cbn [andb]. intros H. inversion H; subst s. clear H.
  apply row_ok_spec in Ha, Hb, Hc, Hd. split.
  - intros w [<-|[<-|[<-|[<-|[]]]]]; assumption.
  - intros. cbn [comb map dot tet_det_l].
    destruct Ha as [Ha _], Hb as [Hb _], Hc as [Hc _], Hd as [Hd _]. simpl in Ha, Hb, Hc, Hd.
    rewrite <- (tet_child_det a0 a1 a2 a3 b0 b1 b2 b3 c0 c1 c2 c3 d0 d1 d2 d3 x0 y0 z0 x1 y1 z1 x2 y2 z2 x3 y3 z3).
    + unfold tet_det, det3. ring.
    + rewrite <- Ha. ring.
    + rewrite <- Hb. ring.
    + rewrite <- Hc. ring.
    + rewrite <- Hd. ring.
Qed.

Lemma abs_is_spec s v : abs_is s v = true -> s == v \/ s == - v.
Proof.
  unfold abs_is. rewrite orb_true_iff. intros [H|H]; [left | right]; now apply Qeq_bool_iff.
Qed.

Theorem tri_templates_sound Wf tpls :
  tri_templates_ok Wf tpls = true ->
  forall tpl, In tpl tpls ->
    convex_rows (Wf tpl) /\
    exists s, (s == 1 # 4 \/ s == - (1 # 4)) /\
      forall x0 x1 x2 y0 y1 y2,
        tri_det_l (comb (Wf tpl) [x0; x1; x2]) (comb (Wf tpl) [y0; y1; y2]) == s * tri_det x0 y0 x1 y1 x2 y2.
Proof.
  unfold tri_templates_ok. rewrite forallb_forall. intros H tpl Hin. specialize (H tpl Hin).
  destruct (tri_child_check (Wf tpl)) as [s|] eqn:E; [|discriminate].
  destruct (tri_child_sound _ _ E) as [Hc Hd]. split; [exact Hc|].
  exists s. split; [now apply abs_is_spec | exact Hd].
Qed.

Theorem tet_templates_sound Wf tpls :
  tet_templates_ok Wf tpls = true ->
  forall tpl, In tpl tpls ->
    convex_rows (Wf tpl) /\
    exists s, (s == 1 # 8 \/ s == - (1 # 8)) /\
      forall x0 x1 x2 x3 y0 y1 y2 y3 z0 z1 z2 z3,
        tet_det_l (comb (Wf tpl) [x0; x1; x2; x3]) (comb (Wf tpl) [y0; y1; y2; y3]) (comb (Wf tpl) [z0; z1; z2; z3])
        == s * tet_det x0 y0 z0 x1 y1 z1 x2 y2 z2 x3 y3 z3.
Proof.
  unfold tet_templates_ok. rewrite forallb_forall. intros H tpl Hin. specialize (H tpl Hin).
  destruct (tet_child_check (Wf tpl)) as [s|] eqn:E; [|discriminate].
  destruct (tet_child_sound _ _ E) as [Hc Hd]. split; [exact Hc|].
  exists s. split; [now apply abs_is_spec | exact Hd].
Qed.

(* ------------------------------------------------------------------ separating functionals *)
(* a strictly positive combination of values that are all >= 0 and not all 0 is > 0 *)
Lemma dot_pos al gs :
  length al = length gs -> Forall (fun a => 0 < a) al ->
  forallb (fun g => Qle_bool 0 g) gs = true -> existsb (fun g => negb (Qle_bool g 0)) gs = true ->
  0 < dot al gs.
Proof.
  revert gs; induction al as [|a al IH]; intros [|g gs] Hl Hp Hall Hex; simpl in *; try discriminate.
  inversion Hp as [|? ? Ha Hp']; subst. apply andb_true_iff in Hall. destruct Hall as [Hg Hall].
  apply Qle_bool_iff in Hg.
  assert (Hrest : 0 <= dot al gs).
  { clear - Hp' Hall Hl. injection Hl as Hl. revert gs Hl Hall. induction al as [|b al IH]; intros [|h gs] Hl Hall; simpl in *;
      try discriminate; try lra.
    inversion Hp' as [|? ? Hb Hp'']; subst. apply andb_true_iff in Hall. destruct Hall as [Hh Hall].
    apply Qle_bool_iff in Hh. injection Hl as Hl. specialize (IH Hp'' gs Hl Hall).
    assert (0 <= b * h) by (apply Qmult_le_0_compat; lra). lra. }
  apply orb_true_iff in Hex. destruct Hex as [Hex|Hex].
  - apply negb_true_iff in Hex. assert (0 < g).
    { destruct (Qlt_le_dec 0 g) as [?|Hle]; [assumption|]. apply Qle_bool_iff in Hle. congruence. }
    assert (0 < a * g) by (apply Qmult_lt_0_compat; assumption). lra.
  - injection Hl as Hl. specialize (IH gs Hl Hp' Hall Hex).
    assert (0 <= a * g) by (apply Qmult_le_0_compat; lra). lra.
Qed.

Lemma dot_neg al gs :
  length al = length gs -> Forall (fun a => 0 < a) al ->
  forallb (fun g => Qle_bool g 0) gs = true -> existsb (fun g => negb (Qle_bool 0 g)) gs = true ->
  dot al gs < 0.
Proof.
  intros Hl Hp Hall Hex.
  assert (H : 0 < dot al (map Qopp gs)).
  { apply dot_pos; [now rewrite map_length | exact Hp | |].
    - rewrite forallb_forall in *. intros g Hg. apply in_map_iff in Hg. destruct Hg as [h [<- Hh]].
      specialize (Hall h Hh). apply Qle_bool_iff in Hall. apply Qle_bool_iff. lra.
    - rewrite existsb_exists in *. destruct Hex as [h [Hh Hn]]. exists (- h). split; [now apply in_map|].
      apply negb_true_iff in Hn. apply negb_true_iff.
      destruct (Qle_bool (- h) 0) eqn:E; [|reflexivity]. apply Qle_bool_iff in E.
      assert (Hc : Qle_bool 0 h = true) by (apply Qle_bool_iff; lra). congruence. }
  assert (E : dot al (map Qopp gs) == - dot al gs).
  { clear. revert gs. induction al as [|a al IH]; intros [|g gs]; simpl; try ring. rewrite IH. ring. }
  rewrite E in H. lra.
Qed.

(* if [separates c A B] then every strictly positive combination of A's vertices has g > 0 and every
   strictly positive combination of B's vertices has g < 0, where g = c . (barycentric coordinates):
   no point is interior to both *)
Theorem separates_sound c A B :
  separates c A B = true ->
  forall al be, length al = length A -> length be = length B ->
    Forall (fun a => 0 < a) al -> Forall (fun b => 0 < b) be ->
    0 < dot al (map (dot c) A) /\ dot be (map (dot c) B) < 0.
Proof.
  unfold separates. rewrite !andb_true_iff. intros [[[HA HB] HA'] HB'] al be Hla Hlb Hal Hbe. split.
  - apply dot_pos; [now rewrite map_length | exact Hal | |].
    + rewrite forallb_forall in *. intros g Hg. apply in_map_iff in Hg. destruct Hg as [v [<- Hv]]. now apply HA.
    + rewrite existsb_exists in *. destruct HA' as [v [Hv Hn]]. exists (dot c v). split; [now apply in_map | exact Hn].
  - apply dot_neg; [now rewrite map_length | exact Hbe | |].
    + rewrite forallb_forall in *. intros g Hg. apply in_map_iff in Hg. destruct Hg as [v [<- Hv]]. now apply HB.
    + rewrite existsb_exists in *. destruct HB' as [v [Hv Hn]]. exists (dot c v). split; [now apply in_map | exact Hn].
Qed.

(* g is linear: g of a combination of points is the combination of the values *)
Fixpoint lincomb (n : nat) (al : list Q) (A : list (list Q)) : list Q :=
  match al, A with
  | a :: al', v :: A' => padd (pscale a v) (lincomb n al' A')
  | _, _ => repeat 0 n
  end.

Lemma dot_repeat0 c n : dot c (repeat 0 n) == 0.
Proof. revert n; induction c as [|x c IH]; intros [|n]; simpl; try reflexivity. rewrite IH. ring. Qed.

Lemma dot_padd c : forall u v, length u = length v -> dot c (padd u v) == dot c u + dot c v.
Proof.
  induction c as [|x c IH]; intros [|a u] [|b v] H; simpl in *; try discriminate; try ring.
  injection H as H. rewrite (IH u v H). ring.
Qed.

Lemma dot_pscale c a v : dot c (pscale a v) == a * dot c v.
Proof.
  revert v; induction c as [|x c IH]; intros [|b v]; simpl; try ring. rewrite IH. ring.
Qed.

Lemma padd_length u v : length u = length v -> length (padd u v) = length u.
Proof. revert v; induction u as [|a u IH]; intros [|b v] H; simpl in *; try discriminate; auto. Qed.

Lemma lincomb_length n al A : Forall (fun v => length v = n) A -> length (lincomb n al A) = n.
Proof.
  revert A; induction al as [|a al IH]; intros [|v A] H; simpl; try apply repeat_length.
  inversion H as [|? ? Hv HA]; subst. rewrite padd_length.
  - unfold pscale. now rewrite map_length.
  - unfold pscale. rewrite map_length. symmetry. now apply IH.
Qed.

Theorem dot_lincomb c n al A :
  Forall (fun v => length v = n) A -> dot c (lincomb n al A) == dot al (map (dot c) A).
Proof.
  revert A; induction al as [|a al IH]; intros [|v A] H; simpl; try apply dot_repeat0.
  inversion H as [|? ? Hv HA]; subst. rewrite dot_padd.
  - rewrite dot_pscale, IH by exact HA. reflexivity.
  - unfold pscale. rewrite map_length. symmetry. now apply lincomb_length.
Qed.

(* combined: no point is a strictly positive combination of A's vertices and of B's vertices *)
Theorem separable_disjoint nv A B :
  separable nv A B = true ->
  Forall (fun v => length v = nv) A -> Forall (fun v => length v = nv) B ->
  forall al be, length al = length A -> length be = length B ->
    Forall (fun a => 0 < a) al -> Forall (fun b => 0 < b) be ->
    exists c, ~ dot c (lincomb nv al A) == dot c (lincomb nv be B).
Proof.
  unfold separable. rewrite existsb_exists. intros [c [_ Hs]] HA HB al be Hla Hlb Hal Hbe.
  exists c. destruct (separates_sound c A B Hs al be Hla Hlb Hal Hbe) as [H1 H2].
  rewrite (dot_lincomb c nv al A HA), (dot_lincomb c nv be B HB). lra.
Qed.

(* ------------------------------------------------------------------ tensor cells *)
Lemma qlist_eqb_dot a b X : qlist_eqb a b = true -> dot a X == dot b X.
Proof.
  revert b X; induction a as [|x a IH]; intros [|y b] X H; simpl in *; try discriminate; try reflexivity.
  apply andb_true_iff in H. destruct H as [H1 H2]. apply Qeq_bool_iff in H1.
  destruct X as [|z X]; [reflexivity|]. rewrite H1, (IH b X H2). reflexivity.
Qed.

(* the coordinates given to a new node (mean over its entity) are the parent's multilinear map at the
   node's reference position — for every parent geometry X (one coordinate axis at a time) *)
Theorem node_is_map_value_sound dim rp redges rfacets r :
  node_is_map_value dim rp redges rfacets r = true ->
  forall X, dot (nref_weights (length rp) redges rfacets r) X == mlmap rp X (nref_refcoord dim rp redges rfacets r).
Proof. unfold node_is_map_value, mlmap. intros H X. now apply qlist_eqb_dot. Qed.
