(* C06 — algebra of Galerkin exactness, for every ring, every basis tables, every numbering:
   projection_identity : load(interp x) = M x   (same basis, same quadrature; no exactness of quadrature needed)
   projection_on_subset: with I = dofs of the integrated cells/facets, x_I solves the condensed system M_II z = f_I
   patch_test_algebra  : if x* satisfies the free rows and carries the prescribed values, the condensed solve returns x* *)
From Coq Require Import List ZArith Bool Arith Lia Ring.
Import ListNotations.
Require Import Base.C05_Np Model.C05_BC Model.C06_Galerkin Proofs.C05_CondenseProofs.

Lemma nth_map_seq {Y} (f : nat -> Y) N r d : r < N -> nth r (map f (seq 0 N)) d = f r.
Proof.
  intros H. rewrite (nth_indep _ _ (f 0)) by now rewrite map_length, seq_length.
  rewrite map_nth, seq_nth by assumption. reflexivity.
Qed.

Section G.
  Context {R : Type} (o : ring_ops R).
  Hypothesis Rth : ring_theory (r0 o) (r1 o) (radd o) (rmul o) (rsub o) (ropp o) (@eq R).
  Add Ring Rring6 : Rth.
  Local Notation "a [+] b" := (radd o a b) (at level 50, left associativity).
  Local Notation "a [*] b" := (rmul o a b) (at level 40, left associativity).
  Local Notation zero := (r0 o).
  Local Notation lsum := (lsum o).
  (* the integrands of the two forms: anything that, on the tuple-of-fields values rebuilt from the component
     functions, is the sum over ALL components of the products (inner(u, v): u*v on scalar fields, dot on vector fields,
     summed over the fields of a composite element) *)
  Variables mk lk : list (list R) -> list (list R) -> R.
  Definition kernel_is_dot (k : list (list R) -> list (list R) -> R) : Prop :=
    forall (sh : list nat) (f g : nat -> R),
      k (unflatten sh f) (unflatten sh g) = C06_Galerkin.lsum o (fun c => f c [*] g c) (seq 0 (ncomp sh)).
  Hypothesis mk_dot : kernel_is_dot mk.
  Hypothesis lk_dot : kernel_is_dot lk.
  (* ---------------------------------------------------------------- finite sums over lists *)
  Lemma lsum_ext {A} (f g : A -> R) l : (forall a, In a l -> f a = g a) -> lsum f l = lsum g l.
  Proof. induction l as [|a l IH]; intros H; simpl; [reflexivity|]. rewrite H by now left. rewrite IH; auto. intros; apply H; now right. Qed.
  Lemma lsum_app {A} (f : A -> R) l1 l2 : lsum f (l1 ++ l2) = lsum f l1 [+] lsum f l2.
  Proof. induction l1 as [|a l1 IH]; simpl; [ring | rewrite IH; ring]. Qed.
  Lemma lsum_flat_map {A B} (f : B -> R) (g : A -> list B) l : lsum f (flat_map g l) = lsum (fun a => lsum f (g a)) l.
  Proof. induction l as [|a l IH]; simpl; [reflexivity|]. now rewrite lsum_app, IH. Qed.
  Lemma lsum_map {A B} (f : B -> R) (g : A -> B) l : lsum f (map g l) = lsum (fun a => f (g a)) l.
  Proof. induction l as [|a l IH]; simpl; [reflexivity | now rewrite IH]. Qed.
  Lemma lsum_filter {A} (f : A -> R) (p : A -> bool) l : lsum f (filter p l) = lsum (fun a => if p a then f a else zero) l.
  Proof. induction l as [|a l IH]; simpl; [reflexivity|]. destruct (p a); simpl; rewrite IH; ring. Qed.
  Lemma lsum_zero {A} (l : list A) : lsum (fun _ => zero) l = zero.
  Proof. induction l; simpl; [reflexivity | rewrite IHl; ring]. Qed.
  Lemma lsum_add {A} (f g : A -> R) l : lsum (fun a => f a [+] g a) l = lsum f l [+] lsum g l.
  Proof. induction l as [|a l IH]; simpl; [ring | rewrite IH; ring]. Qed.
  Lemma lsum_scale_r {A} (f : A -> R) c l : lsum f l [*] c = lsum (fun a => f a [*] c) l.
  Proof. induction l as [|a l IH]; simpl; [ring | rewrite <- IH; ring]. Qed.
  Lemma lsum_if {A} (b : bool) (f : A -> R) l : lsum (fun a => if b then f a else zero) l = if b then lsum f l else zero.
  Proof. destruct b; [reflexivity | apply lsum_zero]. Qed.
  Lemma lsum_exchange {A B} (F : A -> B -> R) la lb :
    lsum (fun a => lsum (fun b => F a b) lb) la = lsum (fun b => lsum (fun a => F a b) la) lb.
  Proof.
    induction la as [|a la IH]; simpl; [now rewrite lsum_zero|]. rewrite IH, <- lsum_add. reflexivity.
  Qed.

  Lemma row_dot_lsum r y : row_dot o r y = lsum (fun cv => snd cv [*] vnth o y (fst cv)) r.
  Proof. reflexivity. Qed.

  (* ---------------------------------------------------------------- element level: L_e(i) = sum_j K_e(i,j) x_g(j) *)
  Lemma local_identity (B : fe R) x e i :
    Lloc o lk B x e i = lsum (fun j => Kloc o mk B e i j [*] vnth o x (gdof B e j)) (seq 0 (nloc B)).
  Proof.
    unfold Lloc, Kloc.
    set (cs := seq 0 (ncomp (shape B))).
    transitivity (lsum (fun q => lsum (fun j =>
                    lsum (fun c => phi B e q j c [*] phi B e q i c) cs [*] dxw B e q [*] vnth o x (gdof B e j))
                                      (seq 0 (nloc B))) (seq 0 (nq B))).
    { apply lsum_ext. intros q _. rewrite lk_dot. fold cs. unfold interp.
      transitivity (lsum (fun c => lsum (fun j => phi B e q j c [*] phi B e q i c [*] vnth o x (gdof B e j)) (seq 0 (nloc B))) cs
                    [*] dxw B e q).
      { f_equal. apply lsum_ext. intros c _. rewrite lsum_scale_r. apply lsum_ext. intros j _. ring. }
      rewrite lsum_exchange, lsum_scale_r. apply lsum_ext. intros j _.
      rewrite <- lsum_scale_r. ring. }
    rewrite lsum_exchange. apply lsum_ext. intros j _. rewrite lsum_scale_r. apply lsum_ext. intros q _.
    rewrite mk_dot. reflexivity.
  Qed.

  (* ---------------------------------------------------------------- global level *)
  Definition dofs_in_range (N : nat) (B : fe R) : Prop := forall e i, e < nel B -> i < nloc B -> gdof B e i < N.

  Lemma vnth_coo_vec N coo r : r < N ->
    vnth o (coo_vec o N coo) r = lsum (fun t => if Nat.eqb (fst t) r then snd t else zero) coo.
  Proof.
    intros H. unfold vnth, coo_vec. now rewrite nth_map_seq.
  Qed.
  Lemma mrow_coo_rows N (coo : list (nat * nat * R)) r : r < N ->
    mrow (coo_rows N coo) r = map (fun t => (snd (fst t), snd t)) (filter (fun t => Nat.eqb (fst (fst t)) r) coo).
  Proof.
    intros H. unfold mrow, coo_rows. now rewrite nth_map_seq.
  Qed.

  (* f = M x, entry by entry, for every vector x *)
  Theorem projection_identity N (B : fe R) (x : list R) r :
    r < N ->
    vnth o (load_vector o lk N B x) r = vnth o (matvec o (mass_matrix o mk N B) x) r.
  Proof.
    intros Hr. rewrite vnth_matvec. unfold load_vector, mass_matrix.
    rewrite vnth_coo_vec, mrow_coo_rows by assumption. rewrite row_dot_lsum, lsum_map, lsum_filter.
    unfold load_coo, mass_coo. rewrite !lsum_flat_map.
    transitivity (lsum (fun i => lsum (fun e => if Nat.eqb (gdof B e i) r then Lloc o lk B x e i else zero)
                                      (seq 0 (nel B))) (seq 0 (nloc B))).
    { apply lsum_ext. intros i _. now rewrite lsum_map. }
    symmetry.
    transitivity (lsum (fun j => lsum (fun i => lsum (fun e =>
               if Nat.eqb (gdof B e i) r then Kloc o mk B e i j [*] vnth o x (gdof B e j) else zero)
                 (seq 0 (nel B))) (seq 0 (nloc B))) (seq 0 (nloc B))).
    { apply lsum_ext. intros j _. rewrite lsum_flat_map. apply lsum_ext. intros i _. rewrite lsum_map. reflexivity. }
    rewrite lsum_exchange. apply lsum_ext. intros i _.
    rewrite lsum_exchange. apply lsum_ext. intros e _.
    rewrite lsum_if. destruct (Nat.eqb (gdof B e i) r); [symmetry; apply local_identity | reflexivity].
  Qed.

  Lemma load_vector_length N B x : length (load_vector o lk N B x) = N.
  Proof. unfold load_vector, coo_vec. now rewrite map_length, seq_length. Qed.
  Lemma mass_matrix_length N B : length (mass_matrix o mk N B) = N.
  Proof. unfold mass_matrix, coo_rows. now rewrite map_length, seq_length. Qed.

  Corollary projection_identity_list N (B : fe R) (x : list R) :
    load_vector o lk N B x = matvec o (mass_matrix o mk N B) x.
  Proof.
    apply (nth_ext _ _ zero zero).
    - unfold matvec. now rewrite map_length, load_vector_length, mass_matrix_length.
    - rewrite load_vector_length. intros r Hr. now apply projection_identity.
  Qed.

  (* every stored column of the mass matrix is a dof of an integrated cell, every non-empty row too (locality) *)
  Lemma in_mass_coo B t :
    In t (mass_coo o mk B) -> exists e i j, e < nel B /\ i < nloc B /\ j < nloc B /\
      fst (fst t) = gdof B e i /\ snd (fst t) = gdof B e j.
  Proof.
    unfold mass_coo. intros H. apply in_flat_map in H. destruct H as (j & Hj & H).
    apply in_flat_map in H. destruct H as (i & Hi & H). apply in_map_iff in H. destruct H as (e & <- & He).
    apply in_seq in Hj, Hi, He. exists e, i, j. simpl. repeat split; lia.
  Qed.
  Lemma mass_row_entry N B r cv :
    r < N -> In cv (mrow (mass_matrix o mk N B) r) ->
    exists e i j, e < nel B /\ i < nloc B /\ j < nloc B /\ r = gdof B e i /\ fst cv = gdof B e j.
  Proof.
    intros Hr H. unfold mass_matrix in H. rewrite mrow_coo_rows in H by assumption.
    apply in_map_iff in H. destruct H as (t & <- & Ht). apply filter_In in Ht. destruct Ht as (Ht & E).
    apply Nat.eqb_eq in E. destruct (in_mass_coo B t Ht) as (e & i & j & He & Hi & Hj & E1 & E2).
    exists e, i, j. simpl. repeat split; auto; congruence.
  Qed.

  Lemma mass_rows_in_range N B : dofs_in_range N B -> rows_in_range N (mass_matrix o mk N B).
  Proof.
    intros HB r Hr cv Hcv. destruct (In_nth _ _ [] Hr) as (k & Hk & <-). rewrite mass_matrix_length in Hk.
    destruct (mass_row_entry N B k cv Hk Hcv) as (e & i & j & He & Hi & Hj & _ & ->). now apply HB.
  Qed.

  Lemma row_dot_ext_in r (y y' : list R) : (forall cv, In cv r -> vnth o y (fst cv) = vnth o y' (fst cv)) -> row_dot o r y = row_dot o r y'.
  Proof. intros H. rewrite !row_dot_lsum. apply lsum_ext. intros cv Hcv. now rewrite H. Qed.

  (* projection onto a cell subset / facet set: I = the dofs of the integrated cells (get_dofs(elements/facets)).
     With zero prescribed values, x restricted to I solves the condensed system  M_II z = f_I. *)
  Theorem projection_on_subset N (B : fe R) (x : list R) I D :
    split_ok N I D -> (forall e i, e < nel B -> i < nloc B -> In (gdof B e i) I) ->
    matvec o (condense_A (mass_matrix o mk N B) I) (vsel o x I)
    = condense_b o (mass_matrix o mk N B) (load_vector o lk N B x) (repeat zero N) I D.
  Proof.
    intros HS Hloc. pose proof HS as (NI & ND & BI & BD & P).
    set (y := map (fun c => if memb c I then vnth o x c else zero) (seq 0 N)).
    assert (Hy : forall c, c < N -> vnth o y c = if memb c I then vnth o x c else zero).
    { intros c Hc. unfold vnth at 1, y. now rewrite nth_map_seq. }
    assert (HB : dofs_in_range N B) by (intros e i He Hi; apply BI; now apply Hloc).
    replace (vsel o x I) with (vsel o y I).
    2:{ apply vsel_ext. intros c Hc. rewrite Hy by auto. apply (memb_In c I) in Hc. now rewrite Hc. }
    apply (condense_complete_core o Rth N).
    - unfold y. now rewrite map_length, seq_length.
    - now apply mass_rows_in_range.
    - exact HS.
    - intros d Hd. rewrite Hy by auto. assert (E : memb d I = false).
      { apply memb_false. intros Hd'. apply (P d (BD d Hd)) in Hd'. tauto. }
      rewrite E. unfold vnth. now rewrite nth_repeat.
    - intros i Hi. rewrite projection_identity by auto. rewrite !vnth_matvec. apply row_dot_ext_in.
      intros cv Hcv. destruct (mass_row_entry N B i cv (BI i Hi) Hcv) as (e & i' & j & He & Hi' & Hj & _ & ->).
      rewrite Hy by (now apply HB). assert (E : memb (gdof B e j) I = true) by (apply memb_In; now apply Hloc).
      now rewrite E.
  Qed.

  (* ---------------------------------------------------------------- uniqueness: "A_II nonsingular" *)
  Definition injective_on (k : nat) (M : list (list (nat * R))) : Prop :=
    forall z z' : list R, length z = k -> length z' = k -> matvec o M z = matvec o M z' -> z = z'.


  (* the patch test: x* satisfies the free rows of A x = b and carries the prescribed boundary values x_D;
     then whatever solves the condensed system (A_II nonsingular) expands to x* *)
  Theorem patch_test_algebra n (A : list (list (nat * R))) (b x xstar z : list R) I D :
    length x = n -> length xstar = n -> rows_in_range n A -> split_ok n I D ->
    (forall d, In d D -> vnth o x d = vnth o xstar d) ->
    (forall i, In i I -> vnth o (matvec o A xstar) i = vnth o b i) ->
    injective_on (length I) (condense_A A I) ->
    length z = length I -> matvec o (condense_A A I) z = condense_b o A b x I D ->
    forall c, c < n -> vnth o (expand x I z) c = vnth o xstar c.
  Proof.
    intros Hx Hs HA HS HD HI Hinj Hz Hsolve c Hc.
    assert (E : z = vsel o xstar I).
    { apply Hinj; [assumption | apply vsel_length|]. rewrite Hsolve. symmetry.
      apply (condense_complete_core o Rth n); auto. intros d Hd. symmetry. now apply HD. }
    subst z. destruct HS as (NI & ND & BI & BD & P). unfold expand.
    destruct (In_dec_nat c I) as [Hin|Hnin].
    - destruct (In_nth I c 0 Hin) as (p & Hp & <-).
      rewrite (vset_at o) by (auto using vsel_length; intros j Hj; rewrite Hx; auto). now apply vnth_vsel.
    - rewrite vset_notin by assumption. apply HD. destruct (In_dec_nat c D) as [H|H]; [assumption|].
      exfalso. apply Hnin. now apply (P c Hc).
  Qed.

  (* L2 projection of a function of the space onto a subset returns it on I and zero elsewhere *)
  Theorem project_returns_function N (B : fe R) (x z : list R) I D :
    split_ok N I D -> (forall e i, e < nel B -> i < nloc B -> In (gdof B e i) I) ->
    injective_on (length I) (condense_A (mass_matrix o mk N B) I) ->
    length z = length I ->
    matvec o (condense_A (mass_matrix o mk N B) I) z
      = condense_b o (mass_matrix o mk N B) (load_vector o lk N B x) (repeat zero N) I D ->
    forall c, c < N -> vnth o (expand (repeat zero N) I z) c = if memb c I then vnth o x c else zero.
  Proof.
    intros HS Hloc Hinj Hz Hsolve c Hc.
    assert (E : z = vsel o x I).
    { apply Hinj; [assumption | apply vsel_length|]. rewrite Hsolve. symmetry. now apply projection_on_subset. }
    subst z. destruct HS as (NI & ND & BI & BD & P). unfold expand.
    destruct (memb c I) eqn:Em.
    - apply memb_In in Em. destruct (In_nth I c 0 Em) as (p & Hp & <-).
      rewrite (vset_at o) by (auto using vsel_length; intros j Hj; rewrite repeat_length; auto). now apply vnth_vsel.
    - apply memb_false in Em. rewrite vset_notin by assumption. unfold vnth. now rewrite nth_repeat.
  Qed.

  (* the call project() makes: condense(M, f, I=I) with x = None, and its solution *)
  Theorem project_system_solved N (B : fe R) (x : list R) I D :
    split_ok N I D -> (forall e i, e < nel B -> i < nloc B -> In (gdof B e i) I) ->
    condense_call o (mass_matrix o mk N B) (Some (load_vector o lk N B x)) None (Some I) None
    = Some (condense_A (mass_matrix o mk N B) I,
            Some (condense_b o (mass_matrix o mk N B) (load_vector o lk N B x) (repeat zero N) I (complement N I)),
            repeat zero N, I) /\
    matvec o (condense_A (mass_matrix o mk N B) I) (vsel o x I)
    = condense_b o (mass_matrix o mk N B) (load_vector o lk N B x) (repeat zero N) I (complement N I).
  Proof.
    intros HS Hloc. split.
    - unfold condense_call. rewrite mass_matrix_length. reflexivity.
    - assert (HS' : split_ok N I (complement N I)).
      { apply (init_bc_split N (Some I) None I (complement N I) eq_refl).
        - intros S E. injection E as <-. split; apply HS.
        - intros S E. discriminate E. }
      now apply projection_on_subset.
  Qed.
End G.
