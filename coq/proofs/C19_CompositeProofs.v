(* C19 — proofs about the DOF tables of composite / vector elements (Model.C19_Composite), the decoding
   ElementComposite._deduce_bfun (Model.C19_Blocks) and the interpolation-splitting theorem. *)
From Coq Require Import List Arith Bool Lia Ring Ring_theory.
Import ListNotations.
Require Import Base.C01_Sums Model.C01_Assembly Proofs.C01_AssemblyProofs Model.C19_Blocks Model.C19_Composite Proofs.C19_BlocksProofs.

(* ====================================================================== list lemmas *)
Definition sumlen {A B} (f : A -> list B) (l : list A) : nat := fold_right Nat.add 0 (map (fun a => length (f a)) l).

Lemma flat_map_length_sumlen {A B} (f : A -> list B) l : length (flat_map f l) = sumlen f l.
Proof. unfold sumlen. induction l as [|a l IH]; simpl; [reflexivity|]. now rewrite app_length, IH. Qed.

Lemma nth_flat_map_offset {A B} (f : A -> list B) : forall (l : list A) k x d da,
  k < length l -> x < length (f (nth k l da)) ->
  nth (sumlen f (firstn k l) + x) (flat_map f l) d = nth x (f (nth k l da)) d.
Proof.
  induction l as [|a l IH]; intros k x d da Hk Hx; simpl in Hk; [lia|].
  destruct k as [|k]; simpl.
  - simpl in Hx. unfold sumlen. simpl. now apply app_nth1.
  - unfold sumlen. simpl. fold (sumlen f (firstn k l)).
    rewrite app_nth2 by lia. replace (length (f a) + sumlen f (firstn k l) + x - length (f a)) with (sumlen f (firstn k l) + x) by lia.
    apply IH; [lia | exact Hx].
Qed.

Lemma offset_lt_length {A B} (f : A -> list B) : forall (l : list A) k x da,
  k < length l -> x < length (f (nth k l da)) -> sumlen f (firstn k l) + x < length (flat_map f l).
Proof.
  induction l as [|a l IH]; intros k x da Hk Hx; simpl in Hk; [lia|].
  destruct k as [|k]; simpl; rewrite app_length.
  - simpl in Hx. unfold sumlen. simpl. lia.
  - unfold sumlen. simpl. fold (sumlen f (firstn k l)). specialize (IH k x da ltac:(lia) Hx). lia.
Qed.

Lemma firstn_seq k n : k <= n -> firstn k (seq 0 n) = seq 0 k.
Proof.
  intros H. replace n with (k + (n - k)) by lia. rewrite seq_app. rewrite firstn_app, seq_length, Nat.sub_diag.
  simpl. rewrite app_nil_r. rewrite firstn_all2; [reflexivity | rewrite seq_length; lia].
Qed.

Lemma fold_add_map_ext (f g : nat -> nat) l : (forall x, In x l -> f x = g x) ->
  fold_right Nat.add 0 (map f l) = fold_right Nat.add 0 (map g l).
Proof.
  induction l as [|a l IH]; intros H; simpl; [reflexivity|]. rewrite H by (now left). f_equal. apply IH.
  intros x Hx. apply H. now right.
Qed.

(* ====================================================================== the split list *)
Section Split.
  Variable tp : topo.
  Variables D dn : nat -> nat.
  Variable slot : nat -> nat -> nat.

  Definition section (K : nat) : list nat :=
    flat_map (fun g => map (fun r => dof_value tp D K (slot K r) g) (seq 0 (dn K))) (seq 0 (G tp K)).

  Lemma section_length K : length (section K) = G tp K * dn K.
  Proof.
    unfold section. rewrite (length_flat_map_const _ (dn K)), seq_length; [reflexivity|].
    intros x _. now rewrite map_length, seq_length.
  Qed.

  Lemma section_nth K g r : g < G tp K -> r < dn K ->
    nth (g * dn K + r) (section K) 0 = dof_value tp D K (slot K r) g.
  Proof.
    intros Hg Hr. unfold section.
    rewrite (nth_flat_const _ (dn K) _ g r 0 0).
    - rewrite seq_nth by lia. simpl. now rewrite nth_map_seq0.
    - intros a _. now rewrite map_length, seq_length.
    - rewrite seq_length. lia.
    - exact Hr.
  Qed.

  Lemma split_list_sections : split_list tp D dn slot = flat_map section (seq 0 4).
  Proof. reflexivity. Qed.

  Lemma sumlen_sections K : K <= 4 -> sumlen section (seq 0 K) = off tp dn K.
  Proof.
    intros _. unfold sumlen, off. apply fold_add_map_ext. intros x _. rewrite section_length. lia.
  Qed.

  (* the component's own DOF number is the position, in the split list, of the whole element's DOF number *)
  Theorem split_nth K g r : K < 4 -> g < G tp K -> r < dn K ->
    nth (dof_value tp dn K r g) (split_list tp D dn slot) 0 = dof_value tp D K (slot K r) g.
  Proof.
    intros HK Hg Hr. rewrite split_list_sections.
    assert (E : dof_value tp dn K r g = sumlen section (firstn K (seq 0 4)) + (g * dn K + r)).
    { rewrite firstn_seq by lia. rewrite sumlen_sections by lia. unfold dof_value. lia. }
    rewrite E. rewrite (nth_flat_map_offset section (seq 0 4) K (g * dn K + r) 0 0).
    - rewrite seq_nth by lia. simpl. now apply section_nth.
    - rewrite seq_length. exact HK.
    - rewrite seq_nth by lia. simpl. rewrite section_length. nia.
  Qed.

  Theorem split_list_length : length (split_list tp D dn slot) = off tp dn 4.
  Proof. rewrite split_list_sections, flat_map_length_sumlen. now apply sumlen_sections. Qed.
End Split.

(* ====================================================================== element_dofs rows *)
Section Rows.
  Variable tp : topo.
  Variable d : nat -> nat.

  Definition kind_rows (K : nat) : list (list nat) :=
    flat_map (fun row => map (fun k => map (fun g => dof_value tp d K k g) row) (seq 0 (d K))) (conn tp K).

  Lemma kind_rows_length K : length (kind_rows K) = length (conn tp K) * d K.
  Proof.
    unfold kind_rows. rewrite (length_flat_map_const _ (d K)); [reflexivity|].
    intros x _. now rewrite map_length, seq_length.
  Qed.

  Lemma kind_rows_nth K itr k : itr < length (conn tp K) -> k < d K ->
    nth (itr * d K + k) (kind_rows K) [] = map (fun g => dof_value tp d K k g) (nth itr (conn tp K) []).
  Proof.
    intros Hi Hk. unfold kind_rows.
    rewrite (nth_flat_const _ (d K) _ itr k [] []).
    - now rewrite nth_map_seq0.
    - intros a _. now rewrite map_length, seq_length.
    - exact Hi.
    - exact Hk.
  Qed.

  Theorem element_dofs_row K itr k : K < 4 -> itr < length (conn tp K) -> k < d K ->
    nth (row_index tp d K itr k) (element_dofs_of tp d) []
    = map (fun g => dof_value tp d K k g) (nth itr (conn tp K) []).
  Proof.
    intros HK Hi Hk. unfold element_dofs_of. fold kind_rows.
    assert (E : row_index tp d K itr k = sumlen kind_rows (firstn K (seq 0 4)) + (itr * d K + k)).
    { rewrite firstn_seq by lia.
      assert (B : sumlen kind_rows (seq 0 K)
                  = fold_right Nat.add 0 (map (fun K' => length (conn tp K') * d K') (seq 0 K))).
      { unfold sumlen. apply fold_add_map_ext. intros x _. now rewrite kind_rows_length. }
      rewrite B. unfold row_index. lia. }
    rewrite E. rewrite (nth_flat_map_offset kind_rows (seq 0 4) K (itr * d K + k) [] 0).
    - rewrite seq_nth by lia. simpl. now apply kind_rows_nth.
    - rewrite seq_length. exact HK.
    - rewrite seq_nth by lia. simpl. rewrite kind_rows_length. nia.
  Qed.

  Theorem element_dofs_entry K itr k e : K < 4 -> itr < length (conn tp K) -> k < d K ->
    e < length (nth itr (conn tp K) []) ->
    nth e (nth (row_index tp d K itr k) (element_dofs_of tp d) []) 0
    = dof_value tp d K k (nth e (nth itr (conn tp K) []) 0).
  Proof.
    intros HK Hi Hk He. rewrite element_dofs_row by assumption.
    rewrite (nth_indep _ 0 (dof_value tp d K k 0)) by (now rewrite map_length).
    now rewrite (map_nth (fun g => dof_value tp d K k g)).
  Qed.

  Theorem element_dofs_length : length (element_dofs_of tp d)
    = fold_right Nat.add 0 (map (fun K => length (conn tp K) * d K) (seq 0 4)).
  Proof.
    unfold element_dofs_of. fold kind_rows. rewrite flat_map_length_sumlen. unfold sumlen.
    apply fold_add_map_ext. intros x _. now rewrite kind_rows_length.
  Qed.
End Rows.

(* ====================================================================== compatibility: Dofs rows and split_indices *)
(* For a whole element with per-entity counts D and a component with counts dn occupying the slots  slot K r  (r < dn K)
   of every kind: the global DOF of the whole element in row (K, itr, slot K r) on cell e is found in the component's
   split list at the position given by the COMPONENT's own global DOF number of its row (K, itr, r) on e —
   for every topology (any numbering of vertices, edges, facets, cells), every layout. *)
Theorem split_compat (tp : topo) (D dn : nat -> nat) (slot : nat -> nat -> nat) K itr r e :
  K < 4 -> itr < length (conn tp K) -> r < dn K -> slot K r < D K ->
  e < length (nth itr (conn tp K) []) -> nth e (nth itr (conn tp K) []) 0 < G tp K ->
  nth (nth e (nth (row_index tp dn K itr r) (element_dofs_of tp dn) []) 0) (split_list tp D dn slot) 0
  = nth e (nth (row_index tp D K itr (slot K r)) (element_dofs_of tp D) []) 0.
Proof.
  intros HK Hi Hr Hs He Hg.
  rewrite (element_dofs_entry tp dn K itr r e HK Hi Hr He).
  rewrite (element_dofs_entry tp D K itr (slot K r) e HK Hi Hs He).
  now apply split_nth.
Qed.

(* ====================================================================== ElementComposite._deduce_bfun *)
Lemma firstn_flat_map_offset {A B} (f : A -> list B) : forall (l : list A) k y da,
  k < length l -> y <= length (f (nth k l da)) ->
  firstn (sumlen f (firstn k l) + y) (flat_map f l) = flat_map f (firstn k l) ++ firstn y (f (nth k l da)).
Proof.
  induction l as [|a l IH]; intros k y da Hk Hy; simpl in Hk; [lia|].
  destruct k as [|k]; simpl.
  - unfold sumlen. simpl. rewrite firstn_app. simpl in Hy.
    replace (y - length (f a)) with 0 by lia. simpl. now rewrite app_nil_r.
  - unfold sumlen. simpl. fold (sumlen f (firstn k l)).
    rewrite firstn_app. rewrite firstn_all2 by lia.
    replace (length (f a) + sumlen f (firstn k l) + y - length (f a)) with (sumlen f (firstn k l) + y) by lia.
    rewrite (IH k y da) by (try lia; exact Hy). now rewrite app_assoc.
Qed.

Lemma count_occ_flat_map {A B} (dec : forall x y : B, {x = y} + {x <> y}) (f : A -> list B) l x :
  count_occ dec (flat_map f l) x = fold_right Nat.add 0 (map (fun a => count_occ dec (f a) x) l).
Proof. induction l as [|a l IH]; simpl; [reflexivity|]. now rewrite count_occ_app, IH. Qed.

Lemma count_occ_repeat_same n k : count_occ Nat.eq_dec (repeat n k) n = k.
Proof. induction k as [|k IH]; simpl; [reflexivity|]. destruct (Nat.eq_dec n n); [now rewrite IH | contradiction]. Qed.

Lemma count_occ_repeat_other n j k : j <> n -> count_occ Nat.eq_dec (repeat j k) n = 0.
Proof. intros H. induction k as [|k IH]; simpl; [reflexivity|]. destruct (Nat.eq_dec j n); [contradiction | exact IH]. Qed.

Lemma nth_repeat' {A} (x d : A) k r : r < k -> nth r (repeat x k) d = x.
Proof. revert r. induction k as [|k IH]; intros r H; [lia|]. destruct r; simpl; [reflexivity | apply IH; lia]. Qed.

Lemma firstn_repeat {A} (x : A) k r : r <= k -> firstn r (repeat x k) = repeat x r.
Proof. revert r. induction k as [|k IH]; intros r H; destruct r; simpl; try reflexivity; try lia. f_equal. apply IH. lia. Qed.

Lemma repeat_list_flat_map {A} (l : list A) m : repeat_list l m = flat_map (fun _ => l) (seq 0 m).
Proof.
  assert (Gn : forall s, flat_map (fun _ : nat => l) (seq s m) = repeat_list l m).
  { induction m as [|m IH]; intros s; simpl; [reflexivity|]. now rewrite IH. }
  symmetry. apply Gn.
Qed.

Lemma map_nth_seq {A B} (g : A -> B) (ls : list A) da n : n <= length ls ->
  map (fun j => g (nth j ls da)) (seq 0 n) = map g (firstn n ls).
Proof.
  revert ls. induction n as [|n IH]; intros ls H; [reflexivity|].
  destruct ls as [|a ls]; simpl in H; [lia|]. simpl. f_equal.
  rewrite <- seq_shift, map_map. apply IH. lia.
Qed.

Lemma sum_const c : forall k s, fold_right Nat.add 0 (map (fun _ : nat => c) (seq s k)) = k * c.
Proof. induction k as [|k IH]; intros s; simpl; [reflexivity|]. now rewrite IH. Qed.

Lemma flat_map_ext_in_seq4 {B} (f g : nat -> list B) :
  (forall K, K < 4 -> f K = g K) -> flat_map f (seq 0 4) = flat_map g (seq 0 4).
Proof. intros H. simpl. now rewrite !H by lia. Qed.

Section Deduce.
  Variable ref : layout.          (* (nnodes, nedges, nfacets, 1) of the reference cell *)
  Variable ls : list layout.      (* the component layouts *)
  Notation M := (length ls).
  Notation m := (kcount ref).
  Notation Dk := (D_of ls).

  Definition pat (K : nat) : list nat := comp_pattern ls K.
  Definition sec (K : nat) : list nat := repeat_list (pat K) (m K).

  Lemma sum_lay_firstn n K : n <= M ->
    fold_right Nat.add 0 (map (fun j => kcount (nth j ls []) K) (seq 0 n)) = o_of ls n K.
  Proof. intros H. unfold o_of, D_of. now rewrite (map_nth_seq (fun l => kcount l K) ls [] n H). Qed.

  Lemma pat_length K : length (pat K) = Dk K.
  Proof.
    unfold pat, comp_pattern. rewrite flat_map_length_sumlen. unfold sumlen.
    rewrite (fold_add_map_ext _ (fun j => kcount (nth j ls []) K)) by (intros; apply repeat_length).
    rewrite (sum_lay_firstn M K (le_n _)). unfold o_of. now rewrite firstn_all.
  Qed.

  Lemma pat_sumlen n K : n <= M ->
    sumlen (fun j => repeat j (kcount (nth j ls []) K)) (seq 0 n) = o_of ls n K.
  Proof.
    intros H. unfold sumlen.
    rewrite (fold_add_map_ext _ (fun j => kcount (nth j ls []) K)) by (intros; apply repeat_length).
    now apply sum_lay_firstn.
  Qed.

  Lemma pat_nth n K r : n < M -> r < lay ls n K -> nth (o_of ls n K + r) (pat K) 0 = n.
  Proof.
    intros Hn Hr. unfold pat, comp_pattern.
    rewrite <- (pat_sumlen n K) by lia. rewrite <- (firstn_seq n M) by lia.
    rewrite (nth_flat_map_offset _ (seq 0 M) n r 0 0).
    - rewrite seq_nth by lia. simpl. now apply nth_repeat'.
    - rewrite seq_length. exact Hn.
    - rewrite seq_nth by lia. simpl. now rewrite repeat_length.
  Qed.

  Lemma pat_count n K : n < M -> count_occ Nat.eq_dec (pat K) n = lay ls n K.
  Proof.
    intros Hn. unfold pat, comp_pattern. rewrite count_occ_flat_map.
    (* only the block of component n contributes *)
    replace M with (n + S (M - S n)) by lia. rewrite seq_app, map_app. simpl seq. simpl map.
    assert (Z1 : forall s l, (forall j, In j l -> j <> n) ->
                 fold_right Nat.add s (map (fun a => count_occ Nat.eq_dec (repeat a (kcount (nth a ls []) K)) n) l) = s).
    { intros s l Hl. induction l as [|a l IH]; simpl; [reflexivity|].
      rewrite count_occ_repeat_other by (apply Hl; now left). apply IH. intros j Hj. apply Hl. now right. }
    rewrite fold_right_app. simpl fold_right. rewrite count_occ_repeat_same.
    rewrite (Z1 0). 2:{ intros j Hj. apply in_seq in Hj. lia. }
    rewrite Z1. 2:{ intros j Hj. apply in_seq in Hj. lia. }
    unfold lay. lia.
  Qed.

  Lemma pat_count_prefix n K r : n < M -> r <= lay ls n K ->
    count_occ Nat.eq_dec (firstn (o_of ls n K + r) (pat K)) n = r.
  Proof.
    intros Hn Hr. unfold pat, comp_pattern.
    rewrite <- (pat_sumlen n K) by lia. rewrite <- (firstn_seq n M) by lia.
    rewrite (firstn_flat_map_offset _ (seq 0 M) n r 0).
    - rewrite count_occ_app, count_occ_flat_map. rewrite seq_nth by lia. simpl.
      rewrite firstn_repeat by exact Hr. rewrite count_occ_repeat_same.
      rewrite firstn_seq by lia.
      assert (Z : fold_right Nat.add 0 (map (fun a => count_occ Nat.eq_dec (repeat a (kcount (nth a ls []) K)) n) (seq 0 n)) = 0).
      { assert (Gn : forall l, (forall j, In j l -> j <> n) ->
                  fold_right Nat.add 0 (map (fun a => count_occ Nat.eq_dec (repeat a (kcount (nth a ls []) K)) n) l) = 0).
        { induction l as [|a l IH]; intros Hl; simpl; [reflexivity|].
          rewrite count_occ_repeat_other by (apply Hl; now left). apply IH. intros j Hj. apply Hl. now right. }
        apply Gn. intros j Hj. apply in_seq in Hj. lia. }
      rewrite Z. reflexivity.
    - rewrite seq_length. exact Hn.
    - rewrite seq_nth by lia. simpl. now rewrite repeat_length.
  Qed.

  Lemma sec_length K : length (sec K) = m K * Dk K.
  Proof.
    unfold sec. rewrite repeat_list_flat_map. rewrite (length_flat_map_const _ (Dk K)), seq_length; [reflexivity|].
    intros x _. apply pat_length.
  Qed.

  Lemma sec_nth K itr x : itr < m K -> x < Dk K -> nth (itr * Dk K + x) (sec K) 0 = nth x (pat K) 0.
  Proof.
    intros Hi Hx. unfold sec. rewrite repeat_list_flat_map.
    rewrite (nth_flat_const _ (Dk K) _ itr x 0 0); [reflexivity | | rewrite seq_length; exact Hi | exact Hx].
    intros a _. apply pat_length.
  Qed.

  Lemma sec_count K n : n < M -> count_occ Nat.eq_dec (sec K) n = m K * lay ls n K.
  Proof.
    intros Hn. unfold sec. rewrite repeat_list_flat_map, count_occ_flat_map.
    rewrite (fold_add_map_ext _ (fun _ => lay ls n K)) by (intros; now apply pat_count).
    apply sum_const.
  Qed.

  Lemma sec_count_prefix K n itr x : n < M -> itr < m K -> x <= Dk K ->
    count_occ Nat.eq_dec (firstn (itr * Dk K + x) (sec K)) n
    = itr * lay ls n K + count_occ Nat.eq_dec (firstn x (pat K)) n.
  Proof.
    intros Hn Hi Hx. unfold sec. rewrite repeat_list_flat_map.
    assert (E : itr * Dk K = sumlen (fun _ : nat => pat K) (firstn itr (seq 0 (m K)))).
    { rewrite firstn_seq by lia. unfold sumlen.
      rewrite (fold_add_map_ext _ (fun _ => Dk K)) by (intros; apply pat_length).
      now rewrite sum_const. }
    rewrite E. rewrite (firstn_flat_map_offset _ (seq 0 (m K)) itr x 0).
    - rewrite count_occ_app, count_occ_flat_map. rewrite firstn_seq by lia.
      rewrite (fold_add_map_ext _ (fun _ => lay ls n K)) by (intros; now apply pat_count).
      now rewrite sum_const.
    - rewrite seq_length. exact Hi.
    - now rewrite pat_length.
  Qed.

  (* the list ns of the code is the concatenation of the four sections *)
  Lemma total_counts_nth K : K < 4 -> nth K (total_counts ref ls) 0 = Dk K * m K.
  Proof.
    intros HK. unfold total_counts. rewrite nth_map_seq0 by exact HK. unfold D_of.
    induction ls as [|l l' IH]; simpl; [reflexivity|]. rewrite IH. lia.
  Qed.

  Lemma repeat_list_nil {A} k : repeat_list (@nil A) k = [].
  Proof. induction k; simpl; auto. Qed.

  Lemma deduce_ns_sections : deduce_ns ref ls = flat_map sec (seq 0 4).
  Proof.
    unfold deduce_ns. apply flat_map_ext_in_seq4. intros K HK. cbv zeta.
    rewrite total_counts_nth by exact HK. fold (pat K). rewrite pat_length. unfold sec.
    destruct (Nat.ltb_spec 0 (Dk K * m K)) as [Hpos|Hz].
    - f_equal. rewrite Nat.mul_comm. apply Nat.div_mul. nia.
    - assert (Dk K = 0 \/ m K = 0) as [Z|Z] by nia.
      + assert (P : pat K = []) by (apply length_zero_iff_nil; now rewrite pat_length). rewrite P. now rewrite repeat_list_nil.
      + now rewrite Z.
  Qed.
End Deduce.

Lemma running_index_nth : forall ns seen p, p < length ns ->
  nth p (running_index_from seen ns) 0
  = count_occ Nat.eq_dec seen (nth p ns 0) + count_occ Nat.eq_dec (firstn p ns) (nth p ns 0).
Proof.
  induction ns as [|a ns IH]; intros seen p Hp; simpl in Hp; [lia|].
  destruct p as [|p]; simpl.
  - lia.
  - rewrite IH by lia. simpl. destruct (Nat.eq_dec a (nth p ns 0)); lia.
Qed.

Lemma D_of_firstn_S (ls : list layout) K : forall n, n < length ls ->
  D_of (firstn (S n) ls) K = D_of (firstn n ls) K + kcount (nth n ls []) K.
Proof.
  induction ls as [|l ls IH]; intros n Hn; simpl in Hn; [lia|].
  destruct n as [|n].
  - unfold D_of. simpl. lia.
  - specialize (IH n ltac:(lia)). unfold D_of in *. simpl firstn. simpl map. simpl fold_right. simpl nth.
    simpl firstn in IH. lia.
Qed.

Lemma D_of_firstn_le (ls : list layout) K : forall n, D_of (firstn n ls) K <= D_of ls K.
Proof.
  induction ls as [|l ls IH]; intros n; [destruct n; unfold D_of; simpl; lia|].
  destruct n as [|n]; unfold D_of in *; simpl; [lia|]. specialize (IH n). lia.
Qed.

Section DeduceSpec.
  Variable ref : layout.
  Variable ls : list layout.
  Notation M := (length ls).
  Notation m := (kcount ref).
  Notation Dk := (D_of ls).

  Lemma slot_bound n K r : n < M -> r < lay ls n K -> o_of ls n K + r < Dk K.
  Proof.
    intros Hn Hr. unfold o_of, lay in *. pose proof (D_of_firstn_S ls K n Hn). pose proof (D_of_firstn_le ls K (S n)). lia.
  Qed.

  Lemma base_sections K : K <= 4 -> sumlen (sec ref ls) (seq 0 K) = base_of ref Dk K.
  Proof.
    intros _. unfold sumlen, base_of. apply fold_add_map_ext. intros x _. now rewrite sec_length.
  Qed.

  (* _deduce_bfun: local basis function number of the composite element  <->  (component, its local number) *)
  Theorem deduce_bfun_spec n K itr r : n < M -> K < 4 -> itr < m K -> r < lay ls n K ->
    deduce_bfun ref ls (whole_index ref ls n K itr r) = (n, comp_index ref ls n K itr r).
  Proof.
    intros Hn HK Hi Hr. unfold deduce_bfun. rewrite deduce_ns_sections.
    pose proof (slot_bound n K r Hn Hr) as Hs.
    set (x := itr * Dk K + (o_of ls n K + r)).
    assert (Hx : x < length (sec ref ls K)) by (rewrite sec_length; unfold x; nia).
    assert (Ep : whole_index ref ls n K itr r = sumlen (sec ref ls) (firstn K (seq 0 4)) + x).
    { rewrite firstn_seq by lia. rewrite base_sections by lia. unfold whole_index, x. lia. }
    assert (Hns : nth (whole_index ref ls n K itr r) (flat_map (sec ref ls) (seq 0 4)) 0 = n).
    { rewrite Ep. rewrite (nth_flat_map_offset (sec ref ls) (seq 0 4) K x 0 0).
      - rewrite seq_nth by lia. simpl. unfold x. rewrite sec_nth by assumption. now apply pat_nth.
      - rewrite seq_length. exact HK.
      - rewrite seq_nth by lia. exact Hx. }
    f_equal; [exact Hns|].
    unfold deduce_inds. rewrite running_index_nth.
    2:{ rewrite Ep. apply (offset_lt_length (sec ref ls) (seq 0 4) K x 0).
        - rewrite seq_length. exact HK.
        - rewrite seq_nth by lia. exact Hx. }
    rewrite Hns. simpl count_occ at 1. rewrite Ep.
    rewrite (firstn_flat_map_offset (sec ref ls) (seq 0 4) K x 0) by (try (rewrite seq_length; exact HK); rewrite seq_nth by lia; simpl; lia).
    rewrite count_occ_app, count_occ_flat_map. rewrite firstn_seq by lia. rewrite seq_nth by lia. simpl Nat.add at 1.
    rewrite (fold_add_map_ext _ (fun K' => kcount ref K' * kcount (nth n ls []) K'))
      by (intros K' _; rewrite sec_count by exact Hn; reflexivity).
    unfold x. rewrite sec_count_prefix by (try assumption; lia).
    rewrite pat_count_prefix by (try assumption; lia).
    unfold comp_index, base_of, lay. lia.
  Qed.

  (* the decoding is injective: distinct (component, kind, entity, slot) give distinct local numbers *)
  Lemma whole_index_bound n K itr r : n < M -> K < 4 -> itr < m K -> r < lay ls n K ->
    whole_index ref ls n K itr r < base_of ref Dk 4.
  Proof.
    intros Hn HK Hi Hr. pose proof (slot_bound n K r Hn Hr).
    unfold whole_index. assert (E : base_of ref Dk 4 = base_of ref Dk K + fold_right Nat.add 0 (map (fun K' => kcount ref K' * Dk K') (seq K (4 - K)))).
    { unfold base_of. replace (seq 0 4) with (seq 0 K ++ seq K (4 - K)) by (rewrite <- seq_app; f_equal; lia).
      rewrite map_app, fold_right_app.
      assert (Gm : forall l s, fold_right Nat.add s l = fold_right Nat.add 0 l + s).
      { induction l as [|a l IHl]; intros s; simpl; [lia|]. rewrite IHl. lia. }
      rewrite Gm. lia. }
    rewrite E. destruct (4 - K) as [|k4] eqn:E4; [lia|]. simpl. nia.
  Qed.
End DeduceSpec.

(* ====================================================================== sums over blocks of variable length *)
Definition psum (len : nat -> nat) (n : nat) : nat := fold_right Nat.add 0 (map len (seq 0 n)).

Lemma psum_S len n : psum len (S n) = psum len n + len n.
Proof.
  unfold psum. rewrite seq_S, map_app, fold_right_app. simpl.
  assert (Gm : forall l s, fold_right Nat.add s l = fold_right Nat.add 0 l + s).
  { induction l as [|a l IHl]; intros s; simpl; [lia|]. rewrite IHl. lia. }
  rewrite Gm. lia.
Qed.

Lemma psum_ext len len' n : (forall j, j < n -> len j = len' j) -> psum len n = psum len' n.
Proof. intros H. unfold psum. apply fold_add_map_ext. intros x Hx. apply in_seq in Hx. apply H. lia. Qed.

Section BlockSums.
  Variable R : Type.
  Variables (rO rI : R) (radd rmul rsub : R -> R -> R) (ropp : R -> R).
  Variable Rth : ring_theory rO rI radd rmul rsub ropp (@eq R).
  Add Ring RingC19Comp : Rth.
  Notation Sn := (sumn rO radd).

  Lemma sumn_blocks (len : nat -> nat) (f : nat -> R) : forall M,
    Sn (psum len M) f = Sn M (fun j => Sn (len j) (fun x => f (psum len j + x))).
  Proof.
    induction M as [|M IH]; [reflexivity|].
    rewrite psum_S, (sumn_split R rO rI radd rmul rsub ropp Rth), IH.
    now rewrite (sumn_S R rO rI radd rmul rsub ropp Rth M).
  Qed.

  (* a local basis-function index of an element with layout d, as (kind, local entity, slot) *)
  Lemma sumn_layout (ref : layout) (d : nat -> nat) (f : nat -> R) :
    Sn (base_of ref d 4) f
    = Sn 4 (fun K => Sn (kcount ref K) (fun itr => Sn (d K) (fun k => f (base_of ref d K + itr * d K + k)))).
  Proof.
    assert (E : forall K, base_of ref d K = psum (fun K' => kcount ref K' * d K') K) by reflexivity.
    rewrite E, sumn_blocks. apply sumn_ext. intros K HK.
    rewrite (sumn_prod R rO rI radd rmul rsub ropp Rth). apply sumn_ext. intros itr Hi. apply sumn_ext. intros k Hk.
    rewrite <- E. f_equal. lia.
  Qed.

  (* the slots of kind K of a composite element, component by component *)
  Lemma sumn_slots (ls : list layout) K (f : nat -> R) :
    Sn (D_of ls K) f = Sn (length ls) (fun n => Sn (lay ls n K) (fun r => f (o_of ls n K + r))).
  Proof.
    assert (E : forall n, n <= length ls -> o_of ls n K = psum (fun j => lay ls j K) n).
    { intros n Hn. unfold psum, lay. now rewrite sum_lay_firstn. }
    assert (ED : D_of ls K = psum (fun j => lay ls j K) (length ls)).
    { rewrite <- E by lia. unfold o_of. now rewrite firstn_all. }
    rewrite ED, sumn_blocks. apply sumn_ext. intros n Hn. apply sumn_ext. intros r Hr. now rewrite E by lia.
  Qed.

  (* selecting one component *)
  Lemma sumn_select M n (F : nat -> R) : n < M -> Sn M (fun n' => if Nat.eqb n n' then F n' else rO) = F n.
  Proof. intros H. now apply (sumn_delta R rO rI radd rmul rsub ropp Rth). Qed.
End BlockSums.

Lemma row_index_base tp ref (Href : forall K, K < 4 -> kcount ref K = length (conn tp K)) d K itr k :
  K <= 4 -> row_index tp d K itr k = base_of ref d K + itr * d K + k.
Proof.
  intros HK. unfold row_index, base_of. f_equal. f_equal. apply fold_add_map_ext.
  intros x Hx. apply in_seq in Hx. rewrite Href by (destruct Hx; lia). reflexivity.
Qed.

(* ====================================================================== interpolation splits into components *)
Section InterpSplit.
  Variable R : Type.
  Variables (rO rI : R) (radd rmul rsub : R -> R -> R) (ropp : R -> R).
  Variable Rth : ring_theory rO rI radd rmul rsub ropp (@eq R).
  Add Ring RingC19Interp : Rth.
  Notation Sn := (sumn rO radd).
  Variables V VC : Type.                         (* point values of one component / of the tuple of all components *)
  Variables (vadd : V -> V -> V) (vscale : R -> V -> V) (vaddC : VC -> VC -> VC) (vscaleC : R -> VC -> VC).
  Variable inj : nat -> V -> VC.                 (* (0, ..., 0, x, 0, ..., 0) with x in slot n *)

  Variable tp : topo.
  Variable ref : layout.
  Variable ls : list layout.
  Hypothesis Href : forall K, K < 4 -> kcount ref K = length (conn tp K).
  Hypothesis Hconn : forall K itr e, K < 4 -> itr < length (conn tp K) -> e < ncells tp ->
    e < length (nth itr (conn tp K) []) /\ nth e (nth itr (conn tp K) []) 0 < G tp K.

  Variable C : basis R VC.                       (* the basis of the composite element *)
  Variable b : nat -> basis R V.                 (* the bases of the components (split_bases) *)
  Hypothesis HC : bedofs C = element_dofs_of tp (D_of ls) /\ bNbfun C = base_of ref (D_of ls) 4.
  Hypothesis Hb : forall n, n < length ls ->
    bedofs (b n) = element_dofs_of tp (lay ls n) /\ bNbfun (b n) = base_of ref (lay ls n) 4.
  (* ElementComposite.gbasis: basis function i is basis function ind of component n in slot n, zero elsewhere *)
  Hypothesis HB : forall i e q, i < bNbfun C ->
    bB C i e q = inj (fst (deduce_bfun ref ls i)) (bB (b (fst (deduce_bfun ref ls i))) (snd (deduce_bfun ref ls i)) e q).

  Theorem composite_interp_split (n : nat) (g : VC -> R) (h : V -> R) (w : nat -> R) e q :
    n < length ls -> e < ncells tp ->
    (forall x y, g (vaddC x y) = radd (g x) (g y)) -> (forall s x, g (vscaleC s x) = rmul s (g x)) ->
    (forall x y, h (vadd x y) = radd (h x) (h y)) -> (forall s x, h (vscale s x) = rmul s (h x)) ->
    (forall n' x, g (inj n' x) = if Nat.eqb n n' then h x else rO) ->
    g (interp R rO VC vaddC vscaleC C w e q)
    = h (interp R rO V vadd vscale (b n) (fun k => w (nth k (composite_split tp ls n) 0)) e q).
  Proof.
    intros Hn He Hga Hgs Hha Hhs Hg.
    destruct HC as [HCe HCn]. destruct (Hb n Hn) as [Hbe Hbn].
    rewrite (interp_linear R rO rI radd rmul rsub ropp Rth VC vaddC vscaleC g C w e q Hga Hgs).
    rewrite (interp_linear R rO rI radd rmul rsub ropp Rth V vadd vscale h (b n) _ e q Hha Hhs).
    rewrite HCn, Hbn. rewrite !(sumn_layout R rO rI radd rmul rsub ropp Rth).
    apply sumn_ext. intros K HK. apply sumn_ext. intros itr Hi.
    rewrite (sumn_slots R rO rI radd rmul rsub ropp Rth ls K).
    rewrite <- (sumn_select R rO rI radd rmul rsub ropp Rth (length ls) n
                  (fun n' => Sn (lay ls n' K) (fun r =>
                     rmul (w (nth (nth e (element_dofs (b n') (base_of ref (lay ls n') K + itr * lay ls n' K + r)) 0)
                                  (composite_split tp ls n') 0))
                          (h (bB (b n') (base_of ref (lay ls n') K + itr * lay ls n' K + r) e q)))) Hn).
    apply sumn_ext. intros n' Hn'.
    assert (Hidx : forall r, r < lay ls n' K ->
              deduce_bfun ref ls (base_of ref (D_of ls) K + itr * D_of ls K + (o_of ls n' K + r))
              = (n', base_of ref (lay ls n') K + itr * lay ls n' K + r)).
    { intros r Hr. exact (deduce_bfun_spec ref ls n' K itr r Hn' HK Hi Hr). }
    destruct (Nat.eqb_spec n n') as [<-|Hne].
    - apply sumn_ext. intros r Hr.
      assert (Hlt : base_of ref (D_of ls) K + itr * D_of ls K + (o_of ls n K + r) < bNbfun C).
      { rewrite HCn. exact (whole_index_bound ref ls n K itr r Hn HK Hi Hr). }
      rewrite (HB _ e q Hlt), (Hidx r Hr). cbn [fst snd]. rewrite Hg, Nat.eqb_refl. f_equal. f_equal.
      (* the DOF numbers *)
      unfold element_dofs. rewrite HCe, Hbe.
      rewrite Href in Hi by exact HK.
      destruct (Hconn K itr e HK Hi He) as [He' Hg'].
      pose proof (slot_bound ls n K r Hn Hr) as Hs.
      rewrite <- (row_index_base tp ref Href (D_of ls) K itr (o_of ls n K + r)) by lia.
      rewrite <- (row_index_base tp ref Href (lay ls n) K itr r) by lia.
      symmetry. exact (split_compat tp (D_of ls) (lay ls n) (composite_slot ls n) K itr r e HK Hi Hr Hs He' Hg').
    - rewrite (sumn_ext R rO radd _ _ (fun _ => rO)); [apply (sumn_zero R rO rI radd rmul rsub ropp Rth)|].
      intros r Hr.
      assert (Hlt : base_of ref (D_of ls) K + itr * D_of ls K + (o_of ls n' K + r) < bNbfun C).
      { rewrite HCn. exact (whole_index_bound ref ls n' K itr r Hn' HK Hi Hr). }
      rewrite (HB _ e q Hlt), (Hidx r Hr). cbn [fst snd]. rewrite Hg.
      destruct (Nat.eqb_spec n n'); [contradiction | ring].
  Qed.
End InterpSplit.

(* ====================================================================== the same for ElementVector *)
Lemma base_of_scale ref (d : nat -> nat) dim K : base_of ref (fun K' => dim * d K') K = dim * base_of ref d K.
Proof.
  unfold base_of. induction (seq 0 K) as [|a l IH]; simpl; [lia|]. rewrite IH. lia.
Qed.

Section VectorSplit.
  Variable R : Type.
  Variables (rO rI : R) (radd rmul rsub : R -> R -> R) (ropp : R -> R).
  Variable Rth : ring_theory rO rI radd rmul rsub ropp (@eq R).
  Add Ring RingC19Vec : Rth.
  Notation Sn := (sumn rO radd).
  Variables V VC : Type.
  Variables (vadd : V -> V -> V) (vscale : R -> V -> V) (vaddC : VC -> VC -> VC) (vscaleC : R -> VC -> VC).
  Variable inj : nat -> V -> VC.                 (* the vector (0, ..., x, ..., 0) with x in component n *)
  Variable tp : topo.
  Variable ref : layout.
  Variable d : nat -> nat.                       (* layout of the scalar element *)
  Variable dim : nat.
  Hypothesis Hdim : 0 < dim.
  Hypothesis Href : forall K, K < 4 -> kcount ref K = length (conn tp K).
  Hypothesis Hconn : forall K itr e, K < 4 -> itr < length (conn tp K) -> e < ncells tp ->
    e < length (nth itr (conn tp K) []) /\ nth e (nth itr (conn tp K) []) 0 < G tp K.
  Variable Vb : basis R VC.                      (* basis of ElementVector(elem, dim) *)
  Variable sb : basis R V.                       (* basis of elem *)
  Hypothesis HV : bedofs Vb = element_dofs_of tp (fun K => dim * d K) /\ bNbfun Vb = base_of ref d 4 * dim.
  Hypothesis Hs : bedofs sb = element_dofs_of tp d /\ bNbfun sb = base_of ref d 4.
  (* ElementVector.gbasis: basis function i is scalar basis function ind = i // dim in component n = i % dim *)
  Hypothesis HB : forall i e q, i < bNbfun Vb ->
    bB Vb i e q = inj (snd (vector_decode dim i)) (bB sb (fst (vector_decode dim i)) e q).

  Theorem vector_interp_split (n : nat) (g : VC -> R) (h : V -> R) (w : nat -> R) e q :
    n < dim -> e < ncells tp ->
    (forall x y, g (vaddC x y) = radd (g x) (g y)) -> (forall s x, g (vscaleC s x) = rmul s (g x)) ->
    (forall x y, h (vadd x y) = radd (h x) (h y)) -> (forall s x, h (vscale s x) = rmul s (h x)) ->
    (forall n' x, g (inj n' x) = if Nat.eqb n n' then h x else rO) ->
    g (interp R rO VC vaddC vscaleC Vb w e q)
    = h (interp R rO V vadd vscale sb (fun k => w (nth k (vector_split tp d dim n) 0)) e q).
  Proof.
    intros Hn He Hga Hgs Hha Hhs Hg. destruct HV as [HVe HVn]. destruct Hs as [Hse Hsn].
    rewrite (interp_linear R rO rI radd rmul rsub ropp Rth VC vaddC vscaleC g Vb w e q Hga Hgs).
    rewrite (interp_linear R rO rI radd rmul rsub ropp Rth V vadd vscale h sb _ e q Hha Hhs).
    rewrite HVn, Hsn. rewrite (sumn_prod R rO rI radd rmul rsub ropp Rth).
    rewrite !(sumn_layout R rO rI radd rmul rsub ropp Rth).
    apply sumn_ext. intros K HK. apply sumn_ext. intros itr Hi. apply sumn_ext. intros r Hr.
    set (ind := base_of ref d K + itr * d K + r).
    rewrite <- (sumn_select R rO rI radd rmul rsub ropp Rth dim n
                  (fun n' => rmul (w (nth (nth e (element_dofs sb ind) 0) (vector_split tp d dim n') 0)) (h (bB sb ind e q))) Hn).
    apply sumn_ext. intros n' Hn'.
    assert (Hlt : ind * dim + n' < bNbfun Vb).
    { rewrite HVn. assert (ind < base_of ref d 4).
      { assert (E4 : base_of ref d 4 = base_of ref d K + fold_right Nat.add 0 (map (fun K' => kcount ref K' * d K') (seq K (4 - K)))).
        { unfold base_of. replace (seq 0 4) with (seq 0 K ++ seq K (4 - K)) by (rewrite <- seq_app; f_equal; lia).
          rewrite map_app, fold_right_app.
          assert (Gm : forall l s, fold_right Nat.add s l = fold_right Nat.add 0 l + s).
          { induction l as [|a l IHl]; intros s; simpl; [lia|]. rewrite IHl. lia. }
          rewrite Gm. lia. }
        rewrite E4. destruct (4 - K) as [|k4] eqn:E; [lia|]. simpl. unfold ind. nia. }
      nia. }
    rewrite (HB _ e q Hlt).
    change (ind * dim + n') with (vector_encode dim (ind, n')). rewrite vector_encode_decode by exact Hn'. cbn [fst snd].
    rewrite Hg. destruct (Nat.eqb_spec n n') as [<-|Hne]; [|ring].
    f_equal. f_equal. unfold element_dofs. rewrite HVe, Hse.
    rewrite Href in Hi by exact HK. destruct (Hconn K itr e HK Hi He) as [He' Hg'].
    assert (Hslot : vector_slot dim n K r < dim * d K) by (unfold vector_slot; nia).
    assert (Ei : vector_encode dim (ind, n) = row_index tp (fun K' => dim * d K') K itr (vector_slot dim n K r)).
    { unfold row_index, vector_encode, vector_slot, ind. cbn [fst snd].
      assert (Eb : fold_right Nat.add 0 (map (fun K' => length (conn tp K') * (dim * d K')) (seq 0 K)) = dim * base_of ref d K).
      { rewrite <- base_of_scale. unfold base_of. apply fold_add_map_ext. intros x Hx. apply in_seq in Hx.
        rewrite Href by lia. reflexivity. }
      rewrite Eb. nia. }
    assert (Es : ind = row_index tp d K itr r).
    { unfold row_index, ind. f_equal. f_equal. unfold base_of. apply fold_add_map_ext. intros x Hx. apply in_seq in Hx.
      rewrite Href by lia. reflexivity. }
    rewrite Ei, Es. symmetry.
    exact (split_compat tp (fun K' => dim * d K') d (vector_slot dim n) K itr r e HK Hi Hr Hslot He' Hg').
  Qed.
End VectorSplit.

(* ====================================================================== the whole interpolant as the sum of its components,
   and block assembly as a corollary of C01 *)
Lemma dof_value_bound tp (d : nat -> nat) K k g : K < 4 -> k < d K -> g < G tp K -> dof_value tp d K k g < off tp d 4.
Proof.
  intros HK Hk Hg. unfold dof_value.
  assert (E : off tp d 4 = off tp d K + fold_right Nat.add 0 (map (fun K' => d K' * G tp K') (seq K (4 - K)))).
  { unfold off. replace (seq 0 4) with (seq 0 K ++ seq K (4 - K)) by (rewrite <- seq_app; f_equal; lia).
    rewrite map_app, fold_right_app.
    assert (Gm : forall l s, fold_right Nat.add s l = fold_right Nat.add 0 l + s).
    { induction l as [|a l IHl]; intros s; simpl; [lia|]. rewrite IHl. lia. }
    rewrite Gm. lia. }
  rewrite E. destruct (4 - K) as [|k4] eqn:E4; [lia|]. simpl. nia.
Qed.

Section InterpSum.
  Variable R : Type.
  Variables (rO rI : R) (radd rmul rsub : R -> R -> R) (ropp : R -> R).
  Variable Rth : ring_theory rO rI radd rmul rsub ropp (@eq R).
  Add Ring RingC19Sum : Rth.
  Notation Sn := (sumn rO radd).
  Variables V VC : Type.
  Variables (vadd : V -> V -> V) (vscale : R -> V -> V) (vaddC : VC -> VC -> VC) (vscaleC : R -> VC -> VC).
  Variable inj : nat -> V -> VC.
  Variable tp : topo.
  Variable ref : layout.
  Variable ls : list layout.
  Hypothesis Href : forall K, K < 4 -> kcount ref K = length (conn tp K).
  Hypothesis Hconn : forall K itr e, K < 4 -> itr < length (conn tp K) -> e < ncells tp ->
    e < length (nth itr (conn tp K) []) /\ nth e (nth itr (conn tp K) []) 0 < G tp K.
  Variable C : basis R VC.
  Variable b : nat -> basis R V.
  Hypothesis HC : bedofs C = element_dofs_of tp (D_of ls) /\ bNbfun C = base_of ref (D_of ls) 4.
  Hypothesis Hb : forall n, n < length ls ->
    bedofs (b n) = element_dofs_of tp (lay ls n) /\ bNbfun (b n) = base_of ref (lay ls n) 4.
  Hypothesis HB : forall i e q, i < bNbfun C ->
    bB C i e q = inj (fst (deduce_bfun ref ls i)) (bB (b (fst (deduce_bfun ref ls i))) (snd (deduce_bfun ref ls i)) e q).

  (* g (whole interpolant) = sum over the components n of (g o inj n) (component interpolant of x[split_indices[n]]) *)
  Theorem composite_interp_sum (g : VC -> R) (w : nat -> R) e q :
    e < ncells tp ->
    (forall x y, g (vaddC x y) = radd (g x) (g y)) -> (forall s x, g (vscaleC s x) = rmul s (g x)) ->
    g (interp R rO VC vaddC vscaleC C w e q)
    = Sn (length ls) (fun n =>
        Sn (bNbfun (b n)) (fun ind => rmul (w (nth (nth e (element_dofs (b n) ind) 0) (composite_split tp ls n) 0))
                                           (g (inj n (bB (b n) ind e q))))).
  Proof.
    intros He Hga Hgs. destruct HC as [HCe HCn].
    rewrite (interp_linear R rO rI radd rmul rsub ropp Rth VC vaddC vscaleC g C w e q Hga Hgs).
    rewrite HCn, (sumn_layout R rO rI radd rmul rsub ropp Rth).
    (* right-hand side: expand every component, then bring the component sum inside *)
    transitivity (Sn (length ls) (fun n => Sn 4 (fun K => Sn (kcount ref K) (fun itr => Sn (lay ls n K) (fun r =>
       rmul (w (nth (nth e (element_dofs (b n) (base_of ref (lay ls n) K + itr * lay ls n K + r)) 0) (composite_split tp ls n) 0))
            (g (inj n (bB (b n) (base_of ref (lay ls n) K + itr * lay ls n K + r) e q)))))))).
    2:{ apply sumn_ext. intros n Hn. destruct (Hb n Hn) as [_ Hbn]. rewrite Hbn.
        now rewrite (sumn_layout R rO rI radd rmul rsub ropp Rth). }
    rewrite (sumn_exchange R rO rI radd rmul rsub ropp Rth (length ls) 4).
    apply sumn_ext. intros K HK.
    rewrite (sumn_exchange R rO rI radd rmul rsub ropp Rth (length ls) (kcount ref K)).
    apply sumn_ext. intros itr Hi.
    rewrite (sumn_slots R rO rI radd rmul rsub ropp Rth ls K).
    apply sumn_ext. intros n Hn. apply sumn_ext. intros r Hr.
    destruct (Hb n Hn) as [Hbe _].
    assert (Hlt : base_of ref (D_of ls) K + itr * D_of ls K + (o_of ls n K + r) < bNbfun C).
    { rewrite HCn. exact (whole_index_bound ref ls n K itr r Hn HK Hi Hr). }
    rewrite (HB _ e q Hlt).
    pose proof (deduce_bfun_spec ref ls n K itr r Hn HK Hi Hr) as Hd. unfold whole_index, comp_index in Hd.
    rewrite Hd. cbn [fst snd]. f_equal. f_equal.
    unfold element_dofs. rewrite HCe, Hbe.
    rewrite Href in Hi by exact HK. destruct (Hconn K itr e HK Hi He) as [He' Hg'].
    pose proof (slot_bound ls n K r Hn Hr) as Hs.
    rewrite <- (row_index_base tp ref Href (D_of ls) K itr (o_of ls n K + r)) by lia.
    rewrite <- (row_index_base tp ref Href (lay ls n) K itr r) by lia.
    symmetry. exact (split_compat tp (D_of ls) (lay ls n) (composite_slot ls n) K itr r e HK Hi Hr Hs He' Hg').
  Qed.

  (* a coefficient vector supported on component bn: x[split_indices[bn]] = xb, x[split_indices[n]] = 0 otherwise *)
  Definition supported_on (x : nat -> R) (bn : nat) (xb : nat -> R) : Prop :=
    forall n k, n < length ls -> k < off tp (lay ls n) 4 ->
      x (nth k (composite_split tp ls n) 0) = if Nat.eqb bn n then xb k else rO.

  Lemma interp_supported (g : VC -> R) (x : nat -> R) bn xb e q :
    bn < length ls -> e < ncells tp -> supported_on x bn xb ->
    (forall x y, g (vaddC x y) = radd (g x) (g y)) -> (forall s x, g (vscaleC s x) = rmul s (g x)) ->
    g (interp R rO VC vaddC vscaleC C x e q)
    = Sn (bNbfun (b bn)) (fun ind => rmul (xb (nth e (element_dofs (b bn) ind) 0)) (g (inj bn (bB (b bn) ind e q)))).
  Proof.
    intros Hbn He Hsup Hga Hgs.
    rewrite (composite_interp_sum g x e q He Hga Hgs).
    rewrite <- (sumn_select R rO rI radd rmul rsub ropp Rth (length ls) bn
                  (fun n => Sn (bNbfun (b n)) (fun ind => rmul (xb (nth e (element_dofs (b n) ind) 0)) (g (inj n (bB (b n) ind e q))))) Hbn).
    apply sumn_ext. intros n Hn. destruct (Hb n Hn) as [Hbe Hbnn].
    (* every DOF number met is a valid position of the split list *)
    assert (Hpos : forall ind, ind < bNbfun (b n) -> nth e (element_dofs (b n) ind) 0 < off tp (lay ls n) 4).
    { intros ind Hind. rewrite Hbnn in Hind.
      (* ind is the row of some (K, itr, r) *)
      revert ind Hind.
      assert (Gsum : forall (P : nat -> Prop),
                (forall K itr r, K < 4 -> itr < kcount ref K -> r < lay ls n K -> P (base_of ref (lay ls n) K + itr * lay ls n K + r)) ->
                forall ind, ind < base_of ref (lay ls n) 4 -> P ind).
      { intros P HP ind Hind.
        assert (HK4 : forall K, K <= 4 -> ind < base_of ref (lay ls n) K -> P ind).
        { induction K as [|K IHK]; intros HK Hlt; [unfold base_of in Hlt; simpl in Hlt; lia|].
          destruct (Nat.lt_ge_cases ind (base_of ref (lay ls n) K)) as [Hl|Hge]; [apply IHK; [lia | exact Hl]|].
          assert (ES : base_of ref (lay ls n) (S K) = base_of ref (lay ls n) K + kcount ref K * lay ls n K).
          { unfold base_of. rewrite seq_S, map_app, fold_right_app. simpl.
            assert (Gm : forall l s, fold_right Nat.add s l = fold_right Nat.add 0 l + s).
            { induction l as [|a l IHl]; intros s; simpl; [lia|]. rewrite IHl. lia. }
            rewrite Gm. lia. }
          rewrite ES in Hlt. set (x0 := ind - base_of ref (lay ls n) K).
          assert (Hd0 : 0 < lay ls n K) by nia.
          replace ind with (base_of ref (lay ls n) K + (x0 / lay ls n K) * lay ls n K + x0 mod lay ls n K).
          - apply HP; [lia | apply Nat.div_lt_upper_bound; [lia | unfold x0; nia] | apply Nat.mod_upper_bound; lia].
          - pose proof (Nat.div_mod x0 (lay ls n K) ltac:(lia)). unfold x0 in *. nia. }
        apply (HK4 4); [lia | exact Hind]. }
      apply Gsum. intros K itr r HK Hi Hr. unfold element_dofs. rewrite Hbe.
      rewrite Href in Hi by exact HK. destruct (Hconn K itr e HK Hi He) as [He' Hg'].
      rewrite <- (row_index_base tp ref Href (lay ls n) K itr r) by lia.
      rewrite (element_dofs_entry tp (lay ls n) K itr r e HK Hi Hr He').
      now apply dof_value_bound. }
    destruct (Nat.eqb_spec bn n) as [<-|Hne].
    - apply sumn_ext. intros ind Hind. rewrite (Hsup bn _ Hbn (Hpos ind Hind)). now rewrite Nat.eqb_refl.
    - rewrite (sumn_ext R rO radd _ _ (fun _ => rO)); [apply (sumn_zero R rO rI radd rmul rsub ropp Rth)|].
      intros ind Hind. rewrite (Hsup n _ Hn (Hpos ind Hind)).
      destruct (Nat.eqb_spec bn n); [contradiction | ring].
  Qed.

  (* ---------- block assembly: the matrix of a coupling form on the composite basis, tested with coefficient vectors
     supported on the test component a and the trial component bt, is the matrix of the form with the other components
     zeroed, assembled on the component bases (C01 + decoding + split_indices) ---------- *)
  Variable W : Type.
  Variable form : VC -> VC -> W -> R.
  Hypothesis form_add_u : forall x y v w, form (vaddC x y) v w = radd (form x v w) (form y v w).
  Hypothesis form_scale_u : forall s x v w, form (vscaleC s x) v w = rmul s (form x v w).
  Hypothesis form_add_v : forall u x y w, form u (vaddC x y) w = radd (form u x w) (form u y w).
  Hypothesis form_scale_v : forall s u x w, form u (vscaleC s x) w = rmul s (form u x w).
  Hypothesis inj_add : forall n x y, inj n (vadd x y) = vaddC (inj n x) (inj n y).
  Hypothesis inj_scale : forall n s x, inj n (vscale s x) = vscaleC s (inj n x).

  Theorem block_assembly (a bt : nat) (w : nat -> nat -> W) (uC vC ub va : nat -> R) :
    a < length ls -> bt < length ls ->
    wf_basis C -> wf_basis (b a) -> wf_basis (b bt) ->
    bnelems C = ncells tp -> bnelems (b a) = ncells tp -> bnelems (b bt) = ncells tp ->
    bnq (b a) = bnq C -> bnq (b bt) = bnq C ->
    (forall e q, e < ncells tp -> q < bnq C -> bdx (b bt) e q = bdx C e q) ->
    supported_on uC bt ub -> supported_on vC a va ->
    exists cC AC cab Aab,
      bilinear_assemble R rO radd rmul VC W form w C None = Some cC /\ to_dense2 R rO radd cC = Some AC /\
      bilinear_assemble R rO radd rmul V W (fun x y w => form (inj bt x) (inj a y) w) w (b bt) (Some (b a)) = Some cab /\
      to_dense2 R rO radd cab = Some Aab /\
      vAu R rO radd rmul vC AC uC (bN C) (bN C) = vAu R rO radd rmul va Aab ub (bN (b a)) (bN (b bt)).
  Proof.
    intros Ha Hbt WC Wa Wbt NC Na Nbt Qa Qbt Hdx Hsu Hsv.
    destruct (bilinear_weak_form R rO rI radd rmul rsub ropp Rth VC W vaddC vscaleC form
                form_add_u form_scale_u form_add_v form_scale_v w C None uC vC WC WC eq_refl eq_refl) as [cC [AC [EC [EAC HAC]]]].
    destruct (bilinear_weak_form R rO rI radd rmul rsub ropp Rth V W vadd vscale (fun x y w0 => form (inj bt x) (inj a y) w0)
                (fun x y v w0 => eq_trans (f_equal (fun z => form z (inj a v) w0) (inj_add bt x y)) (form_add_u _ _ _ _))
                (fun s x v w0 => eq_trans (f_equal (fun z => form z (inj a v) w0) (inj_scale bt s x)) (form_scale_u _ _ _ _))
                (fun u x y w0 => eq_trans (f_equal (fun z => form (inj bt u) z w0) (inj_add a x y)) (form_add_v _ _ _ _))
                (fun s u x w0 => eq_trans (f_equal (fun z => form (inj bt u) z w0) (inj_scale a s x)) (form_scale_v _ _ _ _))
                w (b bt) (Some (b a)) ub va Wbt Wa (eq_trans Na (eq_sym Nbt)) (eq_trans Qa (eq_sym Qbt))) as [cab [Aab [Eab [EAab HAab]]]].
    exists cC, AC, cab, Aab. repeat (split; [assumption|]).
    cbv zeta in HAC, HAab. rewrite HAC, HAab. rewrite NC, Nbt, Qbt.
    unfold integrate. apply sumn_ext. intros e He. apply sumn_ext. intros q Hq.
    rewrite (Hdx e q He Hq). f_equal.
    (* first argument *)
    rewrite (interp_supported (fun X => form X (interp R rO VC vaddC vscaleC C vC e q) (w e q)) uC bt ub e q Hbt He Hsu)
      by (intros; first [apply form_add_u | apply form_scale_u]).
    rewrite <- (interp_linear R rO rI radd rmul rsub ropp Rth V vadd vscale
                  (fun x => form (inj bt x) (interp R rO VC vaddC vscaleC C vC e q) (w e q)) (b bt) ub e q).
    2:{ intros x y. rewrite inj_add. apply form_add_u. }
    2:{ intros s x. rewrite inj_scale. apply form_scale_u. }
    (* second argument *)
    rewrite (interp_supported (fun Y => form (inj bt (interp R rO V vadd vscale (b bt) ub e q)) Y (w e q)) vC a va e q Ha He Hsv)
      by (intros; first [apply form_add_v | apply form_scale_v]).
    rewrite <- (interp_linear R rO rI radd rmul rsub ropp Rth V vadd vscale
                  (fun y => form (inj bt (interp R rO V vadd vscale (b bt) ub e q)) (inj a y) (w e q)) (b a) va e q).
    2:{ intros x y. rewrite inj_add. apply form_add_v. }
    2:{ intros s x. rewrite inj_scale. apply form_scale_v. }
    reflexivity.
  Qed.
End InterpSum.
