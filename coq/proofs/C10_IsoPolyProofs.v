(* C10 — soundness of the boolean polynomial checks of Model.C10_IsoPoly: what "all_equal ... = true" (decided by
   vm_compute on the polynomials regenerated from the source) means at every rational point (reference point AND node
   coordinates); evaluation in the canonical rationals Qc (a field with Leibniz equality) for the cofactor identities.
   The real-number statements (true derivatives, Coquelicot) are in Proofs.C10_IsoPolyReal. *)
From Coq Require Import List Arith Bool Lia QArith Qcanon Ring_theory Setoid.
Import ListNotations.
Require Import Base.C09_Poly Base.C09_PolyQ Base.C20_Ring Model.C10_IsoPoly.
Local Close Scope Qc_scope.
Local Close Scope Q_scope.

Lemma all_equal_In l : all_equal l = true -> forall p q, In (p, q) l -> peqb p q = true.
Proof. unfold all_equal. intros H p q Hin. rewrite forallb_forall in H. exact (H (p, q) Hin). Qed.

Lemma In_idx2 d i j : i < d -> j < d -> In (i, j) (idx2 d).
Proof. intros Hi Hj. unfold idx2. apply in_prod; apply in_seq; lia. Qed.

(* ------------------------------------------------------------------ J is the derivative of F *)
Definition J_derivative_of_F_Q (d : nat) (phis : list poly) (dphis : list (list poly)) : Prop :=
  forall i j, i < d -> j < d -> forall pt : nat -> Q,
    Qeq (qeval (pderiv j (isoF_poly d phis i)) pt) (qeval (isoJ_poly d dphis i j) pt).

Lemma derivative_pairs_In d phis dphis i j : i < d -> j < d ->
  In (pderiv j (isoF_poly d phis i), isoJ_poly d dphis i j) (derivative_pairs d phis dphis).
Proof.
  intros Hi Hj. unfold derivative_pairs.
  apply (in_map (fun ij => (pderiv (snd ij) (isoF_poly d phis (fst ij)), isoJ_poly d dphis (fst ij) (snd ij))) (idx2 d) (i, j)).
  apply In_idx2; assumption.
Qed.

Theorem derivative_sound_Q d phis dphis :
  all_equal (derivative_pairs d phis dphis) = true -> J_derivative_of_F_Q d phis dphis.
Proof.
  intros H i j Hi Hj pt. apply q_peqb_sound.
  exact (all_equal_In _ H _ _ (derivative_pairs_In d phis dphis i j Hi Hj)).
Qed.

(* ------------------------------------------------------------------ the facet map is the restriction of F *)
(* evaluation point of the cell polynomials for a facet parameter xi: X := Y(xi), nodes unchanged *)
Definition facet_point (d : nat) (Y : list poly) (pt : nat -> Q) : nat -> Q :=
  fun l => if l <? d then qeval (nth l Y []) pt else pt l.

Lemma q_on_facet d Y p pt : Qeq (qeval (on_facet d Y p) pt) (qeval p (facet_point d Y pt)).
Proof.
  unfold on_facet, qeval.
  rewrite (peval_psubstn Q 0%Q 1%Q Qplus Qmult Qminus Qopp Qeq (fun x => x) Q_Setoid Qreqe Qsrt Qidmorph).
  apply (peval_ext Q 0%Q 1%Q Qplus Qmult Qopp Qeq (fun x => x) Q_Setoid Qreqe).
  intros l. unfold facet_point. destruct (l <? d); [reflexivity|].
  apply (peval_pvar Q 0%Q 1%Q Qplus Qmult Qminus Qopp Qeq (fun x => x) Q_Setoid Qreqe Qsrt Qidmorph).
Qed.

Definition facet_map_restricts_F_Q (d : nat) (phis psis : list poly) (facets : list facet_inst) : Prop :=
  forall fi, In fi facets -> forall i, i < d -> forall pt : nat -> Q,
    Qeq (qeval (isoF_poly d phis i) (facet_point d (fi_Y fi) pt)) (qeval (isoG_poly d psis fi i) pt).

Theorem facet_sound_Q d phis psis facets :
  forallb (fun fi => all_equal (facet_pairs d phis psis fi)) facets = true -> facet_map_restricts_F_Q d phis psis facets.
Proof.
  intros H fi Hfi i Hi pt. rewrite forallb_forall in H. specialize (H fi Hfi).
  rewrite <- q_on_facet. apply q_peqb_sound. apply (all_equal_In _ H).
  unfold facet_pairs.
  apply (in_map (fun i => (on_facet d (fi_Y fi) (isoF_poly d phis i), isoG_poly d psis fi i)) (seq 0 d) i).
  apply in_seq. lia.
Qed.

(* ------------------------------------------------------------------ normals: (adj(J)^T N) . dG/dxi_j = 0 *)
Definition normal_orthogonal_Q (d : nat) (adj : (nat -> nat -> poly) -> nat -> nat -> poly)
           (dphis : list (list poly)) (psis : list poly) (facets : list facet_inst) : Prop :=
  forall fi, In fi facets -> forall pq, In pq (normal_pairs d adj dphis psis fi) -> snd pq = [] /\
    forall pt : nat -> Q, Qeq (qeval (fst pq) pt) 0%Q.

Theorem normal_sound_Q d adj dphis psis facets :
  forallb (fun fi => all_equal (normal_pairs d adj dphis psis fi)) facets = true -> normal_orthogonal_Q d adj dphis psis facets.
Proof.
  intros H fi Hfi [p q] Hin. rewrite forallb_forall in H. specialize (H fi Hfi).
  assert (Hq : q = []).
  { unfold normal_pairs in Hin. apply in_map_iff in Hin. destruct Hin as [j [E _]]. inversion E. reflexivity. }
  split; [exact Hq|]. intros pt. simpl. subst q.
  exact (q_peqb_sound _ _ (all_equal_In _ H _ _ Hin) pt).
Qed.

(* ------------------------------------------------------------------ parallelogram cells: J is the constant affine A *)
Definition para_point (d : nat) (coords : list (list Q)) (o : nat) (units : list nat) (pt : nat -> Q) : nat -> Q :=
  fun v => qeval (para_subst d coords o units v) pt.

Definition parallelogram_J_affine_Q (d : nat) (dphis : list (list poly)) (coords : list (list Q)) (o : nat) (units : list nat) : Prop :=
  forall i j, i < d -> j < d -> forall pt : nat -> Q,
    Qeq (qeval (isoJ_poly d dphis i j) (para_point d coords o units pt))
        (Qminus (pt (node_var d (nth j units 0) i)) (pt (node_var d o i))).

Theorem para_sound_Q d dphis coords o units :
  all_equal (para_pairs d dphis coords o units) = true -> parallelogram_J_affine_Q d dphis coords o units.
Proof.
  intros H i j Hi Hj pt.
  assert (Hin : In (psubstn (para_subst d coords o units) (isoJ_poly d dphis i j),
                    psub (pvar (node_var d (nth j units 0) i)) (pvar (node_var d o i))) (para_pairs d dphis coords o units)).
  { unfold para_pairs.
    apply (in_map (fun ij => (psubstn (para_subst d coords o units) (isoJ_poly d dphis (fst ij) (snd ij)),
                              psub (pvar (node_var d (nth (snd ij) units 0) (fst ij))) (pvar (node_var d o (fst ij))))) (idx2 d) (i, j)).
    apply In_idx2; assumption. }
  pose proof (q_peqb_sound _ _ (all_equal_In _ H _ _ Hin) pt) as E. unfold qeval in E.
  rewrite (peval_psubstn Q 0%Q 1%Q Qplus Qmult Qminus Qopp Qeq (fun x => x) Q_Setoid Qreqe Qsrt Qidmorph) in E.
  unfold qeval, para_point. rewrite E.
  rewrite (peval_psub Q 0%Q 1%Q Qplus Qmult Qminus Qopp Qeq (fun x => x) Q_Setoid Qreqe Qsrt Qidmorph).
  rewrite !(peval_pvar Q 0%Q 1%Q Qplus Qmult Qminus Qopp Qeq (fun x => x) Q_Setoid Qreqe Qsrt Qidmorph).
  unfold Qminus. reflexivity.
Qed.


(* ------------------------------------------------------------------ evaluation in the field Qc (Leibniz equality) *)
Lemma Q2Qc_morph : ring_morph 0%Qc 1%Qc Qcplus Qcmult Qcminus Qcopp (@eq Qc) 0%Q 1%Q Qplus Qmult Qminus Qopp Qeq_bool Q2Qc.
Proof.
  constructor.
  - reflexivity.
  - reflexivity.
  - intros x y. unfold Qcplus. apply Q2Qc_eq_iff. cbn [this Q2Qc]. rewrite !Qred_correct. reflexivity.
  - intros x y. unfold Qcminus, Qcplus, Qcopp. apply Q2Qc_eq_iff. cbn [this Q2Qc]. rewrite !Qred_correct. reflexivity.
  - intros x y. unfold Qcmult. apply Q2Qc_eq_iff. cbn [this Q2Qc]. rewrite !Qred_correct. reflexivity.
  - intros x. unfold Qcopp. apply Q2Qc_eq_iff. cbn [this Q2Qc]. rewrite !Qred_correct. reflexivity.
  - intros x y H. apply Q2Qc_eq_iff. apply Qeq_bool_eq. exact H.
Qed.
(* a polynomial evaluated at canonical rationals *)
Definition qceval (p : poly) (pt : nat -> Qc) : Qc := peval Qc 0%Qc 1%Qc Qcplus Qcmult Q2Qc p pt.
