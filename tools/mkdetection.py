#!/usr/bin/env python3
"""Regenerate DESIGN.md section 11.5 (which check catches which seeded change) from seeded/RESULTS.json."""
import json, os, re
V = os.path.dirname(os.path.dirname(os.path.abspath(__file__)))
res = json.load(open(os.path.join(V, 'seeded', 'RESULTS.json')))
rows = []
tot = det = conc = 0
skipped = []
for sid in sorted(os.listdir(os.path.join(V, 'seeded'))):
    mp = os.path.join(V, 'seeded', sid, 'meta.json')
    if not os.path.exists(mp):
        continue
    m = json.load(open(mp))
    if m.get('cannot_manifest_now'):
        skipped.append((sid, m['cannot_manifest_now']))
        continue
    r = res.get(sid, {'status': 'not-run'})
    tot += 1
    what = re.sub(r'\s+', ' ', m['what']).strip()
    what = re.sub(r'^#+ *', '', what)[:150]
    origin = 'independent agent' if re.match(r'^C\d+-[a-d]$', sid) else 'reverse of a fix'
    if r['status'] == 'detected':
        det += 1
        key = (r.get('failing') or [''])[0]
        key = re.sub(r'^ key=', '', key).split(': ')[0][:70]
        ci = r.get('concrete_input')
        conc += 1 if ci else 0
        parts = []
        if r.get('broken'):
            parts.append('tie/proof breaks')
        parts.append(('oracle/correspondence: `%s`' % key) if key else 'tie/proof only')
        if m.get('neutralised_by'):
            parts.append('(harmless now: ' + m['neutralised_by'][:120] + '…)')
        how = ' + '.join(parts)
        rows.append(f"| {sid} | {m['property']} | {origin} | {what} | {how} | {'yes' if ci else 'no (no-failing-input-found)'} |")
    else:
        rows.append(f"| {sid} | {m['property']} | {origin} | {what} | **{r['status']}** | |")
txt = f"""### 11.5 Which check catches which seeded change

`seeded/<id>/` holds every breakage used to validate the checks (patch.diff, demo, meta.json).  Two kinds:
*independent* ones (`Cxx-a/b` first round, `Cxx-c/d` second round) written by sub-agents that saw only the property
record and a scratch worktree of /repo — each confirmed by me in a scratch worktree (`tools/verify_seed.py`: the demo
passes without and fails with the patch; the pinned suite stays at its baseline with the patch) — and *regressions*
(`regress-<id>`: the reverse of each `fix:` commit).  `tools/run_seeded.py` applies each patch to a scratch worktree of
/repo's HEAD and runs the quick check of its property against it (`VERIF_REPO`), with private build/evidence/replay
directories; `--in-repo` does the same on /repo itself and undoes it.  Result of the last full run
(`seeded/RESULTS.json`): **{det} of {tot} detected, {conc} of them with a concrete failing input as replay**.
Checks that first missed a seed were strengthened (oracle families, model coverage, tie lemmas) until it was caught;
the column "caught by" names the first failing key of the final run ("tie/proof breaks" = a translator, tie lemma or
property theorem stopped compiling as well).

| seed | property | origin | change | caught by | concrete replay |
|---|---|---|---|---|---|
""" + '\n'.join(rows) + "\n\nNot counted (cannot manifest on the current tree):\n" + '\n'.join(f"* `{s}` — {why}" for s, why in skipped) + "\n"
p = os.path.join(V, 'DESIGN.md')
s = open(p).read()
a, b = '<!-- DETECTION-BEGIN -->', '<!-- DETECTION-END -->'
if a in s:
    s = s[:s.index(a) + len(a)] + '\n' + txt + s[s.index(b):]
else:
    s += f'\n{a}\n{txt}{b}\n'
open(p, 'w').write(s)
print(det, 'of', tot, 'detected;', conc, 'concrete')
