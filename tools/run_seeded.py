#!/usr/bin/env python3
"""Run the checks against the seeded breakages under /verif/seeded/<id>/ (patch.diff, meta.json).

Each patch is applied to a scratch worktree of /repo's HEAD (never to /repo itself while other work is going
on; `--in-repo` applies it to /repo and undoes it afterwards, the way the brief describes), the quick check of
the property named in meta.json is run against it with its own build/evidence/replay directories, and the
outcome is recorded in seeded/RESULTS.json.
"""
import json, os, subprocess, sys, time, shutil, argparse
V = os.path.dirname(os.path.dirname(os.path.abspath(__file__)))
ap = argparse.ArgumentParser()
ap.add_argument('ids', nargs='*')
ap.add_argument('--in-repo', action='store_true')
ap.add_argument('--tier', default='quick')
ap.add_argument('-j', type=int, default=1)
a = ap.parse_args()
ids = a.ids or sorted(d for d in os.listdir(os.path.join(V, 'seeded')) if os.path.isdir(os.path.join(V, 'seeded', d)))
respath = os.path.join(V, 'seeded', 'RESULTS.json')
results = json.load(open(respath)) if os.path.exists(respath) else {}


def one(sid):
    d = os.path.join(V, 'seeded', sid)
    meta = json.load(open(os.path.join(d, 'meta.json')))
    pid = meta['property']
    if not os.path.exists(os.path.join(V, 'vlib', 'props', pid.lower() + '.py')):
        return sid, {'property': pid, 'status': 'no-check-yet'}
    t0 = time.time()
    if a.in_repo:
        wt = '/repo'
        r = subprocess.run(['git', '-C', wt, 'apply', os.path.join(d, 'patch.diff')], capture_output=True, text=True)
    else:
        wt = f'/tmp/seedrun_{sid}'
        subprocess.run(['git', '-C', '/repo', 'worktree', 'remove', '--force', wt], capture_output=True)
        subprocess.run(['git', '-C', '/repo', 'worktree', 'add', '--detach', wt, 'HEAD'], capture_output=True, check=True)
        r = subprocess.run(['git', '-C', wt, 'apply', os.path.join(d, 'patch.diff')], capture_output=True, text=True)
    try:
        if r.returncode != 0:
            return sid, {'property': pid, 'status': 'patch-does-not-apply', 'detail': r.stderr[-300:]}
        env = dict(os.environ, VERIF_REPO=wt, VERIF_BUILD_TAG='_seed_' + sid, VERIF_EVIDENCE_DIR=f'/tmp/seed_evidence_{sid}',
                   VERIF_REPLAY_DIR=f'/tmp/seed_replays_{sid}')
        p = subprocess.run(['/venv/bin/python', os.path.join(V, 'check.py'), pid, '--tier', a.tier], env=env, capture_output=True, text=True, timeout=3600)
        lines = [l for l in p.stdout.split('\n') if l.startswith('VIOLATION')]
        res = {'property': pid, 'status': 'detected' if (p.returncode != 0 and lines) else 'MISSED', 'exit': p.returncode,
               'violation_lines': lines[:4], 'concrete_input': any('no-failing-input-found' not in l for l in lines),
               'seconds': round(time.time() - t0, 1), 'tier': a.tier,
               'broken': [l for l in p.stdout.split('\n') if 'BROKEN' in l or 'FAILED' in l][:6],
               'failing': [l.split('FAILING INPUT')[1][:200] for l in p.stdout.split('\n') if 'FAILING INPUT' in l][:4]}
        return sid, res
    finally:
        if a.in_repo:
            subprocess.run(['git', '-C', '/repo', 'checkout', '--', '.'])
        else:
            subprocess.run(['git', '-C', '/repo', 'worktree', 'remove', '--force', wt], capture_output=True)
        shutil.rmtree(os.path.join(V, 'build', pid + '_seed_' + sid), ignore_errors=True)
        shutil.rmtree(f'/tmp/seed_evidence_{sid}', ignore_errors=True)
        shutil.rmtree(f'/tmp/seed_replays_{sid}', ignore_errors=True)


from concurrent.futures import ThreadPoolExecutor
with ThreadPoolExecutor(a.j) as ex:
    for sid, res in ex.map(one, ids):
        results[sid] = res
        print(sid, res['property'], res['status'], res.get('seconds'), res.get('failing', [])[:1], res.get('violation_lines', [])[:1], flush=True)
json.dump(results, open(respath, 'w'), indent=1, sort_keys=True)
