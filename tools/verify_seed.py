#!/usr/bin/env python3
"""Verify candidate seeded breakages produced by independent agents and install the confirmed ones in
/verif/seeded/<id>/.  For each /tmp/M*_out/<Cxx>-<a|b>/ : scratch worktree of /repo HEAD; demo.py must PASS
without the patch and FAIL with it; the pinned test-suite must show only the two baseline failures with it."""
import json, os, subprocess, sys, shutil, glob, re
from concurrent.futures import ThreadPoolExecutor
V = os.path.dirname(os.path.dirname(os.path.abspath(__file__)))
ROUND2 = os.environ.get('ROUND2', '0') == '1'
ROUND3 = os.environ.get('ROUND3', '0') == '1'
ROUND4 = os.environ.get('ROUND4', '0') == '1'
ROUND5 = os.environ.get('ROUND5', '0') == '1'
ROUND6 = os.environ.get('ROUND6', '0') == '1'
ROUND7 = os.environ.get('ROUND7', '0') == '1'
ROUND8 = os.environ.get('ROUND8', '0') == '1'
ROUND9 = os.environ.get('ROUND9', '0') == '1'
ROUND10 = os.environ.get('ROUND10', '0') == '1'
if ROUND10:    # session 3, M36: ids as in round 8 (C11-36v)
    cands = sorted(glob.glob('/tmp/M36_out/C??-?'))
    ROUND8 = True
elif ROUND9:     # ninth round M33..M35: ids as in round 8 (C05-33v, ...)
    cands = sorted(glob.glob('/tmp/M3[3-5]_out/C??-?'))
    ROUND8 = True
elif ROUND8:     # eighth round M30..M32: ids get the agent number in front of the letter (C05-30v, C05-31v, ...)
    cands = sorted(glob.glob('/tmp/M3[0-2]_out/C??-?'))
elif ROUND7:     # seventh round M27..M29: agents name v/w; M27 keeps v/w, M28 -> x/y, M29 -> z/{ (mapped to za/zb)
    cands = sorted(glob.glob('/tmp/M2[7-9]_out/C??-?'))
elif ROUND6:     # sixth round M24..M26 (cross-property, convenience APIs): M24 keeps p/q, M25 -> r/s, M26 -> t/u
    cands = sorted(glob.glob('/tmp/M2[4-6]_out/C??-?'))
elif ROUND5:     # fifth, cross-property round M21..M23: ids as given (Cxx-j, Cxx-k, ...)
    cands = sorted(glob.glob('/tmp/M2[1-3]_out/C??-?'))
elif ROUND4:     # fourth round M16..M20: suffixes h, i
    cands = sorted(glob.glob('/tmp/M1[6-9]_out/C??-?') + glob.glob('/tmp/M20_out/C??-?'))
elif ROUND3:     # third round M11..M15: suffixes e, f (and g for an extra)
    cands = sorted(glob.glob('/tmp/M1[1-5]_out/C??-?') + glob.glob('/tmp/M1[1-5]_out/C??-extra'))
elif ROUND2:     # second round of independent agents M6..M10: ids get the suffixes c, d
    cands = sorted(glob.glob('/tmp/M[6-9]_out/C??-?') + glob.glob('/tmp/M10_out/C??-?'))
else:
    cands = sorted(glob.glob('/tmp/M[1-5]_out/C??-?'))


def sid_of(c):
    b = os.path.basename(c)
    if ROUND8:
        return b[:-1] + c.split('/')[2].split('_')[0][1:] + b[-1]
    if ROUND7:
        ag = c.split('/')[2].split('_')[0]
        k = ord(b[-1]) - ord('v')
        return b[:-1] + {'M27': 'vw', 'M28': 'xy', 'M29': ['za', 'zb']}[ag][k]
    if ROUND6:
        shift = {'M24': 0, 'M25': 2, 'M26': 4}[c.split('/')[2].split('_')[0]]
        return b[:-1] + chr(ord(b[-1]) + shift)
    if ROUND5:   # three agents used the same suffixes: M21 keeps j/k, M22 -> l/m, M23 -> n/o
        shift = {'M21': 0, 'M22': 2, 'M23': 4}[c.split('/')[2].split('_')[0]]
        return b[:-1] + chr(ord(b[-1]) + shift)
    if ROUND4:
        b = b[:-1] + {'a': 'h', 'b': 'i'}[b[-1]]
    elif ROUND3:
        b = b.replace('-extra', '-g')
        b = b[:-1] + {'a': 'e', 'b': 'f', 'c': 'g', 'g': 'g'}[b[-1]]
    elif ROUND2:
        b = b[:-1] + {'a': 'c', 'b': 'd'}[b[-1]]
    return b


only = sys.argv[1:]
if only:
    cands = [c for c in cands if sid_of(c) in only]
run_suite = os.environ.get('SUITE', '1') == '1'


def sh(cmd, cwd=None, env=None, timeout=3600):
    return subprocess.run(cmd, cwd=cwd, env=env, capture_output=True, text=True, timeout=timeout)


def one(c):
    sid = sid_of(c)
    pid = sid.split('-')[0]
    wt = f'/tmp/seedverify_{sid}'
    sh(['git', '-C', '/repo', 'worktree', 'remove', '--force', wt])
    sh(['git', '-C', '/repo', 'worktree', 'add', '--detach', wt, 'HEAD'])
    res = {'id': sid, 'property': pid}
    try:
        env = dict(os.environ, PYTHONPATH=wt, PYTHONHASHSEED='0', OMP_NUM_THREADS='1', OPENBLAS_NUM_THREADS='1', JAX_PLATFORMS='cpu')
        demo = os.path.join(c, 'demo.py')
        # demos sometimes hard-code their author's worktree path: rewrite to ours
        txt = open(demo).read()
        txt2 = re.sub(r'/tmp/mut_M\d+(?:_[A-Za-z0-9]+)?', wt, txt)
        demo_local = os.path.join(wt, '_seed_demo.py')
        open(demo_local, 'w').write(txt2)
        r0 = sh(['/venv/bin/python', demo_local], cwd=wt, env=env, timeout=1800)
        res['demo_without'] = (r0.returncode, (r0.stdout.strip().split('\n') or [''])[-1][:200])
        ap = sh(['git', '-C', wt, 'apply', '--exclude=_seed_demo.py', os.path.join(c, 'patch.diff')])
        if ap.returncode != 0:
            ap = sh(['git', '-C', wt, 'apply', '--3way', os.path.join(c, 'patch.diff')])
        res['applies'] = ap.returncode == 0
        if not res['applies']:
            res['apply_err'] = ap.stderr[-300:]
            return res
        r1 = sh(['/venv/bin/python', demo_local], cwd=wt, env=env, timeout=1800)
        res['demo_with'] = (r1.returncode, (r1.stdout.strip().split('\n') or [''])[-1][:200])
        os.remove(demo_local)
        res['patch_now'] = sh(['git', '-C', wt, 'diff']).stdout
        if run_suite:
            rs = sh(['/venv/bin/python', '-m', 'pytest', '-q', '-p', 'no:cacheprovider', '--timeout=900', 'tests'], cwd=wt, env=env, timeout=5400)
            tail = rs.stdout.strip().split('\n')[-1]
            res['suite'] = tail
            failed = sorted(set(re.findall(r'^FAILED (\S+)', rs.stdout, flags=re.M)))
            res['suite_failed'] = failed
        return res
    finally:
        sh(['git', '-C', '/repo', 'worktree', 'remove', '--force', wt])


with ThreadPoolExecutor(int(os.environ.get('J', '6'))) as ex:
    out = list(ex.map(one, cands))
ok = 0
for r in out:
    sid = r['id']
    good = (r.get('applies') and r['demo_without'][0] == 0 and r['demo_with'][0] != 0
            and (not run_suite or all('test_mamba' in f for f in r.get('suite_failed', ['x']))))
    print(sid, 'CONFIRMED' if good else 'REJECTED', {k: v for k, v in r.items() if k not in ('patch_now',)})
    if good:
        ok += 1
        d = os.path.join(V, 'seeded', sid)
        os.makedirs(d, exist_ok=True)
        open(os.path.join(d, 'patch.diff'), 'w').write(r['patch_now'])
        c = [x for x in cands if sid_of(x) == sid][0]
        txt = re.sub(r'/tmp/mut_M\d+(?:_[A-Za-z0-9]+)?', '/repo', open(os.path.join(c, 'demo.py')).read())
        open(os.path.join(d, 'demo.py'), 'w').write(txt)
        if os.path.exists(os.path.join(c, 'notes.md')):
            shutil.copy(os.path.join(c, 'notes.md'), os.path.join(d, 'notes.md'))
        notes = open(os.path.join(c, 'notes.md')).read() if os.path.exists(os.path.join(c, 'notes.md')) else ''
        json.dump({'property': r['property'], 'kind': 'seeded by an independent sub-agent that saw only the property text',
                   'what': notes[:1500], 'needs_to_manifest': 'see notes.md',
                   'ran': 'scratch worktree of /repo HEAD: demo.py PASS without patch (exit %d), FAIL with patch (exit %d: %s); pinned pytest suite with patch: %s; failed tests: %s'
                          % (r['demo_without'][0], r['demo_with'][0], r['demo_with'][1], r.get('suite'), r.get('suite_failed')),
                   }, open(os.path.join(d, 'meta.json'), 'w'), indent=1)
print('confirmed', ok, 'of', len(out))
