#!/bin/bash
# soak: setup, then every check in the given tier for the given seeds; prints one summary line per run
tier=${1:-quick}; shift; seeds=${@:-1}
/venv/bin/python check.py --setup > /dev/null 2>&1 || echo "SETUP FAILED"
for s in $seeds; do
  for p in C01 C02 C03 C04 C05 C06 C07 C08 C09 C10 C11 C12 C13 C14 C15 C16 C17 C18 C19 C20; do
    out=$(VERIF_SEED=$s VERIF_EVIDENCE_DIR=$PWD/soak_evidence /venv/bin/python check.py $p --tier $tier 2>&1)
    rc=$?
    echo "seed=$s tier=$tier $p rc=$rc $(echo "$out" | grep 'done:' | tail -1 | sed 's/.*done://')"
    echo "$out" | grep -E 'VIOLATION|FAILING INPUT|BROKEN' | head -5
  done
done
