#!/usr/bin/env python3
"""Regenerate /verif/MANIFEST.json from vlib/registry.py (checks) and tools/not_applicable.json."""
import json, os, sys
HERE = os.path.dirname(os.path.dirname(os.path.abspath(__file__)))
sys.path.insert(0, HERE)
from vlib.registry import REG
props = [json.loads(l)['id'] for l in open(os.path.join(HERE, 'properties.jsonl'))]
na_reasons = {}
p = os.path.join(HERE, 'tools', 'not_applicable.json')
if os.path.exists(p):
    na_reasons = json.load(open(p))
checks = []
for pid in props:
    if pid not in REG:
        continue
    r = REG[pid]
    checks.append({
        'property_id': pid,
        'quick_cmd': f'/venv/bin/python /verif/check.py {pid} --tier quick',
        'thorough_cmd': f'/venv/bin/python /verif/check.py {pid} --tier thorough',
        'evidence_file': f'/verif/evidence/{pid}.json',
        'replay_cmd_template': f'/venv/bin/python /verif/check.py {pid} --replay {{path}}',
        'engine': 'coq+corr',
        'level_claimed': {'category': 'proof', 'text': r['text'], 'design_ref': r['design_ref']},
        'level_note': r['note'],
        'technique': r['technique'],
    })
m = {
    'version': 1,
    'setup_cmd': '/venv/bin/python /verif/check.py --setup',
    'hooks': {'guard': 'SKFEM_VERIF',
              'enable': 'no hooks are needed: all instrumentation (integrand turnstile, operand checksums, stub bases) lives in the harness under /verif/vlib',
              'baseline_off_cmd': 'cd /repo && /venv/bin/python -m pytest -ra -q -p no:cacheprovider --timeout=900 --continue-on-collection-errors',
              'source_commits': [], 'add_only': True},
    'engines': [{'name': 'coq+corr', 'path': '/verif/check.py', 'serves_properties': [c['property_id'] for c in checks],
                 'kind_free_text': 'Coq 8.16 theorems over models regenerated from /repo (ast translators, exact table/polynomial evaluation) or hand-written and corresponded with the implementation by vm_compute; Python harness for failing-input search'}],
    'checks': checks,
    'not_applicable': [{'property_id': p, 'reason': na_reasons.get(p, 'check not built yet (work in progress; DESIGN.md section 10 gives the build order)')}
                       for p in props if p not in REG],
    'notes': 'See DESIGN.md. Known findings: /verif/known_findings.txt. Seeded breakages used to validate the checks: /verif/seeded/.',
}
json.dump(m, open(os.path.join(HERE, 'MANIFEST.json'), 'w'), indent=1)
print('checks:', [c['property_id'] for c in checks])
