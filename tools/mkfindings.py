#!/usr/bin/env python3
"""Regenerate the table of DESIGN.md section 11.4 from known_findings.txt."""
import os, re
V = os.path.dirname(os.path.dirname(os.path.abspath(__file__)))
rows = []
for l in open(os.path.join(V, 'known_findings.txt')):
    l = l.strip()
    if l.startswith('fixed:'):
        m = re.match(r'fixed:\s+property=(\S+)\s+(\S+)\s+(\S+?):\s+(.*)$', l)
        pid, c, fid, txt = m.groups()
        rows.append(f"| {fid} | {pid} | fixed `{c}` | {txt} |")
    elif l.startswith('finding:'):
        m = re.match(r'finding:\s+property=(\S+)\s+key=(\S+)\s+(.*)$', l)
        pid, key, txt = m.groups()
        rows.append(f"| {txt.split(':')[0]} | {pid} | **finding** (key `{key}`) | {txt} |")
table = "| id | property | status | what failed |\n|---|---|---|---|\n" + '\n'.join(rows) + '\n'
p = os.path.join(V, 'DESIGN.md')
s = open(p).read()
a, b = '<!-- FINDINGS-BEGIN -->', '<!-- FINDINGS-END -->'
if a in s:
    s = s[:s.index(a) + len(a)] + '\n' + table + s[s.index(b):]
else:
    # first time: replace the static table
    i = s.index('| id | property | status | what failed |')
    j = s.index('\nReported by reviewers and deliberately left alone')
    s = s[:i] + a + '\n' + table + b + '\n' + s[j:]
open(p, 'w').write(s)
print(len(rows), 'rows')
