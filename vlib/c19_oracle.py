"""C19 — failing-input search / supporting validation on REAL meshes, elements and bases.

  local      Form.elemental(ub, vb).tolocal()[e][i][j] == entry (vb dof i of e, ub dof j of e) of the matrix assembled on
             the single cell e (row = test function; F10), fromlocal(tolocal) = id, tolocal(basis=FacetBasis) sums
  split      basis.interpolate(x) == stack of component.interpolate(x[split_indices]) for vector / composite bases,
             also for restricted bases (elements=, facets=, side=)
  block      A on the composite / vector basis, restricted by split_indices, == the matrix of the form with the other
             components zeroed, assembled on the component bases (and == Form.block, CompositeBasis, bmat)
  partition  asm(form, [basis on S_1, ..., basis on S_k]) == form.assemble(whole basis) for a partition of the cells
  dot/inv    COOData.dot == A @ x (with D), inverse() inverts every local matrix; for DG bases A^-1 = tocsr(inverse)
"""
import logging
import random
import warnings

import numpy as np

from . import c01_oracle as O1

TOL = 1e-11

VEC_ELEMS = {
    'tri': ['V3:ElementTriP2', 'V1:ElementTriP2', 'V4:ElementTriCCR', 'V3:ElementTriMini', 'V:ElementTriP1', 'V:ElementTriP2', 'V:ElementTriMini', 'V:ElementTriCCR', 'V:DG:ElementTriP1',
            'C:ElementTriP2+ElementTriP1', 'C:ElementTriP2+ElementTriP1+ElementTriP0', 'C:ElementTriMini+ElementTriP1',
            'C:ElementTriRT0+ElementTriP0', 'C:V:ElementTriP2+ElementTriP1', 'C:ElementTriP0+ElementTriCR+ElementTriP2',
            'C:ElementTriMorley+ElementTriP1', 'C:ElementTriN1+ElementTriP1'],
    'quad': ['V3:ElementQuad2', 'V1:ElementQuad2', 'V4:ElementQuad1', 'V:ElementQuad1', 'V:ElementQuad2', 'C:ElementQuad2+ElementQuad1+ElementQuad0', 'C:ElementQuadRT0+ElementQuad0',
             'C:V:ElementQuad2+ElementQuad1'],
    'tet': ['V2:ElementTetP2', 'V1:ElementTetP2', 'V4:ElementTetP1', 'V2:ElementTetCCR', 'V:ElementTetP1', 'V:ElementTetP2', 'C:ElementTetP2+ElementTetP1', 'C:ElementTetP2+ElementTetP1+ElementTetP0',
            'C:ElementTetRT0+ElementTetP0', 'C:ElementTetN0+ElementTetP1', 'C:ElementTetMini+ElementTetP1',
            'C:ElementTetCCR+ElementTetP0+ElementTetN0', 'C:V:ElementTetP2+ElementTetP1'],
    'hex': ['V2:ElementHex2', 'V:ElementHex1', 'C:ElementHex2+ElementHex1', 'C:ElementHexS2+ElementHex0+ElementHexRT1'],
    'line': ['C:ElementLineP2+ElementLineP1+ElementLineP0', 'C:ElementLineHermite+ElementLineP1', 'V:ElementLineP2', 'V3:ElementLineP2', 'V2:ElementLineMini'],
}
MESHES = ['tri-delaunay', 'tri-struct', 'tri2-curved', 'quad-jiggled', 'tet-delaunay', 'tet-struct', 'hex-jiggled', 'line-random']


def _rel(a, b):
    a, b = np.asarray(a), np.asarray(b)
    if a.shape != b.shape:
        return float('inf')
    s = max(float(np.abs(a).max(initial=0.0)), float(np.abs(b).max(initial=0.0)), 1e-300)
    return float(np.abs(a - b).max(initial=0.0)) / s


def _fields_equal(f, g):
    """max relative difference over all attributes of two DiscreteFields (None must match None)"""
    worst = 0.0
    for a, b in zip(f.astuple, g.astuple):
        if (a is None) != (b is None):
            return float('inf')
        if a is not None:
            worst = max(worst, _rel(a, b))
    return worst


# ---------------------------------------------------------------------------------------------- cases

def gen_case(rng):
    kind = rng.choice(['local', 'local', 'split', 'split', 'block', 'block', 'partition', 'dotinv', 'compbasis', 'asm-lists'])
    mesh = rng.choice(MESHES)
    fam = O1.FAMILY[mesh]
    d = {'check': kind, 'mesh': mesh, 'mseed': rng.randrange(10 ** 6), 'seed': rng.randrange(10 ** 6), 'intorder': rng.randint(2, 4),
         'tseed': rng.randrange(10 ** 6), 'nterms': rng.randint(1, 3)}
    if kind == 'local':
        el = O1.ELEMS[fam]
        d['eu'] = rng.choice(el)
        d['ev'] = d['eu'] if rng.random() < 0.3 else rng.choice(el)
        d['facet'] = rng.random() < 0.25 and fam != 'line'
    elif kind in ('split', 'block'):
        d['elem'] = rng.choice(VEC_ELEMS[fam])
        d['basis'] = rng.choice(['cell', 'cell', 'cell', 'cells', 'facet', 'facets', 'ifacet0', 'ifacet1']) if kind == 'split' else 'cell'
    elif kind == 'partition':
        el = O1.ELEMS[fam]
        d['eu'] = rng.choice(el)
        d['nparts'] = rng.randint(2, 3)
    elif kind == 'asm-lists':
        d['eu'] = rng.choice([e for e in O1.ELEMS[fam] if e not in ('ElementTriArgyris', 'ElementQuadBFS', 'ElementHex2')])
        d['nparts'] = rng.randint(2, 3)
    elif kind == 'dotinv':
        d['eu'] = rng.choice([e for e in O1.ELEMS[fam] if not e.startswith('C:')])
    elif kind == 'compbasis':
        el = [e for e in O1.ELEMS[fam] if not e.startswith('C:')]
        d['eu'] = rng.choice(el)
        d['ev'] = rng.choice(el)
        d['restricted'] = rng.random() < 0.4
    return d


def _restricted(desc, m, elem):
    from skfem.assembly import CellBasis, FacetBasis, InteriorFacetBasis
    rng = np.random.default_rng(desc['seed'] + 3)
    io, b = desc['intorder'], desc['basis']
    if b == 'cell':
        return CellBasis(m, elem, intorder=io)
    if b == 'cells':
        k = int(rng.integers(1, m.nelements))
        return CellBasis(m, elem, intorder=io, elements=np.sort(rng.permutation(m.nelements)[:k]))
    if b == 'facet':
        return FacetBasis(m, elem, intorder=io)
    if b == 'facets':
        bf = m.boundary_facets()
        return FacetBasis(m, elem, intorder=io, facets=rng.permutation(bf)[:max(1, len(bf) - 1)])
    return InteriorFacetBasis(m, elem, intorder=io, side=int(b[-1]))


def _terms(desc, ufields, vfields, facet=False, coefs=('one', 'x0', 'poly', 'h', 'scalar')):
    r = random.Random(desc['tseed'])
    uops = [O1.available_ops(f) for f in ufields]
    vops = [O1.available_ops(f) for f in vfields]
    terms = []
    for _ in range(desc['nterms']):
        fu, fv = r.randrange(len(uops)), r.randrange(len(vops))
        terms.append({'fu': fu, 'ou': r.choice(uops[fu]), 'fv': fv, 'ov': r.choice(vops[fv]), 'coef': r.choice(list(coefs)),
                      'cseed': r.randrange(10 ** 6)})
    return terms


def check_local(desc):
    from skfem.assembly import BilinearForm, CellBasis, FacetBasis
    m = O1.make_mesh(desc['mesh'], desc['mseed'])
    eu, ev = O1.make_elem(desc['eu']), O1.make_elem(desc['ev'])
    io = desc['intorder']
    ub, vb = CellBasis(m, eu, intorder=io), CellBasis(m, ev, intorder=io)
    terms = _terms(desc, ub.basis[0], vb.basis[0])
    f = O1.bilinear_integrand(terms, len(ub.basis[0]), False)
    form = BilinearForm(f)
    par = {'s': 1.5}
    coo = form.elemental(ub, vb, **dict(par))
    L = coo.tolocal()
    out = []
    info = {'terms': terms, 'Nbfun': (int(ub.Nbfun), int(vb.Nbfun)), 'nelems': int(ub.nelems)}
    if L.shape != (ub.nelems, vb.Nbfun, ub.Nbfun):
        out.append(('tolocal-shape', float('inf'), {'got': list(L.shape), 'expected': [ub.nelems, vb.Nbfun, ub.Nbfun]}))
        return out, info
    rng = np.random.default_rng(desc['seed'])
    for e in rng.permutation(ub.nelems)[:3]:
        e = int(e)
        ue, ve = CellBasis(m, eu, intorder=io, elements=[e]), CellBasis(m, ev, intorder=io, elements=[e])
        Ae = form.assemble(ue, ve, **dict(par)).toarray()
        exp = Ae[np.ix_(vb.element_dofs[:, e], ub.element_dofs[:, e])]
        r = _rel(L[e], exp)
        out.append(('tolocal', r, {'cell': e, 'expected_local_matrix': exp.tolist(), 'got_local_matrix': L[e].tolist()} if r > TOL else None))
    back = coo.fromlocal(L)
    out.append(('fromlocal-tolocal', 0.0 if np.array_equal(back.data, coo.data) else float('inf'), None))
    alias = 0.0
    for arr in (L, np.ascontiguousarray(L), np.asfortranarray(np.array(L))):
        r_ = coo.fromlocal(arr)
        if arr.size and (np.shares_memory(r_.data, arr) or np.shares_memory(r_.data, coo.data)):
            alias = float('inf')
    out.append(('fromlocal-aliases', alias, None))
    if desc.get('facet'):
        fu, fv = FacetBasis(m, eu, intorder=io), FacetBasis(m, ev, intorder=io)
        cf = BilinearForm(lambda *a: (2.0 - 1.0j) * f(*a), dtype=np.complex128).elemental(fu, fv, **dict(par))
        Lf = cf.tolocal()
        Ls = cf.tolocal(basis=fu)
        exp = np.zeros((m.nelements,) + Lf.shape[1:], dtype=Lf.dtype)
        for k, fct in enumerate(fu.find):
            exp[m.f2t[0, fct]] += Lf[k]
        out.append(('tolocal-facet-sum', _rel(Ls, exp), None))
    return out, info


def check_split(desc):
    m = O1.make_mesh(desc['mesh'], desc['mseed'])
    elem = O1.make_elem(desc['elem'])
    basis = _restricted(desc, m, elem)
    rng = np.random.default_rng(desc['seed'])
    x = rng.integers(-8, 9, size=basis.N) / 4.0
    whole = basis.interpolate(x)
    parts = basis.split(x)
    out = []
    info = {'N': int(basis.N), 'Nbfun': int(basis.Nbfun), 'nelems': int(basis.nelems), 'ncomp': len(parts)}
    # the split indices partition the DOFs
    from skfem.element import ElementVector as _EV, ElementComposite as _EC
    from skfem.assembly import Dofs as _Dofs
    comp_elems = ([elem.elem] * elem.dim if isinstance(elem, _EV) else list(elem.elems) if isinstance(elem, _EC) else [elem])
    Nexp = sum(int(_Dofs(m, ce).N) for ce in comp_elems)
    out.append(('N=sum-of-component-N', 0.0 if int(basis.N) == Nexp and len(parts) == len(comp_elems) else float('inf'),
                {'N': int(basis.N), 'expected': Nexp, 'components': len(parts)}))
    if basis.Nbfun != int(sum(elem._bfun_counts())):
        out.append(('Nbfun=bfun-counts', float('inf'), {'Nbfun': int(basis.Nbfun), 'expected': int(sum(elem._bfun_counts()))}))
    ix = np.concatenate(basis.split_indices())
    out.append(('split-indices-partition', 0.0 if np.array_equal(np.sort(ix), np.arange(basis.N)) else float('inf'), None))
    for k, (xs, b) in enumerate(parts):
        fk = b.interpolate(xs)
        if isinstance(whole, tuple):
            r = _fields_equal(whole[k], fk)
        else:                                   # ElementVector: component k of the vector field
            r = 0.0
            for a, c in zip(whole.astuple, fk.astuple):
                if (a is None) != (c is None):
                    r = float('inf')
                elif a is not None:
                    r = max(r, _rel(a[k], c))
        out.append(('interp-split', r, {'component': k, 'nelems_whole': int(basis.nelems), 'nelems_component': int(b.nelems)} if r > TOL else None))
    return out, info


def _inject(fields_shape_src, k, f):
    """tuple of fields, zero except slot k"""
    return tuple(f if j == k else z.zeros() for j, z in enumerate(fields_shape_src))


def check_block(desc):
    from skfem.assembly import BilinearForm, CellBasis
    from skfem.element import ElementVector, DiscreteField
    m = O1.make_mesh(desc['mesh'], desc['mseed'])
    elem = O1.make_elem(desc['elem'])
    C = CellBasis(m, elem, intorder=desc['intorder'])
    comps = C.split_bases()
    ix = C.split_indices()
    out = []
    vector = isinstance(elem, ElementVector)
    terms = _terms(desc, C.basis[0], C.basis[0])
    M = len(C.basis[0])
    f = O1.bilinear_integrand(terms, M, False)
    par = {'s': 0.5}
    A = BilinearForm(f).assemble(C, **dict(par)).toarray()
    info = {'terms': terms, 'N': int(C.N), 'ncomp': len(comps), 'Ncomp': [int(b.N) for b in comps]}
    scale = max(float(np.abs(A).max()), 1e-300)
    rng = np.random.default_rng(desc['seed'])
    pairs = [(a, b) for a in range(len(comps)) for b in range(len(comps))]
    for a, b in [pairs[i] for i in rng.permutation(len(pairs))[:4]]:
        Ba, Bb = comps[a], comps[b]
        if vector:
            dim = elem.dim

            def inj(fld, k):
                return DiscreteField(*[None if c is None else _vec_slot(c, k, dim) for c in fld.astuple])

            def fab(u, v, w, a=a, b=b):
                return f(inj(u, b), inj(v, a), w)
        else:
            z = [bb.basis[0][0] for bb in comps]

            def fab(u, v, w, a=a, b=b):
                return f(*_inject(z, b, u), *_inject(z, a, v), w)
        Aab = BilinearForm(fab).assemble(Bb, Ba, **dict(par)).toarray()
        sub = A[np.ix_(ix[a], ix[b])]
        r = float(np.abs(sub - Aab).max(initial=0.0)) / scale if sub.shape == Aab.shape else float('inf')
        out.append(('block', r, {'test_component': a, 'trial_component': b} if r > TOL else None))
    # Form.block on an explicit-arity coupling form (composite only, two or three components)
    if not vector and M in (2, 3):
        if M == 2:
            def g(u1, u2, v1, v2, w):
                return f(u1, u2, v1, v2, w)
        else:
            def g(u1, u2, u3, v1, v2, v3, w):
                return f(u1, u2, u3, v1, v2, v3, w)
        if len({_sig(bb.basis[0][0]) for bb in comps}) == 1:      # Form.block pads with zeros of the SAME field
            a, b = pairs[int(rng.integers(len(pairs)))]
            Ab = BilinearForm(g).block(b, a).assemble(comps[b], comps[a], **dict(par)).toarray()
            sub = A[np.ix_(ix[a], ix[b])]
            out.append(('Form.block', float(np.abs(sub - Ab).max(initial=0.0)) / scale, {'test_component': a, 'trial_component': b}))
    return out, info


def _sig(f):
    """tensor order and set of available attributes of a DiscreteField"""
    return (np.array(f).ndim, tuple(a is not None for a in f.astuple))


def _vec_slot(c, k, dim):
    tmp = np.zeros((dim,) + c.shape)
    tmp[k] = c
    return tmp


def check_partition(desc):
    from skfem.assembly import BilinearForm, LinearForm, CellBasis, asm
    m = O1.make_mesh(desc['mesh'], desc['mseed'])
    e = O1.make_elem(desc['eu'])
    io = desc['intorder']
    B = CellBasis(m, e, intorder=io)
    terms = _terms(desc, B.basis[0], B.basis[0])
    f = O1.bilinear_integrand(terms, len(B.basis[0]), False)
    g = O1.linear_integrand(terms, False)
    rng = np.random.default_rng(desc['seed'])
    lab = rng.integers(0, desc['nparts'], size=m.nelements)
    parts = [np.nonzero(lab == k)[0] for k in range(desc['nparts'])]
    parts = [p for p in parts if len(p)]
    bases = [CellBasis(m, e, intorder=io, elements=p) for p in parts]
    par = {'s': 2.0}
    A = BilinearForm(f).assemble(B, **dict(par)).toarray()
    S = asm(BilinearForm(f), bases, **dict(par)).toarray()
    b = LinearForm(g).assemble(B, **dict(par))
    s = asm(LinearForm(g), bases, **dict(par))
    info = {'terms': terms, 'parts': [len(p) for p in parts], 'N': int(B.N)}
    return [('asm-partition-matrix', _rel(S, A), None), ('asm-partition-vector', _rel(s, b), None)], info


def check_dotinv(desc):
    from skfem.assembly import BilinearForm, CellBasis
    from skfem.element import ElementDG
    m = O1.make_mesh(desc['mesh'], desc['mseed'])
    e = O1.make_elem(desc['eu'])
    B = CellBasis(m, e, intorder=max(desc['intorder'], 2 * e.maxdeg))

    def mass(*args):
        k = (len(args) - 1) // 2
        out = 0.
        for a, b in zip(args[:k], args[k:-1]):
            A, Bf = np.array(a), np.array(b)
            out = out + (A.reshape((-1,) + A.shape[-2:]) * Bf.reshape((-1,) + Bf.shape[-2:])).sum(0)
        return out
    coo = BilinearForm(mass).elemental(B)
    A = coo.tocsr()
    rng = np.random.default_rng(desc['seed'])
    x = rng.integers(-8, 9, size=B.N) / 4.0
    D = np.sort(rng.permutation(B.N)[:int(rng.integers(0, 3))])
    z = coo.dot(x, D=D if len(D) else None)
    ref = A @ x
    ref[D] = x[D]
    out = [('dot', _rel(z, ref), None)]
    info = {'N': int(B.N), 'Nbfun': int(B.Nbfun)}
    # complex data, real vector, rectangular (trial basis B, test basis B2): nothing may be lost, one entry per row
    cooc = BilinearForm(lambda *a: (1.0 + 2.0j) * mass(*a), dtype=np.complex128).elemental(B)
    zc = cooc.dot(x)
    out.append(('dot-complex', _rel(zc, cooc.tocsr() @ x), None))
    if desc['eu'].startswith('DG:') or e.interior_dofs == B.Nbfun:
        inv = coo.inverse()
        out.append(('inverse-aliases', 1.0 if np.shares_memory(inv.data, coo.data) else 0.0, None))
        Li, L = inv.tolocal(), coo.tolocal()
        err = max(float(np.abs(Li[k] @ L[k] - np.eye(L.shape[1])).max()) for k in range(L.shape[0]))
        out.append(('inverse-local', err if err > 1e-7 else 0.0, None))
        P = (inv.tocsr() @ A).toarray()
        err = float(np.abs(P - np.eye(B.N)).max())
        out.append(('inverse-global', err if err > 1e-7 else 0.0, None))
        info['inverse'] = True
    return out, info


def check_compbasis(desc):
    from skfem.assembly import BilinearForm, CellBasis
    from skfem.utils import bmat
    m = O1.make_mesh(desc['mesh'], desc['mseed'])
    e1, e2 = O1.make_elem(desc['eu']), O1.make_elem(desc['ev'])
    io = desc['intorder']
    b1, b2 = CellBasis(m, e1, intorder=io), CellBasis(m, e2, intorder=io)
    pre = []
    rng0 = np.random.default_rng(desc['seed'] + 5)
    if m.nelements >= 2:
        S = np.sort(rng0.permutation(m.nelements)[:int(rng0.integers(1, m.nelements))])
        s1, s2 = CellBasis(m, e1, intorder=io, elements=S), CellBasis(m, e2, intorder=io, elements=S)
        for a, b, lab in ((s1, b2, 'restricted*whole'), (b1, s2, 'whole*restricted')):
            try:
                a * b
                pre.append(('compositebasis-element-count', float('inf'),
                            {'combination': lab, 'nelems': [int(a.nelems), int(b.nelems)], 'observed': 'no error',
                             'expected': 'ValueError: Each Basis must have the same number of elements.'}))
            except ValueError as ex:
                pre.append(('compositebasis-element-count', 0.0 if 'number of elements' in str(ex) else float('inf'),
                            {'combination': lab, 'observed': str(ex)}))
        if desc.get('restricted'):
            b1, b2 = s1, s2                      # equal restrictions combine, and assemble to the component blocks
    cb = b1 * b2
    z = [b1.basis[0][0], b2.basis[0][0]]
    terms = _terms(desc, z, z)
    f = O1.bilinear_integrand(terms, 2, False)
    par = {'s': 0.5}
    try:
        A = BilinearForm(f).assemble(cb, **dict(par)).toarray()
    except Exception as e:
        if _sig(z[0]) != _sig(z[1]):
            # CompositeBasis.basis pads the other slots with zeros of the WRONG component
            return pre + [('compositebasis-mixed', float('inf'), {'exception': f'{type(e).__name__}: {e}'[:300],
                                                            'signatures': [str(_sig(z[0])), str(_sig(z[1]))]})], {'terms': terms}
        raise
    comps = [b1, b2]
    blocks = [[None, None], [None, None]]
    for a in range(2):
        for b in range(2):
            def fab(u, v, w, a=a, b=b):
                return f(*_inject(z, b, u), *_inject(z, a, v), w)
            blocks[a][b] = BilinearForm(fab).assemble(comps[b], comps[a], **dict(par))
    K = bmat(blocks, 'csr')
    rng = np.random.default_rng(desc['seed'])
    x = rng.integers(-8, 9, size=cb.N) / 4.0
    whole = cb.interpolate(x)
    r = 0.0
    for (xs, b), w in zip(cb.split(x), whole):
        r = max(r, _fields_equal(w, b.interpolate(xs)))
    # the same form on the equivalent ElementComposite basis: equal up to the permutation given by split_indices
    from skfem.element import ElementComposite
    perm_err = 0.0
    if not desc.get('restricted'):
        ec = CellBasis(m, ElementComposite(e1, e2), intorder=io)
        Aec = BilinearForm(f).assemble(ec, **dict(par)).toarray()
        perm = np.concatenate(ec.split_indices())
        perm_err = _rel(Aec[np.ix_(perm, perm)], A)
    # shared DOFs (the @ operator, equal_dofnum): interpolate / split use the same vector for every component, and the
    # matrix is the sum of the component blocks
    eq_checks = []
    if not desc.get('restricted'):
        b1b = CellBasis(m, e1, intorder=io)
        cbe = b1 @ b1b
        xe = rng.integers(-8, 9, size=b1.N) / 4.0
        we = cbe.interpolate(xe)
        re_ = max(_fields_equal(we[0], b1.interpolate(xe)), _fields_equal(we[1], b1b.interpolate(xe)))
        sp = cbe.split(xe)
        ok = len(sp) == 2 and all(np.array_equal(xs, xe) for xs, _ in sp) and int(cbe.N) == int(b1.N)
        ze = [b1.basis[0][0], b1b.basis[0][0]]
        te = _terms(dict(desc, tseed=desc['tseed'] + 7), ze, ze)
        fe = O1.bilinear_integrand(te, 2, False)
        Ae = BilinearForm(fe).assemble(cbe, **dict(par)).toarray()
        Se = 0.
        for a in range(2):
            for b in range(2):
                def feab(u, v, w, a=a, b=b):
                    return fe(*_inject(ze, b, u), *_inject(ze, a, v), w)
                Se = Se + BilinearForm(feab).assemble(b1, b1b, **dict(par)).toarray()
        eq_checks = [('compositebasis-equal-dofnum-interp', re_ if ok else float('inf'), None),
                     ('compositebasis-equal-dofnum-matrix', _rel(Ae, Se), None)]
    out = pre + eq_checks + [('compositebasis-blocks', _rel(A, K.toarray()), None), ('compositebasis-interp', r, None),
                 ('compositebasis=elementcomposite-permuted', perm_err, None),
           ('bmat-blocks', 0.0 if list(K.blocks) == [b1.N] else float('inf'), {'got': list(map(int, K.blocks)), 'expected': [int(b1.N)]})]
    return out, {'terms': terms, 'N': [int(b1.N), int(b2.N)]}


def check_compbasis_many(desc):
    """CompositeBasis of three or four bases: offsets of element_dofs, interpolation, and the matrix as bmat of the blocks"""
    from skfem.assembly import BilinearForm, CellBasis
    from skfem.assembly.basis.composite_basis import CompositeBasis
    from skfem.utils import bmat
    m = O1.make_mesh(desc['mesh'], desc['mseed'])
    io = desc['intorder']
    bases = [CellBasis(m, O1.make_elem(sp), intorder=io) for sp in desc['elems']]
    cb = CompositeBasis(*bases)
    Mn = len(bases)
    offs = np.concatenate(([0], np.cumsum([b.N for b in bases])))
    ref = np.vstack([b.element_dofs + offs[k] for k, b in enumerate(bases)])
    out = [('compositebasis-offsets', 0.0 if np.array_equal(cb.element_dofs, ref) and int(cb.N) == int(offs[-1]) else float('inf'),
            {'N': [int(b.N) for b in bases]})]
    z = [b.basis[0][0] for b in bases]
    terms = _terms(desc, z, z)
    f = O1.bilinear_integrand(terms, Mn, False)
    par = {'s': 0.5}
    A = BilinearForm(f).assemble(cb, **dict(par)).toarray()
    blocks = [[None] * Mn for _ in range(Mn)]
    for a in range(Mn):
        for b in range(Mn):
            def fab(u, v, w, a=a, b=b):
                return f(*_inject(z, b, u), *_inject(z, a, v), w)
            blocks[a][b] = BilinearForm(fab).assemble(bases[b], bases[a], **dict(par))
    K = bmat(blocks, 'csr')
    out.append(('compositebasis-blocks', _rel(A, K.toarray()), None))
    out.append(('bmat-blocks', 0.0 if list(K.blocks) == [int(x) for x in offs[1:-1]] else float('inf'), None))
    rng = np.random.default_rng(desc['seed'])
    x = rng.integers(-8, 9, size=cb.N) / 4.0
    r = 0.0
    for (xs, b), w in zip(cb.split(x), cb.interpolate(x)):
        r = max(r, _fields_equal(w, b.interpolate(xs)))
    out.append(('compositebasis-interp', r, None))
    return out, {'terms': terms, 'N': [int(b.N) for b in bases]}


def check_asm_lists(desc):
    """asm over LISTS of bases with a keyword DOF vector (interpolated per basis) and with w.idx / helpers.jump:
    (a) cell partition into equally many cells: asm(form, [b1, b2, ..], p=x) == sum_i form.assemble(b_i, p=x);
    (b) [side-0, side-1] interior facet bases for trial and test: asm(form, [f0, f1], [f0, f1], p=x) with the integrand
        [u] {v} c(p) written with jump(w, u, v) == sum_ij (-1)^i 1/2 assemble(u v c(p); f_i (trial), f_j (test))"""
    from skfem.assembly import BilinearForm, LinearForm, CellBasis, InteriorFacetBasis, asm
    from skfem.helpers import jump
    m = O1.make_mesh(desc['mesh'], desc['mseed'])
    e = O1.make_elem(desc['eu'])
    io = desc['intorder']
    rng = np.random.default_rng(desc['seed'])
    B = CellBasis(m, e, intorder=io)
    x = rng.integers(-8, 9, size=B.N) / 4.0

    def val(f):
        f = f[0] if isinstance(f, tuple) else f
        a = np.array(f)
        return a.reshape((-1,) + a.shape[-2:]).sum(0)

    def mass(*args):                       # sum over fields and components of u v, times (1 + p^2)
        w = args[-1]
        k = (len(args) - 1) // 2
        c = 1.0 + val(w['p']) ** 2
        return sum(val(a) * val(b) for a, b in zip(args[:k], args[k:-1])) * c

    def load(*args):
        w = args[-1]
        return sum(val(a) for a in args[:-1]) * (0.5 + val(w['p']))
    out = []
    nparts = desc['nparts']
    k = m.nelements // nparts
    info = {'N': int(B.N), 'nparts': nparts, 'cells_each': int(k)}
    if k >= 1:
        perm = rng.permutation(m.nelements)
        parts = [np.sort(perm[i * k:(i + 1) * k]) for i in range(nparts)]
        bases = [CellBasis(m, e, intorder=io, elements=p_) for p_ in parts]
        S = asm(BilinearForm(mass), bases, p=x).toarray()
        R = sum(BilinearForm(mass).assemble(b, p=x) for b in bases).toarray()
        out.append(('asm-lists-vector-param-matrix', _rel(S, R), None))
        s_ = asm(LinearForm(load), bases, p=x)
        r_ = sum(LinearForm(load).assemble(b, p=x) for b in bases)
        out.append(('asm-lists-vector-param-vector', _rel(s_, r_), None))
    if m.dim() >= 1 and (m.f2t[1] != -1).any():
        fb = [InteriorFacetBasis(m, e, intorder=io, side=sd) for sd in (0, 1)]

        def dval(f):                       # first gradient component where there is one, the value otherwise
            f = f[0] if isinstance(f, tuple) else f
            g = f.grad if getattr(f, 'grad', None) is not None else np.array(f)
            return g.reshape((-1,) + g.shape[-2:])[0]

        def gradmass(*args):
            w = args[-1]
            kk = (len(args) - 1) // 2
            return sum(dval(a) * val(b) for a, b in zip(args[:kk], args[kk:-1])) * (1.0 + val(w['p']) ** 2)

        def sipg(*args):                   # [u] {v} c(p) + {du} [v] c(p): asymmetric in (u, v), jump through helpers.jump
            w = args[-1]
            kk = (len(args) - 1) // 2
            c = 1.0 + val(w['p']) ** 2
            tot = 0.
            for a, b in zip(args[:kk], args[kk:-1]):
                ju, jv = jump(w, val(a), val(b))
                tot = tot + ju * 0.5 * val(b) + dval(a) * 0.5 * jv
            return tot * c
        S = asm(BilinearForm(sipg), fb, fb, p=x).toarray()
        R, mag = 0., 0.
        for i in (0, 1):
            for j in (0, 1):
                Bm = BilinearForm(mass).assemble(fb[i], fb[j], p=x).toarray()
                Bg = BilinearForm(gradmass).assemble(fb[i], fb[j], p=x).toarray()
                R = R + (-1.0) ** i * 0.5 * Bm + (-1.0) ** j * 0.5 * Bg
                mag += float(np.abs(Bm).max(initial=0.0)) + float(np.abs(Bg).max(initial=0.0))
        err = float(np.abs(S - R).max(initial=0.0)) / (mag + 1e-300) if S.shape == np.shape(R) else float('inf')
        out.append(('asm-idx-jump', err, {'convention': 'w.idx = (index in the trial list, index in the test list)'}))
    return out, info


CHECKS = {'local': check_local, 'split': check_split, 'block': check_block, 'partition': check_partition,
          'dotinv': check_dotinv, 'compbasis': check_compbasis, 'compbasis-many': check_compbasis_many, 'asm-lists': check_asm_lists}


def _key(desc, name):
    if name == 'tolocal':
        return 'tolocal:local-matrix!=cell-block'
    if name.startswith('compositebasis-equal-dofnum'):
        return 'compositebasis:equal-dofnum'
    if name in ('dot-complex', 'tolocal-facet-sum'):
        return f'coo:{name}'
    if name in ('fromlocal-aliases', 'inverse-aliases'):
        return 'coo:fromlocal-aliases-input' if name == 'fromlocal-aliases' else 'coo:inverse-aliases'
    if name.startswith('asm-lists-vector-param'):
        return 'asm:vector-parameter-over-basis-lists'
    if name == 'asm-idx-jump':
        return 'asm:idx-order'
    if name == 'compositebasis-offsets':
        return 'compositebasis:offsets'
    if name == 'compositebasis-element-count':
        return 'compositebasis:accepts-different-element-counts'
    if name in ('N=sum-of-component-N', 'Nbfun=bfun-counts'):
        return f'dofs-count:{desc.get("elem", "?")}'
    if name == 'compositebasis-mixed':
        return 'compositebasis:zero-placeholder-of-wrong-component'
    if name == 'interp-split':
        b = desc.get('basis', 'cell')
        if b in ('ifacet1',):
            return 'split-bases:drops-restriction:side'
        if b in ('cells', 'facets'):
            return 'split-bases:drops-restriction:subset'
    return f'real:{name}:{O1.FAMILY[desc["mesh"]]}'


def _nontrivial(desc, info):
    if desc['check'] == 'local':
        return info['Nbfun'][0] != info['Nbfun'][1] or info['Nbfun'][0] >= 2
    if desc['check'] in ('split', 'block'):
        return info.get('ncomp', 0) >= 2
    return True


def fixed_cases():
    """run on every tier: vector elements whose component count differs from the spatial dimension (facet / edge /
    interior DOFs), and CompositeBasis with restricted bases"""
    out = []
    k = 0
    for mesh, elem in (('tri-struct', 'V3:ElementTriP2'), ('tri-delaunay', 'V1:ElementTriP2'), ('quad-jiggled', 'V4:ElementQuad2'),
                       ('quad-jiggled', 'V3:ElementQuad2'), ('tet-struct', 'V2:ElementTetP2'), ('tet-delaunay', 'V1:ElementTetCCR'),
                       ('hex-jiggled', 'V2:ElementHex2'), ('line-random', 'V3:ElementLineP2'), ('tri-struct', 'V3:ElementTriCCR')):
        for check in ('split', 'block'):
            k += 1
            out.append({'check': check, 'mesh': mesh, 'mseed': 1000 + k, 'seed': 2000 + k, 'intorder': 3, 'tseed': 3000 + k,
                        'nterms': 2, 'elem': elem, 'basis': 'cell'})
    # vector elements whose scalar element has two or more interior DOFs per cell (split_indices must list them cell-major)
    for mesh, elem in (('tri-struct', 'V:ElementTriP4'), ('tri-delaunay', 'V:DG:ElementTriP2'), ('quad-jiggled', 'V:ElementQuadP(3)'),
                       ('tet-struct', 'V:DG:ElementTetP1'), ('hex-jiggled', 'V2:DG:ElementHex1'), ('line-random', 'V2:ElementLinePp(3)')):
        for check in ('split', 'block'):
            k += 1
            out.append({'check': check, 'mesh': mesh, 'mseed': 1000 + k, 'seed': 2000 + k, 'intorder': 3, 'tseed': 3000 + k,
                        'nterms': 1, 'elem': elem, 'basis': 'cell'})
    for mesh, elem, basis in (('tri-struct', 'V:ElementTriP1', 'ifacet1'), ('quad-jiggled', 'C:ElementQuad2+ElementQuad1+ElementQuad0', 'cells'),
                              ('tet-struct', 'C:ElementTetP2+ElementTetP1', 'facets'), ('tri-delaunay', 'C:ElementTriP2+ElementTriP1', 'ifacet1')):
        k += 1
        out.append({'check': 'split', 'mesh': mesh, 'mseed': 1000 + k, 'seed': 2000 + k, 'intorder': 3, 'tseed': 3000 + k, 'nterms': 1,
                    'elem': elem, 'basis': basis})
    for mesh, eu, ev in (('tri-struct', 'ElementTriP2', 'ElementTriP1'), ('tet-struct', 'ElementTetP1', 'ElementTetP2'), ('quad-jiggled', 'ElementQuad2', 'ElementQuad2')):
        k += 1
        out.append({'check': 'local', 'mesh': mesh, 'mseed': 1000 + k, 'seed': 2000 + k, 'intorder': 3, 'tseed': 3000 + k, 'nterms': 2,
                    'eu': eu, 'ev': ev, 'facet': mesh != 'tet-struct'})
    for mesh, eu, ev, restricted in (('tri-struct', 'V:ElementTriP1', 'ElementTriP1', False), ('tri-struct', 'ElementTriP1', 'ElementTriMorley', False),
                                     ('tri-struct', 'ElementTriP2', 'ElementTriP1', True), ('tet-struct', 'ElementTetP1', 'ElementTetP2', False),
                                     ('quad-jiggled', 'ElementQuad1', 'ElementQuad2', True)):
        k += 1
        out.append({'check': 'compbasis', 'mesh': mesh, 'mseed': 1000 + k, 'seed': 2000 + k, 'intorder': 3, 'tseed': 3000 + k,
                    'nterms': 2, 'eu': eu, 'ev': ev, 'restricted': restricted})
    for mesh, eu, nparts in (('tri-struct', 'ElementTriP2', 2), ('quad-jiggled', 'ElementQuad1', 2), ('tet-struct', 'ElementTetP1', 3),
                             ('tri-delaunay', 'DG:ElementTriP1', 2)):
        k += 1
        out.append({'check': 'asm-lists', 'mesh': mesh, 'mseed': 1000 + k, 'seed': 2000 + k, 'intorder': 3, 'tseed': 3000 + k,
                    'nterms': 1, 'eu': eu, 'nparts': nparts})
    for mesh, elems in (('tri-struct', ['ElementTriP2', 'ElementTriP1', 'ElementTriP0']),
                        ('quad-jiggled', ['ElementQuad1', 'ElementQuad2', 'ElementQuad0', 'ElementQuad1']),
                        ('tet-struct', ['ElementTetP1', 'ElementTetP0', 'ElementTetP2'])):
        k += 1
        out.append({'check': 'compbasis-many', 'mesh': mesh, 'mseed': 1000 + k, 'seed': 2000 + k, 'intorder': 3, 'tseed': 3000 + k,
                    'nterms': 2, 'elems': elems})
    return out


def run(ctx):
    logging.getLogger('skfem').setLevel(logging.ERROR)
    warnings.simplefilter('ignore')
    rng = ctx.rng
    fixed = fixed_cases()
    n = ctx.n(110, 1600)
    worst = 0.0
    for c in range(n + len(fixed)):
        desc = fixed[c] if c < len(fixed) else gen_case(rng)
        try:
            res, info = CHECKS[desc['check']](desc)
        except Exception as e:  # an exception of the implementation on a valid input is a failing input
            import traceback
            ctx.fail(f"real:{desc['check']}:exception:{O1.FAMILY[desc['mesh']]}", f'{type(e).__name__}: {e}',
                     {'oracle_case': desc, 'traceback': traceback.format_exc()[-1500:]})
            continue
        ctx.count(desc, nontrivial=_nontrivial(desc, info))
        ctx.hist('check', desc['check'])
        ctx.hist('mesh', desc['mesh'])
        for k in ('eu', 'ev', 'elem'):
            if k in desc:
                ctx.hist('element', desc[k])
        if 'basis' in desc:
            ctx.hist('basis kind', desc['basis'])
        if c < 4:
            ctx.sample({'kind': 'oracle case', 'desc': desc, 'info': info, 'checks': [(a, float(b)) for a, b, _ in res]})
        for name, err, extra in res:
            if np.isfinite(err):
                worst = max(worst, err)
            if not (err <= TOL):
                ctx.fail(_key(desc, name), f'{name}: relative discrepancy {err:.3e} (tolerance {TOL:g})',
                         {'oracle_case': desc, 'info': info, 'check': name, 'error': float(err), 'detail': extra})
    ctx.extra['oracle'] = {'cases': n + len(fixed), 'fixed_cases': len(fixed), 'max_relative_discrepancy_of_passing_checks': worst, 'tolerance': TOL}
    ctx.log(f'oracle: {n + len(fixed)} real-basis cases, max relative discrepancy {worst:.2e} (tolerance {TOL:g})')


def replay(ctx, inp):
    logging.getLogger('skfem').setLevel(logging.ERROR)
    warnings.simplefilter('ignore')
    desc = inp['oracle_case']
    try:
        res, info = CHECKS[desc['check']](desc)
    except Exception as e:  # an exception of the implementation on a valid input is the failing input
        ctx.fail(f"replay:real:{desc['check']}:exception", f'{type(e).__name__}: {e}', {'oracle_case': desc})
        return
    for name, err, extra in res:
        ctx.log(f'replay {name}: discrepancy {err:.3e}')
        if not (err <= TOL):
            ctx.fail('replay:' + _key(desc, name), f'{name}: relative discrepancy {err:.3e}', {'oracle_case': desc, 'info': info, 'detail': extra})
