"""C09 generator: exact polynomials of every concrete element class of skfem.element -> Gen/C09_Elements.v.

T1 tie (DESIGN.md section 3): the REAL ``lbasis`` is executed on symbolic coordinates (vlib/c09_sym.py);
class attributes (doflocs, refdom tables) are read from the imported classes; nothing is cached.
"""
import inspect
from fractions import Fraction as Fr

import numpy as np

from .core import TranslateError, cq
from .c09_sym import NonRational, Poly, SymbolicError, nbfun, rat, run_lbasis, shape_of

# classes the symbolic executor cannot handle: excluded BY NAME (oracle only); anything else that fails
# to translate is a broken tie
EXCLUDED = {
    'ElementTriSkeletonP0': 'piecewise: lbasis multiplies by RefTri.on_facet (comparisons on coordinates)',
    'ElementTriSkeletonP1': 'piecewise: lbasis multiplies by RefTri.on_facet (comparisons on coordinates)',
    'ElementTetSkeletonP0': 'piecewise: lbasis multiplies by RefTet.on_facet (comparisons on coordinates)',
    'ElementHexSkeleton0': 'piecewise: lbasis multiplies by RefHex.on_facet (comparisons on coordinates)',
    'ElementTriBDM1': 'coefficients in Q(sqrt 3): not in the rational tie; handled by the Q(sqrt 3) path (s = sqrt 3 as indeterminate reduced with s^2 = 3)',
    'ElementLinePp': 'parametrised; not in the exact tie (numpy Legendre objects, sqrt scales): handled for p<=5 by the Legendre-family path (formal scales, snapped coefficients)',
    'ElementQuadP': 'parametrised; not in the exact tie (numpy Legendre objects, sqrt scales): handled for p<=5 by the Legendre-family path (formal scales, snapped coefficients)',
}
# classes that are not elements with an lbasis of their own
STRUCTURAL = {
    'Element': 'abstract base', 'ElementH1': 'abstract base', 'ElementHdiv': 'abstract base',
    'ElementHcurl': 'abstract base', 'ElementGlobal': 'abstract base',
    'ElementVector': 'wrapper (delegates to the wrapped element)', 'ElementDG': 'wrapper (delegates to the wrapped element)',
    'ElementComposite': 'wrapper (delegates to the wrapped elements)',
}


def discover():
    """every Element class exported by skfem.element, classified.  Returns list of dicts
    (name, cls, status in {'concrete','global','excluded','structural','alias'}, note)"""
    import skfem.element as E
    out, seen = [], {}
    for name in E.__all__:
        obj = getattr(E, name, None)
        if obj is None:
            raise TranslateError(f'skfem.element.__all__ lists {name} which does not exist')
        if not inspect.isclass(obj) or not issubclass(obj, E.Element):
            continue
        if obj in seen:
            out.append({'name': name, 'cls': obj, 'status': 'alias', 'note': seen[obj]})
            continue
        seen[obj] = obj.__name__
        cname = obj.__name__
        if cname in STRUCTURAL:
            out.append({'name': cname, 'cls': obj, 'status': 'structural', 'note': STRUCTURAL[cname]})
        elif cname in EXCLUDED:
            out.append({'name': cname, 'cls': obj, 'status': 'excluded', 'note': EXCLUDED[cname]})
        elif issubclass(obj, E.ElementGlobal):
            out.append({'name': cname, 'cls': obj, 'status': 'global', 'note': 'ElementGlobal family: derivative tables translated, '
                        'basis = numerical inverse Vandermonde (oracle)'})
        else:
            out.append({'name': cname, 'cls': obj, 'status': 'concrete', 'note': ''})
    return out


def family(e):
    import skfem.element as E
    from skfem.element.element_matrix import ElementMatrix
    if isinstance(e, ElementMatrix):
        return 'matrix'
    if isinstance(e, E.ElementHdiv):
        return 'hdiv'
    if isinstance(e, E.ElementHcurl):
        return 'hcurl'
    if isinstance(e, E.ElementH1):
        return 'h1'
    raise TranslateError(f'{type(e).__name__}: unknown element family (not H1/Hdiv/Hcurl/Matrix)')


class Translated:
    """exact polynomials of one element"""

    def __init__(self, name, elem):
        self.name, self.elem = name, elem
        self.dim = elem.refdom.dim()
        self.family = family(elem)
        try:
            raw = run_lbasis(elem)
        except (SymbolicError, NonRational) as ex:
            raise TranslateError(f'{name}: symbolic execution of lbasis failed: {ex}')
        except Exception as ex:  # noqa  — any other exception inside lbasis on symbolic input: fail closed
            raise TranslateError(f'{name}: lbasis raised {type(ex).__name__}: {ex}')
        d = self.dim
        want = {'h1': ((), (d,)), 'hdiv': ((d,), ()), 'hcurl': ((d,), () if d == 2 else (d,)), 'matrix': ((d, d), None)}[self.family]
        self.basis = []
        for i, tup in enumerate(raw):
            if len(tup) != 2:
                raise TranslateError(f'{name}: lbasis({i}) returned {len(tup)} fields')
            shp = tuple(shape_of(f) for f in tup)
            if shp != want:
                raise TranslateError(f'{name}: lbasis({i}) returned shapes {shp}, expected {want} for family {self.family}')
            self.basis.append(tup)
        # doflocs: rows with nan are "no location" (None)
        locs = np.asarray(elem.doflocs)
        if locs.shape != (len(self.basis), d):
            raise TranslateError(f'{name}: doflocs shape {locs.shape}, expected {(len(self.basis), d)}')
        self.doflocs = []
        for row in locs:
            if np.all(np.isfinite(row)):
                try:
                    self.doflocs.append([rat(v) for v in row])
                except NonRational as ex:
                    raise TranslateError(f'{name}: doflocs {row}: {ex}')
            else:
                self.doflocs.append(None)

    def values(self):
        return [b[0] for b in self.basis]


PMAX_LEGENDRE = 5     # bound of the symbolic treatment of ElementLinePp(p) / ElementQuadP(p) (stated in the theorems' comments)


class TranslatedPP:
    """ElementLinePp(p) / ElementQuadP(p): exact polynomials in the coordinates AND the formal scales
    c_n = sqrt((2n-1)/2) (vlib/c09_pp.py).  NumPy's float Legendre coefficients are snapped to rationals (<= 4e-16)."""

    def __init__(self, cls, p):
        from . import c09_pp
        self.label = f'{cls.__name__}({p})'
        self.name = f'{cls.__name__}_{p}'
        self.p = p
        try:
            self.dim, self.nv, basis, scales, self.elem = c09_pp.run(cls, p)
        except (SymbolicError, NonRational) as ex:
            raise TranslateError(f'{self.label}: symbolic execution failed: {ex}')
        except Exception as ex:  # noqa
            raise TranslateError(f'{self.label}: lbasis raised {type(ex).__name__}: {ex}')
        self.family = 'h1'
        self.src_group = 'C09_P_' + cls.__name__
        self.c03_group = 'C03_T_Legendre'
        self.factory = (lambda c=cls, q=p: c(q))
        self.scales = scales          # {argument of sqrt: variable index}
        d = self.dim
        self.basis = []
        for i, tup in enumerate(basis):
            shp = tuple(shape_of(f) for f in tup)
            if shp != ((), (d,)):
                raise TranslateError(f'{self.label}: lbasis({i}) returned shapes {shp}')
            self.basis.append(tup)
        locs = np.asarray(self.elem.doflocs)
        if locs.shape != (len(self.basis), d):
            raise TranslateError(f'{self.label}: doflocs shape {locs.shape}')
        self.doflocs = [[rat(v) for v in row] if np.all(np.isfinite(row)) else None for row in locs]

    def values(self):
        return [b[0] for b in self.basis]


class TranslatedBDM1:
    """ElementTriBDM1: exact polynomials in x, y and the indeterminate s = sqrt(3) (arithmetic in Q(s)/(s^2-3) while the
    real lbasis runs, vlib/c09_pp.run_bdm1); every emitted coefficient is reduced to degree <= 1 in s"""

    def __init__(self):
        from . import c09_pp
        self.label = self.name = 'ElementTriBDM1'
        try:
            self.dim, self.nv, basis, self.scales, self.elem = c09_pp.run_bdm1()
        except (SymbolicError, NonRational) as ex:
            raise TranslateError(f'ElementTriBDM1: symbolic execution in Q(sqrt 3) failed: {ex}')
        except Exception as ex:  # noqa
            raise TranslateError(f'ElementTriBDM1: lbasis raised {type(ex).__name__}: {ex}')
        self.family = 'hdiv'
        self.src_group = 'C09_P_ElementTriBDM1'
        self.c03_group = 'C03_T_Sqrt3'
        self.factory = type(self.elem)
        self.basis = []
        for i, tup in enumerate(basis):
            shp = tuple(shape_of(f) for f in tup)
            if shp != ((2,), ()):
                raise TranslateError(f'ElementTriBDM1: lbasis({i}) returned shapes {shp}')
            self.basis.append(tup)
        self.doflocs = [None] * len(self.basis)      # Gauss points s_1, s_2: irrational, no rational location


def legendre_family():
    import skfem.element as E
    out = []
    for cls in (E.ElementLinePp, E.ElementQuadP):
        for p in range(1, PMAX_LEGENDRE + 1):
            out.append(TranslatedPP(cls, p))
    return out


# --------------------------------------------------------------------------- Coq emitters

def cmono(k):
    return '[' + '; '.join(f'{e}%nat' for e in k) + ']'


def cpoly(p):
    if not p.t:
        return '[]'
    return '[' + '; '.join(f'({cq(v)}, {cmono(k)})' for k, v in p.terms()) + ']'


def cpolys(ps):
    return '[' + ';\n      '.join(cpoly(p) for p in ps) + ']'


def cqs(qs):
    return '[' + '; '.join(cq(q) for q in qs) + ']'


def cbfun(fam, dim, tup):
    a, b = tup
    if fam == 'h1':
        return f'BH1 {cpoly(a)}\n      {cpolys(b)}'
    if fam == 'hdiv':
        return f'BHdiv {cpolys(a)}\n      {cpoly(b)}'
    if fam == 'hcurl' and dim == 2:
        return f'BHcurl2 {cpolys(a)}\n      {cpoly(b)}'
    if fam == 'hcurl':
        return f'BHcurl3 {cpolys(a)}\n      {cpolys(b)}'
    if fam == 'matrix':
        return 'BMat [' + ';\n      '.join(cpolys(r) for r in a) + ']'
    raise TranslateError(fam)


def celem(tr):
    locs = '[' + '; '.join('None' if r is None else f'Some {cqs(r)}' for r in tr.doflocs) + ']'
    basis = '[\n    ' + ';\n    '.join(cbfun(tr.family, tr.dim, b) for b in tr.basis) + ']'
    return f'mkElem "{tr.name}"%string {tr.dim}%nat {basis}\n    {locs}'


# --------------------------------------------------------------------------- reference-domain parametrisations

def refdom_tables(refdom):
    """exact (Fraction) vertex coordinates, facets, edges, normals of a reference domain (read from the class)"""
    p = [[rat(v) for v in col] for col in np.asarray(refdom.p).T]      # vertex -> coords
    facets = [list(map(int, f)) for f in (refdom.facets or [])]
    edges = [list(map(int, f)) for f in (refdom.edges or [])] if getattr(refdom, 'edges', None) else []
    normals = [[rat(v) for v in row] for row in np.asarray(refdom.normals)] if hasattr(refdom, 'normals') else []
    return p, facets, edges, normals


def param_polys(verts, cube):
    """affine parametrisation of the entity with the given vertex coordinate lists.
    simplex: v0 + sum_k s_k (v_k - v0) (k = 1..n);  cube (n=2): v0 + s (v1 - v0) + t (v3 - v0), vertices cyclic;
    n = 1: v0 + s (v1 - v0).  Returns list (one per space coordinate) of Poly in n parameters."""
    n = len(verts) - 1 if not cube else {2: 1, 4: 2}[len(verts)]
    dirs = [verts[k + 1] for k in range(n)] if not cube or n == 1 else [verts[1], verts[3]]
    d = len(verts[0])
    out = []
    for c in range(d):
        q = Poly.const(verts[0][c], n)
        for k in range(n):
            q = q + Poly.var(k, n) * (dirs[k][c] - verts[0][c])
        out.append(q)
    return out


def lowest_order_functionals(tr):
    """for the lowest-order H(div)/H(curl) classes: list of (parametrisation polys, constant vector), the
    flag cube and the parameter dimension.  H(div): facet j with the reference normal of refdom.normals (these
    are the outward normals scaled so that n dS = normals_j ds on the reference parameter domain);
    H(curl): edge j (2-D: facet j) with tangent v_b - v_a."""
    e = tr.elem
    rd = e.refdom
    p, facets, edges, normals = refdom_tables(rd)
    cube = rd.__name__ in ('RefQuad', 'RefHex')
    if tr.family == 'hdiv':
        if not (e.facet_dofs == 1 and e.interior_dofs == 0 and e.edge_dofs == 0 and e.nodal_dofs == 0):
            return None
        ents, vecs = facets, normals
        if len(vecs) != len(ents):
            raise TranslateError(f'{tr.name}: {rd.__name__}.normals has {len(vecs)} rows for {len(ents)} facets')
        n = tr.dim - 1
    elif tr.family == 'hcurl':
        if tr.dim == 2:
            if not (e.facet_dofs == 1 and e.interior_dofs == 0 and e.nodal_dofs == 0):
                return None
            ents = facets
        else:
            if not (e.edge_dofs == 1 and e.facet_dofs == 0 and e.interior_dofs == 0 and e.nodal_dofs == 0):
                return None
            ents = edges
        vecs = [[p[en[1]][c] - p[en[0]][c] for c in range(tr.dim)] for en in ents]
        n = 1
    else:
        return None
    funs = []
    for en, v in zip(ents, vecs):
        funs.append((param_polys([p[k] for k in en], cube and n > 1), v))
    return {'cube': cube and n > 1, 'n': n, 'funs': funs}


def lowest_order_signs(tr, lo):
    """certificate for the duality lemma: the constant value of (phi_j . c_j) on entity j (the Coq checker
    requires it to be +-1 and the trace to be exactly delta_ij * s_j)"""
    out = []
    for j, (F, v) in enumerate(lo['funs']):
        s = Poly.const(0, lo['n'])
        for comp, c in zip(tr.basis[j][0], v):
            s = s + comp.subst(F) * c
        out.append(s.const_value() if s.is_const() else Fr(0))
    return out


def global_tables(elem):
    """the monomial derivative tables of an ElementGlobal subclass, evaluated on symbolic coordinates.
    Returns (dim, list of (diff tuple, [Poly per power-basis function]))"""
    d = elem.refdom.dim()
    try:
        elem._pbasis_init(elem.maxdeg, d, elem.derivatives, elem.tensorial_basis)
        xs = [Poly.var(k, d) for k in range(d)]
        out = []
        for diff, fns in elem._pbasis.items():
            ps = []
            for f in fns:
                v = f(*xs)
                ps.append(v if isinstance(v, Poly) else Poly.const(v, d))
            out.append((tuple(int(k) for k in diff), ps))
    except (SymbolicError, NonRational) as ex:
        raise TranslateError(f'{type(elem).__name__}: power-basis table: {ex}')
    return d, out


HEADER = '''(* GENERATED by vlib/c09_gen.py from the real lbasis / class attributes of skfem.element — do not edit *)
From Coq Require Import String.
From Coq Require Import List Arith ZArith QArith Bool.
Import ListNotations.
Require Import Base.C09_Poly Base.C09_PolyQ Model.C09_Elem.
'''


def generate(log=None):
    """returns (files: dict name -> text, info: dict) ; raises TranslateError (fail closed)"""
    classes = discover()
    info = {'classes': [], 'translated': [], 'excluded': {}, 'global': [], 'lemmas': []}
    chunks = {}     # file name -> text
    groups = {}     # file name -> list of per-class texts (one file per reference domain: amortises coqc start-up)
    names_all, names_dual, names_flux, names_glob = [], [], [], []
    translated = {}
    for c in classes:
        info['classes'].append({'name': c['name'], 'status': c['status'], 'note': c['note']})
        if c['status'] == 'excluded':
            info['excluded'][c['name']] = c['note']
        if c['status'] == 'concrete':
            try:
                e = c['cls']()
            except TypeError as ex:
                raise TranslateError(f"{c['name']}: constructor needs arguments and the class is not listed as parametrised: {ex}")
            tr = Translated(c['name'], e)
            translated[c['name']] = tr
            n = c['name']
            txt = [HEADER, f'Definition {n}_e : elem :=\n  {celem(tr)}.\n',
                   f'Lemma {n}_deriv : deriv_ok {n}_e = true.\nProof. vm_compute. reflexivity. Qed.\n',
                   f'Lemma {n}_vars : vars_ok {n}_e = true.\nProof. vm_compute. reflexivity. Qed.\n']
            names_all.append(n)
            if tr.family == 'h1':
                txt.append(f'Lemma {n}_dual : duality_ok {n}_e = true.\nProof. vm_compute. reflexivity. Qed.\n')
                txt.append(f'Lemma {n}_pou : pou_ok {n}_e = true.\nProof. vm_compute. reflexivity. Qed.\n')
                names_dual.append(n)
            lo = lowest_order_functionals(tr)
            if lo is not None:
                funs = '[' + ';\n    '.join(f'mkFun {cpolys(F)} {cqs(v)}' for F, v in lo['funs']) + ']'
                cube = 'true' if lo['cube'] else 'false'
                signs = lowest_order_signs(tr, lo)
                txt.append(f'Definition {n}_funs : list functional :=\n  {funs}.\n')
                txt.append(f'Definition {n}_cube : bool := {cube}.\nDefinition {n}_n : nat := {lo["n"]}%nat.\nDefinition {n}_signs : list Q := {cqs(signs)}.\n')
                txt.append(f'Lemma {n}_fdual : functional_duality_ok {n}_cube {n}_n {n}_signs {n}_funs (e_basis {n}_e) = true.\nProof. vm_compute. reflexivity. Qed.\n')
                txt.append(f'Lemma {n}_tdual : trace_duality_ok {n}_signs {n}_funs (e_basis {n}_e) = true.\nProof. vm_compute. reflexivity. Qed.\n')
                names_flux.append(n)
            grp = 'C09_E_' + e.refdom.__name__
            groups.setdefault(grp, []).append((n, '\n'.join(txt[1:])))
            info['translated'].append({'name': n, 'family': tr.family, 'dim': tr.dim, 'nbfun': len(tr.basis),
                                       'located_dofs': sum(1 for r in tr.doflocs if r is not None),
                                       'lowest_order_functionals': lo is not None,
                                       'max_degree': max(max((q.degree() for q in _flat(b[0])), default=0) for b in tr.basis)})
        if c['status'] == 'global':
            e = c['cls']()
            d, tab = global_tables(e)
            n = c['name']
            ent = '[' + ';\n    '.join(f'([{"; ".join(str(k) + "%nat" for k in diff)}], {cpolys(ps)})' for diff, ps in tab) + ']'
            groups.setdefault('C09_G_Global', []).append((n,
                f'Definition {n}_table : dtable :=\n  {ent}.\n'
                f'Lemma {n}_table_ok : dtable_ok {n}_table = true.\nProof. vm_compute. reflexivity. Qed.\n'))
            from . import c09_gdof
            got, want = c09_gdof.run_gdof(e), c09_gdof.expected(e)
            nn = e.refdom.nnodes
            refp = [[rat(x) for x in col] for col in np.asarray(e.refdom.p).T]

            def cents(lst):
                return '[' + ';\n    '.join(f'("{k}"%string, {cqs([comb.get(v, Fr(0)) for v in range(nn)])})' for k, comb in lst) + ']'
            try:
                dl = '[' + '; '.join(cqs([rat(x) for x in row]) for row in np.asarray(e.doflocs)) + ']'
            except NonRational as ex:
                raise TranslateError(f'{n}: doflocs: {ex}')
            groups['C09_G_Global'].append((n + '_gdof',
                f'Definition {n}_g : gelem :=\n  mkGelem "{n}"%string {d}%nat [' + '; '.join(cqs(r) for r in refp) + f']\n    {cents(got)}\n    {cents(want)}\n    {dl}.\n'
                f'Lemma {n}_gdof : gdof_ok {n}_g = true.\nProof. vm_compute. reflexivity. Qed.\n'))
            names_glob.append(n)
            info['global'].append({'name': n, 'dim': d, 'derivatives': int(e.derivatives), 'table_entries': len(tab),
                                   'power_basis': len(tab[0][1])})
    # the integrated-Legendre family (excluded from the exact tie above; formal scales, snapped coefficients)
    names_leg = []
    info['legendre'] = []
    for tr in legendre_family():
        n = tr.name
        translated[n] = tr
        txt = [f'Definition {n}_e : elem :=\n  {celem(tr)}.\n',
               f'Lemma {n}_deriv : deriv_ok {n}_e = true.\nProof. vm_compute. reflexivity. Qed.\n',
               f'Lemma {n}_dualp : duality_param_ok {n}_e = true.\nProof. vm_compute. reflexivity. Qed.\n',
               f'Lemma {n}_pou : pou_ok {n}_e = true.\nProof. vm_compute. reflexivity. Qed.\n']
        groups.setdefault('C09_P_' + type(tr.elem).__name__, []).append((n, '\n'.join(txt)))
        names_leg.append(n)
        info['legendre'].append({'name': n, 'label': tr.label, 'dim': tr.dim, 'variables': tr.nv, 'nbfun': len(tr.basis),
                                 'scales(sqrt argument -> variable index)': {str(k): v for k, v in tr.scales.items()},
                                 'max_degree': max(b[0].degree() for b in tr.basis)})
    # the multilinear cell maps F_j = sum_n node(n, j) phi_n built from the delivered basis of the mesh element
    maps = []
    for mname, ename in (('Quad1_map', 'ElementQuad1'), ('Hex1_map', 'ElementHex1')):
        if ename not in translated:
            raise TranslateError(f'{ename} not translated: cannot build the cell map')
        tr = translated[ename]
        d, nb = tr.dim, len(tr.basis)
        nvm = d + nb * d
        F = []
        for j in range(d):
            acc = Poly({}, nvm)
            for n_, b in enumerate(tr.basis):
                lifted = Poly({k + (0,) * (nvm - d): v for k, v in b[0].t.items()}, nvm)
                acc = acc + lifted * Poly.var(d + n_ * d + j, nvm)
            F.append(acc)
        heavy = d == 3
        txt = (f'Definition {mname} : list poly :=\n  {cpolys(F)}.\n'
               f'Lemma {mname}_piola : piola_identity_ok {d}%nat {mname} = true.\nProof. vm_compute. reflexivity. Qed.\n')
        maps.append((mname, d, heavy))
        groups.setdefault('C09_M_' + mname, []).append((mname, txt))
    info['cell_maps'] = [{'name': m, 'dim': d, 'variables': 'reference coordinates, then node n coordinate j at index dim + n*dim + j',
                          'tier': 'thorough' if h else 'quick'} for m, d, h in maps]
    # ElementTriBDM1 in Q(sqrt 3)
    names_s3 = []
    trb = TranslatedBDM1()
    translated[trb.name] = trb
    groups.setdefault(trb.src_group, []).append((trb.name, f'Definition {trb.name}_e : elem :=\n  {celem(trb)}.\n\n'
                      f'Lemma {trb.name}_deriv : deriv_ok {trb.name}_e = true.\nProof. vm_compute. reflexivity. Qed.\n'))
    names_s3.append(trb.name)
    info['sqrt3'] = [{'name': trb.name, 'variables': 'x, y, s = sqrt(3) (index 2), coefficients reduced with s^2 = 3 during symbolic execution',
                      'nbfun': len(trb.basis)}]
    # the summary file: lists + Forall lemmas assembled from the per-element lemmas
    for g, parts in groups.items():
        chunks[g] = HEADER + '\n' + '\n'.join(t for _, t in parts)
    info['parts'] = {g: [(n, HEADER + '\n' + t) for n, t in parts] for g, parts in groups.items()}
    imp = ''.join(f'Require Import Gen.{g}.\n' for g in groups)

    def forall_lemma(lname, pred, lst, items, suffix):
        body = ''.join(f'  apply Forall_cons; [exact {n}_{suffix}|].\n' for n in items)
        return (f'Lemma {lname} : Forall (fun e => {pred}) {lst}.\nProof.\n  unfold {lst}.\n{body}  apply Forall_nil.\nQed.\n')
    summ = [HEADER, 'Require Import Proofs.C09_ElemProofs.\n', imp,
            'Definition all_elements : list elem :=\n  [' + '; '.join(f'{n}_e' for n in names_all) + '].\n',
            'Definition h1_elements : list elem :=\n  [' + '; '.join(f'{n}_e' for n in names_dual) + '].\n',
            'Definition lowest_order_elements : list (elem * (bool * nat * list Q * list functional)) :=\n  ['
            + '; '.join(f'({n}_e, ({n}_cube, {n}_n, {n}_signs, {n}_funs))' for n in names_flux) + '].\n',
            'Definition legendre_elements : list elem :=\n  [' + '; '.join(f'{n}_e' for n in names_leg) + '].\n',
            'Definition global_tables : list (String.string * dtable) :=\n  ['
            + '; '.join(f'("{n}"%string, {n}_table)' for n in names_glob) + '].\n',
            forall_lemma('all_deriv_ok', 'deriv_ok e = true', 'all_elements', names_all, 'deriv'),
            forall_lemma('all_vars_ok', 'vars_ok e = true', 'all_elements', names_all, 'vars'),
            forall_lemma('h1_dual_ok', 'duality_ok e = true', 'h1_elements', names_dual, 'dual'),
            forall_lemma('h1_pou_ok', 'pou_ok e = true', 'h1_elements', names_dual, 'pou'),
            forall_lemma('lowest_fdual_ok', 'lo_fdual_ok e = true', 'lowest_order_elements', names_flux, 'fdual'),
            forall_lemma('lowest_tdual_ok', 'lo_tdual_ok e = true', 'lowest_order_elements', names_flux, 'tdual'),
            forall_lemma('legendre_deriv_ok', 'deriv_ok e = true', 'legendre_elements', names_leg, 'deriv'),
            forall_lemma('legendre_dual_ok', 'duality_param_ok e = true', 'legendre_elements', names_leg, 'dualp'),
            forall_lemma('legendre_pou_ok', 'pou_ok e = true', 'legendre_elements', names_leg, 'pou'),
            'Definition cell_maps : list (nat * list poly) :=\n  [' + '; '.join(f'({d}%nat, {m})' for m, d, _ in maps) + '].\n',
            forall_lemma('cell_maps_piola_ok', 'piola_identity_ok (fst e) (snd e) = true', 'cell_maps', [m for m, _, _ in maps], 'piola'),
            'Definition sqrt3_elements : list elem :=\n  [' + '; '.join(f'{n}_e' for n in names_s3) + '].\n',
            forall_lemma('sqrt3_deriv_ok', 'deriv_ok e = true', 'sqrt3_elements', names_s3, 'deriv'),
            'Definition global_functionals : list gelem :=\n  [' + '; '.join(f'{n}_g' for n in names_glob) + '].\n',
            forall_lemma('global_gdof_ok', 'gdof_ok e = true', 'global_functionals', names_glob, 'gdof'),
            forall_lemma('global_tables_ok', 'dtable_ok (snd e) = true', 'global_tables', names_glob, 'table_ok'),
            ]
    info['names'] = {'all': names_all, 'h1': names_dual, 'lowest': names_flux, 'global': names_glob, 'legendre': names_leg, 'sqrt3': names_s3}
    return chunks, '\n'.join(summ), info, translated


def _flat(tree):
    if tree is None:
        return []
    if isinstance(tree, Poly):
        return [tree]
    out = []
    for t in tree:
        out += _flat(t)
    return out
