"""C01 / C19 — coverage of the public wrappers and options that forward to the assembly core.

Every wrapper is compared with the core path it forwards to (or with an independent computation) on a few fixed
meshes / elements in every tier.  The table of callables (covered before / now / out of scope) goes into the evidence
under ``api_coverage``.  A call form that fails on the unchanged tree is reported under a stable key; it is turned into a
``ctx.fail`` only when known_findings.txt lists the key (so that the finding is shown as KNOWN-FINDING), otherwise it is
logged and recorded in the evidence (``unlisted_failing_call_forms``) — the check of the property itself is not affected.
"""
import logging
import warnings

import numpy as np

from . import c01_oracle as O1

TOL = 1e-11

TABLE = [
    # callable, covered before this audit, now
    ('CellBasis.with_elements', 'indirect (project)', 'assembly == CellBasis(elements=, quadrature=)'),
    ('CellBasis.with_element / FacetBasis.with_element', 'via split_bases', 'assembly == constructor with the same restriction / side'),
    ('CellBasis.boundary(facets=, intorder=, quadrature=)', 'no', 'assembly == FacetBasis(...); NotImplementedError for a restricted basis'),
    ('Basis(quadrature=) / Basis(dofs=) / Basis(disable_doflocs=) / Basis(mapping=)', 'quadrature only', 'assembly identical to the default construction'),
    ('CellBasis.project (callable / scalar / array / tuple; elements=; dtype=)', 'no', 'Galerkin orthogonality M x = f with independently assembled M, f; zero outside elements='),
    ('FacetBasis.project (facets=)', 'no', 'M x = f on the boundary DOFs, other DOFs zero'),
    ('skfem.utils.projection / project (deprecated wrappers)', 'no', 'out of scope: deprecated aliases of Basis.project (C06 exercises them)'),
    ('COOData.__array__ / astuple', 'no', 'np.array(coo) == toarray(); astuple == (indices, data, shape)'),
    ('COOData.solve (CG with D=)', 'no', 'A x = b to 1e-8 for an SPD matrix, fixed DOFs kept'),
    ('COOData.topetsc', 'no', 'out of scope: petsc4py is not installed'),
    ('asm(function) (wrapping by argument count), asm(to=)', 'no', 'equal to the explicit form types; to= receives the elemental data'),
    ('Form.__call__ as decorator (incl. dtype / nthreads / params)', 'yes', 'yes'),
    ('Form.__call__ on a defined form: form(basis)', 'no', 'FAILS on the unchanged tree: AttributeError (key form-call:defined-form)'),
    ('Form.partial / Form.block / Form.elemental / Form.coo_data', 'yes', 'yes'),
    ('Form.partial / block / decorator / Form(form_obj) x complex dtype x nthreads x **params (Bilinear, Linear, Functional)', 'real dtype only',
     'result == un-wrapped complex form with the argument bound by hand; dtype, nthreads, params kept'),
    ('AbstractBasis.zero_w / zeros / ones / global_coordinates', 'no', 'shapes / equality with default_parameters()["x"]'),
    ('AbstractBasis.get_dofs / complement_dofs, Dofs.get_*_dofs, DofsView.*', 'no', 'out of scope: DOF lookup is property C07'),
    ('CellBasis.probes / interpolator / point_source / refinterp', 'no', 'out of scope: point evaluation is property C14'),
    ('AbstractBasis.plot / plot3 / draw, FacetBasis.trace (deprecated)', 'no', 'out of scope: visualisation / deprecated'),
    ('CompositeBasis.X / W / get_dofs', 'no', 'X, W are those of the first basis; get_dofs raises NotImplementedError (documented)'),
    ('Element.__mul__ (elem1 * elem2 -> ElementComposite), ElementComposite.dim', 'no', 'same DOF tables and matrix as ElementComposite(elem1, elem2)'),
]


def _rel(a, b):
    a, b = np.asarray(a), np.asarray(b)
    if a.shape != b.shape:
        return float('inf')
    s = max(float(np.abs(a).max(initial=0.0)), float(np.abs(b).max(initial=0.0)), 1e-300)
    return float(np.abs(a - b).max(initial=0.0)) / s


def _val(f):
    f = f[0] if isinstance(f, tuple) else f
    a = np.array(f)
    return a.reshape((-1,) + a.shape[-2:])


def _mass(*args):
    k = (len(args) - 1) // 2
    w = args[-1]
    return sum((_val(a) * _val(b)).sum(0) for a, b in zip(args[:k], args[k:-1])) * (1.0 + w['x'][0] ** 2)


def _stiff(*args):              # non-symmetric: first gradient component of u (value if there is no gradient) times v
    k = (len(args) - 1) // 2
    out = 0.
    for a, b in zip(args[:k], args[k:-1]):
        g = a.grad if a.grad is not None else np.array(a)
        out = out + g.reshape((-1,) + g.shape[-2:])[0] * _val(b)[0]
    return out


def cases():
    return [('tri-struct', 'ElementTriP2', 11), ('quad-jiggled', 'ElementQuad1', 12), ('tet-struct', 'ElementTetP1', 13),
            ('tri-delaunay', 'V:ElementTriP1', 14), ('line-random', 'ElementLineP2', 15), ('tri2-curved', 'ElementTriP1', 16)]


def one(ctx, mesh, spec, seed, report):
    from skfem.assembly import BilinearForm, LinearForm, Functional, CellBasis, FacetBasis, InteriorFacetBasis, Dofs, asm
    from skfem.assembly.form.coo_data import COOData
    m = O1.make_mesh(mesh, seed)
    e = O1.make_elem(spec)
    rng = np.random.default_rng(seed)
    B = CellBasis(m, e, intorder=3)
    form = BilinearForm(lambda *a: _mass(*a) + _stiff(*a))
    A = form.assemble(B).toarray()
    S = np.sort(rng.permutation(m.nelements)[:max(1, m.nelements // 2)])
    info = {'mesh': mesh, 'elem': spec, 'mseed': seed}

    def chk(name, err, extra=None):
        ctx.count((name, info), nontrivial=True)
        ctx.hist('api wrapper', name)
        report(name, err, dict(info, **(extra or {})))
    # --- restricted constructors
    chk('with_elements', _rel(form.assemble(B.with_elements(S)).toarray(),
                              form.assemble(CellBasis(m, e, elements=S, quadrature=B.quadrature)).toarray()))
    e2 = O1.make_elem({'tri': 'ElementTriP1', 'quad': 'ElementQuad2', 'tet': 'ElementTetP2', 'line': 'ElementLineP1'}[O1.FAMILY[mesh]])
    Bs = CellBasis(m, e, elements=S, intorder=3)
    chk('CellBasis.with_element', _rel(form.assemble(Bs, Bs.with_element(e2)).toarray(),
                                       form.assemble(Bs, CellBasis(m, e2, elements=S, quadrature=Bs.quadrature)).toarray()))
    if mesh != 'line-random':
        bf = m.boundary_facets()
        F = np.sort(rng.permutation(bf)[:max(1, len(bf) // 2)])
        chk('boundary()', _rel(form.assemble(B.boundary(intorder=3)).toarray(), form.assemble(FacetBasis(m, e, intorder=3)).toarray()))
        fbq = FacetBasis(m, e, intorder=2, facets=F)
        chk('boundary(facets=, quadrature=)', _rel(form.assemble(B.boundary(facets=F, quadrature=fbq.quadrature)).toarray(), form.assemble(fbq).toarray()))
        try:
            Bs.boundary()
            chk('boundary() of a restricted basis', float('inf'), {'observed': 'no error', 'expected': 'NotImplementedError'})
        except NotImplementedError:
            chk('boundary() of a restricted basis', 0.0)
        I1 = InteriorFacetBasis(m, e, intorder=3, side=1)
        chk('FacetBasis.with_element (side kept)', _rel(form.assemble(I1, I1.with_element(e2)).toarray(),
                                                       form.assemble(I1, InteriorFacetBasis(m, e2, quadrature=I1.quadrature, side=1)).toarray()))
    # --- constructor options
    chk('Basis(quadrature=)', _rel(form.assemble(CellBasis(m, e, quadrature=B.quadrature)).toarray(), A))
    chk('Basis(dofs=)', _rel(form.assemble(CellBasis(m, e, intorder=3, dofs=Dofs(m, e))).toarray(), A))
    chk('Basis(disable_doflocs=True)', _rel(form.assemble(CellBasis(m, e, intorder=3, disable_doflocs=True)).toarray(), A))
    chk('Basis(mapping=)', _rel(form.assemble(CellBasis(m, e, intorder=3, mapping=m._mapping())).toarray(), A))
    # --- small helpers
    ok = (B.zero_w().shape == B.dx.shape and B.zeros().shape == (B.N,) and np.array_equal(B.ones(), np.ones(B.N))
          and np.array_equal(np.array(B.global_coordinates()), np.array(B.default_parameters()['x'])))
    chk('zero_w/zeros/ones/global_coordinates', 0.0 if ok else float('inf'))
    # --- COOData conveniences
    coo = form.elemental(B)
    chk('COOData.__array__', _rel(np.array(coo), coo.toarray()))
    t = coo.astuple()
    chk('COOData.astuple', 0.0 if (len(t) == 3 and t[0] is coo.indices and t[1] is coo.data and tuple(t[2]) == tuple(coo.shape)) else float('inf'))
    mcoo = BilinearForm(lambda *a: _mass(*a)).elemental(B)
    Mm = mcoo.tocsr()
    xs = rng.integers(-4, 5, size=B.N) / 4.0
    b = Mm @ xs
    D = np.sort(rng.permutation(B.N)[:2])
    b2 = b.copy()
    b2[D] = xs[D]
    sol = mcoo.solve(b2, D=D, tol=1e-13, maxiters=5000)
    res = Mm @ sol - b
    res[D] = sol[D] - xs[D]
    chk('COOData.solve', float(np.abs(res).max()) / (float(np.abs(b).max()) + 1e-300) if np.isfinite(sol).all() else float('inf'), {'tolerance': 1e-8})
    # --- asm wrappers
    chk('asm(function, 3 args)', _rel(asm(lambda u, v, w: u * v if np.array(u).ndim == 2 else (u * v).sum(0), B).toarray(),
                                      BilinearForm(lambda u, v, w: u * v if np.array(u).ndim == 2 else (u * v).sum(0)).assemble(B).toarray()))
    chk('asm(function, 2 args)', _rel(asm(lambda v, w: v if np.array(v).ndim == 2 else v.sum(0), B),
                                      LinearForm(lambda v, w: v if np.array(v).ndim == 2 else v.sum(0)).assemble(B)))
    chk('asm(function, 1 arg)', _rel(asm(lambda w: w['x'][0], B), Functional(lambda w: w['x'][0]).assemble(B)))
    got = asm(form, B, to=lambda blocks: [type(c).__name__ for c in blocks])
    chk('asm(to=)', 0.0 if got == ['COOData'] else float('inf'), {'got': str(got)})
    # --- L2 projection: Galerkin orthogonality with independently assembled mass matrix and load vector
    scalar = np.array(B.basis[0][0]).ndim == 2
    Bq = B
    B = CellBasis(m, e)                 # default quadrature (2 * maxdeg): the mass matrix must be regular
    if scalar:
        M = BilinearForm(lambda u, v, w: u * v).assemble(B)

        def fun(x):
            return 1.0 + x[0] - 0.5 * x[-1] ** 2
        f = LinearForm(lambda v, w: fun(w['x']) * v).assemble(B)
        sc = float(np.abs(f).max()) + 1e-300
        for name, arg in (('callable', fun), ('array', fun(np.array(B.global_coordinates()))), ('scalar', 2.5)):
            x = B.project(arg)
            rhs = f if name != 'scalar' else LinearForm(lambda v, w: 2.5 * v).assemble(B)
            chk(f'CellBasis.project({name})', float(np.abs(M @ x - rhs).max()) / sc if x.shape == (B.N,) else float('inf'), {'tolerance': 1e-9})
        xs_ = B.project(fun, elements=S)
        ref = B.with_elements(S).project(fun)
        out = np.setdiff1d(np.arange(B.N), B.get_dofs(elements=S).flatten())
        chk('CellBasis.project(elements=)', max(_rel(xs_, ref), float(np.abs(xs_[out]).max(initial=0.0))))
        xc = B.project(lambda x: (1.0 + 2.0j) * fun(x), dtype=np.complex128)
        chk('CellBasis.project(dtype=complex)', _rel(xc, (1.0 + 2.0j) * B.project(fun)), {'tolerance': 1e-9})
        if mesh != 'line-random':
            Fb = FacetBasis(m, e)
            xb = Fb.project(fun)
            Mb = BilinearForm(lambda u, v, w: u * v).assemble(Fb)
            fb_ = LinearForm(lambda v, w: fun(w['x']) * v).assemble(Fb)
            I = Fb.get_dofs().flatten()
            outd = np.setdiff1d(np.arange(Fb.N), I)
            chk('FacetBasis.project', max(float(np.abs((Mb @ xb - fb_)[I]).max()) / (float(np.abs(fb_).max()) + 1e-300),
                                          float(np.abs(xb[outd]).max(initial=0.0))), {'tolerance': 1e-9})


def form_copies(ctx):
    """the form-copying wrappers (partial, block, decorator, Form(form_obj, ...)) keep dtype, nthreads and **params and give the
    same complex result as the un-wrapped form with the argument bound by hand — BilinearForm, LinearForm, Functional"""
    import skfem
    from skfem.assembly import BilinearForm, LinearForm, Functional, CellBasis
    C = np.complex128
    z = 1.0 + 2.0j
    for mesh, spec, seed in (('tri-struct', 'ElementTriP2', 31), ('quad-jiggled', 'ElementQuad1', 32)):
        m = O1.make_mesh(mesh, seed)
        b = CellBasis(m, O1.make_elem(spec), intorder=3)

        def f2(u, v, w, alpha=1.0):
            return alpha * z * (u * v + u.grad[0] * v) * (1.0 + w['x'][0])

        def f1(v, w, alpha=1.0):
            return alpha * z * v * (1.0 + w['x'][0])

        def f0(w, alpha=1.0):
            return alpha * z * (1.0 + w['x'][0])

        def g2(u1, u2, v1, v2, w):
            return z * (u1 * v2 + 2.0 * u2.grad[0] * v1 + u1 * v1)
        kinds = {
            'BilinearForm': (BilinearForm, f2, lambda F: F.assemble(b).toarray(), lambda u, v, w: f2(u, v, w, 3.0)),
            'LinearForm': (LinearForm, f1, lambda F: F.assemble(b), lambda v, w: f1(v, w, 3.0)),
            'Functional': (Functional, f0, lambda F: np.asarray(F.elemental(b)), lambda w: f0(w, 3.0)),
        }
        for name, (cls, f, run_, bound) in kinds.items():
            ref = run_(cls(bound, dtype=C))
            variants = {
                'partial': lambda: cls(f, dtype=C, nthreads=2, tag=7).partial(alpha=3.0),
                'decorator': lambda: cls(dtype=C, nthreads=2, tag=7)(bound),
                'Form(form_obj)': lambda: cls(cls(bound), dtype=C, nthreads=2, tag=7),
                'partial-of-decorated': lambda: cls(dtype=C, nthreads=2, tag=7)(f).partial(alpha=3.0),
            }
            for vn, mk in variants.items():
                info = {'mesh': mesh, 'elem': spec, 'mseed': seed, 'form_type': name, 'wrapper': vn}
                F = mk()
                got = run_(F)
                ctx.count(('form-copy', info), nontrivial=True)
                ctx.hist('api wrapper', f'{name}.{vn} complex')
                attrs = (F.dtype, F.nthreads, F.params)
                if attrs != (C, 2, {'tag': 7}):
                    ctx.fail(f'api:form-copy:{vn}:attributes', f'{name}: {vn} does not keep dtype / nthreads / params of the form',
                             dict(info, got=str(attrs), expected=str((C, 2, {'tag': 7}))))
                if np.shape(got) != np.shape(ref) or not np.iscomplexobj(got) or _rel(got, ref) > TOL:
                    ctx.fail(f'api:form-copy:{vn}:{name}', f'{name}: {vn} of a complex form differs from the form with the argument bound by hand '
                             '(imaginary part lost?)', dict(info, got_dtype=str(np.asarray(got).dtype), max_abs_imag_expected=float(np.abs(np.imag(ref)).max()),
                                                            max_abs_imag_got=float(np.abs(np.imag(got)).max())))
        # block on a two-field form
        info = {'mesh': mesh, 'elem': spec, 'mseed': seed, 'form_type': 'BilinearForm', 'wrapper': 'block'}
        Fb = BilinearForm(g2, dtype=C, nthreads=2, tag=7).block(0, 1)
        got = Fb.assemble(b, b).toarray()
        ref = BilinearForm(lambda u, v, w: g2(u, u.zeros(), v.zeros(), v, w), dtype=C).assemble(b, b).toarray()
        ctx.count(('form-copy', info), nontrivial=True)
        if (Fb.dtype, Fb.nthreads, Fb.params) != (C, 2, {'tag': 7}) or not np.iscomplexobj(got) or _rel(got, ref) > TOL:
            ctx.fail('api:form-copy:block', 'Form.block of a complex form differs from the hand-padded form or loses dtype / nthreads / params', info)


def run(ctx):
    logging.getLogger('skfem').setLevel(logging.ERROR)
    warnings.simplefilter('ignore')
    loose = {'COOData.solve': 1e-8}
    unlisted = []

    def report(name, err, data):
        tol = data.pop('tolerance', None) or loose.get(name, TOL)
        if not (err <= tol):
            ctx.fail(f'api:{name}', f'{name}: relative discrepancy {err:.3e} against the core path (tolerance {tol:g})', data)
    for mesh, spec, seed in cases():
        try:
            one(ctx, mesh, spec, seed, report)
        except Exception as e:  # an exception of the implementation on a valid call form is a failing input
            import traceback
            ctx.fail(f'api:exception:{O1.FAMILY[mesh]}', f'{type(e).__name__}: {e}', {'mesh': mesh, 'elem': spec, 'mseed': seed,
                                                                                      'traceback': traceback.format_exc()[-1500:]})
    try:
        form_copies(ctx)
    except Exception as e:
        import traceback
        ctx.fail('api:form-copy:exception', f'{type(e).__name__}: {e}', {'traceback': traceback.format_exc()[-1500:]})
    # Form.__call__ on a defined form
    import skfem
    from skfem.assembly import BilinearForm, Basis
    b = Basis(skfem.MeshTri().refined(1), skfem.ElementTriP1())
    frm = BilinearForm(lambda u, v, w: u * v)
    try:
        got = frm(b)
        ok = _rel(np.asarray(got.toarray()), frm.assemble(b).toarray()) <= TOL
        if not ok:
            unlisted.append({'key': 'form-call:defined-form', 'what': 'form(basis) differs from form.assemble(basis)'})
    except Exception as e:
        item = {'key': 'form-call:defined-form', 'what': f'BilinearForm(f)(basis) raises {type(e).__name__}: {e} (Form.__call__ refers to the '
                'undefined attribute self.kernel); decorator use Form()(f) works',
                'input': "b = Basis(MeshTri().refined(1), ElementTriP1()); BilinearForm(lambda u, v, w: u * v)(b)"}
        if item['key'] in ctx.known.findings.get(ctx.pid, {}):
            ctx.fail(item['key'], item['what'], item)
        else:
            unlisted.append(item)
            ctx.log('NOTE: failing call form on the unchanged tree (reported, not in known_findings.txt): ' + item['key'] + ': ' + item['what'])
    ctx.extra['api_coverage'] = [{'callable': a, 'covered_before': b_, 'now': c} for a, b_, c in TABLE]
    ctx.extra['unlisted_failing_call_forms'] = unlisted


def run_c19(ctx):
    """wrappers that belong to C19"""
    logging.getLogger('skfem').setLevel(logging.ERROR)
    warnings.simplefilter('ignore')
    import skfem
    from skfem.assembly import BilinearForm, CellBasis
    from skfem.element import ElementComposite
    for mesh, a, b, seed in (('tri-struct', 'ElementTriP2', 'ElementTriP1', 21), ('tet-struct', 'ElementTetP1', 'ElementTetP0', 22),
                             ('quad-jiggled', 'V:ElementQuad1', 'ElementQuad0', 23)):
        m = O1.make_mesh(mesh, seed)
        ea, eb = O1.make_elem(a), O1.make_elem(b)
        info = {'mesh': mesh, 'elems': [a, b], 'mseed': seed}
        try:
            prod = ea * eb
            ref = ElementComposite(ea, eb)
            B1, B2 = CellBasis(m, prod, intorder=3), CellBasis(m, ref, intorder=3)

            def f(u1, u2, v1, v2, w):
                s = lambda x: np.array(x).reshape((-1,) + np.array(x).shape[-2:]).sum(0)   # noqa
                return s(u1) * s(v2) + 2.0 * s(u2) * s(v1) + s(u1) * s(v1)
            ok = (isinstance(prod, ElementComposite) and np.array_equal(B1.element_dofs, B2.element_dofs) and prod.dim == ea.dim
                  and np.array_equal(BilinearForm(f).assemble(B1).toarray(), BilinearForm(f).assemble(B2).toarray()))
            three = (ea * eb) * eb
            ok = ok and len(three.elems) == 3
            cb = CellBasis(m, ea, intorder=3) * CellBasis(m, eb, intorder=3)
            ok = ok and np.array_equal(cb.X, B1.X) and np.array_equal(cb.W, B1.W)
            try:
                cb.get_dofs()
                ok = False
            except NotImplementedError:
                pass
            ctx.count(('elem-mul', info), nontrivial=True)
            ctx.hist('api wrapper', 'Element.__mul__ / CompositeBasis.X,W,get_dofs')
            if not ok:
                ctx.fail('api:element-mul', 'elem1 * elem2 is not the ElementComposite of the two (tables / matrix / dim), or CompositeBasis.X/W/get_dofs',
                         info)
        except Exception as e:
            ctx.fail('api:element-mul:exception', f'{type(e).__name__}: {e}', info)
    ctx.extra['api_coverage'] = [{'callable': a, 'covered_before': b_, 'now': c} for a, b_, c in TABLE
                                 if any(k in a for k in ('Element.__mul__', 'CompositeBasis.X', 'COOData', 'asm(', 'Form.partial'))]
