"""C12/C13: exact (integer / rational) geometry on small meshes and the direct oracle of the
refinement properties.  Coordinates are binary64 values that are dyadic rationals; they are scaled to
Python integers once, every predicate below is then decided in exact integer arithmetic."""
import itertools
from fractions import Fraction

import numpy as np

DIM = {'line': 1, 'tri': 2, 'quad': 2, 'tet': 3, 'hex': 3}
NCHILD = {'line': 2, 'tri': 4, 'quad': 4, 'tet': 8, 'hex': 8}
SIMPLEX = ('line', 'tri', 'tet')


def refdom(kind):
    from skfem import refdom as R
    return {'line': R.RefLine, 'tri': R.RefTri, 'quad': R.RefQuad, 'tet': R.RefTet, 'hex': R.RefHex}[kind]


def _fr(x):
    if isinstance(x, (int, np.integer)):
        return Fraction(int(x))
    return Fraction(float(x))


def int_points(*ps):
    """scale several coordinate arrays (d x n; floats holding dyadics, or ints) by a common denominator;
    returns (scale, [list of tuples of Python ints per array])"""
    frs = [[[_fr(x) for x in np.asarray(p)[:, i]] for i in range(np.asarray(p).shape[1])] for p in ps]
    den = 1
    for F in frs:
        for col in F:
            for f in col:
                if f.denominator > den:
                    den = den * f.denominator // np.gcd(den, f.denominator) if False else max(den, f.denominator)
    # denominators are powers of two, so the maximum is the common denominator
    for F in frs:
        for col in F:
            for f in col:
                assert den % f.denominator == 0, 'non-dyadic coordinate'
    return den, [[tuple(int(f * den) for f in col) for col in F] for F in frs]


def sub(a, b):
    return tuple(x - y for x, y in zip(a, b))


def det2(a, b):
    return a[0] * b[1] - a[1] * b[0]


def det3(a, b, c):
    return (a[0] * (b[1] * c[2] - b[2] * c[1]) - a[1] * (b[0] * c[2] - b[2] * c[0])
            + a[2] * (b[0] * c[1] - b[1] * c[0]))


def cross(a, b):
    return (a[1] * b[2] - a[2] * b[1], a[2] * b[0] - a[0] * b[2], a[0] * b[1] - a[1] * b[0])


def dotv(a, b):
    return sum(x * y for x, y in zip(a, b))


# ----------------------------------------------------------------------------- cell measures

def simplex_det(P):
    d = len(P) - 1
    if d == 1:
        return P[1][0] - P[0][0]
    if d == 2:
        return det2(sub(P[1], P[0]), sub(P[2], P[0]))
    return det3(sub(P[1], P[0]), sub(P[2], P[0]), sub(P[3], P[0]))


_HEXCACHE = {}


def _hex_tables():
    """gradients of the 8 trilinear shape functions at the 27 Simpson points xi in {0, 1/2, 1}^3, times 4 (integers)"""
    if not _HEXCACHE:
        rp = refdom('hex').p.T.astype(int)
        pts = list(itertools.product((0, 1, 2), repeat=3))        # xi = pts/2
        w1 = {0: 1, 1: 4, 2: 1}
        grads = {}
        for q in pts:
            g = []
            for i in range(8):
                f = [q[d] if rp[i][d] == 1 else 2 - q[d] for d in range(3)]      # 2 * factor
                df = [1 if rp[i][d] == 1 else -1 for d in range(3)]
                g.append((df[0] * f[1] * f[2], f[0] * df[1] * f[2], f[0] * f[1] * df[2]))   # 4 * gradient
            grads[q] = g
        _HEXCACHE['pts'] = pts
        _HEXCACHE['w'] = {q: w1[q[0]] * w1[q[1]] * w1[q[2]] for q in pts}              # 216 * weight
        _HEXCACHE['grads'] = grads
    return _HEXCACHE


def hex_detJ(P):
    """64 * det of the Jacobian of the trilinear map at the 27 Simpson points (exact integers for integer P)"""
    T = _hex_tables()
    out = {}
    for q in T['pts']:
        g = T['grads'][q]
        J = [[sum(P[i][r] * g[i][c] for i in range(8)) for c in range(3)] for r in range(3)]
        out[q] = det3(J[0], J[1], J[2])
    return out


def measure(kind, P):
    """signed measure times d! for simplices (an integer); signed area*2 for quads; exact volume (Fraction)
    for hexahedra (tensor Simpson rule is exact for the tri-quadratic Jacobian determinant)"""
    if kind in SIMPLEX:
        return simplex_det(P)
    if kind == 'quad':
        return sum(det2(P[i], P[(i + 1) % 4]) for i in range(4))
    T = _hex_tables()
    dj = hex_detJ(P)
    return Fraction(sum(T['w'][q] * dj[q] for q in T['pts']), 216 * 64)


def nondegenerate(kind, P):
    """0 if degenerate, else the orientation sign"""
    if kind in SIMPLEX:
        d = simplex_det(P)
        return (d > 0) - (d < 0)
    if kind == 'quad':
        s = [det2(sub(P[(i + 1) % 4], P[i]), sub(P[(i + 3) % 4], P[i])) for i in range(4)]
        if all(x > 0 for x in s):
            return 1
        if all(x < 0 for x in s):
            return -1
        return 0
    dj = hex_detJ(P).values()
    if all(x > 0 for x in dj):
        return 1
    if all(x < 0 for x in dj):
        return -1
    return 0


# ----------------------------------------------------------------------------- containment

def bary_sign_ok(P, x):
    """x in the closed simplex P (exact): all barycentric numerators have the sign of the determinant"""
    d = len(P) - 1
    D = simplex_det(P)
    if D == 0:
        return False
    for i in range(d + 1):
        Q = list(P)
        Q[i] = x
        v = simplex_det(Q)
        if v * D < 0:
            return False
    return True


def in_cell(kind, P, x):
    if kind in SIMPLEX:
        return bary_sign_ok(P, x)
    if kind == 'quad':
        s = [det2(sub(P[(i + 1) % 4], P[i]), sub(x, P[i])) for i in range(4)]
        return all(v >= 0 for v in s) or all(v <= 0 for v in s)
    raise ValueError(kind)


def hex_27(P):
    """the 27 points (vertices, edge midpoints, face centres, centre) of a hexahedron, times 8"""
    R = refdom('hex')
    out = set()
    for i in range(8):
        out.add(tuple(8 * c for c in P[i]))
    for e in R.edges:
        out.add(tuple(4 * (a + b) for a, b in zip(P[e[0]], P[e[1]])))
    for f in R.facets:
        out.add(tuple(2 * sum(P[v][c] for v in f) for c in range(3)))
    out.add(tuple(sum(P[v][c] for v in range(8)) for c in range(3)))
    return out


def centroid_times(P):
    """sum of the vertices (= centroid * len(P))"""
    return tuple(sum(v[c] for v in P) for c in range(len(P[0])))


# ----------------------------------------------------------------------------- topology

def facet_keys(kind, cell):
    return [tuple(sorted(cell[i] for i in f)) for f in refdom(kind).facets]


def facet_lists(kind, cell):
    return [tuple(cell[i] for i in f) for f in refdom(kind).facets]


def facet_count(kind, cells):
    cnt = {}
    for c in cells:
        for k in facet_keys(kind, c):
            cnt[k] = cnt.get(k, 0) + 1
    return cnt


def on_segment(u, v, x):
    """x on the closed segment [u, v] (any dimension)"""
    a, b = sub(v, u), sub(x, u)
    if len(a) == 1:
        return 0 <= b[0] * a[0] <= a[0] * a[0]
    if len(a) == 2:
        if det2(a, b) != 0:
            return False
    else:
        if any(c != 0 for c in cross(a, b)):
            return False
    t = dotv(a, b)
    return 0 <= t <= dotv(a, a)


def in_triangle3(u, v, w, x):
    a, b, c = sub(v, u), sub(w, u), sub(x, u)
    n = cross(a, b)
    if dotv(n, c) != 0:
        return False
    nn = dotv(n, n)
    s = dotv(cross(c, b), n)
    r = dotv(cross(a, c), n)
    return s >= 0 and r >= 0 and s + r <= nn


def facet_point_set(kind, FP):
    """for hexahedral faces: the 9 points (times 4) of a bilinear face"""
    out = set()
    for v in FP:
        out.add(tuple(4 * c for c in v))
    for i in range(4):
        out.add(tuple(2 * (a + b) for a, b in zip(FP[i], FP[(i + 1) % 4])))
    out.add(tuple(sum(v[c] for v in FP) for c in range(3)))
    return out


def subfacet(kind, OF, NF):
    """is the new facet (vertex coordinates NF) contained in the old facet OF?"""
    if kind == 'line':
        return NF[0] == OF[0]
    if kind in ('tri', 'quad'):
        return all(on_segment(OF[0], OF[1], x) for x in NF)
    if kind == 'tet':
        return all(in_triangle3(OF[0], OF[1], OF[2], x) for x in NF)
    S = facet_point_set(kind, OF)
    return all(tuple(4 * c for c in x) in S for x in NF)


def facet_fraction(kind, OF, NF):
    """measure(NF) / measure(OF) for a sub-facet (exact rational)"""
    if kind == 'line':
        return Fraction(1)
    if kind in ('tri', 'quad'):
        a, b = sub(OF[1], OF[0]), sub(NF[1], NF[0])
        return abs(Fraction(dotv(a, b), dotv(a, a)))
    if kind == 'tet':
        n = cross(sub(OF[1], OF[0]), sub(OF[2], OF[0]))
        m = cross(sub(NF[1], NF[0]), sub(NF[2], NF[0]))
        return abs(Fraction(dotv(n, m), dotv(n, n)))
    return Fraction(1, 4)


# ----------------------------------------------------------------------------- separating axis (interiors disjoint)

def interiors_disjoint(A, B):
    """convex hulls of the point lists A, B (2-D or 3-D) have disjoint interiors (touching allowed)"""
    d = len(A[0])
    axes = []
    if d == 1:
        axes = [(1,)]
    elif d == 2:
        for P in (A, B):
            for i, j in itertools.combinations(range(len(P)), 2):
                e = sub(P[j], P[i])
                axes.append((-e[1], e[0]))
    else:
        ea = [sub(A[j], A[i]) for i, j in itertools.combinations(range(len(A)), 2)]
        eb = [sub(B[j], B[i]) for i, j in itertools.combinations(range(len(B)), 2)]
        for E in (ea, eb):
            for u, v in itertools.combinations(E, 2):
                axes.append(cross(u, v))
        for u in ea:
            for v in eb:
                axes.append(cross(u, v))
    for n in axes:
        if all(c == 0 for c in n):
            continue
        pa = [dotv(n, x) for x in A]
        pb = [dotv(n, x) for x in B]
        if max(pa) <= min(pb) or max(pb) <= min(pa):
            return True
    return False


# ----------------------------------------------------------------------------- sanity of an input mesh

def input_problems(kind, p, t, convex_hull=False):
    """exact sanity checks of a generated mesh (integer arrays); empty list = fine"""
    _, (P,) = int_points(np.asarray(p, dtype=np.int64))
    cells = [tuple(int(v) for v in t[:, k]) for k in range(t.shape[1])]
    out = []
    if len(set(P)) != len(P):
        out.append('duplicate vertices')
    if set(v for c in cells for v in c) != set(range(len(P))):
        out.append('unused vertices')
    for c in cells:
        if len(set(c)) != len(c) or nondegenerate(kind, [P[v] for v in c]) == 0:
            out.append('degenerate cell')
            break
    cnt = facet_count(kind, cells)
    if any(v > 2 for v in cnt.values()):
        out.append('facet in more than two cells')
    if len(set(tuple(sorted(c)) for c in cells)) != len(cells):
        out.append('duplicate cells')
    # hanging nodes: a vertex inside a facet it does not belong to
    if kind in ('tri', 'quad', 'tet'):
        for key in cnt:
            FP = [P[v] for v in key]
            for v, x in enumerate(P):
                if v in key:
                    continue
                if (kind != 'tet' and on_segment(FP[0], FP[1], x)) or (kind == 'tet' and in_triangle3(FP[0], FP[1], FP[2], x)):
                    out.append('hanging node')
                    break
            else:
                continue
            break
    if convex_hull and kind in ('tri', 'tet') and not out:
        for key, n in cnt.items():
            if n != 1:
                continue
            FP = [P[v] for v in key]
            sg = set()
            for x in P:
                v = simplex_det(FP + [x])
                if v:
                    sg.add(v > 0)
            if len(sg) > 1:
                out.append('boundary facet is not on the convex hull')
                break
        # overlapping cells
        if not out:
            for a, b in itertools.combinations(cells, 2):
                if not interiors_disjoint([P[v] for v in a], [P[v] for v in b]):
                    out.append('overlapping cells')
                    break
    return out


# ----------------------------------------------------------------------------- the oracle for one refinement step

class Step:
    """exact comparison of a mesh with its refinement (uniform or adaptive).

    ``problems`` is a list of (tag, message, data); ``parent[c]`` is the old cell containing new cell c."""

    def __init__(self, kind, p_old, t_old, p_new, t_new, uniform=True, marked=None, disjoint=True, unused_ok=()):
        self.kind = kind
        self.problems = []
        d = DIM[kind]
        self.scale, (self.PO, self.PN) = int_points(np.asarray(p_old), np.asarray(p_new))
        self.CO = [tuple(int(v) for v in t_old[:, k]) for k in range(t_old.shape[1])]
        self.CN = [tuple(int(v) for v in t_new[:, k]) for k in range(t_new.shape[1])]
        PO, PN, CO, CN = self.PO, self.PN, self.CO, self.CN
        bad = self.problems.append
        # vertices
        if len(set(PN)) != len(PN):
            bad(('duplicate-vertices', 'refined mesh has duplicate vertices', {}))
        used = set(v for c in CN for v in c)
        # points that belonged to no cell before (e.g. the shared point array of `m1 @ m2`) stay where they are, unused
        if set(range(len(PN))) - used != set(int(v) for v in unused_ok):
            bad(('unused-vertices', 'refined mesh has vertices that belong to no cell (other than those unused before)',
                 {'unused': sorted(set(range(len(PN))) - used)[:10], 'unused_before': sorted(int(v) for v in unused_ok)[:10]}))
        if PN[:len(PO)] != PO:
            bad(('old-vertices-moved', 'old vertices did not keep index and position', {}))
        if uniform and len(CN) != NCHILD[kind] * len(CO):
            bad(('cell-count', f'{len(CN)} cells, expected {NCHILD[kind]} * {len(CO)}', {}))
        # parents
        self.parent = self._parents()
        # non-degenerate, orientation of tensor cells preserved
        for c, cell in enumerate(CN):
            s = nondegenerate(kind, [PN[v] for v in cell])
            if s == 0 or len(set(cell)) != len(cell):
                bad(('degenerate-cell', f'new cell {c} is degenerate or inverted', {'cell': c}))
                break
            k = self.parent[c]
            if k is not None and kind in ('quad', 'hex') and s != nondegenerate(kind, [PO[v] for v in CO[k]]):
                bad(('inverted-cell', f'new cell {c} has the opposite orientation of its parent', {'cell': c}))
                break
        # tiling: per parent the measures add up, children interior-disjoint
        kids = {}
        for c, k in enumerate(self.parent):
            if k is None:
                bad(('child-outside', f'new cell {c} is not inside any single old cell', {'cell': c}))
                break
            kids.setdefault(k, []).append(c)
        else:
            for k, cell in enumerate(CO):
                ch = kids.get(k, [])
                mo = abs(measure(kind, [PO[v] for v in cell]))
                mn = sum(abs(measure(kind, [PN[v] for v in CN[c]])) for c in ch)
                if mo != mn:
                    bad(('measure', f'children of old cell {k} have total measure {mn} != {mo} (scaled units)', {'cell': k}))
                    break
                if uniform and len(ch) != NCHILD[kind]:
                    bad(('children-per-cell', f'old cell {k} has {len(ch)} children', {'cell': k}))
                    break
                if disjoint and kind != 'hex':
                    for a, b in itertools.combinations(ch, 2):
                        if not interiors_disjoint([PN[v] for v in CN[a]], [PN[v] for v in CN[b]]):
                            bad(('children-overlap', f'children {a} and {b} of old cell {k} overlap', {'cell': k}))
                            break
            if marked is not None:
                for k in marked:
                    if len(kids.get(int(k), [])) < 2:
                        bad(('marked-not-split', f'marked cell {int(k)} was not subdivided', {'cell': int(k)}))
                        break
        self.kids = kids
        # conformity
        cnt_o = facet_count(kind, CO)
        cnt_n = facet_count(kind, CN)
        self.cnt_n = cnt_n
        if any(v > 2 for v in cnt_n.values()):
            bad(('facet-multiplicity', 'a facet of the refined mesh belongs to more than two cells', {}))
        bo = [k for k, v in cnt_o.items() if v == 1]
        bn = [k for k, v in cnt_n.items() if v == 1]
        # every new boundary facet lies on an old boundary facet and the old ones are covered exactly
        cover = {k: Fraction(0) for k in bo}
        olists = {}
        for cell in CO:
            for key, lst in zip(facet_keys(kind, cell), facet_lists(kind, cell)):
                olists[key] = lst
        nlists = {}
        for cell in CN:
            for key, lst in zip(facet_keys(kind, cell), facet_lists(kind, cell)):
                nlists[key] = lst
        self.olists, self.nlists = olists, nlists
        for key in bn:
            NF = [PN[v] for v in nlists[key]]
            host = None
            for ok in bo:
                if subfacet(kind, [PO[v] for v in olists[ok]], NF):
                    host = ok
                    break
            if host is None:
                bad(('hanging-node', f'facet {key} of the refined mesh has one neighbour but is not part of the old boundary '
                     '(non-conforming interface)', {'facet': list(key)}))
                break
            cover[host] += facet_fraction(kind, [PO[v] for v in olists[host]], NF)
        else:
            for ok, fr in cover.items():
                if fr != 1:
                    bad(('boundary-cover', f'old boundary facet {ok} is covered {fr} times by new boundary facets', {'facet': list(ok)}))
                    break

    def _parents(self):
        kind, PO, PN, CO, CN = self.kind, self.PO, self.PN, self.CO, self.CN
        out = []
        if kind == 'hex':
            sets = [hex_27([PO[v] for v in cell]) for cell in CO]
            for cell in CN:
                pts = [tuple(8 * c for c in PN[v]) for v in cell]
                hosts = [k for k, s in enumerate(sets) if all(x in s for x in pts)]
                out.append(hosts[0] if len(hosts) == 1 else None)
            return out
        boxes = []
        for cell in CO:
            P = [PO[v] for v in cell]
            boxes.append(([min(x[c] for x in P) for c in range(len(P[0]))], [max(x[c] for x in P) for c in range(len(P[0]))]))
        for cell in CN:
            P = [PN[v] for v in cell]
            n = len(P)
            cen = centroid_times(P)
            hosts = []
            for k, oc in enumerate(CO):
                lo, hi = boxes[k]
                if any(cen[c] < n * lo[c] or cen[c] > n * hi[c] for c in range(len(lo))):
                    continue
                Q = [tuple(n * c for c in PO[v]) for v in oc]
                if in_cell(kind, Q, cen) and all(in_cell(kind, Q, tuple(n * c for c in x)) for x in P):
                    hosts.append(k)
            out.append(hosts[0] if len(hosts) == 1 else None)
        return out

    # ---- tags
    def expected_subdomain(self, ixs):
        s = set(int(i) for i in ixs)
        return sorted(c for c, k in enumerate(self.parent) if k in s)

    def expected_boundary_sets(self, old_facets, ixs):
        """for each tagged old facet (vertex list from the old mesh's facets array) the set of new facets
        (sorted vertex tuples) lying on it"""
        out = set()
        for f in ixs:
            OF = [self.PO[int(v)] for v in old_facets[:, int(f)]]
            for key, lst in self.nlists.items():
                if subfacet(self.kind, OF, [self.PN[v] for v in lst]):
                    out.add(key)
        return out
