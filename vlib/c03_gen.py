"""C03 generator: trace data of every translated element -> Gen/C03_T_<refdom>.v, Gen/C03_Traces.v.

Built on the T1 polynomials of C09 (vlib/c09_gen.py: the REAL lbasis executed on symbolic coordinates).  Here:
the facet slots of the reference cell (refdom.facets / edges / normals, read from the class), the local indices
attached to the closure of a slot (DOF layout nodal | edge | facet | interior with the class' counts), and, as
CERTIFICATES checked inside Coq, the canonical facet functions psi, the per-slot signs and the permutations induced by
the symmetries of the reference facet.
"""
import itertools
from fractions import Fraction as Fr

from . import c03_oracle, c09_gen
from .core import TranslateError, cq
from .c09_gen import cpoly, cpolys, cqs
from .c09_sym import Poly


def facet_positions(nverts, cube):
    """parameter coordinates of the vertices of the reference facet, in the order of the slot's vertex list"""
    if nverts == 1:
        return [[]]
    if cube and nverts == 4:
        return [[Fr(0), Fr(0)], [Fr(1), Fr(0)], [Fr(1), Fr(1)], [Fr(0), Fr(1)]]
    n = nverts - 1
    return [[Fr(0)] * n] + [[Fr(1) if j == k else Fr(0) for j in range(n)] for k in range(n)]


def facet_symmetries(nverts, cube):
    """vertex-position permutations gamma that are symmetries of the reference facet (gamma[a] = new position of a)"""
    if nverts == 1:
        return [(0,)]
    if cube and nverts == 4:
        out = []
        for r in range(4):
            out.append(tuple((a + r) % 4 for a in range(4)))
            out.append(tuple((r - a) % 4 for a in range(4)))
        return sorted(set(out))
    return list(itertools.permutations(range(nverts)))


def sym_map(gamma, nverts, cube):
    """the affine parameter map g with g(pos[a]) = pos[gamma[a]], as Polys in the facet parameters"""
    pos = facet_positions(nverts, cube)
    n = len(pos[0])
    if n == 0:
        return []
    q = [pos[gamma[a]] for a in range(nverts)]
    dirs = [1, 3] if (cube and nverts == 4) else list(range(1, n + 1))
    out = []
    for c in range(n):
        g = Poly.const(q[0][c], n)
        for k in range(n):
            g = g + Poly.var(k, n) * (q[dirs[k]][c] - q[0][c])
        out.append(g)
    return out


def lift(poly, nv):
    """the same polynomial in nv >= poly.nv variables"""
    if poly.nv == nv:
        return poly
    return Poly({k + (0,) * (nv - poly.nv): v for k, v in poly.t.items()}, nv)


class Traces:
    def __init__(self, tr):
        """tr: c09_gen.Translated (or TranslatedPP: extra formal scale variables after the coordinates)"""
        self.tr = tr
        self.nscale = getattr(tr, 'nv', tr.dim) - tr.dim
        e = tr.elem
        rd = e.refdom
        self.name = tr.name
        p, facets, edges, normals = c09_gen.refdom_tables(rd)
        d = tr.dim
        if d < 2:
            raise TranslateError(f'{tr.name}: facets of a 1-d cell are points (handled by nodal duality)')
        if rd.__name__ == 'RefWedge':
            raise TranslateError(f'{tr.name}: wedge cells have two kinds of facets')
        self.cube = rd.__name__ in ('RefQuad', 'RefHex')
        nn, ne, nf = rd.nnodes, rd.nedges, rd.nfacets
        nd, ed, fd, idf = int(e.nodal_dofs), int(e.edge_dofs), int(e.facet_dofs), int(e.interior_dofs)
        if nn * nd + ne * ed + nf * fd + idf != len(tr.basis):
            raise TranslateError(f'{tr.name}: DOF counts {nd, ed, fd, idf} do not add up to {len(tr.basis)} basis functions')
        if len(facets) != nf or (normals and len(normals) != nf):
            raise TranslateError(f'{tr.name}: refdom tables inconsistent')
        self.nparam = d - 1
        self.slots = []
        for s, V in enumerate(facets):
            param = c09_gen.param_polys([p[v] for v in V], self.cube and d == 3)
            npar = param[0].nv
            # formal scales of the element stay formal: they become the variables after the facet parameters
            param = [lift(q, npar + self.nscale) for q in param] + [Poly.var(npar + m, npar + self.nscale) for m in range(self.nscale)]
            att, keys = [], []
            for a, v in enumerate(V):
                for k in range(nd):
                    att.append(v * nd + k)
                    keys.append(('v', a, k))
            if d == 3:
                for a, b in itertools.combinations(range(len(V)), 2):
                    for ei, en in enumerate(edges):
                        if sorted(en) == sorted((V[a], V[b])):
                            for k in range(ed):
                                att.append(nn * nd + ei * ed + k)
                                keys.append(('e', (a, b), k))
            for k in range(fd):
                att.append(nn * nd + ne * ed + s * fd + k)
                keys.append(('f', k))
            if tr.family == 'h1':
                vecs = []
            elif tr.family in ('hdiv', 'matrix'):
                vecs = [normals[s]]
            else:   # hcurl: edge vectors of the facet from its first vertex
                vecs = [[p[V[k]][c] - p[V[0]][c] for c in range(d)] for k in (range(1, len(V)) if not (self.cube and d == 3) else (1, 3))]
            self.slots.append({'verts': V, 'param': param, 'att': att, 'keys': keys, 'vecs': vecs})
        k0 = self.slots[0]['keys']
        for sl in self.slots:
            if sl['keys'] != k0:
                raise TranslateError(f'{tr.name}: facet slots have different entity structure')
        self.keys = k0
        # traces (python side: only to produce the certificates psi / signs)
        for sl in self.slots:
            sl['traces'] = [self.trace(sl, b) for b in tr.basis]
        self.psi = [self.slots[0]['traces'][i] for i in self.slots[0]['att']]
        # normalise the canonical functions so that slot 0 has sign +1
        for sl in self.slots:
            sg = []
            for m, i in enumerate(sl['att']):
                t = sl['traces'][i]
                if all(a.key() == b.key() for a, b in zip(t, self.psi[m])):
                    sg.append(Fr(1))
                elif all(a.key() == (-b).key() for a, b in zip(t, self.psi[m])):
                    sg.append(Fr(-1))
                else:
                    sg.append(Fr(0))      # certificate impossible: the Coq lemma will fail and name the class
            sl['signs'] = sg
        # symmetries of the reference facet and the induced permutation of the attached positions
        nv = len(facets[0])
        self.syms = []
        for gamma in facet_symmetries(nv, self.cube and d == 3):
            inv = [0] * nv
            for a in range(nv):
                inv[gamma[a]] = a
            perm = []
            for key in self.keys:
                if key[0] == 'v':
                    tgt = ('v', inv[key[1]], key[2])
                elif key[0] == 'e':
                    tgt = ('e', tuple(sorted((inv[key[1][0]], inv[key[1][1]]))), key[2])
                else:
                    tgt = key
                if tgt not in self.keys:
                    raise TranslateError(f'{tr.name}: symmetry {gamma} maps {key} outside the facet closure')
                perm.append(self.keys.index(tgt))
            gm = sym_map(gamma, nv, self.cube and d == 3)
            npar = self.nparam
            gm = [lift(q, npar + self.nscale) for q in gm] + [Poly.var(npar + m, npar + self.nscale) for m in range(self.nscale)]
            self.syms.append({'gamma': gamma, 'map': gm, 'perm': perm,
                              'identity': list(gamma) == list(range(nv))})

    def trace(self, sl, b):
        fam, d = self.tr.family, self.tr.dim
        val = b[0]
        F = sl['param']
        if fam == 'h1':
            return [val.subst(F)]
        if fam == 'matrix':
            N = sl['vecs'][0]
            s = Poly.const(0, d + self.nscale)
            for a in range(d):
                for c in range(d):
                    s = s + val[a][c] * (N[a] * N[c])
            return [s.subst(F)]
        out = []
        for vec in sl['vecs']:
            s = Poly.const(0, d + self.nscale)
            for comp, c in zip(val, vec):
                s = s + comp * c
            out.append(s.subst(F))
        return out

    def sym_invariant(self, sym):
        """does psi_m o g == psi_perm(m) hold for every m (python mirror of the Coq checker)"""
        g = sym['map']
        for m, comps in enumerate(self.psi):
            for a, b in zip(comps, self.psi[sym['perm'][m]]):
                if (a.subst(g) if g else a).key() != b.key():
                    return False
        return True

    def signs_plus(self):
        return all(s == 1 for sl in self.slots for s in sl['signs'])

    def signs_uniform(self):
        return all(sl['signs'] == self.slots[0]['signs'] for sl in self.slots)


def shift_certificate(T):
    """coefficient vector and point at which the two one-sided traces of the configuration (cell A slot 1 direct, cell B
    slot 2 reversed: a unit square and its neighbour listed with a cyclic shift) differ — certificate for Coq"""
    syms = T.syms
    if len(syms) != 2 or not syms[0]['identity']:
        return None
    rev = syms[1]
    npar = T.nparam + T.nscale
    for m in range(len(T.psi)):
        a = T.psi[m][0]
        b = T.psi[rev['perm'][m]][0].subst(rev['map'])
        diff = a - b
        if diff.t:
            for num in (1, 3, 1, 5):
                pt = [Fr(num, 4 if num < 5 else 8)] + [Fr(1)] * T.nscale
                if diff(pt) != 0:
                    coef = [Fr(1) if k == m else Fr(0) for k in range(len(T.psi))]
                    return coef, pt
    return None


def cslot(sl):
    return (f'mkSlot {cpolys(sl["param"])}\n      [' + '; '.join(cqs(v) for v in sl['vecs']) + ']\n      ['
            + '; '.join(f'{i}%nat' for i in sl['att']) + f'] {cqs(sl["signs"])}')


def csym(sym):
    return f'mkSym {cpolys(sym["map"])} [' + '; '.join(f'{k}%nat' for k in sym['perm']) + ']'


HEADER = '''(* GENERATED by vlib/c03_gen.py (refdom tables + DOF layout of the class; polynomials from Gen.C09_E_<refdom>) — do not edit *)
From Coq Require Import String.
From Coq Require Import List Arith ZArith QArith Bool.
Import ListNotations.
Require Import Base.C09_Poly Base.C09_PolyQ Model.C09_Elem Model.C03_Trace.
'''

# which symmetries of the reference facet two neighbouring cells can differ by, per reference cell, given the
# default mesh constructors: triangles are sorted per cell (sort_t) -> identity only; quadrilaterals may be
# cyclically shifted, tetrahedra arbitrarily ordered, hexahedra rotated -> the full symmetry group of the facet
REQUIRED_SYMS = {'RefTri': 'identity', 'RefQuad': 'all', 'RefTet': 'all', 'RefHex': 'all'}


# own gbasis with an orientation-dependent swap / negation of the edge functions: the trace lemma is stated for the
# EFFECTIVE reference basis sign_i * lbasis(idx_i) that the real gbasis uses when every orientation sign is +1 (which is
# the case on sorted triangle meshes, theorem C03_sorted_cells_orientation_plus); the table is measured on the real code
TRACE_SPECIAL = {'ElementTriN3': 'own gbasis (element_tri_n3.py) swaps and negates edge functions depending on the orientation'}


def effective_table(cls, orient):
    """run the REAL gbasis of the class for every local index with a stub mapping (invDF = identity, detDF = 1), a
    constant orientation sign and an lbasis that returns numeric tags: returns [(sign, idx)] with
    gbasis(i) = orient * sign * lbasis(idx) — for value and curl alike (else TranslateError)"""
    import numpy as np

    class StubMapping:
        def invDF(self, X, tind=None):
            return np.eye(2)[:, :, None, None] * np.ones((1, 1, 1, X.shape[-1]))

        def DF(self, X, tind=None):
            return self.invDF(X, tind)

        def detDF(self, X, tind=None):
            return np.ones((1, X.shape[-1]))
    X = np.array([[0.3], [0.2]])
    nb = int(sum(cls()._bfun_counts()))
    out = []
    for i in range(nb):
        e = cls()
        e.orient = lambda mapping, j, tind=None: np.array([orient])
        e.lbasis = lambda Xp, idx: (np.array([[idx + 1.0] * Xp.shape[-1], [0.0] * Xp.shape[-1]]), np.full(Xp.shape[-1], idx + 1.0))
        try:
            f = e.gbasis(StubMapping(), X, i)[0]
        except Exception as ex:  # noqa
            raise TranslateError(f'{cls.__name__}.gbasis({i}) on the tagged stub raised {type(ex).__name__}: {ex}')
        v = float(np.asarray(f)[0, 0, 0]) / orient
        c = float(np.asarray(f.curl)[0, 0]) / orient
        if v != c or abs(v) != int(abs(v)) or not 1 <= abs(v) <= nb or float(np.asarray(f)[1, 0, 0]) != 0.0:
            raise TranslateError(f'{cls.__name__}.gbasis({i}): not +-(one reference function) (value tag {v}, curl tag {c})')
        out.append((Fr(1) if v > 0 else Fr(-1), int(abs(v)) - 1))
    return out


class EffectiveTranslated:
    """the effective reference basis of a TRACE_SPECIAL class for orientation +1"""

    def __init__(self, tr, table):
        self.name = tr.name + '_eff'
        self.label = tr.name
        self.base = tr
        self.table = table
        self.elem, self.dim, self.family, self.doflocs = tr.elem, tr.dim, tr.family, tr.doflocs
        self.basis = []
        for sg, idx in table:
            val, cl = tr.basis[idx]
            self.basis.append(([q * sg for q in val], cl * sg))


def generate(translated, conforming, known_keys=()):
    """translated: dict name -> c09_gen.Translated; conforming: names with a continuity claim (value / normal /
    tangential / normal-normal).  Returns (chunks, summary text, info)"""
    groups, info = {}, {'elements': [], 'skipped': {}}
    src_of = {}
    names, sym_names, sym_refuted, uni_names, uni_refuted = [], [], [], [], []
    shift_refuted = []
    eff_names = []
    for n, tr in translated.items():
        label = getattr(tr, 'label', n)
        if label not in conforming:
            info['skipped'][n] = 'no continuity claim (discontinuous / non-conforming by construction)'
            continue
        eff_txt = ''
        if n in TRACE_SPECIAL:
            tab_plus = effective_table(type(tr.elem), +1)
            tab_minus = effective_table(type(tr.elem), -1)
            info.setdefault('effective_tables', {})[n] = {'orient=+1': [[str(a), b] for a, b in tab_plus],
                                                          'orient=-1': [[str(a), b] for a, b in tab_minus], 'why': TRACE_SPECIAL[n]}
            base_name = n
            tr = EffectiveTranslated(tr, tab_plus)
            n = tr.name
            tab = '[' + '; '.join(f'({cq(a)}, {b}%nat)' for a, b in tab_plus) + ']'
            eff_txt = (f'Definition {n}_e : elem :=\n  {c09_gen.celem(tr)}.\n\n'
                       f'Definition {n}_x : elem * list (Q * nat) * elem := ({base_name}_e, {tab}, {n}_e).\n'
                       f'Lemma {n}_matches : eff_matches {n}_x = true.\nProof. vm_compute. reflexivity. Qed.\n')
            eff_names.append(n)
        try:
            T = Traces(tr)
        except TranslateError as ex:
            info['skipped'][n] = str(ex)
            continue
        rdn = tr.elem.refdom.__name__
        req = REQUIRED_SYMS[rdn]
        syms = [s for s in T.syms if req == 'all' or s['identity']]
        psi = '[' + ';\n    '.join(cpolys(c) for c in T.psi) + ']'
        slots = '[' + ';\n    '.join(cslot(sl) for sl in T.slots) + ']'
        allsyms = '[' + ';\n    '.join(csym(s) for s in T.syms) + ']'
        reqsyms = '[' + ';\n    '.join(csym(s) for s in syms) + ']'
        txt = ([eff_txt] if eff_txt else []) + [f'Definition {n}_t : telem :=\n  mkTelem {n}_e\n    {psi}\n    {slots}\n    {reqsyms}.\n',
               f'Definition {n}_allsyms : list fsym :=\n  {allsyms}.\n',
               f'Lemma {n}_traces : telem_traces_ok {n}_t = true.\nProof. vm_compute. reflexivity. Qed.\n']
        names.append(n)
        el = {'name': n, 'family': tr.family, 'refdom': rdn, 'slots': len(T.slots), 'attached_per_slot': len(T.psi),
              'signs': [[str(s) for s in sl['signs']] for sl in T.slots], 'signs_uniform': T.signs_uniform(),
              'symmetries_required': len(syms), 'invariant_under': [list(s['gamma']) for s in T.syms if T.sym_invariant(s)],
              'not_invariant_under': [list(s['gamma']) for s in T.syms if not T.sym_invariant(s)]}
        if tr.family == 'h1':
            key = c03_oracle.fail_key(label, 'value-jump')
            ok_py = T.signs_plus() and all(T.sym_invariant(s) for s in syms)
            if key in known_keys and not ok_py:
                txt.append(f'Lemma {n}_syms_refuted : telem_syms_ok {n}_t = false.\nProof. vm_compute. reflexivity. Qed.\n')
                sym_refuted.append(n)
                cert = shift_certificate(T) if rdn == 'RefQuad' else None
                if cert is not None:
                    coef, pt = cert
                    txt.append(f'Definition {n}_shift : telem * (fsym * fsym * list Q * list Q) :=\n'
                               f'  ({n}_t, (nth 0 {n}_allsyms (mkSym [] []), nth 1 {n}_allsyms (mkSym [] []), {cqs(coef)}, {cqs(pt)})).\n')
                    txt.append(f'Lemma {n}_shift_jump : shift_refuted_ok {n}_shift = true.\nProof. vm_compute. reflexivity. Qed.\n')
                    shift_refuted.append(n)
            else:
                txt.append(f'Lemma {n}_syms : telem_syms_ok {n}_t = true.\nProof. vm_compute. reflexivity. Qed.\n')
                sym_names.append(n)
        else:
            comp = {'hdiv': 'normal-component', 'hcurl': 'tangential-component', 'matrix': 'normal-normal-component'}[tr.family]
            key = c03_oracle.fail_key(label, f'{comp}-jump')
            if key in known_keys and not T.signs_uniform():
                txt.append(f'Lemma {n}_signs_refuted : signs_uniform (t_slots {n}_t) = false.\nProof. vm_compute. reflexivity. Qed.\n')
                uni_refuted.append(n)
            else:
                txt.append(f'Lemma {n}_signs : signs_uniform (t_slots {n}_t) = true.\nProof. vm_compute. reflexivity. Qed.\n')
                uni_names.append(n)
        grp = getattr(tr, 'c03_group', 'C03_T_' + rdn)
        src_of[grp] = getattr(tr, 'src_group', 'C09_E_' + rdn)
        groups.setdefault(grp, []).append((n, '\n'.join(txt)))
        info['elements'].append(el)
    chunks = {}
    for g, parts in groups.items():
        chunks[g] = HEADER + f'Require Import Gen.{src_of[g]}.\n\n' + '\n'.join(t for _, t in parts)
    info['parts'] = {g: [(n, HEADER + f'Require Import Gen.{src_of[g]}.\n\n' + t) for n, t in parts]
                     for g, parts in groups.items()}
    info['sources'] = sorted(set(src_of.values()))

    def forall_lemma(lname, pred, lst, items, suffix):
        body = ''.join(f'  apply Forall_cons; [exact {n}_{suffix}|].\n' for n in items)
        return f'Lemma {lname} : Forall (fun t => {pred}) {lst}.\nProof.\n  unfold {lst}.\n{body}  apply Forall_nil.\nQed.\n'
    summ = [HEADER, ''.join(f'Require Import Gen.{g}.\n' for g in groups),
            'Definition traced_elements : list telem :=\n  [' + '; '.join(f'{n}_t' for n in names) + '].\n',
            'Definition h1_symmetric_elements : list telem :=\n  [' + '; '.join(f'{n}_t' for n in sym_names) + '].\n',
            'Definition vector_uniform_elements : list telem :=\n  [' + '; '.join(f'{n}_t' for n in uni_names) + '].\n',
            'Definition h1_symmetry_refuted : list telem :=\n  [' + '; '.join(f'{n}_t' for n in sym_refuted) + '].\n',
            'Definition vector_uniform_refuted : list telem :=\n  [' + '; '.join(f'{n}_t' for n in uni_refuted) + '].\n',
            'Definition effective_bases : list (elem * list (Q * nat) * elem) :=\n  [' + '; '.join(f'{n}_x' for n in eff_names) + '].\n',
            forall_lemma('effective_bases_ok', 'eff_matches t = true', 'effective_bases', eff_names, 'matches'),
            'Definition quadp_shift_refuted : list (telem * (fsym * fsym * list Q * list Q)) :=\n  ['
            + '; '.join(f'{n}_shift' for n in shift_refuted) + '].\n',
            forall_lemma('quadp_shift_refuted_ok', 'shift_refuted_ok t = true', 'quadp_shift_refuted', shift_refuted, 'shift_jump'),
            forall_lemma('all_traces_ok', 'telem_traces_ok t = true', 'traced_elements', names, 'traces'),
            forall_lemma('h1_syms_ok', 'telem_syms_ok t = true', 'h1_symmetric_elements', sym_names, 'syms'),
            forall_lemma('vector_signs_ok', 'signs_uniform (t_slots t) = true', 'vector_uniform_elements', uni_names, 'signs'),
            forall_lemma('h1_syms_refuted', 'telem_syms_ok t = false', 'h1_symmetry_refuted', sym_refuted, 'syms_refuted'),
            forall_lemma('vector_signs_refuted', 'signs_uniform (t_slots t) = false', 'vector_uniform_refuted', uni_refuted, 'signs_refuted')]
    info['names'] = {'traced': names, 'h1_symmetric': sym_names, 'vector_uniform': uni_names,
                     'h1_symmetry_refuted': sym_refuted, 'vector_uniform_refuted': uni_refuted,
                     'quadp_shift_refuted': shift_refuted}
    return chunks, '\n'.join(summ), info
