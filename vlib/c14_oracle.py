"""C14 — correspondence of the real finders / probes with the exact model, and the failing-input search.

Meshes have integer vertex coordinates, query points are dyadic rationals, so everything the model needs is exact.
correspond():  simplex finders (candidate list recomputed exactly as the code does and handed to the model), split
               finders of quadrilateral / hexahedral / prismatic meshes, the 1-D finder, the COO index arrays of probes.
search():      on-mesh points (vertices, facet / edge points), interior and outside points on Delaunay, graded,
               anisotropic and non-convex meshes of every cell type, checked with exact Fraction arithmetic against the
               cell the real finder returns; probes / interpolator / point_source against a one-point-at-a-time
               evaluation of the located cell's local expansion; probes at the quadrature points against interpolate.
"""
from fractions import Fraction as Fr

import numpy as np

from .core import clist, cnat, cq, copt

F11_KEY = 'finder:abs-eps-slack:on-mesh-point-raises'
EPS_Q = '(1 # 4503599627370496)'        # np.finfo(np.float64).eps = 2^-52


# ============================================================================ meshes with integer coordinates

def delaunay_mesh(nprng, dim, npts, hi=20):
    from scipy.spatial import Delaunay
    import skfem
    while True:
        pts = np.unique(nprng.integers(0, hi + 1, size=(npts, dim)), axis=0)
        if len(pts) < dim + 2:
            continue
        try:
            d = Delaunay(pts)
        except Exception:        # degenerate input for qhull: draw again
            continue
        t = d.simplices.T
        # drop degenerate (zero volume) simplices qhull may emit for integer input
        p = pts.T.astype(float)
        keep = []
        for c in range(t.shape[1]):
            A = np.array([[int(pts[t[j + 1, c], i]) - int(pts[t[0, c], i]) for j in range(dim)] for i in range(dim)], dtype=object)
            det = _det(A.tolist())
            if det != 0:
                keep.append(c)
        if len(keep) < 2:
            continue
        t = t[:, keep]
        used = np.unique(t)
        remap = -np.ones(len(pts), dtype=int)
        remap[used] = np.arange(len(used))
        cls = skfem.MeshTri if dim == 2 else skfem.MeshTet
        return cls(p[:, used], remap[t])


def _det(A):
    n = len(A)
    if n == 1:
        return A[0][0]
    if n == 2:
        return A[0][0] * A[1][1] - A[0][1] * A[1][0]
    return sum((-1) ** j * A[0][j] * _det([row[:j] + row[j + 1:] for row in A[1:]]) for j in range(n))


def bary(P, x):
    """exact barycentric coordinates (l0, l1, ..) of point x (Fractions) in the simplex with vertex columns P[i][k]"""
    d = len(P)
    A = [[Fr(P[i][j + 1]) - Fr(P[i][0]) for j in range(d)] for i in range(d)]
    det = _det(A)
    if det == 0:
        return [Fr(-1)] * (d + 1)        # a degenerate simplex contains nothing
    y = [Fr(x[i]) - Fr(P[i][0]) for i in range(d)]
    X = []
    for j in range(d):
        Aj = [[(y[i] if c == j else A[i][c]) for c in range(d)] for i in range(d)]
        X.append(_det(Aj) / det)
    return [1 - sum(X)] + X


def cellP(m, c, nverts=None):
    nv = nverts or m.t.shape[0]
    return [[Fr(m.p[i, m.t[k, c]]) for k in range(nv)] for i in range(m.p.shape[0])]


def in_simplex(m, c, x):
    return min(bary(cellP(m, c), x)) >= 0


# containment in non-simplex cells by formulas independent of the split
def in_quad(m, c, x):
    """convex quadrilateral with vertices in cyclic order: same side of all four edges"""
    P = cellP(m, c)
    s = []
    for k in range(4):
        a = (P[0][k], P[1][k])
        b = (P[0][(k + 1) % 4], P[1][(k + 1) % 4])
        s.append((b[0] - a[0]) * (x[1] - a[1]) - (b[1] - a[1]) * (x[0] - a[0]))
    return all(v >= 0 for v in s) or all(v <= 0 for v in s)


def affine_coords(P, x, base, dirs):
    """coordinates of x in the affine frame P[:, base] + sum xi_j (P[:, dirs[j]] - P[:, base])"""
    d = len(P)
    A = [[P[i][dirs[j]] - P[i][base] for j in range(d)] for i in range(d)]
    det = _det(A)
    y = [Fr(x[i]) - P[i][base] for i in range(d)]
    out = []
    for j in range(d):
        Aj = [[(y[i] if c == j else A[i][c]) for c in range(d)] for i in range(d)]
        out.append(_det(Aj) / det)
    return out


def in_hex(m, c, x):
    """parallelepiped cells (affine images of the reference cube): frame read off RefHex.p"""
    import skfem.refdom as R
    ref = R.RefHex.p
    P = cellP(m, c)
    o = [k for k in range(8) if all(ref[i][k] == 0 for i in range(3))][0]
    dirs = [[k for k in range(8) if all(ref[i][k] == (1 if i == a else 0) for i in range(3))][0] for a in range(3)]
    xi = affine_coords(P, x, o, dirs)
    return all(0 <= v <= 1 for v in xi)


def in_wedge(m, c, x):
    import skfem.refdom as R
    ref = R.RefWedge.p
    P = cellP(m, c)
    o = [k for k in range(6) if all(ref[i][k] == 0 for i in range(3))][0]
    dirs = [[k for k in range(6) if all(ref[i][k] == (1 if i == a else 0) for i in range(3))][0] for a in range(3)]
    xi = affine_coords(P, x, o, dirs)
    return xi[0] >= 0 and xi[1] >= 0 and xi[0] + xi[1] <= 1 and 0 <= xi[2] <= 1


def in_line(m, c, x):
    a, b = sorted([Fr(m.p[0, m.t[0, c]]), Fr(m.p[0, m.t[1, c]])])
    return a <= x[0] <= b


def simplicial(m):
    import skfem
    if isinstance(m, (skfem.MeshTri1, skfem.MeshTet1)):
        return m
    if isinstance(m, skfem.MeshQuad1):
        return m.to_meshtri()
    if isinstance(m, (skfem.MeshHex1, skfem.MeshWedge1)):
        return m.to_meshtet()
    return None


def containment(m):
    import skfem
    if isinstance(m, skfem.MeshTri1) or isinstance(m, skfem.MeshTet1):
        return in_simplex
    if isinstance(m, skfem.MeshQuad1):
        return in_quad
    if isinstance(m, skfem.MeshHex1):
        return in_hex
    if isinstance(m, skfem.MeshWedge1):
        return in_wedge
    return in_line


# ============================================================================ query points

def all_mesh_points(m):
    """every vertex and every edge midpoint of a simplicial mesh"""
    dim = m.p.shape[0]
    out = [('vertex', tuple(Fr(m.p[i, v]) for i in range(dim))) for v in range(m.p.shape[1])]
    ed = m.facets if dim == 2 else m.edges
    for a, b in ed.T:
        out.append(('facet', tuple((Fr(m.p[i, a]) + Fr(m.p[i, b])) / 2 for i in range(dim))))
    return out


def mesh_points(m, rng, kinds=('vertex', 'facet', 'interior', 'outside'), per_kind=8):
    """dyadic query points by kind: [(kind, tuple of Fractions)]"""
    dim = m.p.shape[0]
    nv = m.t.shape[0]
    out = []
    nt = m.t.shape[1]
    lo = [Fr(int(m.p[i].min())) for i in range(dim)]
    hi = [Fr(int(m.p[i].max())) for i in range(dim)]
    for kind in kinds:
        for _ in range(per_kind):
            c = rng.randrange(nt)
            V = [[Fr(m.p[i, m.t[k, c]]) for i in range(dim)] for k in range(nv)]
            if kind == 'vertex':
                x = V[rng.randrange(nv)]
            elif kind == 'facet':
                # a point on an edge of the cell (dyadic weights); edges of simplices, consecutive vertices of quads
                if nv == dim + 1:
                    a, b = rng.sample(range(nv), 2)
                elif nv == 4:
                    a = rng.randrange(4)
                    b = (a + 1) % 4
                else:
                    a, b = rng.choice(_ref_edges(m))
                w = Fr(rng.choice([1, 2, 3, 4, 5, 6, 7]), 8)
                x = [w * V[a][i] + (1 - w) * V[b][i] for i in range(dim)]
            elif kind == 'interior':
                if nv == dim + 1:
                    ws = list({3: [Fr(1, 2), Fr(1, 4), Fr(1, 4)], 4: [Fr(1, 2), Fr(1, 4), Fr(1, 8), Fr(1, 8)], 2: [Fr(1, 4), Fr(3, 4)]}[nv])
                    rng.shuffle(ws)
                else:
                    # mean of all vertices of a convex cell, pulled towards one vertex
                    ws = [Fr(1, 2 * nv)] * nv
                    ws[rng.randrange(nv)] += Fr(1, 2)
                x = [sum(ws[k] * V[k][i] for k in range(nv)) for i in range(dim)]
            else:
                x = [Fr(rng.randrange(-3, 25)) + Fr(rng.randrange(8), 8) for _ in range(dim)]
                side = rng.randrange(dim)
                x[side] = (hi[side] + 1 + Fr(rng.randrange(8), 8)) if rng.random() < 0.5 else (lo[side] - 1 - Fr(rng.randrange(8), 8))
            out.append((kind, tuple(x)))
    return out


def _ref_edges(m):
    return [tuple(e) for e in np.asarray(m.elem.refdom.edges).tolist()]


def fl(x):
    return [float(v) for v in x]


# ============================================================================ running the real finder

def run_finder(m, pts, dtype=None):
    """pts: list of Fraction tuples -> ('ok', cells) | ('raises', text); dtype: hand the points over as an integer array"""
    arr = np.array([fl(x) for x in pts]).T
    if dtype is not None:
        assert np.all(arr == np.round(arr))
        arr = arr.astype(dtype)
    try:
        r = m.element_finder()(*arr)
        return 'ok', [int(c) for c in np.asarray(r).ravel()]
    except (ValueError, IndexError) as e:
        return 'raises', f'{type(e).__name__}: {e}'


def float_best(m, x):
    """largest over the cells of the smallest float barycentric coordinate (what the inside test sees)"""
    import skfem
    if isinstance(m, (skfem.MeshQuad1,)):
        m = m.to_meshtri()
    elif isinstance(m, (skfem.MeshHex1, skfem.MeshWedge1)):
        m = m.to_meshtet()
    if m.p.shape[0] == 1:
        return None
    X = m._mapping().invF(np.array(fl(x))[:, None, None] * np.ones((1, m.t.shape[1], 1)), np.arange(m.t.shape[1]))
    X = X[:, :, 0]
    last = 1.0 - X.sum(axis=0)
    mn = np.minimum(X.min(axis=0), last)
    return float(mn.max())


def candidates(msimp, pts, ncand):
    """the candidate list the code builds for this batch (first-occurrence order of the nearest centroids)"""
    arr = np.array([fl(x) for x in pts]).T
    if not hasattr(msimp, '_cached_tree'):
        msimp.element_finder()
    tree = msimp._cached_tree
    ix = tree.query(arr.T, min(ncand, msimp.t.shape[1]))[1].flatten()
    _, ix_ind = np.unique(ix, return_index=True)
    return [int(v) for v in ix[np.sort(ix_ind)]]


# ============================================================================ encoders

def enc_simplex_mesh(m):
    dim, nv = m.p.shape[0], m.t.shape[0]
    return clist([clist([clist([cq(Fr(m.p[i, m.t[k, c]])) for k in range(nv)]) for i in range(dim)]) for c in range(m.t.shape[1])])


def enc_pts(pts):
    return clist([clist([cq(v) for v in x]) for x in pts])


def enc_res(r):
    return copt(None) if r[0] == 'raises' else copt(clist([cnat(c) for c in r[1]]))


MESH_DEFS = '''
Definition meshfn (M : list (list (list Q))) (c i k : nat) : Q := nth k (nth i (nth c M []) []) 0.
Definition ptfn (x : list Q) (i : nat) : Q := nth i x 0.
Definition run_tri (a : list (list (list Q)) * (list nat * list (list Q))) :=
  let '(M, (cand, xs)) := a in gen_tri_finder (tri_inside_cell EPS (meshfn M)) (length M) cand (map ptfn xs).
Definition run_tet (a : list (list (list Q)) * (list nat * list (list Q))) :=
  let '(M, (cand, xs)) := a in gen_tet_finder (tet_inside_cell EPS (meshfn M)) (length M) cand (map ptfn xs).
(* split meshes: vertex coordinates p (row = coordinate), connectivity t (row = local vertex), regenerated selections *)
Definition splitfn (p : list (list Q)) (t : list (list nat)) (sels : list (list nat)) (nt : nat) (k i j : nat) : Q :=
  nth (nth (k mod nt) (nth (nth j (nth (k / nt) sels []) 0%nat) t []) 0%nat) (nth i p []) 0.
Definition run_quad (a : list (list Q) * list (list nat) * (list nat * list (list Q))) :=
  let '(p, t, (cand, xs)) := a in let nt := length (nth 0 t []) in
  gen_quad_finder (tri_inside_cell EPS (splitfn p t gen_quad_sels nt)) nt cand (map ptfn xs).
Definition run_hex (a : list (list Q) * list (list nat) * (list nat * list (list Q))) :=
  let '(p, t, (cand, xs)) := a in let nt := length (nth 0 t []) in
  gen_hex_finder (tet_inside_cell EPS (splitfn p t gen_hex_sels nt)) nt cand (map ptfn xs).
Definition run_wedge (a : list (list Q) * list (list nat) * (list nat * list (list Q))) :=
  let '(p, t, (cand, xs)) := a in let nt := length (nth 0 t []) in
  gen_wedge_finder (tet_inside_cell EPS (splitfn p t gen_wedge_sels nt)) nt cand (map ptfn xs).
Definition onats_eqb := option_eqb nats_eqb.
'''.replace('EPS', EPS_Q)

IMPORTS = ('From Coq Require Import List Arith QArith Bool.\nRequire Import Model.C14_Finder Gen.C14GenAffine Gen.C14GenTri Gen.C14GenTet '
           'Gen.C14GenSplits Gen.C14GenProbes Dyn.C14_TieGeom Dyn.C14_TieFinder.\nLocal Open Scope Q_scope.\n')


# ============================================================================ structured non-simplex meshes

def notch_points(m, rng, n):
    """dyadic points of the bounding box (images under the shear are not needed: only unsheared or sheared boxes whose
    removed block is a box in the sheared frame) that lie in no cell"""
    inc = containment(m)
    dim = m.p.shape[0]
    out = []
    # candidates: centroids of the mesh's bounding-box subcells reflected about the domain centre are in the removed block
    lo = [Fr(int(m.p[i].min())) for i in range(dim)]
    hi = [Fr(int(m.p[i].max())) for i in range(dim)]
    tries = 0
    while len(out) < n and tries < 200:
        tries += 1
        x = tuple(lo[i] + (hi[i] - lo[i]) * Fr(rng.randrange(1, 16), 16) for i in range(dim))
        if not any(inc(m, c, x) for c in range(m.t.shape[1])):
            out.append(x)
    return out


def int_grid(rng, n, graded=False):
    if graded:
        g = [0]
        step = 1
        for _ in range(n):
            g.append(g[-1] + step)
            step *= 2
        return [float(v) for v in g]
    g = sorted(rng.sample(range(0, 17), n + 1))
    return [float(v) for v in g]


def tensor_mesh(rng, kind, shear=True, graded=False, nonconvex=False):
    import skfem
    n = {'quad': (3, 3), 'hex': (2, 2, 2), 'wedge': (2, 2, 2), 'tri': (3, 3), 'tet': (2, 2, 2)}[kind]
    grids = [np.array(int_grid(rng, k, graded)) for k in n]
    if kind == 'quad':
        m = skfem.MeshQuad.init_tensor(*grids)
    elif kind == 'hex':
        m = skfem.MeshHex.init_tensor(*grids)
    elif kind == 'wedge':
        m = skfem.MeshTri.init_tensor(grids[0], grids[1]) * skfem.MeshLine(grids[2])
    elif kind == 'tri':
        m = skfem.MeshTri.init_tensor(*grids)
    else:
        m = skfem.MeshTet.init_tensor(*grids)
    if nonconvex:
        # L-shaped / notched domain: drop the cells whose midpoint lies in the upper right corner block
        mid = [0.5 * (g[0] + g[-1]) for g in grids]
        cm = m.p[:, m.t].mean(axis=1)
        keep = np.nonzero(~np.all(cm > np.array(mid)[:, None], axis=0))[0]
        m = m.restrict(keep)
    if shear:
        d = m.p.shape[0]
        while True:
            S = np.array([[rng.randrange(-1, 2) if i != j else rng.choice([1, 2]) for j in range(d)] for i in range(d)], dtype=float)
            if round(abs(np.linalg.det(S))) >= 1:
                break
        m = type(m)(S @ m.p, m.t)
    return m


def line_mesh(rng, n, general=False):
    import skfem
    # half-integer vertex coordinates of either sign; the right end point is an integer, so that integer typed query
    # arrays can hit it (its replacement, the middle of the last cell, is then NOT an integer)
    while True:
        xs = sorted(rng.sample(range(-24, 41), n))
        if xs[-1] % 2 == 0:
            if rng.random() < 0.5 and (n < 3 or xs[-3] < xs[-1] - 1):
                xs[-2] = xs[-1] - 1            # a last cell of length 1/2: its middle truncates to a point outside it
            break
    xs = [v / 2.0 for v in xs]
    perm = list(range(n))
    rng.shuffle(perm)
    p = np.zeros((1, n))
    for i, v in enumerate(xs):
        p[0, perm[i]] = float(v)
    cells = [(perm[i], perm[i + 1]) for i in range(n - 1)]
    if general and len(cells) >= 3:
        # gaps: drop some interior cells (a disconnected mesh; the end points of a dropped cell stay as vertices of the
        # neighbours, a node between two dropped cells becomes an unused node)
        drop = set(rng.sample(range(1, len(cells) - 1), rng.randrange(1, max(2, len(cells) // 2))))
        cells = [c for k, c in enumerate(cells) if k not in drop]
        if rng.random() < 0.5:
            # an extra unused node somewhere
            p = np.hstack((p, [[float(xs[0]) - 1.5]]))
    rng.shuffle(cells)
    cells = [c if rng.random() < 0.5 else (c[1], c[0]) for c in cells]
    return skfem.MeshLine1(p, np.array(cells).T)


# ============================================================================ correspond()

class Collector:
    """gathers correspondence jobs together with the generated / tie files their evaluation needs"""

    def __init__(self):
        self.jobs, self.req = [], []

    def add(self, *a, **kw):
        self.jobs.append((list(self.req), a, kw))


def run_correspondence(ctx, coll, ok):
    from .c15_oracle import CorrBatch
    batch = CorrBatch(ctx)
    for req, a, kw in coll.jobs:
        if all(ok.get(r) for r in req):
            batch.add(*a, **kw)
    batch.run()


def correspond(ctx, facts, batch):
    """run the real finders / probes (no Coq needed) and queue the comparisons with the model"""
    rng = ctx.rng
    nprng = np.random.default_rng(ctx.seed + 14)
    need = ['gen/C14GenAffine.v', 'gen/C14GenTri.v', 'gen/C14GenTet.v', 'gen/C14GenSplits.v', 'gen/C14GenProbes.v',
            'dyn/C14_TieGeom.v', 'dyn/C14_TieFinder.v']
    batch.req = need
    if 'C14GenTri' in facts and 'C14GenTet' in facts:
        # ---- simplex finders: robustly decidable points (interior with margin, outside with margin)
        for which, dim in (('tri', 2), ('tet', 3)):
            cases = []
            for _ in range(ctx.n(6, 24)):
                m = delaunay_mesh(nprng, dim, rng.randrange(7, 12) if dim == 2 else rng.randrange(6, 9))
                ncand = facts[f'C14Gen{which.capitalize()}']['ncand']
                pool = mesh_points(m, rng, kinds=('interior', 'outside'), per_kind=10)
                # the empty batch
                try:
                    r0 = np.asarray(m.element_finder()(*np.zeros((dim, 0))))
                    r0 = ('ok', [int(c) for c in r0.ravel()])
                except Exception as ex:      # noqa: BLE001 - reported by search_zero_points with a replay
                    r0 = ('raises', repr(ex))
                cases.append((f'({enc_simplex_mesh(m)}, ({clist([])}, {enc_pts([])}))', enc_res(r0), (which, m.t.shape[1], 0, 'empty', [])))
                for _ in range(ctx.n(5, 12)):
                    k = rng.randrange(1, 6)
                    kinds = 'interior' if rng.random() < 0.7 else 'mixed'
                    sel = [p for p in pool if p[0] == 'interior'] if kinds == 'interior' else pool
                    pts = [x for _, x in rng.sample(sel, min(k, len(sel)))]
                    r = run_finder(m, pts)
                    cand = candidates(m, pts, ncand)
                    cases.append((f'({enc_simplex_mesh(m)}, ({clist([cnat(c) for c in cand])}, {enc_pts(pts)}))', enc_res(r),
                                  (which, m.t.shape[1], len(pts), r[0], cand[:3])))
                    ctx.hist(f'corr_{which}_result', r[0])
            ctx.sample({'kind': f'{which} finder batch', 'cells': cases[0][2][1], 'points': cases[0][2][2], 'impl': cases[0][1]})
            batch.add(f'finder_{which}', IMPORTS, f'run_{which}', 'onats_eqb', cases, defs=MESH_DEFS, per_file=ctx.n(40, 60),
                      nontrivial=lambda r: r[2] >= 2 or r[3] in ('raises', 'empty'))
        # ---- split finders on parallelogram / box / prism meshes (integer shear of a tensor mesh)
        for which in ('quad', 'hex', 'wedge'):
            cases = []
            for _ in range(ctx.n(4, 16)):
                m = tensor_mesh(rng, which, shear=True, graded=rng.random() < 0.4)
                ms = m.to_meshtri() if which == 'quad' else m.to_meshtet()
                ncand = 5 if which == 'quad' else 10
                # robustly decidable points: strictly inside a SIMPLEX of the split (a point inside the cell but on a
                # facet of its split - e.g. on the long diagonal of a hexahedron - is subject to the listed finding
                # F11 and is exercised, under its key, by the oracle, not by this exact correspondence)
                pool = mesh_points(ms, rng, kinds=('interior', 'outside'), per_kind=10)
                for _ in range(ctx.n(4, 10)):
                    k = rng.randrange(1, 5)
                    sel = [p for p in pool if p[0] == 'interior'] if rng.random() < 0.7 else pool
                    pts = [x for _, x in rng.sample(sel, k)]
                    r = run_finder(m, pts)
                    cand = candidates(ms, pts, ncand)
                    penc = clist([clist([cq(Fr(v)) for v in row]) for row in m.p])
                    tenc = clist([clist([cnat(v) for v in row]) for row in m.t])
                    cases.append((f'({penc}, {tenc}, ({clist([cnat(c) for c in cand])}, {enc_pts(pts)}))', enc_res(r),
                                  (which, m.t.shape[1], len(pts), r[0])))
            batch.add(f'finder_{which}', IMPORTS, f'run_{which}', 'onats_eqb', cases, defs=MESH_DEFS, per_file=ctx.n(20, 40),
                      nontrivial=lambda r: r[2] >= 2 or r[3] == 'raises')
    # ---- layout of the split connectivity: the real to_meshtri / to_meshtet table vs the regenerated layout function
    batch.req = ['gen/C14GenSplits.v']
    cases = []
    for which in ('quad', 'hex', 'wedge'):
        for _ in range(ctx.n(3, 8)):
            m = tensor_mesh(rng, which, shear=False)
            m = type(m)(m.p, m.t[:, rng.sample(range(m.t.shape[1]), m.t.shape[1])])        # any cell order
            ms = m.to_meshtri() if which == 'quad' else m.to_meshtet()
            ts = type(ms).__mro__[0]
            # MeshTri1 sorts its connectivity: compare the vertex SETS of every simplex (sorted columns)
            real = np.sort(ms.t, axis=0)
            tenc = clist([clist([cnat(v) for v in row]) for row in m.t])
            cases.append((f'({cnat({"quad": 0, "hex": 1, "wedge": 2}[which])}, {tenc})',
                          clist([clist([cnat(v) for v in col]) for col in real.T]), ('split-layout', which, m.t.shape[1], ts.__name__)))
    defs = ('''
Fixpoint insert_nat (a : nat) (l : list nat) : list nat := match l with [] => [a] | b :: t => if a <=? b then a :: l else b :: insert_nat a t end.
Definition sort_nats (l : list nat) : list nat := fold_right insert_nat [] l.
Definition run_layout (a : nat * list (list nat)) : list (list nat) :=
  let '(w, t) := a in let nt := length (nth 0 t []) in
  let sels := match w with 0 => gen_quad_sels | 1 => gen_hex_sels | _ => gen_wedge_sels end in
  let lay := match w with 0 => gen_quad_layout | 1 => gen_hex_layout | _ => gen_wedge_layout end in
  map (fun k => let bc := lay nt k in sort_nats (map (fun v => nth (snd bc) (nth v t []) 0) (nth (fst bc) sels [])))
      (seq 0 (length sels * nt)).
''')
    batch.add('split_layout', 'From Coq Require Import List Arith Bool.\nRequire Import Model.C14_Finder Gen.C14GenSplits.\nImport ListNotations.\n',
              'run_layout', 'natss_eqb', cases, defs=defs, nontrivial=lambda r: r[2] >= 2)
    # ---- 1-D finder: exact on every kind of point
    batch.req = []
    cases = []
    for it in range(ctx.n(40, 160)):
        m = line_mesh(rng, rng.randrange(2, 9), general=(it % 2 == 1))
        # the tables the code builds: cells sorted by left end
        ends = np.sort(m.p[0, m.t], axis=0)
        ix = np.argsort(ends[0])
        lefts = [Fr(v) for v in ends[0, ix]]
        rights = [Fr(v) for v in ends[1, ix]]
        lo, hi = lefts[0], max(rights)
        xs = []
        for _ in range(rng.randrange(1, 6)):
            r = rng.random()
            if r < 0.35:
                xs.append(rng.choice(lefts + rights))
            elif r < 0.8:
                xs.append(Fr(rng.randrange(int(lo) * 4, int(hi) * 4 + 1), 4))          # may fall into a gap
            else:
                xs.append(rng.choice([lo - Fr(1, 2), hi + Fr(1, 2), lo - 3, hi + 2]))
        dt = None
        if rng.random() < 0.4:
            # integer typed query points (including the right end point and vertices)
            xs = [Fr(round(float(v))) if lo <= round(float(v)) <= hi else Fr(int(hi)) for v in xs]
            dt = rng.choice([np.int64, np.int32])
        r = run_finder(m, [(x,) for x in xs], dtype=dt)
        ctx.hist('corr_line_dtype', 'float64' if dt is None else dt.__name__)
        ctx.hist('corr_line_mesh', 'gaps / unused nodes' if it % 2 == 1 else 'chain')
        cases.append((f'({clist([cq(v) for v in lefts])}, {clist([cq(v) for v in rights])}, {clist([cnat(v) for v in ix])}, '
                      f'{clist([cq(v) for v in xs])})', enc_res(r), ('line', len(lefts), len(xs), r[0])))
        ctx.hist('corr_line_result', r[0])
    batch.req = ['gen/C14GenLine.v']
    batch.add('finder_line', 'From Coq Require Import List Arith QArith Bool.\nRequire Import Model.C14_Finder Gen.C14GenLine.\n'
              'Local Open Scope Q_scope.\n',
              'run_line', 'onats_eqb', cases,
              defs='Definition run_line (a : list Q * list Q * list nat * list Q) := let \'(lefts, rights, ixs, xs) := a in '
                   'gen_line_finder lefts rights ixs xs.\nDefinition onats_eqb := option_eqb nats_eqb.\n',
              nontrivial=lambda r: r[2] >= 2 or r[3] == 'raises')
    # ---- probes: the COO index arrays
    batch.req = ['gen/C14GenProbes.v']
    if 'C14GenProbes' in facts:
        import skfem
        cases = []
        cfgs = [('tri', 'ElementTriP1', 1), ('tri', 'ElementTriP2', 1), ('tri', 'ElementVector:ElementTriP1', 2), ('tri', 'ElementTriRT1', 2),
                ('tri', 'ElementVector:ElementVector:ElementTriP1', 4), ('quad', 'ElementQuad2', 1), ('tet', 'ElementTetP1', 1),
                ('tet', 'ElementVector:ElementTetP1', 3), ('hex', 'ElementHex1', 1), ('line', 'ElementLineP2', 1)]
        for fam, ename, comp in cfgs:
            for _ in range(ctx.n(2, 6)):
                m = line_mesh(rng, 5) if fam == 'line' else tensor_mesh(rng, fam, shear=False)
                e = make_elem(ename)
                bs = skfem.Basis(m, e)
                pool = [x for _, x in mesh_points(m, rng, kinds=('interior',), per_kind=6)]
                pts = [rng.choice(pool) for _ in range(rng.randrange(1, 6))]      # repetitions allowed
                x = np.array([fl(p) for p in pts]).T
                nelems = m.t.shape[1]
                tind = None
                if rng.random() < 0.5 and nelems >= 2:
                    # a basis restricted to a subset of the cells (given in arbitrary order)
                    cells_all = [int(c) for c in m.element_finder()(*x)]
                    sub = sorted(set(cells_all) | set(rng.sample(range(nelems), max(1, nelems // 3))))
                    if rng.random() < 0.3 and len(set(cells_all)) >= 2:
                        sub = [c for c in sub if c != cells_all[0]] or sub     # one query point falls outside the subset
                    rng.shuffle(sub)
                    bs = skfem.Basis(m, e, elements=np.array(sub))
                    tind = [int(c) for c in bs.tind]
                try:
                    cells = [int(c) for c in m.element_finder(mapping=bs.mapping)(*x)]
                    if tind is not None and not set(cells) <= set(tind):
                        try:
                            bs.probes(x)
                            got_none = False
                        except ValueError:
                            got_none = True
                        edofs = clist([clist([cnat(v) for v in row]) for row in bs.element_dofs])
                        inp = (f'({edofs}, {clist([cnat(c) for c in cells])}, {cnat(comp)}, ({cnat(nelems)}, '
                               f'(Some {clist([cnat(c) for c in tind])}), {cnat(bs.N)}))')
                        cases.append((inp, 'None' if got_none else '(Some ([], [], (0%nat, 0%nat)))', ('probes-restricted-outside', ename, len(pts), comp, bs.Nbfun)))
                        continue
                    Pm = bs.probes(x)
                except Exception as ex:      # noqa: BLE001 - interior points of a valid mesh: an exception is a failing input
                    ctx.fail(f'probes:{ename}:{type(m).__name__}:exception', f'probes / finder raised {type(ex).__name__}: {ex} on interior points',
                             {'element': ename, 'mesh_class': type(m).__name__, 'p': m.p.tolist(), 't': m.t.tolist(), 'points': x.tolist(), 'site': 'probes'})
                    continue
                edofs = clist([clist([cnat(v) for v in row]) for row in bs.element_dofs])
                tenc = 'None' if tind is None else f'(Some {clist([cnat(c) for c in tind])})'
                inp = f'({edofs}, {clist([cnat(c) for c in cells])}, {cnat(comp)}, ({cnat(nelems)}, {tenc}, {cnat(bs.N)}))'
                outp = f'(Some ({clist([cnat(v) for v in Pm.row])}, {clist([cnat(v) for v in Pm.col])}, ({cnat(Pm.shape[0])}, {cnat(Pm.shape[1])})))'
                cases.append((inp, outp, ('probes' if tind is None else 'probes-restricted', ename, len(pts), comp, bs.Nbfun)))
                ctx.hist('corr_probes_basis', 'restricted' if tind is not None else 'whole mesh')
                if comp != int(np.prod(bs._base_tensor_order)):
                    ctx.broke('correspondence', 'probes:harness-comp', f'{ename}: expected {comp} components')
        defs = ('Definition run_probes (a : list (list nat) * list nat * nat * (nat * option (list nat) * nat)) :=\n'
                '  let \'(edofs, cells, comp, (nelems, tind, N)) := a in\n'
                '  match gen_probe_restrict nelems tind cells with\n'
                '  | None => None\n'
                '  | Some cells1 => Some (gen_probe_rows (length edofs) comp (length cells), gen_probe_cols edofs cells1 comp,\n'
                '                         gen_probe_shape comp (length cells) N)\n'
                '  end.\n'
                'Definition pr_eqb (u v : option (list nat * list nat * (nat * nat))) :=\n'
                '  match u, v with\n'
                '  | None, None => true\n'
                '  | Some (r1, c1, (a1, b1)), Some (r2, c2, (a2, b2)) => nats_eqb r1 r2 && nats_eqb c1 c2 && Nat.eqb a1 a2 && Nat.eqb b1 b2\n'
                '  | _, _ => false\n'
                '  end.\n')
        batch.add('probes_indices', 'From Coq Require Import List Arith QArith Bool.\nRequire Import Model.C14_Finder Gen.C14GenProbes.\n',
                  'run_probes', 'pr_eqb', cases, defs=defs, nontrivial=lambda r: r[2] >= 2)
        ctx.sample({'kind': 'probes indices', 'element': cases[2][2][1], 'npts': cases[2][2][2], 'impl(rows, cols, shape)': cases[2][1][:300]})


def make_elem(name):
    import skfem
    parts = name.split(':')
    if parts[0] == 'ElementVector':
        return skfem.ElementVector(make_elem(':'.join(parts[1:])))
    if len(parts) == 2:
        return getattr(skfem, parts[0])(int(parts[1]))
    return getattr(skfem, parts[0])()


# ============================================================================ deterministic witnesses for the fallback logic

def _graded_mesh(kind):
    """small cells on the left, one column of very long cells on the right: a point at the left end of a long cell is far
    from that cell's centroid and close to many centroids of small cells"""
    import skfem
    gx = np.array([0., 1., 2., 3., 4., 5., 6., 70.])
    g2 = np.array([0., 1., 2.])
    if kind == 'tri':
        return skfem.MeshTri.init_tensor(gx, g2)
    if kind == 'quad':
        return skfem.MeshQuad.init_tensor(gx, g2)
    if kind == 'tet':
        return skfem.MeshTet.init_tensor(gx[2:], g2, g2)
    if kind == 'hex':
        return skfem.MeshHex.init_tensor(gx[2:], g2, g2)
    return skfem.MeshTri.init_tensor(gx[2:], g2) * skfem.MeshLine(g2)


def search_witnesses(ctx):
    """not sampling dependent; runs first in every tier.  For each long cell k of a graded mesh, permuted to be the LAST cell:
    a point inside k (for quad / hex / prism meshes: inside the LAST simplex of k's split) whose nearest centroids exclude
    it, so that only the exhaustive pass can find it.  Queried alone, together with an easy point (both must be located in
    cells containing them), and together with an outside point (must raise)."""
    stats = {'cells_tested': 0, 'precondition_failed': 0}
    W = {3: [Fr(5, 8), Fr(1, 4), Fr(1, 8)], 4: [Fr(9, 16), Fr(1, 4), Fr(1, 8), Fr(1, 16)]}
    for kind in ('tri', 'tet', 'quad', 'hex', 'wedge'):
        m0 = _graded_mesh(kind)
        dim = m0.p.shape[0]
        nt = m0.t.shape[1]
        ncand = 5 if dim == 2 else 10
        xmax = m0.p[0].max()
        long_cells = [c for c in range(nt) if m0.p[0, m0.t[:, c]].max() == xmax]
        inc = containment(m0)
        for k in long_cells:
            perm = [c for c in range(nt) if c != k] + [k]
            m = type(m0)(m0.p, m0.t[:, perm])
            last = nt - 1
            ms = simplicial(m)
            ks = ms.t.shape[1] - 1                       # the last simplex: last block of the split, last cell
            if ks % nt != last:
                ctx.broke('harness', 'c14-witness', 'the last simplex of the split does not belong to the last cell')
                continue
            V = sorted([[Fr(ms.p[i, v]) for i in range(dim)] for v in ms.t[:, ks]], key=lambda q: (q[0], q[1:]))
            ws = W[dim + 1]
            hard = tuple(sum(ws[j] * V[j][i] for j in range(dim + 1)) for i in range(dim))
            cand = candidates(ms, [hard], ncand)
            stats['cells_tested'] += 1
            if ks in cand or not in_simplex(ms, ks, hard) or min(bary(cellP(ms, ks), hard)) <= 0:
                stats['precondition_failed'] += 1
                continue
            easy_c = 0
            Ve = [[Fr(m.p[i, v]) for i in range(dim)] for v in m.t[:, easy_c]]
            easy = tuple(sum(q[i] for q in Ve) / len(Ve) + Fr(1, 64) * (i + 1) for i in range(dim))
            outside = tuple(Fr(-5) - i for i in range(dim))
            data = {'mesh_class': type(m).__name__, 'p': m.p.tolist(), 't': m.t.tolist(), 'site': 'finder-witness',
                    'hard': [str(v) for v in hard], 'easy': [str(v) for v in easy], 'outside': [str(v) for v in outside],
                    'candidates_of_hard_point': cand, 'last_simplex': ks}
            cname = type(m).__name__
            ctx.count(('witness', kind, k), nontrivial=True)
            for label, pts, expect_raise in (('alone', [hard], False), ('with-easy-point', [hard, easy], False),
                                             ('easy-first', [easy, hard], False), ('with-outside-point', [easy, hard, outside], True)):
                r = run_finder(m, pts)
                d2 = dict(data, batch=label, result=r[1])
                if expect_raise:
                    if r[0] != 'raises':
                        ctx.fail(f'finder:{cname}:batch-with-outside-point-does-not-raise',
                                 f'a batch containing the outside point {fl(outside)} returns {r[1]} instead of raising', d2)
                    continue
                if r[0] != 'ok':
                    ctx.fail(f'finder:{cname}:point-needing-exhaustive-pass-raises',
                             f'point {fl(hard)} lies in the last cell {last} (not among the {ncand} nearest centroids) but the finder raises ({label})', d2)
                elif len(r[1]) != len(pts) or not all(0 <= c < nt and inc(m, c, x) for c, x in zip(r[1], pts)):
                    ctx.fail(f'finder:{cname}:point-needing-exhaustive-pass-wrong-cell',
                             f'batch {label}: points {[fl(x) for x in pts]} located as {r[1]}; the point {fl(hard)} lies in the last cell {last} only', d2)
    if stats['cells_tested'] == 0 or stats['precondition_failed'] == stats['cells_tested']:
        ctx.broke('harness', 'c14-witness', f'no witness satisfied its precondition: {stats}')
    ctx.extra['fallback_witnesses'] = stats


# ============================================================================ search(): finders

def raise_class(m, x):
    """the finder raised for x: is x in the domain, and is it the absolute-eps class (x ON a facet of the simplicial mesh the
    finder works with, float min-barycentric within rounding noise of 0)?  -> (class, info)"""
    inc = containment(m)
    exact = [c for c in range(m.t.shape[1]) if inc(m, c, x)]
    if not exact:
        return 'outside', {'cells_containing_point_exactly': []}
    best = float_best(m, x)
    ms = simplicial(m)
    on_facet = False
    if ms is not None:
        # exact position relative to the simplices: M = 0 for a point ON a facet (dyadic inputs); for float inputs such as
        # Gauss points M is within rounding distance of 0; a point robustly inside some simplex has M >> 1e-12
        M = max(min(bary(cellP(ms, c), x)) for c in range(ms.t.shape[1]))
        on_facet = abs(M) <= Fr(1, 10 ** 12)
    info = {'cells_containing_point_exactly': exact[:6], 'best_float_min_barycentric': best, 'on_facet_of_simplicial_mesh': on_facet}
    if on_facet and best is not None and -1e-12 <= best < 0:
        return 'f11', info
    return 'other', info


F11_TEXT = ('the inside test uses an absolute slack of one machine epsilon: a point ON a facet of the simplicial mesh (vertex / edge / '
            'facet point; for quadrilateral, hexahedral and prismatic meshes also points inside a cell that lie on a facet of its '
            'simplex split, e.g. tensor Gauss points on the diagonal planes) raises "Point is outside of the mesh"')


def check_finder_mesh(ctx, m, label, rng, per_kind, stats, extra=()):
    """every query point alone, plus a few mixed batches"""
    inc = containment(m)
    nt = m.t.shape[1]
    pts = mesh_points(m, rng, per_kind=per_kind) + list(extra)
    cname = type(m).__name__
    located_alone = set()
    for kind, x in pts:
        r = run_finder(m, [x])
        if r[0] == 'ok':
            located_alone.add(tuple(x))
        ctx.count((label, cname, kind, tuple(map(str, x)), m.p.tobytes(), m.t.tobytes()), nontrivial=nt >= 2)
        ctx.hist('finder_point_kind', f'{cname}:{kind}')
        stats['points'] += 1
        data = {'mesh_class': cname, 'p': m.p.tolist(), 't': m.t.tolist(), 'point': [str(v) for v in x], 'kind': kind,
                'result': r[1], 'site': 'finder'}
        if r[0] == 'ok':
            c = r[1][0]
            if not (0 <= c < nt):
                ctx.fail(f'finder:{cname}:not-a-cell', f'finder returned {c} for a mesh of {nt} cells', data)
            elif not inc(m, c, x):
                exact = [cc for cc in range(nt) if inc(m, cc, x)]
                data['cells_containing_point_exactly'] = exact[:6]
                if not exact:
                    ctx.fail(f'finder:{cname}:outside-point-accepted', f'point {fl(x)} lies in no cell but cell {c} was returned', data)
                else:
                    ctx.fail(f'finder:{cname}:wrong-cell', f'point {fl(x)} is not in the returned cell {c} (it is in {exact[:4]})', data)
        elif kind != 'outside':
            cl, info = raise_class(m, x)
            data.update(info)
            if cl == 'f11':
                stats['raised_on_mesh'] += 1
                stats['f11'] += 1
                if kind == 'interior':
                    stats['f11_interior_of_nonsimplex_cell'] += 1
                ctx.fail(F11_KEY, F11_TEXT + f' (e.g. {fl(x)} of a {cname}; best float min-barycentric {info["best_float_min_barycentric"]})', data)
            elif cl == 'other':
                stats['raised_on_mesh'] += 1
                ctx.fail(f'finder:{cname}:raises-for-{kind}-point', f'point {fl(x)} lies in cell {info["cells_containing_point_exactly"][0]} but the finder raises', data)
            elif kind != 'notch':
                ctx.broke('harness', 'c14-point-generator', f'{kind} point {fl(x)} of {cname} is in no cell')
    # batches: order / repetition must not matter for validity
    # (only points the finder locates when asked alone: an interior point of a hexahedron / prism / quadrilateral on a
    # facet of its simplex split can raise by the listed finding F11, which is keyed above, not here)
    good = [x for k, x in pts if k == 'interior' and tuple(x) in located_alone]
    for _ in range(3 if good else 0):
        b = [rng.choice(good) for _ in range(rng.randrange(2, 7))]
        r = run_finder(m, b)
        stats['batches'] += 1
        if r[0] != 'ok' or len(r[1]) != len(b) or not all(inc(m, c, x) for c, x in zip(r[1], b)):
            ctx.fail(f'finder:{cname}:batch', 'a batch of interior points (with repetitions) is not located point by point',
                     {'mesh_class': cname, 'p': m.p.tolist(), 't': m.t.tolist(), 'points': [[str(v) for v in x] for x in b], 'result': r[1], 'site': 'finder-batch'})


def search_finders(ctx):
    import skfem
    rng = ctx.rng
    nprng = np.random.default_rng(ctx.seed + 41)
    stats = {'points': 0, 'raised_on_mesh': 0, 'f11': 0, 'f11_interior_of_nonsimplex_cell': 0, 'batches': 0}
    pk = ctx.n(10, 24)
    for dim in (2, 3):
        for _ in range(ctx.n(6, 30)):
            m = delaunay_mesh(nprng, dim, rng.randrange(12, 30) if dim == 2 else rng.randrange(8, 16))
            check_finder_mesh(ctx, m, 'delaunay', rng, pk, stats, extra=all_mesh_points(m))
    for kind in ('tri', 'tet', 'quad', 'hex', 'wedge'):
        for cfg in range(ctx.n(3, 10)):
            m = tensor_mesh(rng, kind, shear=cfg % 2 == 0, graded=cfg % 3 == 1, nonconvex=cfg % 3 == 2)
            extra = []
            if cfg % 3 == 2:
                # points in the notch of the non-convex domain: inside the bounding box, outside the mesh
                extra = [('notch', x) for x in notch_points(m, rng, 6)]
            check_finder_mesh(ctx, m, 'tensor', rng, pk, stats, extra=extra)
    # anisotropic: one direction stretched by 64
    for kind in ('tri', 'quad', 'tet'):
        m = tensor_mesh(rng, kind, shear=False)
        S = np.diag([64.0] + [1.0] * (m.p.shape[0] - 1))
        check_finder_mesh(ctx, type(m)(S @ m.p, m.t), 'anisotropic', rng, pk, stats)
    # general convex quadrilaterals (interior grid nodes moved by integer offsets of a 8x scaled grid)
    for _ in range(ctx.n(3, 10)):
        m = skfem.MeshQuad.init_tensor(np.arange(4) * 8.0, np.arange(4) * 8.0)
        inner = m.interior_nodes()
        while True:
            p = m.p.copy()
            p[:, inner] += np.array([[rng.randrange(-2, 3) for _ in inner], [rng.randrange(-2, 3) for _ in inner]], dtype=float)
            mq = skfem.MeshQuad(p, m.t)
            if _strictly_convex_quads(mq):
                break
        check_finder_mesh(ctx, mq, 'convex-quads', rng, pk, stats)
    for it in range(ctx.n(8, 24)):
        ml = line_mesh(rng, rng.randrange(3, 10), general=(it % 2 == 1))
        extra = []
        if it % 2 == 1:
            # points of gaps (between the components of a disconnected mesh): in no cell, the finder must raise
            ends = np.sort(ml.p[0, ml.t], axis=0)
            lo_, hi_ = Fr(float(ends.min())), Fr(float(ends.max()))
            for _ in range(12):
                xg = (lo_ + (hi_ - lo_) * Fr(rng.randrange(1, 64), 64),)
                if not any(in_line(ml, c, xg) for c in range(ml.t.shape[1])):
                    extra.append(('notch', xg))
            # every vertex that is an end point of a cell (incl. ends next to gaps)
            extra += [('vertex', (Fr(float(v)),)) for v in np.unique(ends)]
        check_finder_mesh(ctx, ml, 'line', rng, max(4, pk // 2), stats, extra=extra)
    # general hexahedra (non-planar faces) and prisms with moved nodes: no exact containment formula; points are images
    # F_c(xi) of reference points well inside the cell (margin 1/4), the finder must return c
    nonplanar = {'points': 0, 'other_cell': 0}
    for kind in ('hex', 'wedge', 'quad'):
        for _ in range(ctx.n(2, 8)):
            m0 = tensor_mesh(rng, kind, shear=False)
            p = m0.p * 8.0
            inner = np.setdiff1d(np.arange(p.shape[1]), m0.boundary_nodes())
            if len(inner):
                p[:, inner] += np.array([[rng.randrange(-2, 3) for _ in inner] for _ in range(p.shape[0])], dtype=float)
            m = type(m0)(p, m0.t)
            mp = m._mapping()
            d = p.shape[0]
            for _ in range(ctx.n(12, 40)):
                # generic reference points (not on any plane with small integer coefficients, so not on a facet of the split)
                vals = rng.sample([0.29, 0.43, 0.61, 0.37, 0.53], d)
                xi = np.array([[vals[i] * (0.5 if kind == 'wedge' and i < 2 else 1.0)] for i in range(d)])
                c = rng.randrange(m.t.shape[1])
                x = mp.F(xi, tind=np.array([c]))[:, 0, :]
                r = run_finder(m, [tuple(Fr(float(v)) for v in x[:, 0])])
                nonplanar['points'] += 1
                ctx.count(('nonplanar', kind, c, xi.tobytes(), p.tobytes()), nontrivial=True)
                ok_ = r[0] == 'ok' and r[1][0] == c
                if not ok_:
                    # a neighbour is acceptable only if the point really is in it too (pull it back there)
                    good = False
                    if r[0] == 'ok' and 0 <= r[1][0] < m.t.shape[1]:
                        try:
                            X = mp.invF(x[:, :, None], tind=np.array([r[1][0]]))[:, 0, 0]
                            lo, hi = -1e-9, 1 + 1e-9
                            good = bool(np.all(X >= lo) and (np.all(X <= hi) if kind != 'wedge' else (X[0] + X[1] <= hi and X[2] <= hi)))
                        except Exception:       # Newton failure: the point is not in that cell
                            good = False
                    if good:
                        nonplanar['other_cell'] += 1
                    else:
                        ctx.fail(f'finder:{type(m).__name__}:general-cell:wrong-or-raises',
                                 f'point F_c(xi) with xi well inside cell {c} is located as {r[1]}',
                                 {'mesh_class': type(m).__name__, 'p': m.p.tolist(), 't': m.t.tolist(), 'cell': c, 'xi': xi.ravel().tolist(),
                                  'point': [str(Fr(float(v))) for v in x[:, 0]], 'result': r[1], 'site': 'finder-general'})
    stats['general_cells'] = nonplanar
    ctx.extra['finder_search'] = stats


# ============================================================================ search(): probes / interpolator / point_source

ELEMS = {
    'tri': ['ElementTriP1', 'ElementTriP2', 'ElementTriP0', 'ElementTriCR', 'ElementTriRT1', 'ElementTriN1', 'ElementTriMini',
            'ElementVector:ElementTriP2', 'ElementVector:ElementVector:ElementTriP1', 'ElementTriMorley', 'ElementTriP3', 'ElementTriBDM1'],
    'quad': ['ElementQuad1', 'ElementQuad2', 'ElementQuad0', 'ElementQuadP:3', 'ElementVector:ElementQuad1', 'ElementQuadS2'],
    'tet': ['ElementTetP1', 'ElementTetP2', 'ElementTetN1', 'ElementTetRT1', 'ElementVector:ElementTetP1', 'ElementTetP0'],
    'hex': ['ElementHex1', 'ElementHex2', 'ElementVector:ElementHex1'],
    'wedge': ['ElementWedge1'],
    'line': ['ElementLineP1', 'ElementLineP2', 'ElementLinePp:3', 'ElementLineHermite', 'ElementLineMini'],
}


def direct_eval(bs, x, y):
    """the located cell's local expansion, ONE point at a time"""
    cells = bs.mesh.element_finder(mapping=bs.mapping)(*x)
    out = []
    for p in range(x.shape[1]):
        c = np.array([cells[p]])
        pt = bs.mapping.invF(x[:, [p], None], tind=c)
        acc = 0.0
        for k in range(bs.Nbfun):
            phi = bs.elem.gbasis(bs.mapping, pt, k, tind=c)[0].value       # (comp.., 1, 1)
            acc = acc + y[bs.element_dofs[k, c[0]]] * np.asarray(phi)[..., 0, 0]
        out.append(np.asarray(acc))
    return np.stack(out, axis=-1)        # (comp.., npts)


def search_probes(ctx):
    import skfem
    rng = ctx.rng
    worst = 0.0
    n = 0
    for fam, names in ELEMS.items():
        for ename in names:
            for rep in range(ctx.n(1, 3)):
                if fam == 'line':
                    m = line_mesh(rng, 6)
                else:
                    m = tensor_mesh(rng, fam, shear=(rep % 2 == 0), graded=(rep == 1), nonconvex=(rep == 2))
                try:
                    e = make_elem(ename)
                    bs = skfem.Basis(m, e)
                except Exception as ex:    # element not available for this mesh in this version: not a probes issue
                    ctx.hist('probes_skipped', f'{ename}:{type(ex).__name__}')
                    continue
                pool = [x for _, x in mesh_points(m, rng, kinds=('interior',), per_kind=8)]
                pts = [rng.choice(pool) for _ in range(rng.randrange(1, 7))]
                x = np.array([fl(p) for p in pts]).T
                y = np.cos(1.0 + 0.37 * np.arange(bs.N))
                key = f'{ename}:{type(m).__name__}'
                data = {'element': ename, 'mesh_class': type(m).__name__, 'p': m.p.tolist(), 't': m.t.tolist(),
                        'points': x.tolist(), 'site': 'probes'}
                try:
                    ref = direct_eval(bs, x, y)                  # (comp.., npts)
                    Pm = bs.probes(x)
                    got = Pm @ y
                    tord = tuple(bs._base_tensor_order)
                    got_r = got.reshape(tord + (x.shape[1],))
                    itp = bs.interpolator(y)(x)
                    ps0 = bs.point_source(x[:, 0])
                except Exception as ex:       # noqa: BLE001 - an exception of the code under test on a valid input is a failing input
                    ctx.fail(f'probes:{key}:exception', f'probes / interpolator raised {type(ex).__name__}: {ex}', data)
                    continue
                n += 1
                ctx.count(('probes', key, x.tobytes(), m.p.tobytes()), nontrivial=x.shape[1] >= 2)
                ctx.hist('probes_element', ename)
                scale = 1.0 + float(np.max(np.abs(ref)))
                d1 = float(np.max(np.abs(got_r - ref))) / scale
                worst = max(worst, d1)
                if d1 > 1e-11:
                    ctx.fail(f'probes:{key}:value', f'probes(x) @ y differs from the local expansion of the located cell by {d1:.2e}', dict(data, diff=d1))
                if np.asarray(itp).shape != ref.shape or float(np.max(np.abs(np.asarray(itp) - ref))) / scale > 1e-11:
                    ctx.fail(f'interpolator:{key}', f'interpolator(y)(x) has shape {np.asarray(itp).shape}, expected {ref.shape}, or wrong values', data)
                # point_source = first row of the one-point matrix; its pairing with y is the value (first component) at the point
                v0 = float(ps0 @ y)
                r0 = float(np.asarray(ref)[(0,) * len(tord) + (0,)])
                if abs(v0 - r0) / scale > 1e-11:
                    ctx.fail(f'point_source:{key}', f'point_source(x0) . y = {v0} but the located expansion gives {r0}', data)
                # order / repetition of the points
                perm = [rng.randrange(x.shape[1]) for _ in range(x.shape[1] + 2)]
                got2 = (bs.probes(x[:, perm]) @ y).reshape(tord + (len(perm),))
                if float(np.max(np.abs(got2 - ref[..., perm]))) / scale > 1e-11:
                    ctx.fail(f'probes:{key}:permutation', 'probes of permuted / repeated points is not the permuted result', dict(data, perm=perm))
                # at the quadrature points probes == interpolate
                if ename not in ('ElementTriMorley', 'ElementLineHermite') and rep == 0:
                    gx = bs.global_coordinates().value                # (dim, nt, nq)
                    sub = list(range(0, m.t.shape[1], max(1, m.t.shape[1] // 4)))[:4]
                    xq = gx[:, sub, :].reshape(gx.shape[0], -1)
                    try:
                        vq = (bs.probes(xq) @ y).reshape(tord + (len(sub), gx.shape[2]))
                        iq = np.asarray(bs.interpolate(y).value)[..., sub, :]
                        dq = float(np.max(np.abs(vq - iq))) / scale
                        worst = max(worst, dq)
                        if dq > 1e-10:
                            ctx.fail(f'probes-at-quadrature-vs-interpolate:{key}', f'probes at the quadrature points differ from interpolate by {dq:.2e}',
                                     dict(data, cells=sub))
                    except ValueError as ex:
                        # which quadrature point does the finder reject, and is it the absolute-eps class?
                        for col in range(xq.shape[1]):
                            xp = tuple(Fr(float(v)) for v in xq[:, col])
                            if run_finder(m, [xp])[0] == 'raises':
                                cl, info = raise_class(m, xp)
                                d2 = dict(data, point=[str(v) for v in xp], **info)
                                if cl == 'f11':
                                    ctx.fail(F11_KEY, F11_TEXT + f' (quadrature point {fl(xp)} of {key})', d2)
                                else:
                                    ctx.fail(f'probes-at-quadrature:{key}:raises', f'finder raised on the quadrature point {fl(xp)}: {ex}', d2)
                                break
    ctx.extra['probes_search'] = {'configurations': n, 'max_relative_discrepancy': worst, 'tolerance': 1e-11}


# ============================================================================ search(): probes on general (non-parallelogram) cells

SCALES = [1e-9, 1e-6, 1e-3, 1e3, 1e6]
GENERAL_ELEMS = {
    'quad': ['ElementQuad1', 'ElementQuad2', 'ElementQuadS2', 'ElementVector:ElementQuad1', 'ElementVector:ElementQuad2', 'ElementQuadP:3', 'ElementQuad0'],
    'hex': ['ElementHex1', 'ElementHex2', 'ElementVector:ElementHex1', 'ElementHex0'],
}


def _strictly_convex_quads(m, margin=8.0):
    P = m.p[:, m.t]                      # (2, 4, nt), vertices in cyclic order
    sg = []
    for k in range(4):
        a, b, c = P[:, k], P[:, (k + 1) % 4], P[:, (k + 2) % 4]
        sg.append((b[0] - a[0]) * (c[1] - b[1]) - (b[1] - a[1]) * (c[0] - b[0]))
    sg = np.array(sg)
    return bool(np.all(np.all(sg >= margin, axis=0) | np.all(sg <= -margin, axis=0)))


def general_mesh(rng, kind, some_affine=True):
    """meshes that mix rectangles / boxes with general convex cells.
    quad: tensor mesh on an 8x integer grid, interior nodes moved by integers (strict convexity checked); with some_affine
          only ONE interior node moves, so the cells not touching it stay rectangles.
    hex : tensor mesh whose layers above z = 8 are widened linearly in z about the centre line: frusta with PLANAR faces
          (convex cells, not parallelepipeds); the bottom layer stays boxes.
    returns (mesh, set of moved vertices)"""
    import skfem
    if kind == 'quad':
        grids = [np.arange(4) * 8.0, np.arange(4) * 8.0]
        m0 = skfem.MeshQuad.init_tensor(*grids)
        inner = np.setdiff1d(np.arange(m0.p.shape[1]), m0.boundary_nodes())
        if some_affine:
            inner = inner[[rng.randrange(len(inner))]]
        while True:
            p = m0.p.copy()
            for v in inner:
                while True:
                    d = [rng.randrange(-2, 3) for _ in range(2)]
                    if sum(abs(x) for x in d) >= 2:
                        break
                p[:, v] += np.array(d, dtype=float)
            m = skfem.MeshQuad(p, m0.t)
            if _strictly_convex_quads(m):
                return m, set(int(v) for v in inner)
    grids = [np.arange(3) * 8.0, np.arange(3) * 8.0, np.arange(3 if some_affine else 4) * 8.0]
    m0 = skfem.MeshHex.init_tensor(*grids)
    p = m0.p.copy()
    alpha = rng.choice([1.0 / 32, 1.0 / 16, -1.0 / 64])
    f = 1.0 + alpha * np.maximum(0.0, p[2] - 8.0)
    p[0] = 8.0 + (p[0] - 8.0) * f + rng.choice([0.0, 1.0]) * np.maximum(0.0, p[2] - 8.0) / 8.0
    p[1] = 8.0 + (p[1] - 8.0) * f
    moved = set(int(v) for v in np.nonzero(m0.p[2] > 8.0)[0])
    return skfem.MeshHex(p, m0.t), moved


def nodal_vector(bs, fun):
    """coefficients of the function fun(x) -> (ncomp, n) in a nodal (Lagrange-type, possibly vector) basis: value of the
    right component at the location of every DOF; None if some DOF has no location"""
    X = bs.doflocs
    if X is None or np.isnan(X).any():
        return None
    tord = tuple(bs._base_tensor_order)
    ncomp = int(np.prod(tord)) if tord else 1
    vals = np.atleast_2d(fun(X))
    comp = np.zeros(bs.N, dtype=int)
    if ncomp > 1:
        # local function k of a vector element belongs to component k % ncomp
        for k in range(bs.Nbfun):
            comp[bs.element_dofs[k]] = k % ncomp
    return vals[comp, np.arange(bs.N)]


def search_probes_general(ctx):
    """batches of query points on meshes that mix rectangles with general convex quadrilaterals / hexahedra: the
    inverse map is a Newton iteration there, with a different number of steps per point.  The batched result must equal
    (i) the one-point-at-a-time evaluation, (ii) the exact value of a known function of the element space, and at the
    quadrature points (iii) Basis.interpolate."""
    import skfem
    rng = ctx.rng
    worst, n = 0.0, 0
    worst_scaled, nscaled = 0.0, 0
    for kind, names in GENERAL_ELEMS.items():
        for rep in range(ctx.n(2, 6)):
            m, moved = general_mesh(rng, kind, some_affine=(rep % 2 == 0))
            mp = m._mapping()
            nt = m.t.shape[1]
            d = m.p.shape[0]
            touched = [c for c in range(nt) if moved & set(int(v) for v in m.t[:, c])]
            plain = [c for c in range(nt) if c not in touched]
            for ename in names:
                try:
                    bs = skfem.Basis(m, make_elem(ename))
                except Exception as ex:      # element not available: not a probes issue
                    ctx.hist('probes_skipped', f'{ename}:{type(ex).__name__}')
                    continue
                # a batch: generic reference points in distorted cells and (if any) in rectangles, in mixed order, with a repetition
                cells = [rng.choice(touched) for _ in range(rng.randrange(2, 5))] + ([rng.choice(plain)] if plain else []) \
                    + [rng.choice(touched)]
                rng.shuffle(cells)
                cols = []
                for c in cells:
                    vals = rng.sample([0.29, 0.43, 0.61, 0.37, 0.53, 0.17, 0.83], d)
                    cols.append(mp.F(np.array(vals)[:, None], tind=np.array([c]))[:, 0, 0])
                x = np.array(cols).T
                x = np.hstack((x, x[:, [0]]))
                key = f'{ename}:{type(m).__name__}:general-cells'
                data = {'element': ename, 'mesh_class': type(m).__name__, 'p': m.p.tolist(), 't': m.t.tolist(),
                        'points': x.tolist(), 'site': 'probes-general'}
                tord = tuple(bs._base_tensor_order)
                ncomp = int(np.prod(tord)) if tord else 1
                # a function of the element space: affine in the physical coordinates (component-wise different)
                coef = np.array([[1.0 + j, 0.5 - 0.25 * j, -0.75 + 0.5 * j, 0.375][:d + 1] for j in range(ncomp)])

                def fun(X, coef=coef):
                    return coef[:, [0]] + coef[:, 1:] @ X
                y_exact = nodal_vector(bs, fun) if ename not in ('ElementQuad0', 'ElementHex0', 'ElementQuadP:3') else None
                y = y_exact if y_exact is not None else np.cos(1.0 + 0.37 * np.arange(bs.N))
                try:
                    got = (bs.probes(x) @ y).reshape(tord + (x.shape[1],))
                    ref = direct_eval(bs, x, y)
                    itp = np.asarray(bs.interpolator(y)(x))
                except Exception as ex:       # noqa: BLE001 - interior points of a valid mesh
                    cl = None
                    if isinstance(ex, ValueError) and 'outside' in str(ex):
                        for col in range(x.shape[1]):
                            xp = tuple(Fr(float(v)) for v in x[:, col])
                            if run_finder(m, [xp])[0] == 'raises':
                                cl = 'raise'
                    ctx.fail(f'probes:{key}:exception', f'probes / interpolator raised {type(ex).__name__}: {ex} ({cl})', data)
                    continue
                n += 1
                ctx.count(('probes-general', key, x.tobytes(), m.p.tobytes()), nontrivial=True)
                ctx.hist('probes_general_element', ename)
                scale = 1.0 + float(np.max(np.abs(ref)))
                d1 = float(np.max(np.abs(got - ref))) / scale
                worst = max(worst, d1)
                if d1 > 1e-9:
                    ctx.fail(f'probes:{key}:batch-vs-single', f'probes of a batch of {x.shape[1]} points differs from the one-point-at-a-time '
                             f'evaluation of the located cells by {d1:.2e}', dict(data, diff=d1))
                d2 = float(np.max(np.abs(itp.reshape(got.shape) - ref))) / scale
                if d2 > 1e-9:
                    ctx.fail(f'interpolator:{key}:batch-vs-single', f'interpolator(y)(x) on a batch differs from one-point-at-a-time evaluation by {d2:.2e}', dict(data, diff=d2))
                if y_exact is not None:
                    ex_v = fun(x).reshape(got.shape) if tord else fun(x)[0]
                    d3 = float(np.max(np.abs(got - ex_v))) / scale
                    worst = max(worst, d3)
                    if d3 > 1e-9:
                        ctx.fail(f'probes:{key}:exact-affine-function', f'probes(x) @ (nodal values of an affine function) differs from the function by {d3:.2e}',
                                 dict(data, diff=d3))
                    v0 = float(bs.point_source(x[:, 1]) @ y)
                    r0 = float(np.asarray(ex_v)[(0,) * len(tord) + (1,)])
                    if abs(v0 - r0) / scale > 1e-9:
                        ctx.fail(f'point_source:{key}:exact-affine-function', f'point_source(x) . y = {v0}, exact value {r0}', data)
                # scale covariance: the same mesh and points scaled by s (tiny ... huge coordinates) give the same values for the
                # same coefficient vector (the inverse map must not depend on the absolute size of the coordinates)
                for sc in SCALES:
                    ms_ = type(m)(m.p * sc, m.t)
                    d_s = dict(data, scale=sc)
                    try:
                        bss = skfem.Basis(ms_, make_elem(ename))
                        got_s = (bss.probes(x * sc) @ y).reshape(tord + (x.shape[1],))
                        itp_s = np.asarray(bss.interpolator(y)(x * sc)).reshape(got.shape)
                    except Exception as ex:      # noqa: BLE001 - interior points of a valid (scaled) mesh
                        if isinstance(ex, ValueError) and 'outside' in str(ex):
                            # the finder's absolute slack at this scale: the F11 class only if a point misses by rounding noise
                            cls_ = [raise_class(ms_, tuple(Fr(float(v)) for v in (x * sc)[:, c_])) for c_ in range(x.shape[1])
                                    if run_finder(ms_, [tuple(Fr(float(v)) for v in (x * sc)[:, c_])])[0] == 'raises']
                            if cls_ and all(c_[0] == 'f11' for c_ in cls_):
                                ctx.fail(F11_KEY, F11_TEXT + f' (mesh scaled by {sc:g})', d_s)
                                continue
                        ctx.fail(f'probes:{key}:scaled-mesh:exception', f'probes / interpolator on the mesh scaled by {sc:g} raised '
                                 f'{type(ex).__name__}: {ex}', d_s)
                        continue
                    ds_ = max(float(np.max(np.abs(got_s - got))), float(np.max(np.abs(itp_s - got)))) / scale
                    worst_scaled = max(worst_scaled, ds_)
                    nscaled += 1
                    if ds_ > 1e-7:
                        ctx.fail(f'probes:{key}:scaled-mesh:value', f'probes / interpolator on the mesh scaled by {sc:g} differ from the '
                                 f'unscaled mesh by {ds_:.2e} (same coefficients, scaled points)', dict(d_s, diff=ds_))
                # quadrature points of distorted and plain cells together
                gx = bs.global_coordinates().value
                sub = (touched[:2] + plain[:1] + touched[2:3])[:4]
                xq = gx[:, sub, :].reshape(gx.shape[0], -1)
                try:
                    vq = (bs.probes(xq) @ y).reshape(tord + (len(sub), gx.shape[2]))
                    iq = np.asarray(bs.interpolate(y).value)[..., sub, :]
                    dq = float(np.max(np.abs(vq - iq))) / scale
                    worst = max(worst, dq)
                    if dq > 1e-9:
                        ctx.fail(f'probes-at-quadrature-vs-interpolate:{key}', f'probes at the quadrature points differ from interpolate by {dq:.2e}',
                                 dict(data, cells=sub))
                except Exception as ex:      # noqa: BLE001
                    if not isinstance(ex, ValueError):
                        ctx.fail(f'probes-at-quadrature:{key}:exception', f'probes at quadrature points raised {type(ex).__name__}: {ex}', dict(data, cells=sub))
                        continue
                    for col in range(xq.shape[1]):
                        xp = tuple(Fr(float(v)) for v in xq[:, col])
                        if run_finder(m, [xp])[0] == 'raises':
                            # no exact containment formula for general cells: on-facet class iff the float test misses by rounding noise only
                            best = float_best(m, xp)
                            if best is not None and -1e-12 <= best < 0:
                                ctx.fail(F11_KEY, F11_TEXT + f' (quadrature point {fl(xp)} of {key})', dict(data, point=[str(v) for v in xp]))
                            else:
                                ctx.fail(f'probes-at-quadrature:{key}:raises', f'finder raised on the quadrature point {fl(xp)}: {ex}', dict(data, point=[str(v) for v in xp]))
                            break
    ctx.extra['probes_general_search'] = {'configurations': n, 'max_relative_discrepancy': worst, 'tolerance': 1e-9,
                                          'scaled_configurations': nscaled, 'scales': SCALES,
                                          'max_relative_discrepancy_scaled_vs_unscaled': worst_scaled, 'tolerance_scaled': 1e-7}


# ============================================================================ search(): restricted bases, trailing axes, integer queries

def search_probes_restricted(ctx):
    """(a) probes / interpolator / point_source of a CellBasis restricted to a subset of the cells (elements=...) equal those
    of the basis on the whole mesh (same coefficient vector) at points of the subset, and fail for a point outside it;
    (b) interpolator(y)(x) for query arrays with trailing axes keeps the component axes: shape = tensor order + x.shape[1:];
    (c) the 1-D finder gives the same cells for integer-typed and float-typed query arrays"""
    import skfem
    rng = ctx.rng
    n = 0
    cfgs = [('tri', 'ElementTriP2'), ('tri', 'ElementVector:ElementTriP1'), ('tri', 'ElementTriRT1'), ('quad', 'ElementQuad2'),
            ('quad', 'ElementVector:ElementQuad1'), ('tet', 'ElementTetP1'), ('tet', 'ElementVector:ElementTetP1'),
            ('hex', 'ElementHex1'), ('line', 'ElementLineP2'), ('tri', 'ElementVector:ElementVector:ElementTriP1'), ('wedge', 'ElementWedge1')]
    for fam, ename in cfgs:
        for rep in range(ctx.n(1, 3)):
            m = line_mesh(rng, 7) if fam == 'line' else tensor_mesh(rng, fam, shear=(rep % 2 == 0))
            nt = m.t.shape[1]
            full = skfem.Basis(m, make_elem(ename))
            pool = [x for _, x in mesh_points(m, rng, kinds=('interior',), per_kind=10)]
            pts = [rng.choice(pool) for _ in range(rng.randrange(2, 7))]
            x = np.array([fl(p) for p in pts]).T
            cells = [int(c) for c in m.element_finder()(*x)]
            sub = sorted(set(cells) | set(rng.sample(range(nt), max(1, nt // 3))))
            rng.shuffle(sub)
            y = np.cos(1.0 + 0.37 * np.arange(full.N))
            key = f'{ename}:{type(m).__name__}'
            data = {'element': ename, 'mesh_class': type(m).__name__, 'p': m.p.tolist(), 't': m.t.tolist(), 'points': x.tolist(),
                    'elements': sub, 'site': 'probes-restricted'}
            tord = tuple(full._base_tensor_order)
            ref = (full.probes(x) @ y).reshape(tord + (x.shape[1],))
            scale = 1.0 + float(np.max(np.abs(ref)))
            n += 1
            ctx.count(('probes-restricted', key, x.tobytes(), tuple(sub)), nontrivial=len(sub) < nt)
            try:
                bs = skfem.Basis(m, make_elem(ename), elements=np.array(sub))
                got = (bs.probes(x) @ y).reshape(tord + (x.shape[1],))
                itp = np.asarray(bs.interpolator(y)(x))
                ps = float(bs.point_source(x[:, 0]) @ y)
            except Exception as ex:      # noqa: BLE001 - all points lie in cells of the subset
                ctx.fail(f'probes:restricted-basis:{key}:exception', f'probes of a basis restricted to elements={sub} raised '
                         f'{type(ex).__name__}: {ex} for points inside these elements', data)
                continue
            d1 = max(float(np.max(np.abs(got - ref))), float(np.max(np.abs(itp.reshape(ref.shape) - ref)))) / scale
            if d1 > 1e-11:
                ctx.fail(f'probes:restricted-basis:{key}:value', f'probes / interpolator of a basis restricted to elements={sub} differ from '
                         f'the basis on the whole mesh by {d1:.2e} (same coefficients, points inside the subset)', dict(data, diff=d1))
            if abs(ps - float(ref[(0,) * len(tord) + (0,)])) / scale > 1e-11:
                ctx.fail(f'point_source:restricted-basis:{key}', 'point_source of a restricted basis differs from the basis on the whole mesh', data)
            # a point in a cell that is NOT in the subset must be rejected, not evaluated with another cell's dofs
            outside = [c for c in range(nt) if c not in sub]
            if outside:
                xo = np.array([[float(v)] for v in mesh_points(m, rng, kinds=('interior',), per_kind=1)[0][1]])
                co = int(m.element_finder()(*xo)[0])
                if co not in sub:
                    try:
                        bs.probes(xo)
                        ctx.fail(f'probes:restricted-basis:{key}:outside-subset-accepted',
                                 f'a point of cell {co} (not among elements={sub}) is evaluated by the restricted basis instead of being rejected',
                                 dict(data, point=xo.ravel().tolist()))
                    except (ValueError, IndexError):
                        pass
            # (b) trailing axes
            if x.shape[1] >= 4:
                x3 = x[:, :4].reshape(x.shape[0], 2, 2)
                for b_, nm in ((full, 'whole'), (bs, 'restricted')):
                    try:
                        v3 = np.asarray(b_.interpolator(y)(x3))
                    except Exception as ex:      # noqa: BLE001
                        ctx.fail(f'interpolator:trailing-axes:{key}:exception', f'interpolator(y)(x) with x.shape={x3.shape} raised {type(ex).__name__}: {ex}',
                                 dict(data, x_shape=list(x3.shape)))
                        break
                    want = ref[..., :4].reshape(tord + (2, 2))
                    if v3.shape != want.shape or float(np.max(np.abs(v3 - want))) / scale > 1e-11:
                        ctx.fail(f'interpolator:trailing-axes:{key}', f'interpolator(y)(x) with x.shape={x3.shape} returns shape {v3.shape}, expected '
                                 f'{want.shape} = tensor order + x.shape[1:] (or wrong values) [{nm} basis]', dict(data, x_shape=list(x3.shape)))
                        break
    # (c) integer typed queries of the 1-D finder
    for _ in range(ctx.n(10, 40)):
        m = line_mesh(rng, rng.randrange(3, 9))
        import math
        lo, hi = math.ceil(m.p[0].min()), math.floor(m.p[0].max())
        xs = [Fr(rng.randrange(lo, hi + 1)) for _ in range(rng.randrange(1, 6))] + [Fr(hi)]
        rf = run_finder(m, [(v,) for v in xs])
        for dt in (np.int64, np.int32):
            ri = run_finder(m, [(v,) for v in xs], dtype=dt)
            n += 1
            ctx.count(('line-int', m.p.tobytes(), tuple(map(int, xs)), dt.__name__), nontrivial=True)
            bad = ri != rf or (ri[0] == 'ok' and not all(in_line(m, c, (v,)) for c, v in zip(ri[1], xs)))
            if bad:
                ctx.fail('finder:MeshLine1:integer-typed-points', f'the 1-D finder gives {ri} for the {dt.__name__} points {[int(v) for v in xs]} '
                         f'but {rf} for the same points as float64', {'mesh_class': 'MeshLine1', 'p': m.p.tolist(), 't': m.t.tolist(),
                                                                       'points': [int(v) for v in xs], 'dtype': dt.__name__, 'site': 'line-int'})
                break
    ctx.extra['restricted_trailing_integer_search'] = {'configurations': n}


# ============================================================================ search(): queries with zero points

def search_zero_points(ctx):
    """every finder returns an empty integer array for an empty batch; probes has shape (0, N), interpolator returns an array
    with the component axes and a zero point axis"""
    import skfem
    rng = ctx.rng
    n = 0
    cfgs = [('tri', 'ElementTriP2'), ('tri', 'ElementVector:ElementTriP1'), ('quad', 'ElementQuad1'), ('tet', 'ElementTetP1'),
            ('hex', 'ElementHex1'), ('wedge', 'ElementWedge1'), ('line', 'ElementLineP1')]
    for fam, ename in cfgs:
        m = line_mesh(rng, 5) if fam == 'line' else tensor_mesh(rng, fam, shear=True)
        d = m.p.shape[0]
        x0 = np.zeros((d, 0))
        data = {'mesh_class': type(m).__name__, 'p': m.p.tolist(), 't': m.t.tolist(), 'element': ename, 'site': 'zero-points'}
        cname = type(m).__name__
        n += 1
        ctx.count(('zero-points', cname, ename), nontrivial=True)
        try:
            r = np.asarray(m.element_finder()(*x0))
            if r.shape != (0,) or r.dtype.kind not in 'iu':
                ctx.fail(f'finder:{cname}:zero-points', f'finder of zero points returns {r!r}, expected an empty integer array', data)
        except Exception as ex:      # noqa: BLE001 - an empty batch is a valid input
            ctx.fail(f'finder:{cname}:zero-points', f'finder raises {type(ex).__name__}: {ex} for zero query points', data)
            continue
        try:
            bs = skfem.Basis(m, make_elem(ename))
            tord = tuple(bs._base_tensor_order)
            comp = int(np.prod(tord)) if tord else 1
            Pm = bs.probes(x0)
            y = np.arange(bs.N, dtype=float)
            it = np.asarray(bs.interpolator(y)(x0))
            if Pm.shape != (0, bs.N) or it.shape != tord + (0,) or comp < 1:
                ctx.fail(f'probes:{ename}:{cname}:zero-points', f'probes of zero points has shape {Pm.shape} (expected {(0, bs.N)}), '
                         f'interpolator returns shape {it.shape} (expected {tord + (0,)})', data)
        except Exception as ex:      # noqa: BLE001
            ctx.fail(f'probes:{ename}:{cname}:zero-points', f'probes / interpolator raise {type(ex).__name__}: {ex} for zero query points', data)
    ctx.extra['zero_point_search'] = {'configurations': n}


def _explicit_mapping_case(inp):
    """(max abs difference between Basis(mesh, elem, mapping=M) and Basis(transformed mesh, elem), scale) for probes @ y,
    interpolator(y) and point_source; M is the affine mapping of the transformed mesh"""
    import skfem
    cls = getattr(skfem, inp['mesh_class'])
    p0 = np.array(inp['p'], dtype=float)
    t0 = np.array(inp['t'])
    S = np.array(inp['S'], dtype=float)
    sh = np.array(inp['shift'], dtype=float).reshape(-1, 1)
    m = cls(p0, t0)
    m2 = cls(S @ m.p + sh, m.t)
    M = skfem.MappingAffine(m2)
    bs = skfem.Basis(m, make_elem(inp['element']), mapping=M)
    ref = skfem.Basis(m2, make_elem(inp['element']))
    x = np.array(inp['points'], dtype=float)
    y = np.cos(1.0 + 0.37 * np.arange(ref.N))
    out = {}
    try:
        a, b = bs.probes(x) @ y, ref.probes(x) @ y
        out['probes'] = float(np.max(np.abs(a - b)))
        a, b = np.asarray(bs.interpolator(y)(x)), np.asarray(ref.interpolator(y)(x))
        out['interpolator'] = float(np.max(np.abs(a - b)))
        if not tuple(ref._base_tensor_order):
            a, b = bs.point_source(x[:, 0]), ref.point_source(x[:, 0])
            out['point_source'] = float(np.max(np.abs(a - b)))
    except Exception as ex:      # noqa: BLE001 - the points lie strictly inside cells of the mapped geometry
        out['raised'] = f'{type(ex).__name__}: {ex}'
    return out, float(np.max(np.abs(y)))


def search_explicit_mapping(ctx):
    """CellBasis(mesh, elem, mapping=M) with M the affine mapping of a sheared / scaled / shifted copy of the mesh (the documented
    mapping= argument): probes, interpolator and point_source must locate and evaluate in the geometry of M, i.e. agree with the
    basis built on the transformed mesh itself.  Query points strictly inside cells of the transformed mesh; the shift moves the
    transformed mesh away from the original one, so a finder working in the mesh's own geometry cannot find them."""
    import skfem
    rng = ctx.rng
    cfgs = [('tri', 'ElementTriP2'), ('tri', 'ElementTriP1'), ('tri', 'ElementVector:ElementTriP1'), ('tet', 'ElementTetP2'), ('tet', 'ElementTetP1')]
    transforms = {
        2: [([[2.0, 1.0], [0.0, 1.5]], [3.0, -1.0]), ([[0.5, 0.0], [0.25, 0.5]], [0.125, 0.25]), ([[1.0, 0.0], [0.0, 1.0]], [0.3125, 0.0])],
        3: [([[2.0, 1.0, 0.0], [0.0, 1.5, 0.5], [0.0, 0.0, 1.25]], [3.0, -1.0, 2.0]),
            ([[0.5, 0.0, 0.0], [0.25, 0.5, 0.0], [0.0, 0.25, 0.5]], [0.125, 0.25, 0.0]),
            ([[1.0, 0.0, 0.0], [0.0, 1.0, 0.0], [0.0, 0.0, 1.0]], [0.3125, 0.0, 0.0])]}
    n = 0
    for fam, ename in cfgs:
        m = tensor_mesh(rng, fam, shear=False)
        d = m.p.shape[0]
        for S, sh in transforms[d]:
            p2 = np.array(S) @ m.p + np.array(sh).reshape(-1, 1)
            nt = m.t.shape[1]
            cells = sorted(set([0, nt - 1] + [rng.randrange(nt) for _ in range(6)]))
            lam = np.array([[1 + rng.randrange(8) for _ in cells] for _ in range(d + 1)], dtype=float)
            lam = lam / lam.sum(axis=0)
            x = np.einsum('ijk,jk->ik', p2[:, m.t[:, cells]], lam)
            inp = {'site': 'explicit-mapping', 'mesh_class': type(m).__name__, 'p': m.p.tolist(), 't': m.t.tolist(), 'S': S, 'shift': sh,
                   'element': ename, 'points': x.tolist()}
            out, scale = _explicit_mapping_case(inp)
            n += 1
            ctx.count(('explicit-mapping', type(m).__name__, ename), nontrivial=True)
            bad = {k: v for k, v in out.items() if k == 'raised' or v > 1e-9 * (1 + scale)}
            if bad:
                ctx.fail(f'probes:explicit-mapping:{ename}:{type(m).__name__}',
                         f'Basis(mesh, {ename}, mapping=M) with M the mapping of the mesh transformed by x -> S x + b (S = {S}, b = {sh}) '
                         f'disagrees with the basis built on the transformed mesh: {bad}', inp)
    ctx.extra['explicit_mapping_search'] = {'configurations': n}


# ============================================================================ search(): public call forms around the core (API audit)

API_COVERAGE = [
    # (callable, covered before the audit, now, note)
    ('MeshTri1/MeshTet1/MeshQuad1/MeshHex1/MeshWedge1/MeshLine1.element_finder', True, True, 'core: witnesses, correspondence, exact search'),
    ('CellBasis.probes / interpolator / point_source', True, True, 'core'),
    ('MappingAffine.F / invF / detDF / invDF, MappingIsoparametric.F / invF / J / invDF / detDF', True, True, 'via finder / probes'),
    ('MeshTri1.init_symmetric / init_sqsymmetric / init_lshaped / init_circle, MeshTet1.init_ball, MeshLine1.init_tensor, '
     'MeshLine1.__mul__ (-> MeshQuad1), MeshTri1.__mul__ (-> MeshWedge1)', False, True,
     'finder on the meshes of the library constructors: every vertex / facet / interior / outside point kind, exact containment'),
    ('CellBasis.with_element', False, True, 'probes of b.with_element(e2) == probes of Basis(mesh, e2)'),
    ('CellBasis.with_elements', False, True, 'probes of b.with_elements(subset) == probes of the whole-mesh basis on the subset, error outside'),
    ('CellBasis.project(interpolator) / AbstractBasis.project', False, True,
     'b.project(b.interpolator(y)) == y and projection of a P1 / Q1 function into the richer space is reproduced pointwise (quadrature points with trailing axes)'),
    ('CellBasis.refinterp', False, True, 'for P1 / Q1 functions: mean of the refined values over a sub-cell == interpolator(y) at the sub-cell centre'),
    ('Mesh.element_finder (base class), MeshDG.element_finder, second-order meshes', False, True,
     'raise NotImplementedError (no cell is returned): checked that they raise'),
    ('CellBasis.boundary / FacetBasis.trace / Mesh.trace', False, False, 'out of scope: no point location or point evaluation (C15 covers operand / history aspects)'),
    ('MappingIsoparametric.DF / bndmap / bndJ / G / detDG / normals', False, False, 'out of scope: facet maps and Jacobians are C10'),
    ('Mesh2D/Mesh3D.param(s), edges_satisfying, interior_edges; AbstractBasis.get_dofs / complement_dofs / zeros / ones / plot / draw', False, False,
     'out of scope for C14 (C07 / C11 / visualisation)'),
]


def search_api(ctx):
    import skfem
    rng = ctx.rng
    stats = {'points': 0, 'raised_on_mesh': 0, 'f11': 0, 'f11_interior_of_nonsimplex_cell': 0, 'batches': 0}
    # ---- finders on the meshes of the library's own constructors
    meshes = [('init_symmetric', skfem.MeshTri.init_symmetric()), ('init_sqsymmetric', skfem.MeshTri.init_sqsymmetric().refined(1)),
              ('init_lshaped', skfem.MeshTri.init_lshaped().refined(1)), ('init_circle', skfem.MeshTri.init_circle(2)),
              ('init_ball', skfem.MeshTet.init_ball(1)), ('MeshLine.init_tensor', skfem.MeshLine.init_tensor(np.array([0., 0.25, 1.0, 1.5]))),
              ('MeshLine*MeshLine', skfem.MeshLine(np.array([0., 0.5, 2.0])) * skfem.MeshLine(np.array([0., 1.0, 1.5]))),
              ('MeshTri*MeshLine', skfem.MeshTri.init_sqsymmetric() * skfem.MeshLine(np.array([0., 0.5, 1.0])))]
    for label, m in meshes:
        check_finder_mesh(ctx, m, 'api:' + label, rng, ctx.n(4, 10), stats)
    # ---- classes without a finder must raise, not return something
    for label, m in (('MeshTri2', skfem.MeshTri2.init_circle(1)), ('MeshQuad2', skfem.MeshQuad2()),
                     ('MeshQuad1DG', skfem.MeshQuad1DG.periodic(skfem.MeshQuad().refined(1), [0], [2]) if hasattr(skfem, 'MeshQuad1DG') else None)):
        if m is None:
            continue
        try:
            r = m.element_finder()(*np.full((m.p.shape[0], 1), 0.3))
            ctx.count(('api-nofinder', label), nontrivial=True)
            # a class that does provide a finder must return a cell containing the point: only first-order affine checks here
            if not (np.asarray(r).shape == (1,)):
                ctx.fail(f'finder:{label}:unexpected-result', f'{label}.element_finder returned {r!r}', {'mesh_class': label, 'site': 'api'})
        except NotImplementedError:
            ctx.count(('api-nofinder', label), nontrivial=True)
        except Exception as ex:      # noqa: BLE001
            ctx.hist('api_nofinder_raises', f'{label}:{type(ex).__name__}')
    # ---- thin wrappers of CellBasis
    worst = 0.0
    for fam, e1, e2 in (('tri', 'ElementTriP1', 'ElementTriP2'), ('quad', 'ElementQuad1', 'ElementQuad2'), ('tet', 'ElementTetP1', 'ElementTetP2'),
                        ('line', 'ElementLineP1', 'ElementLineP2'), ('tri', 'ElementTriP2', 'ElementVector:ElementTriP1')):
        m = line_mesh(rng, 6) if fam == 'line' else tensor_mesh(rng, fam, shear=False)
        b1 = skfem.Basis(m, make_elem(e1))
        pool = [x for _, x in mesh_points(m, rng, kinds=('interior',), per_kind=8)]
        x = np.array([fl(q) for q in [rng.choice(pool) for _ in range(5)]]).T
        data = {'mesh_class': type(m).__name__, 'p': m.p.tolist(), 't': m.t.tolist(), 'element': e1, 'element2': e2, 'points': x.tolist(), 'site': 'api'}
        key = f'{e1}->{e2}:{type(m).__name__}'
        ctx.count(('api-wrappers', key, x.tobytes()), nontrivial=True)
        try:
            # with_element
            bw = b1.with_element(make_elem(e2))
            bd = skfem.Basis(m, make_elem(e2), intorder=None)
            yw = np.cos(0.3 * np.arange(bd.N))
            d = float(np.max(np.abs(bw.probes(x) @ yw - bd.probes(x) @ yw)))
            worst = max(worst, d)
            if bw.N != bd.N or d > 1e-11:
                ctx.fail(f'probes:with_element:{key}', f'probes of basis.with_element({e2}) differ from Basis(mesh, {e2}) by {d:.2e}', data)
            # with_elements
            cells = [int(c) for c in m.element_finder()(*x)]
            sub = sorted(set(cells) | {0})
            bs_ = b1.with_elements(np.array(sub))
            y1 = np.cos(0.3 * np.arange(b1.N))
            d = float(np.max(np.abs(bs_.probes(x) @ y1 - b1.probes(x) @ y1)))
            worst = max(worst, d)
            if d > 1e-11:
                ctx.fail(f'probes:with_elements:{key}', f'probes of basis.with_elements({sub}) differ from the whole-mesh basis by {d:.2e}', dict(data, elements=sub))
            # project(interpolator): identity on the same basis; a function of the poorer space is reproduced in the richer one
            if not e2.startswith('ElementVector'):
                yp = b1.project(b1.interpolator(y1))
                d = float(np.max(np.abs(yp - y1)))
                worst = max(worst, d)
                if d > 1e-9:
                    ctx.fail(f'project:interpolator:{key}', f'basis.project(basis.interpolator(y)) differs from y by {d:.2e}', data)
                y2 = bd.project(b1.interpolator(y1))
                d = float(np.max(np.abs(bd.interpolator(y2)(x) - b1.interpolator(y1)(x))))
                worst = max(worst, d)
                if d > 1e-9:
                    ctx.fail(f'project:interpolator-into-richer-space:{key}', f'projection of a {e1} function into the {e2} space is not reproduced at '
                             f'the query points ({d:.2e})', data)
            # refinterp: for a (multi)linear function the mean of the refined values over a sub-cell is the function at its centre
            if e1 in ('ElementTriP1', 'ElementQuad1', 'ElementTetP1'):
                M, w = b1.refinterp(y1, nrefs=1)
                sel = list(range(0, M.t.shape[1], max(1, M.t.shape[1] // 6)))[:6]
                cen = M.p[:, M.t[:, sel]].mean(axis=1)
                vr = w[M.t[:, sel]].mean(axis=0)
                vi = b1.interpolator(y1)(cen)
                d = float(np.max(np.abs(vi - vr)))
                worst = max(worst, d)
                if d > 1e-10:
                    ctx.fail(f'refinterp:{key}', f'refinterp values differ from interpolator at the sub-cell centres by {d:.2e}', data)
        except Exception as ex:      # noqa: BLE001 - valid public call forms on interior points
            if isinstance(ex, ValueError) and 'outside' in str(ex):
                bad = [tuple(Fr(float(v)) for v in x[:, c_]) for c_ in range(x.shape[1]) if run_finder(m, [tuple(Fr(float(v)) for v in x[:, c_])])[0] == 'raises']
                if bad and all(raise_class(m, q)[0] == 'f11' for q in bad):
                    ctx.fail(F11_KEY, F11_TEXT + ' (API wrappers)', data)
                    continue
            ctx.fail(f'api:{key}:exception', f'with_element / with_elements / project / refinterp raised {type(ex).__name__}: {ex}', data)
    stats['wrappers_max_discrepancy'] = worst
    ctx.extra['api_search'] = stats
    ctx.extra['api_coverage'] = [{'callable': a, 'covered_before': b, 'covered_now': c, 'note': d} for a, b, c, d in API_COVERAGE]


def replay(ctx, data):
    import skfem
    inp = data['input']
    site = inp.get('site')
    if site == 'finder-witness':
        m = getattr(skfem, inp['mesh_class'])(np.array(inp['p']), np.array(inp['t']))
        names = {'alone': ['hard'], 'with-easy-point': ['hard', 'easy'], 'easy-first': ['easy', 'hard'],
                 'with-outside-point': ['easy', 'hard', 'outside']}[inp['batch']]
        pts = [tuple(Fr(v) for v in inp[nm]) for nm in names]
        r = run_finder(m, pts)
        inc = containment(m)
        ctx.log('batch', inp['batch'], 'result', r)
        bad = (r[0] != 'raises') if inp['batch'] == 'with-outside-point' else \
            (r[0] != 'ok' or not all(0 <= c < m.t.shape[1] and inc(m, c, x) for c, x in zip(r[1], pts)))
        if bad:
            ctx.fail(data['key'], data['what'], inp)
    elif site == 'finder':
        cls = getattr(skfem, inp['mesh_class'])
        m = cls(np.array(inp['p']), np.array(inp['t']))
        x = tuple(Fr(v) for v in inp['point'])
        r = run_finder(m, [x])
        inc = containment(m)
        exact = [c for c in range(m.t.shape[1]) if inc(m, c, x)]
        ctx.log('finder result', r, 'exactly containing cells', exact[:6], 'best float min-barycentric', float_best(m, x))
        bad = (r[0] == 'raises' and exact) or (r[0] == 'ok' and r[1][0] not in exact)
        if bad:
            ctx.fail(data['key'], data['what'], inp)
    elif site == 'probes-general' and 'scale' in inp:
        m0 = getattr(skfem, inp['mesh_class'])(np.array(inp['p']), np.array(inp['t']))
        m = type(m0)(m0.p * inp['scale'], m0.t)
        x = np.array(inp['points'])
        b0, b1 = skfem.Basis(m0, make_elem(inp['element'])), skfem.Basis(m, make_elem(inp['element']))
        y = np.cos(1.0 + 0.37 * np.arange(b0.N))
        ref = b0.probes(x) @ y
        try:
            got = b1.probes(x * inp['scale']) @ y
            diff = float(np.max(np.abs(got - ref)))
            ctx.log('scaled vs unscaled: max abs difference', diff)
            bad = diff > 1e-7 * (1 + float(np.max(np.abs(ref))))
        except Exception as ex:      # noqa: BLE001
            ctx.log('raised', type(ex).__name__, ex)
            bad = True
        if bad:
            ctx.fail(data['key'], data['what'], inp)
    elif site == 'probes-general':
        m = getattr(skfem, inp['mesh_class'])(np.array(inp['p']), np.array(inp['t']))
        bs = skfem.Basis(m, make_elem(inp['element']))
        x = np.array(inp['points'])
        y = np.cos(1.0 + 0.37 * np.arange(bs.N))
        tord = tuple(bs._base_tensor_order)
        got = (bs.probes(x) @ y).reshape(tord + (x.shape[1],))
        ref = direct_eval(bs, x, y)
        diff = float(np.max(np.abs(got - ref)))
        ctx.log('batch vs one-point-at-a-time: max abs difference', diff)
        if diff > 1e-9 * (1 + float(np.max(np.abs(ref)))):
            ctx.fail(data['key'], data['what'], inp)
    elif site == 'explicit-mapping':
        out, scale = _explicit_mapping_case(inp)
        ctx.log('mapping= basis vs basis on the transformed mesh, max abs differences:', out)
        if any(k == 'raised' or v > 1e-9 * (1 + scale) for k, v in out.items()):
            ctx.fail(data['key'], data['what'], inp)
    elif site == 'zero-points':
        m = getattr(skfem, inp['mesh_class'])(np.array(inp['p']), np.array(inp['t']))
        try:
            r = np.asarray(m.element_finder()(*np.zeros((m.p.shape[0], 0))))
            bs = skfem.Basis(m, make_elem(inp['element']))
            Pm = bs.probes(np.zeros((m.p.shape[0], 0)))
            ctx.log('finder of zero points:', r, ' probes shape:', Pm.shape)
            bad = r.shape != (0,) or Pm.shape != (0, bs.N)
        except Exception as ex:      # noqa: BLE001
            ctx.log('raised', type(ex).__name__, ex)
            bad = True
        if bad:
            ctx.fail(data['key'], data['what'], inp)
    elif site == 'line-int':
        m = skfem.MeshLine1(np.array(inp['p']), np.array(inp['t']))
        xs = [Fr(v) for v in inp['points']]
        ri = run_finder(m, [(v,) for v in xs], dtype=np.dtype(inp['dtype']).type)
        rf = run_finder(m, [(v,) for v in xs])
        ctx.log('integer typed:', ri, ' float typed:', rf)
        if ri != rf:
            ctx.fail(data['key'], data['what'], inp)
    elif site == 'probes-restricted':
        m = getattr(skfem, inp['mesh_class'])(np.array(inp['p']), np.array(inp['t']))
        full = skfem.Basis(m, make_elem(inp['element']))
        x = np.array(inp['points'])
        y = np.cos(1.0 + 0.37 * np.arange(full.N))
        ref = full.probes(x) @ y
        try:
            bs = skfem.Basis(m, make_elem(inp['element']), elements=np.array(inp['elements']))
            got = bs.probes(x) @ y
            bad = float(np.max(np.abs(got - ref))) > 1e-11 * (1 + float(np.max(np.abs(ref))))
            if not bad and 'x_shape' in inp:
                x3 = x[:, :4].reshape(x.shape[0], 2, 2)
                v3 = np.asarray(full.interpolator(y)(x3))
                bad = v3.shape != tuple(full._base_tensor_order) + (2, 2)
                ctx.log('interpolator with trailing axes returns shape', v3.shape)
        except Exception as ex:      # noqa: BLE001
            ctx.log('raised', type(ex).__name__, ex)
            bad = True
        if bad:
            ctx.fail(data['key'], data['what'], inp)
    else:
        ctx.log('replay: re-running the search')
        search_finders(ctx)
        search_probes(ctx)
        search_probes_general(ctx)
        search_probes_restricted(ctx)
        search_api(ctx)
