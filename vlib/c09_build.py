"""shared by C09 / C03: compile generated per-refdom Coq files (at most 4 at a time); when one fails, compile its
classes one by one and then lemma by lemma so that EVERY failing class / identity is named."""
import os
import re

from .core import scan_forbidden

_thm_re = re.compile(r'^\s*(Theorem|Lemma|Example)\s+([A-Za-z0-9_\']+)', re.M)
JOBS = 4


def compile_generated(ctx, chunks, info, tag='C09'):
    """compile the per-refdom files in parallel; when one fails, compile its classes one by one so that EVERY
    failing class is named.  Returns (all ok, set of class names with a failing lemma: {(class, lemma)})"""
    rels = []
    for name, txt in chunks.items():
        ctx.write_gen(name, txt)
        rels.append(f'gen/{name}.v')
    bad = scan_forbidden([os.path.join(ctx.bdir, r) for r in rels])
    if bad:
        ctx.broke('proof', 'generated files', 'forbidden construct: ' + '; '.join(bad))
        return False, set()
    res = ctx.coqc_many(rels, timeout=400, jobs=JOBS)
    failing = set()
    allok = True
    for rel in rels:
        ok, out, err, secs = res[rel]
        txt = open(os.path.join(ctx.bdir, rel)).read()
        names = [m.group(2) for m in _thm_re.finditer(txt)]
        ctx.log(f'coqc {rel}: {"ok" if ok else "FAILED"} ({secs:.1f}s, {len(names)} lemmas)')
        if ok:
            for nm in names:
                ctx.obligations.append({'name': f'{rel}:{nm}', 'kind': 'generated', 'ok': True})
            continue
        allok = False
        # one file per class of this group
        grp = os.path.basename(rel)[:-2]
        single = []
        for cname, ctext in info['parts'][grp]:
            ctx.write_gen(f'{tag}_S_{cname}', ctext)
            single.append((cname, f'gen/{tag}_S_{cname}.v'))
        sres = ctx.coqc_many([r for _, r in single], timeout=400, jobs=JOBS)
        for cname, r in single:
            ok1, _, err1, _ = sres[r]
            ctext = open(os.path.join(ctx.bdir, r)).read()
            cn = [m.group(2) for m in _thm_re.finditer(ctext)]
            # lemmas of one class are independent: re-check each failing file lemma by lemma
            if ok1:
                for nm in cn:
                    ctx.obligations.append({'name': f'{rel}:{nm}', 'kind': 'generated', 'ok': True})
                continue
            fl = ctx._failing_theorem(ctext, err1)
            bad_lemmas = _failing_lemmas(ctx, cname, ctext, cn, tag)
            for nm in cn:
                okl = nm not in bad_lemmas
                ctx.obligations.append({'name': f'{rel}:{nm}', 'kind': 'generated', 'ok': okl})
                if not okl:
                    failing.add((cname, nm))
                    ctx.broke('proof', f'{rel}:{nm}', f'generated identity for class {cname} does not hold '
                              f'(first error: {fl}): {err1[-300:]}')
    return allok, failing


def _failing_lemmas(ctx, cname, ctext, names, tag):
    """which lemmas of a single-class file fail: replace the proof of each other lemma by nothing (drop it)"""
    # split the text into definitions and lemmas
    pieces = re.split(r'(?=^Lemma )', ctext, flags=re.M)
    head = pieces[0]
    lemmas = pieces[1:]
    defs, lems = head, []
    for p in lemmas:
        m = re.match(r'(Lemma .*?Qed\.\n)(.*)', p, flags=re.S)
        lems.append(m.group(1))
        defs += m.group(2)          # definitions that follow a lemma (e.g. _funs, _signs)
    rels = []
    for k, l in enumerate(lems):
        rel = f'gen/{tag}_L_{cname}_{k}.v'
        ctx.write(rel, defs + '\n' + l)
        rels.append(rel)
    res = ctx.coqc_many(rels, timeout=400, jobs=JOBS)
    bad = set()
    for rel, l in zip(rels, lems):
        if not res[rel][0]:
            bad.add(_thm_re.search(l).group(2))
    return bad


