"""C10 — fail-closed translators for the reference maps.

(1) ``MappingAffine._init_Ab / _init_invA / _init_boundary_mapping`` (skfem/mapping/mapping_affine.py) are executed
    symbolically (the interpreter of vlib/c20_tr.py extended by ``self`` attributes, ``np.empty`` buffers with
    ``self._X[i, j] = e`` stores, the vertex gathers ``self.mesh.p[i, self.mesh.t[k]]`` and ``np.sqrt`` kept as
    "square root of") for dim = 1, 2, 3; the result are the Gallina terms aff_A_d, aff_b_d, aff_detA_d, aff_invA_d,
    aff_B_d, aff_c_d, aff_detBsq_d over the per-cell vertex table ``P k i`` (coordinate i of local vertex k) resp. the
    per-facet vertex table ``Q k i``.  The cell axis is the trailing, pointwise axis.
(2) the evaluation methods F, invF, DF, invDF, detDF, G, detDG, normals are recognised by their exact (unparsed) text and
    mapped to the fixed model functions of Model/C10_Map.v; any edit is a TranslateError.
(3) the isoparametric cofactor formulas ``detDF``, ``invDF``, ``detDG`` (mapping_isoparametric.py) are executed
    symbolically over an abstract Jacobian ``J i j``.
(4) T1: the tables Nref of ``MappingAffine.normals`` and p / facets / normals of RefLine, RefTri, RefTet (refdom.py) are
    evaluated as literals.
"""
import ast

from . import t2
from .c20_tr import Buf, Interp, ModelRaise, Sym, _Return, cidx
from .core import TranslateError

AFF = 'skfem/mapping/mapping_affine.py'
ISO = 'skfem/mapping/mapping_isoparametric.py'
REFDOM = 'skfem/refdom.py'


class Trail:
    """extent of the trailing (cell / facet / point) axis"""


class Sqrt:
    def __init__(self, arg):
        self.arg = arg          # Sym (scalar)


class VSel:
    """self.mesh.t[k] / self.mesh.t[k, self.tind] / self.mesh.facets[k]: the k-th local vertex of every cell / facet"""
    def __init__(self, k, table):
        self.k, self.table = k, table


class Obj:
    def __init__(self, kind, **attrs):
        self.kind, self.attrs = kind, attrs


PROPS = {'A': ('_A', '_init_Ab'), 'b': ('_b', '_init_Ab'), 'detA': ('_detA', '_init_invA'), 'invA': ('_invA', '_init_invA'),
         'B': ('_B', '_init_boundary_mapping'), 'c': ('_c', '_init_boundary_mapping'), 'detB': ('_detB', '_init_boundary_mapping')}


class MapInterp(Interp):
    def __init__(self, relpath, cls):
        super().__init__(relpath, 'np')
        cl = [n for n in self.tree.body if isinstance(n, ast.ClassDef) and n.name == cls]
        if len(cl) != 1:
            raise TranslateError(f'class {cls}')
        self.methods = {n.name: n for n in cl[0].body if isinstance(n, ast.FunctionDef)}
        self.funcs = {}

    # ---- properties are checked to be the lazy getters they are modelled as
    def check_properties(self):
        for prop, (attr, init) in PROPS.items():
            if prop not in self.methods:
                raise TranslateError(f'property {prop} missing')
            m = self.methods[prop]
            body = [s for s in m.body if not (isinstance(s, ast.Expr) and isinstance(s.value, ast.Constant))]
            want = f"if not hasattr(self, '{attr}'):\n    self.{init}()\nreturn self.{attr}"
            if '\n'.join(t2.src(s) for s in body) != want or [t2.src(d) for d in m.decorator_list] != ['property']:
                raise TranslateError(f'property {prop} is not the lazy getter of {attr}')

    def ev_Name(self, n, env):
        if n.id in env:
            return env[n.id]
        if n.id in ('np', 'len', 'range', 'Exception', 'NotImplementedError'):
            return ('builtin', n.id)
        raise TranslateError(f'unknown name {n.id}')

    def ev_Attribute(self, n, env):
        v = self.ev(n.value, env)
        if isinstance(v, Obj):
            if v.kind == 'self' and n.attr in PROPS:
                attr, init = PROPS[n.attr]
                if attr not in v.attrs:
                    self.call(self.methods[init], [v], {})
                return v.attrs[attr]
            if n.attr in v.attrs:
                return v.attrs[n.attr]
            if v.kind in ('t', 'facets') and n.attr == 'shape':
                return (v.attrs['nverts'], Trail())
            raise TranslateError('attribute ' + t2.src(n))
        if isinstance(v, tuple) and v and v[0] == 'builtin':
            return ('builtin', v[1] + '.' + n.attr)
        if isinstance(v, Sym) and n.attr == 'shape':
            return Trail()
        raise TranslateError('attribute ' + t2.src(n))

    def ev_Subscript(self, n, env):
        v = self.ev(n.value, env)
        if isinstance(v, Obj) and v.kind in ('t', 'facets'):
            idx = [self.ev(e, env) for e in t2.index_tuple(n)]
            if not isinstance(idx[0], int) or isinstance(idx[0], bool) or not 0 <= idx[0] < v.attrs['nverts']:
                raise TranslateError('vertex slot: ' + t2.src(n))
            if len(idx) == 2 and not (isinstance(idx[1], Obj) and idx[1].kind == 'tind' and v.kind == 't'):
                raise TranslateError('vertex gather: ' + t2.src(n))
            if len(idx) > 2:
                raise TranslateError('vertex gather: ' + t2.src(n))
            return VSel(idx[0], v.kind)
        if isinstance(v, Obj) and v.kind == 'p':
            idx = [self.ev(e, env) for e in t2.index_tuple(n)]
            if len(idx) != 2 or not isinstance(idx[0], int) or not isinstance(idx[1], VSel):
                raise TranslateError('coordinate gather: ' + t2.src(n))
            i, sel = idx
            if not 0 <= i < self.n:
                raise TranslateError('coordinate index out of range: ' + t2.src(n))
            name = 'P' if sel.table == 't' else 'Q'
            self.used_tables.add(name)
            t = f'({name} {cidx(sel.k)} {cidx(i)})'
            return Sym(0, lambda _idx: t)
        if isinstance(v, tuple) and not (v and v[0] == 'builtin'):
            k = self.ev(n.slice, env)
            if isinstance(k, int) and -len(v) <= k < len(v):
                return v[k]
            raise TranslateError('tuple index: ' + t2.src(n))
        if isinstance(v, list):          # J[i][j] of the isoparametric formulas
            k = self.ev(n.slice, env)
            if isinstance(k, int) and 0 <= k < len(v):
                return v[k]
            raise TranslateError('list index: ' + t2.src(n))
        return super().ev_Subscript(n, env)

    def ev_Call(self, n, env):
        if isinstance(n.func, ast.Attribute) and isinstance(n.func.value, ast.Name) and n.func.value.id == 'self':
            # self._init_xxx()
            raise TranslateError('method call: ' + t2.src(n))
        f = self.ev(n.func, env)
        if isinstance(f, tuple) and f[0] == 'builtin':
            args = [self.ev(a, env) for a in n.args]
            if n.keywords:
                raise TranslateError('keyword call: ' + t2.src(n))
            if f[1] == 'np.empty':
                shp = t2.only(args, 'np.empty arguments')
                if not (isinstance(shp, tuple) and len(shp) >= 1 and isinstance(shp[-1], Trail)
                        and all(isinstance(d, int) for d in shp[:-1])):
                    raise TranslateError('np.empty shape: ' + t2.src(n))
                if any(d != self.n and d != self.n - 1 for d in shp[:-1]):
                    raise TranslateError('np.empty extents: ' + t2.src(n))
                b = Buf(len(shp) - 1)
                b.extents = shp[:-1]
                return b
            if f[1] == 'np.ones':
                if len(args) != 1 or not isinstance(args[0], (Trail, tuple)):
                    raise TranslateError('np.ones: ' + t2.src(n))
                return Sym(0, lambda idx: '1')
            if f[1] == 'np.sqrt':
                a = self.scalar(t2.only(args, 'np.sqrt arguments'))
                if a.rank != 0:
                    raise TranslateError('np.sqrt of a non-scalar')
                return Sqrt(a)
            if f[1] == 'np.sum' and False:
                pass
            if f[1] == 'len' and len(args) == 1 and isinstance(args[0], Obj) and args[0].kind == 'tind':
                return Trail()
            if f[1] == 'range' and len(args) == 1 and isinstance(args[0], int):
                return range(args[0])
            if f[1] in ('Exception', 'NotImplementedError'):
                return ('exception', f[1])
            if f[1] == 'np.array' and len(args) == 1:
                return self.stack(args[0])
            raise TranslateError('call of ' + f[1])
        raise TranslateError('call: ' + t2.src(n))

    def ev_Compare(self, n, env):
        if len(n.ops) == 1:
            a = self.ev(n.left, env)
            b = self.ev(n.comparators[0], env)
            if isinstance(n.ops[0], (ast.Is, ast.IsNot)) and b is None:
                return (a is None) == isinstance(n.ops[0], ast.Is)
            if isinstance(a, Sym) and isinstance(b, int) and isinstance(n.ops[0], ast.Eq):
                return ('eq0', a, b)
        return super().ev_Compare(n, env)

    def stmt(self, s, env):
        if isinstance(s, ast.Assign) and len(s.targets) == 1 and isinstance(s.targets[0], ast.Tuple):
            names = s.targets[0].elts
            v = self.ev(s.value, env)
            if not all(isinstance(e, ast.Name) for e in names):
                raise TranslateError('unpacking target: ' + t2.src(s))
            if isinstance(v, Sym) and v.rank >= 1:
                if len(names) != self.n:
                    raise TranslateError(f'unpacking {len(names)} components of a tensor of extent {self.n}')
                for k, e in enumerate(names):
                    env[e.id] = v.sub([k])
                return
            if isinstance(v, tuple) and len(v) == len(names) and not (v and v[0] == 'builtin'):
                for e, x in zip(names, v):
                    env[e.id] = x
                return
            raise TranslateError('unpacking: ' + t2.src(s))
        if isinstance(s, ast.Assign) and len(s.targets) == 1:
            tg = s.targets[0]
            # self._X = e
            if isinstance(tg, ast.Attribute) and isinstance(tg.value, ast.Name) and tg.value.id == 'self':
                env['self'].attrs[tg.attr] = self.ev(s.value, env)
                return
            # self._X[i, j] = e
            if (isinstance(tg, ast.Subscript) and isinstance(tg.value, ast.Attribute) and isinstance(tg.value.value, ast.Name)
                    and tg.value.value.id == 'self'):
                buf = env['self'].attrs.get(tg.value.attr)
                if not isinstance(buf, Buf):
                    raise TranslateError('store into a non-buffer: ' + t2.src(tg))
                return self.store(buf, tg, s.value, env)
            if isinstance(tg, ast.Subscript) and isinstance(tg.value, ast.Name) and isinstance(env.get(tg.value.id), Buf):
                return self.store(env[tg.value.id], tg, s.value, env)
        if isinstance(s, ast.Raise):
            raise ModelRaise(t2.src(s.exc))
        if isinstance(s, ast.If):
            c = self.ev(s.test, env)
            if isinstance(c, tuple) and c and c[0] == 'zero-test':
                return          # `if np.sum(detDF == 0) > 0: raise` — the degenerate case is a hypothesis of the theorems
        return super().stmt(s, env)

    def store(self, buf, tg, value, env):
        idx = [self.ev(e, env) for e in t2.index_tuple(tg)]
        ext = getattr(buf, 'extents', None)
        if len(idx) != buf.rank or not all(isinstance(i, int) and not isinstance(i, bool) and i >= 0 for i in idx):
            raise TranslateError('store index: ' + t2.src(tg))
        if ext is not None and any(i >= e for i, e in zip(idx, ext)):
            raise TranslateError('store out of range: ' + t2.src(tg))
        v = self.scalar(self.ev(value, env))
        if v.rank != 0:
            raise TranslateError('store of a non-scalar: ' + t2.src(tg))
        buf.stores[tuple(idx)] = v.at([])

    def scalar(self, v):
        if isinstance(v, Sqrt):
            raise TranslateError('square root used in arithmetic (only "detB = sqrt(...)" is modelled)')
        return super().scalar(v)


def _buf_def(name, params, buf, ext):
    """a fully stored buffer as a Coq function by cases"""
    want = [()]
    for e in ext:
        want = [w + (k,) for w in want for k in range(e)]
    missing = [w for w in want if w not in buf.stores]
    if missing:
        raise TranslateError(f'{name}: entries {missing} are never stored (np.empty leaves them undefined)')
    names = [f'k{r + 1}' for r in range(len(ext))]
    pats = ' '.join(f'| {", ".join(cidx(i) for i in k)} => {buf.stores[k]}' for k in want)
    ty = {1: 'vec R', 2: 'mat R'}[len(ext)]
    return (f'Definition {name} {params} : {ty} :=\n  fun {" ".join(names)} => match {", ".join(names)} with {pats} '
            f'| {", ".join("_" for _ in names)} => 0 end.')


def affine_defs():
    """-> Coq text of the generated affine definitions for dim 1..3"""
    out = []
    for d in (1, 2, 3):
        it = MapInterp(AFF, 'MappingAffine')
        it.check_properties()
        it.n = d
        it.used_tables = set()
        for tind in (None, Obj('tind')):
            mesh = Obj('mesh', p=Obj('p'), t=Obj('t', nverts=d + 1), facets=Obj('facets', nverts=d))
            me = Obj('self', dim=d, mesh=mesh, tind=tind)
            try:
                it.call(it.methods['_init_Ab'], [me], {})
                it.call(it.methods['_init_invA'], [me], {})
                if tind is None:
                    it.call(it.methods['_init_boundary_mapping'], [me], {})
            except ModelRaise as e:
                raise TranslateError(f'{AFF}: dim {d}: raises {e.what}')
            a = me.attrs
            for k in ('_A', '_b', '_detA', '_invA'):
                if k not in a:
                    raise TranslateError(f'{AFF}: dim {d}: {k} is not set')
            txt = [_buf_def(f'aff_A_{d}', '(P : mat R)', a['_A'], (d, d)),
                   _buf_def(f'aff_b_{d}', '(P : mat R)', a['_b'], (d,)),
                   f'Definition aff_detA_{d} (P : mat R) : R :=\n  {it.scalar(a["_detA"]).at([])}.',
                   _buf_def(f'aff_invA_{d}', '(P : mat R)', a['_invA'], (d, d))]
            if tind is None:
                first = txt
                for k in ('_B', '_c', '_detB'):
                    if k not in a:
                        raise TranslateError(f'{AFF}: dim {d}: {k} is not set')
                if d == 1:
                    if a['_B'].stores:
                        raise TranslateError('dim 1: B has entries')
                    first.append('Definition aff_B_1 (Q : mat R) : mat R := fun _ _ => 0.')
                else:
                    first.append(_buf_def(f'aff_B_{d}', '(Q : mat R)', a['_B'], (d, d - 1)))
                first.append(_buf_def(f'aff_c_{d}', '(Q : mat R)', a['_c'], (d,)))
                db = a['_detB']
                if isinstance(db, Sqrt):
                    first.append(f'(* detB = sqrt(aff_detBsq) *)\nDefinition aff_detBsq_{d} (Q : mat R) : R :=\n  {db.arg.at([])}.')
                elif isinstance(db, Sym) and db.rank == 0 and db.at([]) == '1':
                    first.append(f'(* detB = 1 *)\nDefinition aff_detBsq_{d} (Q : mat R) : R := 1.')
                else:
                    raise TranslateError(f'dim {d}: detB is neither sqrt(...) nor ones')
            else:
                # the tind branch must give the same terms (cells are only selected)
                if txt != first[:4]:
                    raise TranslateError(f'{AFF}: dim {d}: the tind branch of _init_Ab differs from the tind=None branch')
        out.append(f'(* ---- dim = {d} *)\n' + '\n'.join(first))
    # dim 4 must raise
    it = MapInterp(AFF, 'MappingAffine')
    it.n = 4
    it.used_tables = set()
    me = Obj('self', dim=4, mesh=Obj('mesh', p=Obj('p'), t=Obj('t', nverts=5), facets=Obj('facets', nverts=4)), tind=None)
    try:
        it.call(it.methods['_init_Ab'], [me], {})
        it.call(it.methods['_init_invA'], [me], {})
        raise TranslateError(f'{AFF}: dim 4 does not raise')
    except ModelRaise:
        pass
    return '\n\n'.join(out)


# ---- evaluation methods: exact text -> fixed model function -------------------------------------------------------
METHOD_TEXT = {
    'F': """if tind is None or self.tind is not None:
    A, b = (self.A, self.b)
else:
    A, b = (self.A[:, :, tind], self.b[:, tind])
if len(X.shape) == 2:
    return (np.einsum('ijk,jl', A, X).T + b.T).T
elif len(X.shape) == 3:
    return (np.einsum('ijk,jkl->ikl', A, X).T + b.T).T
raise NotImplementedError""",
    'invF': """if tind is None or self.tind is not None:
    invA, b = (self.invA, self.b)
else:
    invA, b = (self.invA[:, :, tind], self.b[:, tind])
y = (x.T - b.T).T
return np.einsum('ijk,jkl->ikl', invA, y)""",
    'detDF': """if tind is None or self.tind is not None:
    detDF = self.detA
else:
    detDF = self.detA[tind]
return np.tile(detDF, (X.shape[-1], 1)).T""",
    'DF': """if tind is None or self.tind is not None:
    DF = self.A
else:
    DF = self.A[:, :, tind]
if len(X.shape) == 2:
    return np.einsum('ijk,l->ijkl', DF, 1 + np.zeros_like(X[0]))
elif len(X.shape) == 3:
    return np.einsum('ijk,kl->ijkl', DF, 1 + np.zeros_like(X[0]))
raise NotImplementedError""",
    'invDF': """if tind is None or self.tind is not None:
    invDF = self.invA
else:
    invDF = self.invA[:, :, tind]
ones = np.ones(X.shape[-1])
return np.einsum('ijk,l->ijkl', invDF, ones)""",
    'G': """if find is None:
    B, c = (self.B, self.c)
else:
    B, c = (self.B[:, :, find], self.c[:, find])
if len(X.shape) == 2:
    return (np.einsum('ijk,jl', B, X).T + c.T).T
elif len(X.shape) == 3:
    return (np.einsum('ijk,jkl->ikl', B, X).T + c.T).T
raise Exception('Wrong dimension of input.')""",
    'detDG': """if find is None:
    detDG = self.detB
else:
    detDG = self.detB[find]
return np.tile(detDG, (X.shape[-1], 1)).T""",
}
NORMALS_TAIL = """invDF = self.invDF(X, tind)
N = np.empty((self.dim, len(find)))
for itr in range(Nref.shape[0]):
    ix = np.nonzero(t2f[itr, tind] == find)[0].astype(np.int32)
    for jtr in range(Nref.shape[1]):
        N[jtr, ix] = Nref[itr, jtr]
n = np.einsum('ijkl,ik->jkl', invDF, N)
nlength = np.sqrt(np.sum(n ** 2, axis=0))
return np.einsum('ijk,jk->ijk', n, 1.0 / nlength)"""


def _body(m):
    return [s for s in m.body if not (isinstance(s, ast.Expr) and isinstance(s.value, ast.Constant) and isinstance(s.value.value, str))]


def _num(v):
    if isinstance(v, bool) or not isinstance(v, (int, float)) or float(v) != int(v) or abs(v) > 8:
        raise TranslateError(f'table entry {v!r}')
    v = int(v)
    t = '0' if v == 0 else '(' + ' + '.join(['1'] * abs(v)) + ')' if abs(v) > 1 else '1'
    return f'(- ({t}))' if v < 0 else t


def _table2(name, rows, comment=''):
    pats = ' '.join(f'| {cidx(i)}, {cidx(j)} => {_num(v)}' for i, r in enumerate(rows) for j, v in enumerate(r))
    return f'{comment}Definition {name} : mat R := fun s j => match s, j with {pats} | _, _ => 0 end.'


def _literal(node):
    """np.array([[...]], dtype=...) or a list literal -> python nested list"""
    if isinstance(node, ast.Call) and t2.src(node.func) == 'np.array' and node.args:
        node = node.args[0]
    try:
        return ast.literal_eval(node)
    except (ValueError, SyntaxError):
        raise TranslateError('not a literal table: ' + t2.src(node)[:80])


def evaluation_methods():
    """check the evaluation methods textually; return the Coq text of the Nref tables of MappingAffine.normals"""
    it = MapInterp(AFF, 'MappingAffine')
    for name, want in METHOD_TEXT.items():
        if name not in it.methods:
            raise TranslateError(f'{AFF}: method {name} missing')
        got = '\n'.join(t2.src(s) for s in _body(it.methods[name]))
        if got != want:
            raise TranslateError(f'{AFF}: method {name} changed:\n{got}')
    nm = it.methods['normals']
    if [a.arg for a in nm.args.args] != ['self', 'X', 'tind', 'find', 't2f']:
        raise TranslateError('normals signature')
    body = _body(nm)
    head = body[0]
    if not isinstance(head, ast.If) or '\n'.join(t2.src(s) for s in body[1:]) != NORMALS_TAIL:
        raise TranslateError(f'{AFF}: normals changed')
    tables, node, d = {}, head, 1
    while True:
        if t2.src(node.test) != f'self.dim == {d}' or len(node.body) != 1 or t2.src(node.body[0].targets[0]) != 'Nref':
            raise TranslateError('normals: Nref dispatch')
        tables[d] = _literal(node.body[0].value)
        if len(tables[d]) != d + 1 or any(len(r) != d for r in tables[d]):
            raise TranslateError(f'normals: Nref shape for dim {d}')
        if len(node.orelse) == 1 and isinstance(node.orelse[0], ast.If):
            node, d = node.orelse[0], d + 1
            continue
        if len(node.orelse) != 1 or not isinstance(node.orelse[0], ast.Raise):
            raise TranslateError('normals: else branch must raise')
        break
    if sorted(tables) != [1, 2, 3]:
        raise TranslateError('normals: dims')
    return '\n'.join(_table2(f'aff_Nref_{d}', tables[d], f'(* MappingAffine.normals, dim {d} *)\n') for d in (1, 2, 3)), tables


FACET_BASIS = 'skfem/assembly/basis/facet_basis.py'
FACET_BASIS_LINES = [
    'self.tind = self.mesh.f2t[side, self.find]',
    'self.tind_normals = self.mesh.f2t[0, self.find]',
    'x = self.mapping.G(self.X, find=self.find)',
    'Y = self.mapping.invF(x, tind=self.tind)',
    'Y0 = self.mapping.invF(x, tind=self.tind_normals)',
    'self.normals = DiscreteField(value=self.mapping.normals(Y0, self.tind_normals, self.find, self.mesh.t2f))',
    'self.basis = [self.elem.gbasis(self.mapping, Y, j, tind=self.tind) for j in range(self.Nbfun)]',
    'self.dx = np.abs(self.mapping.detDG(self.X, find=self.find)) * np.broadcast_to(self.W, (self.nelems, self.W.shape[-1]))',
]


def facet_basis_composition():
    """FacetBasis.__init__ composes the maps as the theorems assume: reference facet point -> G -> invF of the adjacent cell,
    normals from the cell f2t[0, f] at those points, dx = |detDG| * W  (exact statements, each exactly once)"""
    tree = t2.parse(FACET_BASIS)
    init = t2.find_def(tree, '__init__', 'FacetBasis')
    stmts = [t2.src(n) for n in ast.walk(init) if isinstance(n, ast.Assign)]
    for ln in FACET_BASIS_LINES:
        if stmts.count(ln) != 1:
            raise TranslateError(f'{FACET_BASIS}: FacetBasis.__init__: expected exactly one statement {ln!r}')
    order = [stmts.index(ln) for ln in FACET_BASIS_LINES[2:]]
    return FACET_BASIS_LINES


def refdom_tables():
    tree = t2.parse(REFDOM)
    out, data = [], {}
    for cname, short, d in (('RefLine', 'line', 1), ('RefTri', 'tri', 2), ('RefTet', 'tet', 3)):
        cl = t2.only([n for n in tree.body if isinstance(n, ast.ClassDef) and n.name == cname], cname)
        vals = {}
        for s in cl.body:
            if isinstance(s, ast.Assign) and isinstance(s.targets[0], ast.Name) and s.targets[0].id in ('p', 'facets', 'normals'):
                vals[s.targets[0].id] = _literal(s.value)
        if sorted(vals) != ['facets', 'normals', 'p']:
            raise TranslateError(f'{cname}: tables {sorted(vals)}')
        p, facets, normals = vals['p'], vals['facets'], vals['normals']
        if len(p) != d or any(len(r) != d + 1 for r in p) or len(facets) != d + 1 or any(len(f) != d for f in facets) \
                or len(normals) != d + 1 or any(len(r) != d for r in normals):
            raise TranslateError(f'{cname}: table shapes')
        verts = [[p[i][k] for i in range(d)] for k in range(d + 1)]          # vertex k, coordinate i
        out.append(_table2(f'ref_p_{short}', verts, f'(* {cname}.p transposed: vertex k, coordinate i *)\n'))
        out.append(_table2(f'ref_normals_{short}', normals, f'(* {cname}.normals *)\n'))
        out.append(f'Definition ref_facets_{short} : list (list nat) := '
                   + '[' + '; '.join('[' + '; '.join(cidx(v) for v in f) + ']' for f in facets) + '].')
        data[short] = {'p': verts, 'facets': facets, 'normals': normals}
    return '\n'.join(out), data


# ---- isoparametric cofactor formulas ---------------------------------------------------------------------------------
def iso_defs():
    out = []
    for d in (1, 2, 3):
        it = MapInterp(ISO, 'MappingIsoparametric')
        it.n = d
        it.used_tables = set()
        J = [[Sym(0, (lambda idx, i=i, j=j: f'(J {cidx(i)} {cidx(j)})')) for j in range(d)] for i in range(d)]
        me = Obj('self', dim=d)
        # detDF(self, X, tind=None, J=None) with J given
        m = it.methods['detDF']
        if [a.arg for a in m.args.args] != ['self', 'X', 'tind', 'J']:
            raise TranslateError('iso detDF signature')
        det = _run_iso(it, m, {'self': me, 'X': None, 'tind': None, 'J': J})
        out.append(f'Definition iso_detDF_{d} (J : mat R) : R :=\n  {it.scalar(det).at([])}.')
        # invDF: J built by the comprehension over self.J(i, j, X, tind=tind); detDF by the call above
        m = it.methods['invDF']
        body = _body(m)
        want0 = 'J = [[self.J(i, j, X, tind=tind) for j in range(self.dim)] for i in range(self.dim)]'
        want1 = 'detDF = self.detDF(X, tind, J=J)'
        want2 = 'invDF = np.empty((self.dim, self.dim) + J[0][0].shape)'
        if [t2.src(s) for s in body[:3]] != [want0, want1, want2] or t2.src(body[-1]) != 'return invDF / detDF':
            raise TranslateError('iso invDF frame changed')
        buf = Buf(2)
        buf.extents = (d, d)
        env = {'self': me, 'J': J, 'invDF': buf, 'np': ('builtin', 'np')}
        for s in body[3:-1]:
            it.stmt(s, env)
        adj = Buf(2)
        adj.extents = (d, d)
        adj.stores = dict(buf.stores)
        out.append('(* the numerators of invDF (adjugate): invDF = iso_adj / detDF *)\n' + _buf_def(f'iso_adj_{d}', '(J : mat R)', adj, (d, d)))
        dterm = it.scalar(det).at([])
        for k in list(buf.stores):
            buf.stores[k] = f'({buf.stores[k]} / {dterm})'
        out.append(_buf_def(f'iso_invDF_{d}', '(J : mat R)', buf, (d, d)))
        if d >= 2:
            m = it.methods['detDG']
            bJ = lambda i, j: Sym(0, lambda idx: f'(J {cidx(i)} {cidx(j)})')      # noqa: E731
            env = {'self': Obj('self', dim=d, bndJ=('bndJ',)), 'X': None, 'find': None}
            it.bnd = bJ
            r = _run_iso(it, m, env)
            if not isinstance(r, Sqrt):
                raise TranslateError('iso detDG is not a square root')
            out.append(f'(* detDG = sqrt(iso_detDGsq), J i j = bndJ(i, j) *)\nDefinition iso_detDGsq_{d} (J : mat R) : R :=\n  {r.arg.at([])}.')
    return '\n'.join(out)


def _run_iso(it, m, env):
    # `self.bndJ(i, j, X, find)` -> J i j ; `np.sum(detDF == 0) > 0` -> the degenerate-case guard
    class V(ast.NodeTransformer):
        def visit_Call(self, node):
            self.generic_visit(node)
            if t2.src(node.func) == 'self.bndJ' and len(node.args) == 4 and t2.src(node.args[2]) == 'X' and t2.src(node.args[3]) == 'find':
                return ast.Subscript(value=ast.Subscript(value=ast.Name(id='__bJ', ctx=ast.Load()), slice=node.args[0], ctx=ast.Load()),
                                     slice=node.args[1], ctx=ast.Load())
            return node
    import copy
    m2 = V().visit(copy.deepcopy(m))
    ast.fix_missing_locations(m2)
    d = it.n
    env = dict(env)
    env['__bJ'] = [[Sym(0, (lambda idx, i=i, j=j: f'(J {cidx(i)} {cidx(j)})')) for j in range(max(d - 1, 1))] for i in range(d)]
    try:
        for s in _body(m2):
            if isinstance(s, ast.If) and t2.src(s.test) == 'J is None':
                if env.get('J') is None:
                    raise TranslateError('iso: J is None branch')
                continue
            if isinstance(s, ast.If) and t2.src(s.test) == 'np.sum(detDF == 0) > 0':
                if len(s.body) != 1 or not isinstance(s.body[0], ast.Raise) or s.orelse:
                    raise TranslateError('iso: zero-determinant guard')
                continue
            it.stmt(s, env)
    except _Return as r:
        return r.v
    except ModelRaise as e:
        raise TranslateError(f'iso {m.name}: raises {e.what}')
    raise TranslateError(f'iso {m.name}: no return')


# ---- P1 elements (the elements of straight simplicial meshes) and the basis expansion of MappingIsoparametric ------------
P1 = [(1, 'skfem/element/element_line/element_line_p1.py', 'ElementLineP1'),
      (2, 'skfem/element/element_tri/element_tri_p1.py', 'ElementTriP1'),
      (3, 'skfem/element/element_tet/element_tet_p1.py', 'ElementTetP1')]
FMAP_LINES = ['for itr in range(t.shape[0]):', 'phi, _ = self.elem.lbasis(X, itr)']
FMAP_ACC = ['out += p[i, t[itr, :]][:, None] * phi', 'out += p[i, t[itr, tind]][:, None] * phi']
J_LINES = ['for itr in range(t.shape[0]):', '_, dphi = self.elem.lbasis(X, itr)']
J_ACC = ['out += p[i, t[itr, :]][:, None] * dphi[j]', 'out += p[i, t[itr, tind]][:, None] * dphi[j]']


def p1_defs():
    out = []
    for d, path, cls in P1:
        it = MapInterp(path, cls)
        it.n = d
        it.used_tables = set()
        m = it.methods.get('lbasis')
        if m is None or [a.arg for a in m.args.args] != ['self', 'X', 'i']:
            raise TranslateError(f'{cls}.lbasis signature')
        X = Sym(1, lambda idx: f'(X {cidx(idx[0])})', term='X')
        phis, dphis = [], []
        for k in range(d + 1):
            r = it.call(m, [Obj('self'), X, k], {})
            if not (isinstance(r, tuple) and len(r) == 2):
                raise TranslateError(f'{cls}.lbasis does not return (phi, dphi)')
            phi, dphi = it.scalar(r[0]), r[1]
            if phi.rank != 0 or not isinstance(dphi, Sym) or dphi.rank != 1:
                raise TranslateError(f'{cls}.lbasis: tensor orders of (phi, dphi)')
            phis.append(phi.at([]))
            dphis.append([dphi.at([j]) for j in range(d)])
        try:
            it.call(m, [Obj('self'), X, d + 1], {})
            raise TranslateError(f'{cls}.lbasis accepts the index {d + 1}')
        except TranslateError as e:
            if 'accepts the index' in str(e):
                raise
        pats = ' '.join(f'| {cidx(k)} => {t}' for k, t in enumerate(phis))
        out.append(f'(* {cls}.lbasis *)\nDefinition p1_phi_{d} (X : vec R) : vec R :=\n  fun k => match k with {pats} | _ => 0 end.')
        pats = ' '.join(f'| {cidx(k)}, {cidx(j)} => {t}' for k, row in enumerate(dphis) for j, t in enumerate(row))
        out.append(f'Definition p1_dphi_{d} (X : vec R) : mat R :=\n  fun k j => match k, j with {pats} | _, _ => 0 end.')
    # the basis expansion of Fmap / _J
    it = MapInterp(ISO, 'MappingIsoparametric')
    for name, lines, acc in (('Fmap', FMAP_LINES, FMAP_ACC), ('_J', J_LINES, J_ACC)):
        if name not in it.methods:
            raise TranslateError(f'{ISO}: {name} missing')
        src = [ln.strip() for ln in t2.src(it.methods[name]).split('\n')]
        for ln in lines:
            if src.count(ln) != 2:
                raise TranslateError(f'{ISO}: {name}: expected two occurrences of {ln!r}')
        for ln in acc:
            if src.count(ln) != 1:
                raise TranslateError(f'{ISO}: {name}: expected {ln!r}')
        if src.count('p = self.mesh.doflocs') != 1 or src.count('t = self.mesh.dofs.element_dofs') != 1:
            raise TranslateError(f'{ISO}: {name}: p / t definitions changed')
        if sum(1 for ln in src if ln.startswith('out +=') or ln.startswith('out =')) != 4:
            raise TranslateError(f'{ISO}: {name}: unexpected updates of out')
    fm = t2.src(it.methods['F'])
    if 'return np.array([self.Fmap(i, X, tind) for i in range(X.shape[0])])' not in fm:
        raise TranslateError(f'{ISO}: F changed')
    return '\n'.join(out)


HEADER = '''(* GENERATED by vlib/c10_tr.py from skfem/mapping/mapping_affine.py, mapping_isoparametric.py, refdom.py -- do not edit *)
From Coq Require Import List Arith.
Import ListNotations.
Require Import Base.C20_Ring.
Section Gen.
Context {R : Type} {ops : FOps R}.
Open Scope F_scope.
'''


def generate():
    aff = affine_defs()
    nref, nref_data = evaluation_methods()
    ref, ref_data = refdom_tables()
    iso = iso_defs()
    p1 = p1_defs()
    fb = facet_basis_composition()
    txt = HEADER + '\n(* ===== MappingAffine: _init_Ab, _init_invA, _init_boundary_mapping ===== *)\n' + aff + \
        '\n\n(* ===== Nref tables of MappingAffine.normals ===== *)\n' + nref + \
        '\n\n(* ===== refdom.py ===== *)\n' + ref + \
        '\n\n(* ===== MappingIsoparametric: detDF, invDF, detDG ===== *)\n' + iso + \
        '\n\n(* ===== lbasis of the P1 elements (basis expansion of MappingIsoparametric.Fmap / _J) ===== *)\n' + p1 + \
        '\nEnd Gen.\n(* FacetBasis.__init__ composition recognised:\n   ' + '\n   '.join(fb).replace('(*', '( *') + ' *)\n'
    return txt, {'nref': nref_data, 'ref': ref_data}
