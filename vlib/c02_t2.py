"""C02, tie T2: fail-closed translation of the closed-form arithmetic that turns quadrature weights into
``dx`` — MappingAffine (A, detA, invA, B, detB, detDF, detDG), CellBasis / FacetBasis ``dx = |det| * W`` and
the default integration order of AbstractBasis — into Gallina terms over a generic ring given as a record
of operations (Base.C02_Ops.ops)."""
import ast

from . import t2
from .core import TranslateError

MAP = 'skfem/mapping/mapping_affine.py'
CELL = 'skfem/assembly/basis/cell_basis.py'
FACET = 'skfem/assembly/basis/facet_basis.py'
ABSTRACT = 'skfem/assembly/basis/abstract_basis.py'


class Ring:
    """expression -> prefix term over the operations record O"""

    def __init__(self, names=None, sub=None, call=None, allow_div=False):
        self.names, self.sub, self.call, self.allow_div = names or {}, sub, call, allow_div

    def tr(self, n):
        if isinstance(n, ast.Constant):
            v = n.value
            if isinstance(v, bool) or not isinstance(v, (int, float)) or float(v) not in (0.0, 1.0):
                raise TranslateError(f'literal {v!r}')
            return '(o1 O)' if float(v) == 1.0 else '(o0 O)'
        if isinstance(n, (ast.Name, ast.Attribute)):
            d = t2.dotted(n)
            if d not in self.names:
                raise TranslateError(f'unknown name {d}')
            return self.names[d]
        if isinstance(n, ast.BinOp):
            if isinstance(n.op, ast.Pow):
                if isinstance(n.right, ast.Constant) and n.right.value == 2 and not isinstance(n.right.value, bool):
                    a = self.tr(n.left)
                    return f'(omul O {a} {a})'
                raise TranslateError('power other than 2: ' + t2.src(n))
            ops = {ast.Add: 'oadd', ast.Sub: 'osub', ast.Mult: 'omul'}
            if self.allow_div:
                ops[ast.Div] = 'odiv'
            op = ops.get(type(n.op))
            if op is None:
                raise TranslateError('operator ' + type(n.op).__name__ + ' in ' + t2.src(n))
            return f'({op} O {self.tr(n.left)} {self.tr(n.right)})'
        if isinstance(n, ast.UnaryOp) and isinstance(n.op, ast.USub):
            return f'(oopp O {self.tr(n.operand)})'
        if isinstance(n, ast.UnaryOp) and isinstance(n.op, ast.UAdd):
            return self.tr(n.operand)
        if isinstance(n, ast.Subscript) and self.sub is not None:
            return self.sub(n)
        if isinstance(n, ast.Call) and self.call is not None:
            return self.call(self, n)
        raise TranslateError('unsupported expression: ' + t2.src(n)[:120])


def const_index(n, base):
    """``<base>[i, j]`` with integer constants -> (i, j)"""
    if not (isinstance(n, ast.Subscript) and t2.src(n.value) == base):
        raise TranslateError(f'expected {base}[i, j]: ' + t2.src(n))
    ix = t2.index_tuple(n)
    out = []
    for e in ix:
        if not (isinstance(e, ast.Constant) and isinstance(e.value, int) and not isinstance(e.value, bool) and 0 <= e.value <= 2):
            raise TranslateError('index: ' + t2.src(n))
        out.append(e.value)
    return tuple(out)


def dim_chain(stmts, what, var='dim', dims=(1, 2, 3)):
    """the bodies of ``if dim == 1: .. elif dim == 2: .. elif dim == 3: .. else: raise`` chains among stmts"""
    chains = []
    pre = var + ' == '
    for s in stmts:
        if isinstance(s, ast.If) and t2.src(s.test) == pre + str(dims[0]):
            ch = {}
            node = s
            while True:
                t = t2.src(node.test)
                if not (t.startswith(pre) and t[len(pre):].isdigit()):
                    raise TranslateError(f'{what}: test {t}')
                ch[int(t[len(pre):])] = node.body
                if len(node.orelse) == 1 and isinstance(node.orelse[0], ast.If):
                    node = node.orelse[0]
                    continue
                if not (len(node.orelse) == 1 and isinstance(node.orelse[0], ast.Raise)):
                    raise TranslateError(f'{what}: the chain must end with raise')
                break
            if sorted(ch) != list(dims):
                raise TranslateError(f'{what}: dimensions {sorted(ch)}')
            chains.append(ch)
    return chains


def entries_params(prefix, rows, cols):
    return ' '.join(f'{prefix}{i}{j}' for i in range(rows) for j in range(cols))


def vertex_entry(body_loops, arr, conn, what):
    """``for i in range(dim): <c>[i] = p[i, conn[0]]; for j in range(<n>): <arr>[i, j] = p[i, conn[j+1]] - p[i, conn[0]]``
    -> Gallina term for the entry (i, j) in terms of v : coordinate -> local vertex -> R"""
    outer = [s for s in body_loops if isinstance(s, ast.For)]
    res = []
    for lo in outer:
        if not (isinstance(lo.target, ast.Name) and t2.src(lo.iter) == 'range(dim)'):
            raise TranslateError(f'{what}: outer loop ' + t2.src(lo)[:60])
        i = lo.target.id
        inner = [s for s in lo.body if isinstance(s, ast.For)]
        if len(inner) != 1 or len(lo.body) != 2:
            raise TranslateError(f'{what}: outer loop body')
        li = inner[0]
        if not (isinstance(li.target, ast.Name) and t2.src(li.iter) in ('range(dim)', 'range(dim - 1)') and len(li.body) == 1):
            raise TranslateError(f'{what}: inner loop ' + t2.src(li)[:60])
        j = li.target.id
        st = li.body[0]
        if not (isinstance(st, ast.Assign) and t2.src(st.targets[0]) == f'{arr}[{i}, {j}]'):
            raise TranslateError(f'{what}: inner statement ' + t2.src(st)[:80])
        natx = t2.Expr({j: 'j'}, 'nat')

        def sub(n, i=i):
            # self.mesh.p[i, self.mesh.<conn>[K]]  or  ...[K, self.tind]
            if not (isinstance(n, ast.Subscript) and t2.src(n.value) == 'self.mesh.p'):
                raise TranslateError(f'{what}: ' + t2.src(n))
            ix = t2.index_tuple(n)
            if len(ix) != 2 or t2.src(ix[0]) != i:
                raise TranslateError(f'{what}: ' + t2.src(n))
            c = ix[1]
            if not (isinstance(c, ast.Subscript) and t2.src(c.value) == f'self.mesh.{conn}'):
                raise TranslateError(f'{what}: ' + t2.src(n))
            cix = t2.index_tuple(c)
            if len(cix) == 2 and t2.src(cix[1]) == 'self.tind':
                cix = cix[:1]
            if len(cix) != 1:
                raise TranslateError(f'{what}: ' + t2.src(n))
            return f'(v i {natx.tr(cix[0])})'
        res.append((t2.src(li.iter), Ring(sub=sub).tr(st.value)))
    return res


def translate_mapping():
    tree = t2.parse(MAP)
    out = []
    # ---- A and b from the vertices
    f = t2.find_def(tree, '_init_Ab', 'MappingAffine')
    guard = t2.only([s for s in f.body if isinstance(s, ast.If)], '_init_Ab guard')
    br = t2.only([s for s in guard.body if isinstance(s, ast.If)], '_init_Ab tind branch')
    if t2.src(br.test) != 'self.tind is None':
        raise TranslateError('_init_Ab: ' + t2.src(br.test))
    e1 = vertex_entry(br.body, 'self._A', 't', '_init_Ab')
    e2 = vertex_entry(br.orelse, 'self._A', 't', '_init_Ab (tind)')
    if len(e1) != 1 or e1 != e2 or e1[0][0] != 'range(dim)':
        raise TranslateError(f'_init_Ab: the two branches differ or are not dim x dim: {e1} {e2}')
    out.append(f'Definition gen_A {{R : Type}} (O : ops R) (v : nat -> nat -> R) (i j : nat) : R := {e1[0][1]}.')
    # ---- detA, invA
    f = t2.find_def(tree, '_init_invA', 'MappingAffine')
    guard = t2.only([s for s in f.body if isinstance(s, ast.If)], '_init_invA guard')
    chains = dim_chain(guard.body, '_init_invA')
    if len(chains) != 2:
        raise TranslateError(f'_init_invA: {len(chains)} dimension chains')

    def subA(n):
        i, j = const_index(n, 'self.A')
        return f'a{i}{j}'
    for d in (1, 2, 3):
        st = t2.only(chains[0][d], f'detA dim {d}')
        if not (isinstance(st, ast.Assign) and t2.src(st.targets[0]) == 'self._detA'):
            raise TranslateError('detA: ' + t2.src(st)[:80])
        term = Ring(sub=subA).tr(st.value)
        out.append(f'Definition detA{d} {{R : Type}} (O : ops R) ({entries_params("a", d, d)} : R) : R := {term}.')
    for d in (1, 2, 3):
        seen = {}
        for st in chains[1][d]:
            if not (isinstance(st, ast.Assign) and isinstance(st.targets[0], ast.Subscript)):
                raise TranslateError('invA: ' + t2.src(st)[:80])
            i, j = const_index(st.targets[0], 'self._invA')
            if (i, j) in seen:
                raise TranslateError(f'invA[{i},{j}] assigned twice')
            seen[(i, j)] = Ring({'self.detA': 'det'}, sub=subA, allow_div=True).tr(st.value)
        if sorted(seen) != [(i, j) for i in range(d) for j in range(d)]:
            raise TranslateError(f'invA dim {d}: entries {sorted(seen)}')
        for (i, j), term in sorted(seen.items()):
            out.append(f'Definition invA{d}_{i}{j} {{R : Type}} (O : ops R) ({entries_params("a", d, d)} det : R) : R := {term}.')
    # ---- B and detB
    f = t2.find_def(tree, '_init_boundary_mapping', 'MappingAffine')
    eb = vertex_entry(f.body, 'self._B', 'facets', '_init_boundary_mapping')
    if len(eb) != 1 or eb[0][0] != 'range(dim - 1)':
        raise TranslateError(f'_init_boundary_mapping: {eb}')
    out.append(f'Definition gen_B {{R : Type}} (O : ops R) (v : nat -> nat -> R) (i j : nat) : R := {eb[0][1]}.')
    chains = dim_chain(f.body, '_init_boundary_mapping')
    if len(chains) != 1:
        raise TranslateError(f'_init_boundary_mapping: {len(chains)} dimension chains')

    def subB(n):
        i, j = const_index(n, 'self._B')
        return f'b{i}{j}'
    for d in (1, 2, 3):
        st = t2.only(chains[0][d], f'detB dim {d}')
        if not (isinstance(st, ast.Assign) and t2.src(st.targets[0]) == 'self._detB' and isinstance(st.value, ast.Call)):
            raise TranslateError('detB: ' + t2.src(st)[:80])
        c = st.value
        if d == 1:
            if t2.src(c) != 'np.ones(nf)':
                raise TranslateError('detB dim 1: ' + t2.src(c))
            out.append('Definition detB1 {R : Type} (O : ops R) : R := o1 O.')
        else:
            if not (t2.src(c.func) == 'np.sqrt' and len(c.args) == 1 and not c.keywords):
                raise TranslateError(f'detB dim {d}: ' + t2.src(c)[:80])
            term = Ring(sub=subB).tr(c.args[0])
            out.append(f'(* detB = sqrt of: *)\nDefinition detB{d}_sq {{R : Type}} (O : ops R) ({entries_params("b", d, d - 1)} : R) : R := {term}.')
    # ---- detDF / detDG: the per-cell determinant repeated for every quadrature point
    for fn, attr, arg in (('detDF', 'detA', 'tind'), ('detDG', 'detB', 'find')):
        f = t2.find_def(tree, fn, 'MappingAffine')
        body = [s for s in f.body if not (isinstance(s, ast.Expr) and isinstance(s.value, ast.Constant))]
        if len(body) != 2 or not isinstance(body[0], ast.If) or not isinstance(body[1], ast.Return):
            raise TranslateError(f'{fn}: body shape')
        branches = {t2.src(s) for s in body[0].body + body[0].orelse}
        if branches != {f'{fn} = self.{attr}', f'{fn} = self.{attr}[{arg}]'}:
            raise TranslateError(f'{fn}: branches {branches}')
        if t2.src(body[1].value) != f'np.tile({fn}, (X.shape[-1], 1)).T':
            raise TranslateError(f'{fn}: return ' + t2.src(body[1].value))
        out.append(f'Definition gen_{fn} {{R : Type}} ({attr} : nat -> R) (e q : nat) : R := {attr} e.   (* np.tile({attr}, (nq, 1)).T *)')
    return out


ISO = 'skfem/mapping/mapping_isoparametric.py'


def translate_isoparametric():
    """detDF / detDG of MappingIsoparametric in terms of the Jacobian entries J[i][j] / bndJ(i, j, ...)"""
    tree = t2.parse(ISO)
    out = []
    f = t2.find_def(tree, 'detDF', 'MappingIsoparametric')
    ch = t2.only(dim_chain(f.body, 'iso detDF', var='self.dim'), 'iso detDF chain')

    def subJ(n):
        # J[i][j]
        if not (isinstance(n, ast.Subscript) and isinstance(n.value, ast.Subscript) and t2.src(n.value.value) == 'J'):
            raise TranslateError('iso detDF: ' + t2.src(n))
        i, j = n.value.slice, n.slice
        for e in (i, j):
            if not (isinstance(e, ast.Constant) and isinstance(e.value, int) and 0 <= e.value <= 2):
                raise TranslateError('iso detDF index: ' + t2.src(n))
        return f'a{i.value}{j.value}'
    for d in (1, 2, 3):
        st = t2.only(ch[d], f'iso detDF dim {d}')
        if not (isinstance(st, ast.Assign) and t2.src(st.targets[0]) == 'detDF'):
            raise TranslateError('iso detDF: ' + t2.src(st)[:80])
        out.append(f'Definition iso_detDF{d} {{R : Type}} (O : ops R) ({entries_params("a", d, d)} : R) : R := {Ring(sub=subJ).tr(st.value)}.')
    ret = [s for s in f.body if isinstance(s, ast.Return)]
    if len(ret) != 1 or t2.src(ret[0].value) != 'detDF':
        raise TranslateError('iso detDF: return')
    f = t2.find_def(tree, 'detDG', 'MappingIsoparametric')
    ch = t2.only(dim_chain(f.body, 'iso detDG', var='self.dim', dims=(2, 3)), 'iso detDG chain')

    def callB(tr, n):
        if not (t2.src(n.func) == 'self.bndJ' and len(n.args) == 4 and not n.keywords
                and t2.src(n.args[2]) == 'X' and t2.src(n.args[3]) == 'find'):
            raise TranslateError('iso detDG: ' + t2.src(n))
        i, j = n.args[0], n.args[1]
        for e in (i, j):
            if not (isinstance(e, ast.Constant) and isinstance(e.value, int) and 0 <= e.value <= 2):
                raise TranslateError('iso detDG index: ' + t2.src(n))
        return f'b{i.value}{j.value}'
    for d in (2, 3):
        st = t2.only(ch[d], f'iso detDG dim {d}')
        if not (isinstance(st, ast.Return) and isinstance(st.value, ast.Call) and t2.src(st.value.func) == 'np.sqrt'
                and len(st.value.args) == 1):
            raise TranslateError('iso detDG: ' + t2.src(st)[:80])
        out.append(f'(* detDG = sqrt of: *)\nDefinition iso_detDG{d}_sq {{R : Type}} (O : ops R) ({entries_params("b", d, d - 1)} : R) : R := '
                   f'{Ring(call=callB).tr(st.value.args[0])}.')
    return out


def translate_dx(path, cls, detfn, kw):
    """``self.dx = np.abs(self.mapping.<detfn>(self.X, <kw>=self.<kw>)) * np.broadcast_to(self.W, (self.nelems, self.W.shape[-1]))``"""
    tree = t2.parse(path)
    f = t2.find_def(tree, '__init__', cls)
    st = t2.only([s for s in ast.walk(f) if isinstance(s, ast.Assign) and t2.src(s.targets[0]) == 'self.dx'], f'{cls}: self.dx = ...')

    def call(tr, n):
        fn = t2.src(n.func)
        if fn == 'np.abs' and len(n.args) == 1 and not n.keywords:
            return f'(absf {tr.tr(n.args[0])})'
        if fn == f'self.mapping.{detfn}':
            if not (len(n.args) == 1 and t2.src(n.args[0]) == 'self.X' and len(n.keywords) == 1
                    and n.keywords[0].arg == kw and t2.src(n.keywords[0].value) == f'self.{kw}'):
                raise TranslateError(f'{cls}: arguments of {detfn}: ' + t2.src(n))
            return '(det e q)'
        if fn == 'np.broadcast_to':
            if not (len(n.args) == 2 and t2.src(n.args[0]) == 'self.W' and t2.src(n.args[1]) == '(self.nelems, self.W.shape[-1])'):
                raise TranslateError(f'{cls}: broadcast: ' + t2.src(n))
            return '(W q)'
        raise TranslateError(f'{cls}: call {fn}')
    term = Ring(call=call).tr(st.value)
    name = 'gen_cell_dx' if cls == 'CellBasis' else 'gen_facet_dx'
    return (f'Definition {name} {{R : Type}} (O : ops R) (absf : R -> R) (det : nat -> nat -> R) (W : nat -> R) (e q : nat) : R := {term}.')


def _none_test(n):
    """``a is not None`` / ``a is None`` / conjunctions -> Gallina bool over option variables"""
    if isinstance(n, ast.BoolOp) and isinstance(n.op, ast.And):
        return '(' + ' && '.join(_none_test(v) for v in n.values) + ')'
    if (isinstance(n, ast.Compare) and len(n.ops) == 1 and isinstance(n.left, ast.Name) and n.left.id in ('quadrature', 'intorder')
            and isinstance(n.comparators[0], ast.Constant) and n.comparators[0].value is None):
        if isinstance(n.ops[0], ast.IsNot):
            return f'(is_some {n.left.id})'
        if isinstance(n.ops[0], ast.Is):
            return f'(negb (is_some {n.left.id}))'
    raise TranslateError('test of the quadrature/intorder branch: ' + t2.src(n))


def translate_intorder():
    tree = t2.parse(ABSTRACT)
    f = t2.find_def(tree, '__init__', 'AbstractBasis')
    calls = [c for c in ast.walk(f) if isinstance(c, ast.Call) and t2.src(c.func) == 'get_quadrature']
    c = t2.only(calls, 'AbstractBasis: get_quadrature(...)')
    if len(c.args) != 2 or c.keywords or t2.src(c.args[0]) != 'refdom':
        raise TranslateError('get_quadrature arguments: ' + t2.src(c))
    e = c.args[1]
    if not (isinstance(e, ast.IfExp) and t2.src(e.test) == 'intorder is not None' and t2.src(e.body) == 'intorder'):
        raise TranslateError('order expression: ' + t2.src(e))
    term = t2.Expr({'self.elem.maxdeg': 'maxdeg'}, 'nat').tr(e.orelse)
    # which rule the basis uses: ``if <test>: self.X, self.W = quadrature  else: self.X, self.W = get_quadrature(refdom, <order>)``
    ifs = [s for s in f.body if isinstance(s, ast.If) and any(t2.src(x) == 'self.X, self.W = quadrature' for x in s.body)]
    br = t2.only(ifs, 'AbstractBasis: branch on quadrature')
    if len(br.body) != 1 or len(br.orelse) != 1 or t2.src(br.orelse[0]) != 'self.X, self.W = ' + t2.src(c):
        raise TranslateError('AbstractBasis: shape of the quadrature branch: ' + t2.src(br)[:200])
    test = _none_test(br.test)
    return ('Definition gen_intorder (intorder : option nat) (maxdeg : nat) : nat :=\n'
            f'  match intorder with Some k => k | None => {term} end.\n'
            'Definition is_some {A : Type} (o : option A) : bool := match o with Some _ => true | None => false end.\n'
            '(* the rule a basis integrates with: the given one, else get_quadrature(refdom, order) *)\n'
            'Definition gen_rule_choice {A : Type} (quadrature : option A) (intorder : option nat) (maxdeg : nat) (table : nat -> A) : A :=\n'
            f'  if {test} then match quadrature with Some r => r | None => table (gen_intorder intorder maxdeg) end\n'
            '  else table (gen_intorder intorder maxdeg).')


def translate_all():
    lines = ['(* GENERATED by vlib/c02_t2.py from skfem/mapping/mapping_affine.py, assembly/basis/{cell,facet,abstract}_basis.py — do not edit *)',
             'From Coq Require Import Arith Bool.', 'Require Import Base.C02_Ops.']
    lines += translate_mapping()
    lines += translate_isoparametric()
    lines.append(translate_dx(CELL, 'CellBasis', 'detDF', 'tind'))
    lines.append(translate_dx(FACET, 'FacetBasis', 'detDG', 'find'))
    lines.append(translate_intorder())
    return '\n'.join(lines) + '\n'
