"""C02 oracle: exact rational integrals of polynomials over straight-sided meshes with integer vertex
coordinates (cells, cell subsets, facet sets), exact P1/P2 Lagrange matrices, and the mesh generators.
Everything here is exact ``Fraction`` arithmetic and independent of skfem's quadrature, mappings and shape
functions; only the mesh arrays (p, t, facets) are read."""
import itertools
import math
from fractions import Fraction
from math import factorial

import numpy as np

# ------------------------------------------------------------------------------ polynomials (dict exps -> Fraction)


def pmul(p, q):
    out = {}
    for ea, ca in p.items():
        for eb, cb in q.items():
            e = tuple(x + y for x, y in zip(ea, eb))
            out[e] = out.get(e, 0) + ca * cb
    return {e: c for e, c in out.items() if c != 0}


def padd(p, q, s=1):
    out = dict(p)
    for e, c in q.items():
        out[e] = out.get(e, 0) + s * c
    return {e: c for e, c in out.items() if c != 0}


def ppow(p, n, nvar):
    out = {tuple([0] * nvar): Fraction(1)}
    for _ in range(n):
        out = pmul(out, p)
    return out


def pderiv(p, i):
    out = {}
    for e, c in p.items():
        if e[i] > 0:
            e2 = list(e)
            e2[i] -= 1
            out[tuple(e2)] = out.get(tuple(e2), 0) + c * e[i]
    return out


def peval(p, x):
    return sum(c * math.prod(Fraction(xi) ** ei for xi, ei in zip(x, e)) for e, c in p.items())


def monomial(e):
    return {tuple(e): Fraction(1)}


def compose_affine(poly, origin, cols):
    """poly(x) with x = origin + sum_j cols[j] * xi_j  ->  polynomial in xi (len(cols) variables)"""
    m = len(cols)
    d = len(origin)
    lin = []
    for i in range(d):
        li = {tuple([0] * m): Fraction(origin[i])} if origin[i] != 0 else {}
        for j in range(m):
            if cols[j][i] != 0:
                e = [0] * m
                e[j] = 1
                li[tuple(e)] = Fraction(cols[j][i])
        lin.append(li)
    out = {}
    for e, c in poly.items():
        term = {tuple([0] * m): Fraction(c)}
        for i, ei in enumerate(e):
            if ei:
                term = pmul(term, ppow(lin[i], ei, m))
        out = padd(out, term)
    return out


def ref_simplex_integral(poly):
    """integral of a polynomial in m variables over the unit m-simplex"""
    tot = Fraction(0)
    for e, c in poly.items():
        num = 1
        for ei in e:
            num *= factorial(ei)
        tot += c * Fraction(num, factorial(sum(e) + len(e)))
    return tot


def ref_box_integral(poly):
    return sum(c / math.prod(ei + 1 for ei in e) for e, c in poly.items())


def ref_prism_integral(poly):
    tot = Fraction(0)
    for e, c in poly.items():
        a, b, k = e
        tot += c * Fraction(factorial(a) * factorial(b), factorial(a + b + 2)) / (k + 1)
    return tot


def det(mat):
    n = len(mat)
    if n == 0:
        return Fraction(1)
    if n == 1:
        return Fraction(mat[0][0])
    tot = Fraction(0)
    for perm in itertools.permutations(range(n)):
        sign = 1
        for i in range(n):
            for j in range(i + 1, n):
                if perm[i] > perm[j]:
                    sign = -sign
        pr = Fraction(sign)
        for i in range(n):
            pr *= mat[i][perm[i]]
        tot += pr
    return tot


def gram_det(cols):
    m = len(cols)
    g = [[sum(Fraction(a) * b for a, b in zip(cols[i], cols[j])) for j in range(m)] for i in range(m)]
    return det(g)


def simplex_integral(poly, verts):
    """integral over the simplex with the given vertices (m+1 points in R^d, m <= d):
    returns (rational factor r, G) with integral = r * sqrt(G); G = 1 when m = d (then r carries |det|)"""
    v0 = verts[0]
    cols = [[Fraction(v[i]) - v0[i] for i in range(len(v0))] for v in verts[1:]]
    m, d = len(cols), len(v0)
    if m == 0:
        return peval(poly, v0), Fraction(1)
    pull = compose_affine(poly, v0, cols)
    ref = ref_simplex_integral(pull)
    if m == d:
        dt = det([[cols[j][i] for j in range(m)] for i in range(d)])
        return ref * abs(dt), Fraction(1)
    return ref, gram_det(cols)


def sqrt_value(r, G):
    if G == 1:
        return float(r)
    return float(r) * math.sqrt(G.numerator) / math.sqrt(G.denominator)


# ------------------------------------------------------------------------------ cells of the supported mesh types

def cell_pieces(kind, V):
    """decomposition of a straight-sided cell with vertex list V (in the mesh's local order) used for exact
    integration: list of ('simplex', verts) / ('box', origin, cols) / ('prism', origin, cols)"""
    if kind in ('line', 'tri', 'tet'):
        return [('simplex', V)]
    if kind == 'quad':
        # local order is a closed polygon v0 v1 v2 v3
        return [('simplex', [V[0], V[1], V[2]]), ('simplex', [V[0], V[2], V[3]])]
    if kind == 'hex':
        # parallelepiped: vertex 7 is the corner opposite to vertex 0 (refdom order, see RefHex.p);
        # origin and the three edge vectors are found from the vertex set itself
        P = [tuple(v) for v in V]
        o = min(P)
        S = set(P)
        others = [p for p in P if p != o]
        for c in itertools.combinations(others, 3):
            cols = [[a - b for a, b in zip(p, o)] for p in c]
            pts = set()
            for s in itertools.product((0, 1), repeat=3):
                pts.add(tuple(o[i] + sum(s[j] * cols[j][i] for j in range(3)) for i in range(3)))
            if pts == S and det([[cols[j][i] for j in range(3)] for i in range(3)]) != 0:
                return [('box', list(o), cols)]
        raise ValueError('hexahedron is not a parallelepiped')
    if kind == 'wedge':
        # local vertices 0,1,2 bottom triangle, 3,4,5 top triangle; affine prism required
        o = V[0]
        cols = [[a - b for a, b in zip(V[1], o)], [a - b for a, b in zip(V[2], o)], [a - b for a, b in zip(V[3], o)]]
        for k, (s, t) in ((4, (1, 0)), (5, (0, 1))):
            want = [o[i] + s * cols[0][i] + t * cols[1][i] + cols[2][i] for i in range(3)]
            if list(V[k]) != want:
                raise ValueError('prism is not affine')
        return [('prism', list(o), cols)]
    raise ValueError(kind)


def piece_integral(poly, piece):
    if piece[0] == 'simplex':
        r, G = simplex_integral(poly, piece[1])
        assert G == 1
        return r
    _, o, cols = piece
    pull = compose_affine(poly, o, cols)
    dt = abs(det([[cols[j][i] for j in range(len(cols))] for i in range(len(o))]))
    return dt * (ref_box_integral(pull) if piece[0] == 'box' else ref_prism_integral(pull))


def mesh_kind(m):
    n = type(m).__name__
    for k, s in (('Line', 'line'), ('Tri', 'tri'), ('Tet', 'tet'), ('Quad', 'quad'), ('Hex', 'hex'), ('Wedge', 'wedge')):
        if k in n:
            return s
    raise ValueError(n)


def verts_of(m, cols):
    P = m.p
    return [[Fraction(float(P[i, k])) for i in range(P.shape[0])] for k in cols]


def cell_integrals(m, poly, cells=None):
    """exact integral of poly over each listed cell"""
    kind = mesh_kind(m)
    cells = range(m.t.shape[1]) if cells is None else cells
    out = []
    for c in cells:
        V = verts_of(m, m.t[:, c])
        out.append(sum(piece_integral(poly, pc) for pc in cell_pieces(kind, V)))
    return out


def facet_integral_value(m, poly, facets):
    """float value of the exact integral over a set of facets: sum of r * sqrt(G)"""
    kind = mesh_kind(m)
    tot = 0.0
    groups = {}
    for f in facets:
        V = verts_of(m, m.facets[:, f])
        if kind in ('line',):
            groups[Fraction(1)] = groups.get(Fraction(1), 0) + peval(poly, V[0])
            continue
        if kind in ('tri', 'quad', 'tet'):
            pieces = [V]
        elif kind == 'hex':
            # quadrilateral face of a parallelepiped: a parallelogram; its vertex order in m.facets is a cycle or not,
            # so split by finding the vertex opposite to V[0]
            P = [tuple(v) for v in V]
            pieces = None
            for a, b, c in itertools.permutations((1, 2, 3)):
                if tuple(P[a][i] + P[b][i] - P[0][i] for i in range(3)) == P[c]:
                    pieces = [[V[0], V[a], V[c]], [V[0], V[c], V[b]]]
                    break
            if pieces is None:
                raise ValueError('face is not a parallelogram')
        else:
            raise ValueError(kind)
        for pv in pieces:
            r, G = simplex_integral(poly, pv)
            groups[G] = groups.get(G, 0) + r
    for G, r in groups.items():
        tot += sqrt_value(r, G)
    return tot


# ------------------------------------------------------------------------------ exact Lagrange matrices on simplices

def solve(A, B):
    """A X = B over Fractions (Gauss-Jordan)"""
    n = len(A)
    M = [list(map(Fraction, A[i])) + list(map(Fraction, B[i])) for i in range(n)]
    for c in range(n):
        piv = next(r for r in range(c, n) if M[r][c] != 0)
        M[c], M[piv] = M[piv], M[c]
        pv = M[c][c]
        M[c] = [x / pv for x in M[c]]
        for r in range(n):
            if r != c and M[r][c] != 0:
                f = M[r][c]
                M[r] = [x - f * y for x, y in zip(M[r], M[c])]
    return [row[n:] for row in M]


def lagrange_nodes(V, degree):
    if degree == 1:
        return [tuple(v) for v in V]
    nodes = [tuple(v) for v in V]
    for a, b in itertools.combinations(range(len(V)), 2):
        nodes.append(tuple((x + y) / 2 for x, y in zip(V[a], V[b])))
    return nodes


def lagrange_basis(V, degree):
    """nodal Lagrange basis of the full polynomial space of the given degree on the simplex V:
    list of (node, polynomial)"""
    d = len(V[0])
    exps = [e for e in itertools.product(range(degree + 1), repeat=d) if sum(e) <= degree]
    nodes = lagrange_nodes(V, degree)
    assert len(nodes) == len(exps)
    A = [[math.prod(Fraction(x) ** ei for x, ei in zip(nd, e)) for e in exps] for nd in nodes]
    I = [[Fraction(int(i == j)) for j in range(len(nodes))] for i in range(len(nodes))]
    C = solve(A, I)         # column a = coefficients of the basis function of node a
    out = []
    for a, nd in enumerate(nodes):
        out.append((nd, {e: C[b][a] for b, e in enumerate(exps) if C[b][a] != 0}))
    return out


def exact_lagrange_matrices(m, degree, load_poly):
    """exact global mass / stiffness / load of the Lagrange element of the given degree (1 or 2), keyed by
    node location"""
    M, K, L = {}, {}, {}
    d = m.p.shape[0]
    for c in range(m.t.shape[1]):
        V = verts_of(m, m.t[:, c])
        basis = lagrange_basis(V, degree)
        for na, pa in basis:
            r, _ = simplex_integral(pmul(pa, load_poly), V)
            L[na] = L.get(na, 0) + r
            for nb, pb in basis:
                r, _ = simplex_integral(pmul(pa, pb), V)
                M[(na, nb)] = M.get((na, nb), 0) + r
                g = {}
                for i in range(d):
                    g = padd(g, pmul(pderiv(pa, i), pderiv(pb, i)))
                r, _ = simplex_integral(g, V) if g else (Fraction(0), 1)
                K[(na, nb)] = K.get((na, nb), 0) + r
    return M, K, L


# ------------------------------------------------------------------------------ meshes with integer coordinates

def _ints(rng, n, lo=0, step=(1, 3)):
    xs = [lo]
    for _ in range(n):
        xs.append(xs[-1] + rng.randint(*step))
    return np.array(xs, dtype=float)


def _linear(rng, d):
    while True:
        A = np.array([[rng.randint(-2, 2) for _ in range(d)] for _ in range(d)], dtype=float)
        if abs(round(np.linalg.det(A))) >= 1:
            return A


def make_mesh(kind, rng, general=False, size=2):
    """random straight-sided mesh with integer vertex coordinates.
    general=False: cells are affine images of the reference cell (quad -> parallelograms, hex -> parallelepipeds);
    general=True (tri/tet/quad only): vertices individually perturbed (quads stay convex)"""
    import skfem
    if kind == 'line':
        xs = _ints(rng, rng.randint(2, 5))
        m = skfem.MeshLine(xs)
        if general:     # unsorted vertex numbering
            perm = list(range(len(xs)))
            rng.shuffle(perm)
            p = np.array([xs[perm]])
            inv = np.argsort(perm)
            t = np.array([inv[:-1], inv[1:]])
            m = skfem.MeshLine(p, t)
        return m
    if kind in ('tri', 'quad'):
        cls = skfem.MeshTri if kind == 'tri' else skfem.MeshQuad
        m0 = cls.init_tensor(_ints(rng, size), _ints(rng, size))
        A = _linear(rng, 2)
        p = A @ m0.p
        if general:
            p = 4 * p + np.array([[rng.randint(-1, 1) for _ in range(p.shape[1])] for _ in range(2)])
        return cls(p, m0.t)
    if kind in ('tet', 'hex'):
        cls = skfem.MeshTet if kind == 'tet' else skfem.MeshHex
        m0 = cls.init_tensor(_ints(rng, 1), _ints(rng, 1 if (kind == 'tet' or size < 2) else 2), _ints(rng, 1 if kind == 'tet' else 2))
        A = _linear(rng, 3)
        p = A @ m0.p
        if general and kind == 'tet':
            p = 4 * p + np.array([[rng.randint(-1, 1) for _ in range(p.shape[1])] for _ in range(3)])
        return cls(p, m0.t)
    if kind == 'wedge':
        mt = skfem.MeshTri.init_tensor(_ints(rng, 1), _ints(rng, 2))
        zs = _ints(rng, 2)
        npt = mt.p.shape[1]
        p = np.vstack([np.tile(mt.p, (1, len(zs))), np.repeat(zs, npt)[None, :]])
        t = np.hstack([np.vstack([mt.t + k * npt, mt.t + (k + 1) * npt]) for k in range(len(zs) - 1)])
        A = _linear(rng, 3)
        return skfem.MeshWedge1(A @ p, t)
    raise ValueError(kind)


def is_valid(m):
    """all cells non-degenerate; general quads strictly convex"""
    kind = mesh_kind(m)
    for c in range(m.t.shape[1]):
        V = verts_of(m, m.t[:, c])
        if kind == 'quad':
            s = []
            for k in range(4):
                a, b, cc = V[k], V[(k + 1) % 4], V[(k + 2) % 4]
                s.append((b[0] - a[0]) * (cc[1] - b[1]) - (b[1] - a[1]) * (cc[0] - b[0]))
            if not (all(x > 0 for x in s) or all(x < 0 for x in s)):
                return False
        elif kind in ('line', 'tri', 'tet'):
            v0 = V[0]
            cols = [[x - y for x, y in zip(v, v0)] for v in V[1:]]
            if det([[cols[j][i] for j in range(len(cols))] for i in range(len(v0))]) == 0:
                return False
    return True
