"""C08 oracle: the property statement evaluated directly, in exact integer arithmetic, on the rule
that get_quadrature returned (no tensor structure assumed).  Used as failing-input search, as the
predictor of which Coq obligations are refuted, and (its integer sums) as correspondence data for
the Coq checker."""
from fractions import Fraction
from math import factorial

from .c08_dump import SHAPE

TOL_BITS = 45


def monos_total(d, n):
    if d == 0:
        return [()]
    return [(a,) + r for a in range(n + 1) for r in monos_total(d - 1, n - a)]


def monos(shape, n):
    """same enumeration order as Model.C08_Rules.monos"""
    out = [()]
    for d in reversed(shape):
        out = [m + o for m in monos_total(d, n) for o in out]
    return out


def n_monos(shape, n):
    from math import comb
    r = 1
    for d in shape:
        r *= comb(n + d, d)
    return r


def exact(shape, es):
    r = Fraction(1)
    k = 0
    for d in shape:
        blk = es[k:k + d]
        k += d
        num = 1
        for e in blk:
            num *= factorial(e)
        r *= Fraction(num, factorial(sum(blk) + d))
    return r


def in_cell(shape, pt):
    k = 0
    for d in shape:
        blk = pt[k:k + d]
        k += d
        if any(x < 0 for x in blk) or sum(blk) > 1:
            return False
    return True


class Powers:
    """integer power tables of the node coordinates of one rule (x = X / 2^kx)"""

    def __init__(self, nodes_int, kx, kw, nmax):
        self.kx, self.kw = kx, kw
        self.W = [w for _, w in nodes_int]
        dim = len(nodes_int[0][0])
        self.tabs = []
        for i in range(dim):
            col = [xs[i] for xs, _ in nodes_int]
            t = [[1] * len(col)]
            for _ in range(nmax):
                t.append([a * b for a, b in zip(t[-1], col)])
            self.tabs.append(t)

    def zsum(self, es):
        v = self.W
        for i, e in enumerate(es):
            if e:
                v = [a * b for a, b in zip(v, self.tabs[i][e])]
        return sum(v)

    def value(self, es):
        return Fraction(self.zsum(es), 1 << (self.kw + self.kx * sum(es)))


def deg_ok(shape, n, es):
    k = 0
    for d in shape:
        if sum(es[k:k + d]) > n:
            return False
        k += d
    return True


def evaluate(d, nodes_int, kx, kw, n, rng=None, budget=400000):
    """defects of the rule on the monomials of degree <= n (all of them when #monomials * #nodes <= budget,
    else extreme ones of every degree plus a random sample).
    returns (list of (es, zsum, defect Fraction), exhaustive, first node outside the cell or None)"""
    shape = SHAPE[d.cell]
    outside = None
    for pt, w in d.nodes:
        if not in_cell(shape, pt):
            outside = [float(x) for x in pt]
            break
    nq = len(nodes_int)
    dim = sum(shape)
    exhaustive = n_monos(shape, n) * nq <= budget
    if exhaustive:
        ms = monos(shape, n)
    else:
        ms = [tuple([0] * dim)]
        k = 0
        for dd in shape:
            for i in range(dd):
                for e in range(1, n + 1):
                    es = [0] * dim
                    es[k + i] = e
                    ms.append(tuple(es))
            k += dd
        want = max(len(ms) + 8, budget // max(nq, 1))
        tries = 0
        while len(ms) < want and tries < 20 * want and rng is not None:
            tries += 1
            es = []
            for dd in shape:
                tot = rng.randint(0, n)
                cuts = sorted(rng.randint(0, tot) for _ in range(dd - 1))
                es += [b - a for a, b in zip([0] + cuts, cuts + [tot])]
            ms.append(tuple(es))
        ms = list(dict.fromkeys(ms))
    P = Powers(nodes_int, kx, kw, n)
    out = []
    for es in ms:
        z = P.zsum(es)
        out.append((es, z, abs(Fraction(z, 1 << (kw + kx * sum(es))) - exact(shape, es))))
    return out, exhaustive, outside


def verdict(cell, n, evals, exhaustive, outside):
    """the audit of one order from the evaluated monomials of its rule"""
    shape = SHAPE[cell]
    tol = Fraction(1, 1 << TOL_BITS)
    res = {'ok': outside is None, 'worst': Fraction(0), 'worst_mono': None, 'outside': outside, 'evaluated': 0,
           'exhaustive': exhaustive, 'zsums': [], 'first_bad': None}
    for es, z, df in evals:
        if not deg_ok(shape, n, es):
            continue
        res['evaluated'] += 1
        if len(res['zsums']) < 4 or sum(es) == n:
            if len(res['zsums']) < 8:
                res['zsums'].append((list(es), z))
        if df > res['worst']:
            res['worst'], res['worst_mono'] = df, list(es)
        if df > tol and res['first_bad'] is None:
            res['first_bad'] = list(es)
            res['ok'] = False
    return res


def audit(d, nodes_int, kx, kw, n, rng=None, budget=400000):
    evals, exhaustive, outside = evaluate(d, nodes_int, kx, kw, n, rng, budget)
    return verdict(d.cell, n, evals, exhaustive, outside)
