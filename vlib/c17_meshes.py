"""C17/C18 — random small meshes of the eight supported classes with random numbering, and random tag sets
(subdomains; boundaries incl. oriented interior interfaces with random orientation flags)."""
import hashlib

import numpy as np

FIRST = ['MeshTri1', 'MeshQuad1', 'MeshTet1', 'MeshHex1']
SECOND = {'MeshTri2': 'MeshTri1', 'MeshQuad2': 'MeshQuad1', 'MeshTet2': 'MeshTet1', 'MeshHex2': 'MeshHex1'}
ALL = FIRST + list(SECOND)


def _axis(rng, n, integer):
    if integer:
        return np.cumsum(rng.integers(1, 4, size=n)).astype(float) - 2.0
    return np.sort(rng.random(n) + np.arange(n))          # strictly increasing, generic doubles


def rand_mesh1(name, rng, size=None, integer=False, renumber=True, holes=True):
    """a first-order mesh of class ``name``: tensor grid with irregular spacing, random vertex relabelling,
    random cell order, (quadrilaterals) random cyclic rotation of each cell, optionally some cells removed"""
    import skfem
    cls = getattr(skfem, name)
    dim = 2 if name in ('MeshTri1', 'MeshQuad1') else 3
    if size is None:
        size = [int(rng.integers(2, 5)) for _ in range(dim)] if dim == 2 else [int(rng.integers(2, 4)) for _ in range(dim)]
    m = cls.init_tensor(*[_axis(rng, n, integer) for n in size])
    p, t = m.p.copy(), m.t.copy()
    if holes and t.shape[1] > 3 and rng.random() < 0.4:
        keep = np.sort(rng.choice(t.shape[1], size=int(rng.integers(2, t.shape[1])), replace=False))
        t = t[:, keep]
        used = np.unique(t)
        inv = -np.ones(p.shape[1], dtype=np.int64)
        inv[used] = np.arange(len(used))
        p, t = p[:, used], inv[t]
    if renumber:
        perm = rng.permutation(p.shape[1])               # new index of old vertex v is perm[v]
        pn = np.empty_like(p)
        pn[:, perm] = p
        p, t = pn, perm[t]
        t = t[:, rng.permutation(t.shape[1])]
        if name == 'MeshQuad1':
            for k in range(t.shape[1]):
                t[:, k] = np.roll(t[:, k], int(rng.integers(0, 4)))
    return cls(p, t.astype(np.int32))


def rand_mesh(name, rng, curved=True, **kw):
    """a mesh of any of the eight classes; second-order ones get randomly displaced non-vertex nodes"""
    import skfem
    if name in FIRST:
        return rand_mesh1(name, rng, **kw)
    base = rand_mesh1(SECOND[name], rng, **kw)
    cls = getattr(skfem, name)
    m = cls.from_mesh(base)
    if curved:
        p = m.p.copy()
        nv = base.p.shape[1]
        h = 0.02
        p[:, nv:] += h * (rng.random(p[:, nv:].shape) - 0.5)
        m = cls(p, m.t)
    return m


def rand_tags(m, rng, oriented=True, empty=True):
    """(subdomains, boundaries): boundaries hold a plain subset of boundary facets, an ORIENTED set of interior
    facets with random flags, an oriented mixed set (flag 0 on boundary facets), a plain set of interior facets"""
    from skfem.generic_utils import OrientedBoundary
    nt, nf = m.t.shape[1], m.facets.shape[1]
    sub = {}
    # names that look like the prefixes of the key schemes, and one containing ':' (read back with split(':', 2))
    for nm in ('s_a', 'bulk:core')[:int(rng.integers(1, 3))]:
        k = int(rng.integers(0 if empty else 1, nt + 1))
        s = rng.choice(nt, size=k, replace=False).astype(np.int32)
        sub[nm] = s if rng.random() < 0.3 else np.sort(s)
    bf = np.nonzero(m.f2t[1] == -1)[0]
    itf = np.nonzero(m.f2t[1] != -1)[0]
    bnd = {}
    k = int(rng.integers(0 if empty else 1, len(bf) + 1))
    f = rng.choice(bf, size=k, replace=False).astype(np.int32)
    bnd['b_outer'] = f if rng.random() < 0.3 else np.sort(f)
    if len(itf):
        k = int(rng.integers(1, len(itf) + 1))
        f = np.sort(rng.choice(itf, size=k, replace=False)).astype(np.int32)
        if oriented:
            bnd['iface'] = OrientedBoundary(f, rng.integers(0, 2, size=k))
        else:
            bnd['iface'] = f
        if rng.random() < 0.5:
            k = int(rng.integers(1, len(itf) + 1))
            bnd['o_plain:int'] = np.sort(rng.choice(itf, size=k, replace=False)).astype(np.int32)
    if oriented and rng.random() < 0.7:
        k = int(rng.integers(1, nf + 1))
        f = rng.choice(nf, size=k, replace=False).astype(np.int32)
        if rng.random() < 0.6:
            f = np.sort(f)
        ori = rng.integers(0, 2, size=k)
        ori[m.f2t[1, f] == -1] = 0
        bnd['mixed'] = OrientedBoundary(f, ori)
    return sub, bnd


def tag_ori(b):
    """facet -> flag dictionary of a boundary tag (plain arrays: all flags 0)"""
    o = getattr(b, 'ori', None)
    f = np.asarray(b).astype(np.int64).tolist()
    return dict(zip(f, [0] * len(f) if o is None else np.asarray(o).astype(np.int64).tolist()))


def checksum(m, extra=()):
    h = hashlib.sha1()
    arrs = [m.p, m.t]
    for d in (m.subdomains or {}), (m.boundaries or {}):
        for k in sorted(d):
            h.update(k.encode())
            arrs.append(np.asarray(d[k]))
            if getattr(d[k], 'ori', None) is not None:
                arrs.append(np.asarray(d[k].ori))
    for a in list(arrs) + list(extra):
        a = np.ascontiguousarray(a)
        h.update(str(a.dtype).encode() + str(a.shape).encode() + a.tobytes())
    return h.hexdigest()


def mesh_json(m):
    """JSON-able description of a tagged mesh, sufficient to rebuild it (floats via hex: exact)"""
    def tag(b):
        d = {'facets': np.asarray(b).astype(int).tolist()}
        if getattr(b, 'ori', None) is not None:
            d['ori'] = np.asarray(b.ori).astype(int).tolist()
        return d
    return {'class': type(m).__name__,
            'p_hex': [[float(x).hex() for x in row] for row in m.p.tolist()],
            't': m.t.tolist(),
            'subdomains': None if m.subdomains is None else {k: np.asarray(v).astype(int).tolist() for k, v in m.subdomains.items()},
            'boundaries': None if m.boundaries is None else {k: tag(v) for k, v in m.boundaries.items()}}


def mesh_from_json(d):
    import skfem
    from skfem.generic_utils import OrientedBoundary
    cls = getattr(skfem, d['class'])
    p = np.array([[float.fromhex(x) for x in row] for row in d['p_hex']])
    m = cls(p, np.array(d['t'], dtype=np.int32))
    if d.get('subdomains'):
        m = m.with_subdomains({k: np.array(v, dtype=np.int32) for k, v in d['subdomains'].items()})
    if d.get('boundaries'):
        m = m.with_boundaries({k: (OrientedBoundary(np.array(v['facets'], dtype=np.int32), np.array(v['ori']))
                                   if 'ori' in v else np.array(v['facets'], dtype=np.int32))
                               for k, v in d['boundaries'].items()})
    return m
