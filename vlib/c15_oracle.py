"""C15 — correspondence of the real caches / closures with the automaton, and the failing-input search.

Everything here runs the REAL implementation (PYTHONPATH = the tree under test).

correspond():  access histories on single long-lived objects; for every call the harness determines, by object
               identity, which earlier call produced the value that was handed back (its *origin*).  The automaton of
               Base.C15_Memo over the keys regenerated from the source must predict every origin (hits, misses and —
               on a defective tree — stale returns).  For the solver closures a spy backend records the options that
               actually arrive; the closure model must predict them.
search():      (a) two-step witness search per cache over adversarial argument pools (equal count / equal bytes /
               equal content, other identity): the second call is compared with a fresh object's result;
               (b) random operation sequences (length <= 12) over a shared pool of real mesh / element / mapping /
               basis / system / solver objects; each result is compared with the same operation on a freshly built,
               equal pool; (c) checksums of every ndarray reachable from the operands before / after each operation.
"""
import hashlib
import itertools
import json
import warnings
from unittest import mock

import numpy as np
from scipy.sparse import identity as sp_identity

from .core import clist, cnat, cz

warnings.filterwarnings('ignore')
import logging  # noqa: E402
logging.getLogger('skfem').setLevel(logging.ERROR)

# ============================================================================ encoders

GRID = 64          # point coordinates are k/64: exactly representable, code = k


def enc_farr(X):
    vals = [int(round(float(v) * GRID)) for v in np.asarray(X).ravel()]
    assert all(abs(v / GRID - float(w)) == 0 for v, w in zip(vals, np.asarray(X).ravel()))
    return f'(mkfarr {clist([cnat(s) for s in X.shape])} {clist([cz(v) for v in vals])})'


DTYPES = ['<i4', '<i8', '<f8', '<f4', '|b1', '<u4', '<u8', '<i2']


def enc_arr(a):
    a = np.asarray(a)
    return (f'(mkarr {clist([cnat(s) for s in a.shape])} {cnat(DTYPES.index(a.dtype.str))} '
            f'{clist([cnat(b) for b in a.tobytes()])})')


def enc_jargs(i, j, X, tind):
    return f'(mkj {cnat(i)} {cnat(j)} {enc_arr(X)} {"None" if tind is None else "(Some " + enc_arr(tind) + ")"})'


def jsonable(x):
    if isinstance(x, np.ndarray):
        return {'dtype': x.dtype.str, 'shape': list(x.shape), 'data': x.ravel().tolist()}
    if isinstance(x, (list, tuple)):
        return [jsonable(y) for y in x]
    if isinstance(x, dict):
        return {str(k): jsonable(v) for k, v in x.items()}
    if isinstance(x, (np.integer,)):
        return int(x)
    if isinstance(x, (np.floating,)):
        return float(x)
    return x


def unjson_arr(d):
    return np.array(d['data'], dtype=np.dtype(d['dtype'])).reshape(d['shape'])


# ============================================================================ adversarial argument pools

def point_sets(rng, dim, trailing=False):
    """reference point arrays of shape (dim, n) (or (dim, n, 1)): several of EQUAL size and different content,
    equal content in different objects, different sizes"""
    out = []
    for n in (1, 1, 2, 2, 3):
        X = np.array([[rng.randrange(1, GRID // 2) / GRID for _ in range(n)] for _ in range(dim)])
        out.append(X)
    out.append(out[0].copy())
    out.append(out[2].copy())
    if trailing:
        out += [x[:, :, None].copy() for x in out[:4]]
    return out


def index_sets(nt):
    """element index arrays: dtypes int32 / int64, pairs with IDENTICAL BYTES and different shape/dtype
    (int64 [a, b] vs int32 [a, 0, b, 0]), equal content in distinct objects, None"""
    out = [None]
    a, b = 0, min(1, nt - 1)
    out.append(np.array([a, b], dtype=np.int64))
    out.append(np.array([a, 0, b, 0], dtype=np.int32))
    out.append(np.array([a, b], dtype=np.int32))
    out.append(np.array([b], dtype=np.int64))
    out.append(np.array([b, 0], dtype=np.int32))
    out.append(np.arange(nt, dtype=np.int32))
    out.append(np.arange(nt, dtype=np.int64))
    return out


# ============================================================================ correspondence: cache origins

def _origins_by_identity(ids):
    """ids[k] = identity of the value handed back by call k -> index of the first call that handed back that object"""
    first, out = {}, []
    for k, i in enumerate(ids):
        first.setdefault(i, k)
        out.append(first[i])
    return out


def hist_pointcache(rng, which, n):
    """one element object, n calls of lbasis at point sets of an adversarial pool"""
    import skfem
    p = rng.choice([2, 3, 4])
    if which == 'linepp':
        el, dim = skfem.ElementLinePp(p), 1
        nb = p + 1
    else:
        el, dim = skfem.ElementQuadP(p), 2
        nb = (p + 1) ** 2
    pool = point_sets(rng, dim, trailing=True)
    hist, keep, ids, vals = [], [], [], []
    tabs = ('P',) if which == 'linepp' else ('Px', 'Py')
    for _ in range(n):
        X = rng.choice(pool)
        i = rng.randrange(nb)
        r = el.lbasis(X, i)
        tab = tuple(getattr(el, t) for t in tabs)
        keep.append(tab)                      # keep alive: identities stay unique
        ids.append(tuple(id(t) for t in tab))
        hist.append(X)
        vals.append((i, np.array(r[0], copy=True)))
    return {'p': p, 'hist': hist, 'origins': _origins_by_identity(ids), 'vals': vals}


def hist_global(rng, n):
    import skfem
    meshes = [skfem.MeshTri().refined(1), skfem.MeshTri().refined(1), skfem.MeshTri.init_sqsymmetric()]
    el = skfem.ElementTriMorley()
    X = np.array([[0.25, 0.5], [0.25, 0.125]])
    hist, keep, ids = [], [], []
    for _ in range(n):
        k = rng.randrange(len(meshes))
        m = meshes[k]
        el.gbasis(m._mapping(), X, rng.randrange(6), tind=np.array([0, 1]))
        keep.append(el.V)
        ids.append(id(el.V))
        hist.append(k)
    return {'hist': hist, 'origins': _origins_by_identity(ids)}


def hist_J(rng, n):
    import skfem
    m = skfem.MeshQuad().refined(1)
    mp = skfem.MappingIsoparametric(m, skfem.ElementQuad1(), skfem.ElementLineP1())
    Xs = point_sets(rng, 2)
    tinds = index_sets(m.t.shape[1])
    hist, keep, ids = [], [], []
    for _ in range(n):
        i, j = rng.randrange(2), rng.randrange(2)
        X, tind = rng.choice(Xs), rng.choice(tinds)
        r = mp.J(i, j, X, tind)
        keep.append(r)
        ids.append(id(r))
        hist.append((i, j, X, tind))
    return {'hist': hist, 'origins': _origins_by_identity(ids)}


def hist_lazy(rng, rows, n):
    """accesses to lazily initialised attributes of a few long-lived objects"""
    import skfem
    m1, m2 = skfem.MeshTet().refined(1), skfem.MeshTri().refined(1)
    objs = {
        'Mesh': [m1, m2], 'MeshTri1': [m2], 'MeshTet1': [m1],
        'MappingAffine': [skfem.MappingAffine(m1), skfem.MappingAffine(m2)],
        'AbstractBasis': [skfem.Basis(m2, skfem.ElementTriP2())],
        'CellBasis': [skfem.Basis(m2, skfem.ElementTriP1()), skfem.Basis(m1, skfem.ElementTetP1())],
        'FacetBasis': [skfem.FacetBasis(m2, skfem.ElementTriP1())],
    }
    cb = skfem.Basis(m2, skfem.ElementTriP1(), intorder=4)
    from skfem.assembly.basis.composite_basis import CompositeBasis
    objs['CompositeBasis'] = [CompositeBasis(cb, skfem.Basis(m2, skfem.ElementTriP2(), intorder=4))]
    sites = []
    for r in rows:
        for k, o in enumerate(objs.get(r['class'], [])):
            if r['class'] == 'Mesh' and r['function'] in ('edges', 't2e', 'f2e') and o.dim() < 3:
                continue
            sites.append((r, k, o))
    owners = {}
    hist, keep, ids = [], [], []
    for _ in range(n):
        r, k, o = rng.choice(sites)
        acc = getattr(o, r['function'])
        if callable(acc) and not isinstance(acc, np.ndarray):
            acc = acc()
        v = getattr(o, r['returns'])
        keep.append(v)
        ids.append(id(v))
        oid = owners.setdefault(id(o), len(owners))
        hist.append((oid, r['returns']))
    return {'hist': hist, 'origins': _origins_by_identity(ids)}


# ============================================================================ correspondence: solver closures

OPT_CODES = {'callback': 0, 'M': 1, 'atol': 2, 'maxiter': 3, 'k': 4, 'sigma': 5, 'which': 6, 'maxiters': 7, 'tol': 8,
             'use_umfpack': 9, 'permc_spec': 10, 'mode': 11, 'ncv': 12, 'rtol': 13}
VAL_CODES = {'normal': 501, 'LM': 502, 'SM': 503, 'NATURAL': 504, 'COLAMD': 505, True: 1, False: 0}


def _valcode(k, v):
    if k == 'callback':
        return -1
    if k == 'M' and hasattr(v, 'shape'):
        return 100 + int(v.shape[0])          # the default diagonal preconditioner of an n x n matrix
    if isinstance(v, (str, bool)):
        return VAL_CODES[v]
    if isinstance(v, float):
        return int(round(v * 1000))
    return int(v)


def code_dict(d):
    """option dict as comparable data (callables / matrices replaced by their codes)"""
    return [(k, _valcode(k, v)) for k, v in d.items()]


def enc_dict(d):
    return clist([f'({cnat(OPT_CODES[k])}, {cz(_valcode(k, v))})' for k, v in d.items()])


class _FakeA:
    """matrix stand-in for solver_iter_cg: counts products; the loop length reveals the effective 'maxiters'"""

    def __init__(self, n):
        self.n, self.shape, self.calls = n, (n, n), 0

    def dot(self, x):
        self.calls += 1
        return np.arange(1, self.n + 1) * x


def closure_history(name, fkw, calls):
    """run a history of calls on ONE closure of solver factory ``name`` with a spy backend.
    returns (initial captured dict, [effective option dict per call])"""
    import scipy.sparse as sp
    import skfem.utils as U
    seen = []

    def spy(A, b, **kw):
        seen.append(dict(kw))
        return (np.zeros(A.shape[0]), 0) if name == 'solver_iter_krylov' else np.zeros(A.shape[0])

    def spy_eig(K, M=None, **kw):
        seen.append(dict(kw))
        return np.zeros(1), np.zeros((K.shape[0], 1))
    if name == 'solver_iter_krylov':
        s = U.solver_iter_krylov(krylov=spy, **fkw)
    else:
        s = getattr(U, name)(**fkw)
    cap0 = None
    for c in (s.__closure__ or ()):
        if isinstance(c.cell_contents, dict):
            cap0 = dict(c.cell_contents)
    out = []
    for stk, n in calls:
        A = sp.identity(n, format='csr') * 2.0
        b = np.ones(n)
        if name == 'solver_direct_scipy':
            with mock.patch.object(U.spl, 'spsolve', spy):
                s(A, b, **stk)
            out.append(seen[-1])
        elif name == 'solver_iter_krylov':
            s(A, b, **stk)
            out.append(seen[-1])
        elif name in ('solver_eigen_scipy', 'solver_eigen_scipy_sym'):
            import scipy.sparse.linalg as spl
            with mock.patch.object(spl, 'eigs' if name == 'solver_eigen_scipy' else 'eigsh', spy_eig):
                s(A, A, **stk)
            out.append(seen[-1])
        else:   # solver_iter_cg: no backend; effective maxiters = number of loop iterations when tol can never be met
            fa = _FakeA(n)
            s(fa, np.ones(n), **stk)
            out.append({'maxiters': fa.calls - 1, 'tol': -1.0})
    return cap0, out


def random_closure_case(rng, name):
    if name == 'solver_iter_krylov':
        fkw = rng.choice([{}, {'atol': 0.001}, {'maxiter': 7}])
        opts = [{}, {'atol': 0.002}, {'maxiter': 9}, {'atol': 0.004, 'maxiter': 3}, {'M': 77}]
    elif name == 'solver_direct_scipy':
        fkw = rng.choice([{}, {'use_umfpack': False}])
        opts = [{}, {'permc_spec': 'NATURAL'}, {'use_umfpack': True}, {'permc_spec': 'COLAMD'}]
    elif name == 'solver_iter_cg':
        fkw = {'maxiters': rng.choice([2, 3]), 'tol': -1.0}
        opts = [{}, {'maxiters': 4}, {'maxiters': 5}, {}]
    else:
        fkw = rng.choice([{}, {'k': 2}, {'sigma': 3}])
        opts = [{}, {'k': 3}, {'which': 'LM'}, {'sigma': 4, 'k': 1}, {'ncv': 9}]
    calls = [(dict(rng.choice(opts)), rng.choice([3, 4, 5])) for _ in range(rng.randrange(2, 7))]
    return fkw, calls



# ============================================================================ batched correspondence (Ctx.corr, compiled in one go)

class CorrBatch:
    """collects several correspondences and evaluates all their cases files with one parallel coqc round
    (same file format, parsing and bookkeeping as core.Ctx.corr)"""

    def __init__(self, ctx):
        self.ctx, self.jobs = ctx, []

    def add(self, name, imports, fname, eqb, cases, nontrivial=None, defs='', per_file=400):
        self.jobs.append((name, imports, fname, eqb, cases, nontrivial, defs, per_file))

    def run(self, timeout=300):
        import re
        ctx = self.ctx
        files = []
        for name, imports, fname, eqb, cases, nontrivial, defs, per_file in self.jobs:
            for k in range(0, len(cases), per_file):
                chunk = cases[k:k + per_file]
                body = ';\n  '.join(f'({i}, {o})' for i, o, _ in chunk)
                txt = (f'{imports}\nRequire Import Base.Corr.\nImport ListNotations.\n{defs}\n'
                       f'Definition cases := [\n  {body}\n].\n'
                       f'Definition res := corr_check {eqb} {fname} cases.\n'
                       f'Eval vm_compute in res.\n')
                rel = f'chk/cases_{name}_{k // per_file}.v'
                ctx.write(rel, txt)
                files.append((name, rel, k, len(chunk)))
        res = ctx.coqc_many([f for _, f, _, _ in files], timeout, jobs=4)
        for name, imports, fname, eqb, cases, nontrivial, defs, per_file in self.jobs:
            bad, broke = [], False
            for nm, rel, k, n in files:
                if nm != name:
                    continue
                okc, out, err, secs = res[rel]
                m = re.search(r'=\s*\(\s*(\d+)(?:%nat)?\s*,\s*\[([^\]]*)\]\s*\)', out.replace('\n', ' '))
                if not okc or not m:
                    broke = True
                    ctx.broken.append({'kind': 'correspondence', 'name': f'{name}:{rel}', 'detail': (err or out)[-1500:]})
                    continue
                if int(m.group(1)) != n:
                    broke = True
                    ctx.broken.append({'kind': 'correspondence', 'name': f'{name}:{rel}',
                                       'detail': f'evaluated {m.group(1)} cases, expected {n}'})
                bad += [k + int(x.strip().replace('%nat', '')) for x in m.group(2).split(';') if x.strip()]
            ctx.cov['traces_validated_against_impl'] += len(cases) - len(bad)
            ctx.cov['evaluations'] += len(cases)
            for i, o, r in cases:
                if nontrivial is None or nontrivial(r):
                    ctx._distinct.add(hashlib.sha1((name + i + o).encode()).hexdigest())
            ctx.log(f'correspondence {name}: {len(cases)} cases, {len(bad)} disagree' + (' (BROKEN evaluation)' if broke else ''))
            if bad:
                ctx.broken.append({'kind': 'correspondence', 'name': name,
                                   'detail': f'{len(bad)} of {len(cases)} cases disagree; first: {cases[bad[0]][2]!r}'})


# ============================================================================ correspond()

def correspond(ctx, facts):
    """run the real histories (no Coq needed) and return the correspondence jobs: (required generated files, CorrBatch.add args)"""
    rng = ctx.rng
    jobs = []

    class _Collect:
        def __init__(self):
            self.req = []

        def add(self, *a, **kw):
            jobs.append((list(self.req), a, kw))
    batch = _Collect()
    imp = ('Require Import Base.C15_Memo Model.C15_Caches.\nFrom Coq Require Import List Arith ZArith Bool.\n')
    nh = ctx.n(30, 150)
    L = lambda: rng.randrange(2, 13)      # noqa: E731

    def nontriv(origins):
        return len(origins) >= 2

    # ---- point-array caches
    for which, gen in (('linepp', 'C15GenLinePp'), ('quadp', 'C15GenQuadP')):
        if gen not in facts:
            continue
        batch.req = [f'gen/{gen}.v']
        cases = []
        for _ in range(nh):
            h = hist_pointcache(rng, which, L())
            # harness consistency: the value handed back is the fresh value at the ORIGIN's points
            import skfem
            for k, (i, v) in enumerate(h['vals']):
                Xo = h['hist'][h['origins'][k]]
                cls = skfem.ElementLinePp if which == 'linepp' else skfem.ElementQuadP
                ref = cls(h['p']).lbasis(Xo, i)[0]
                if ref.shape != v.shape or not np.array_equal(ref, v):
                    ctx.broke('correspondence', f'{which}:harness-origin', 'value handed back is not the origin call\'s value')
            cases.append((clist([enc_farr(X) for X in h['hist']]), clist([cnat(o) for o in h['origins']]),
                          (which, h['p'], [X.shape for X in h['hist']], h['origins'])))
            ctx.hist('history_length', len(h['hist']))
        ctx.sample({'kind': f'{which} history', 'point_array_shapes': [list(s) for s in cases[0][2][2]],
                    'origin_of_each_returned_table(impl)': cases[0][2][3]})
        batch.add(f'origins_{which}', imp + f'Require Import Gen.{gen}.',
                 f'(origins (fun X => [gen_{which}_key X]) (fun ia => drop_all ia))', 'nats_eqb', cases, nontrivial=lambda r: nontriv(r[3]))
    # ---- ElementGlobal.V
    if 'C15GenGlobal' in facts:
        batch.req = ['gen/C15GenGlobal.v']
        cases = []
        for _ in range(ctx.n(20, 80)):
            h = hist_global(rng, L())
            cases.append((clist([cnat(k) for k in h['hist']]), clist([cnat(o) for o in h['origins']]), ('global', h['hist'], h['origins'])))
        ctx.sample({'kind': 'ElementGlobal history', 'mesh_ids': cases[0][2][1], 'origin_of_V(impl)': cases[0][2][2]})
        batch.add('origins_global', imp + 'Require Import Gen.C15GenGlobal.',
                 '(origins (fun m => [gen_global_key m]) (fun ia => drop_all ia))', 'nats_eqb', cases, nontrivial=lambda r: nontriv(r[2]))
    # ---- J cache
    if 'C15GenJ' in facts:
        batch.req = ['gen/C15GenHash.v', 'gen/C15GenJ.v']
        cases = []
        for _ in range(nh):
            h = hist_J(rng, L())
            cases.append((clist([enc_jargs(*a) for a in h['hist']]), clist([cnat(o) for o in h['origins']]),
                          ('J', [(a[0], a[1], a[2].shape, None if a[3] is None else (a[3].dtype.str, a[3].tolist())) for a in h['hist']],
                           h['origins'])))
        ctx.sample({'kind': 'J history', 'args(i,j,X.shape,tind)': repr(cases[0][2][1]), 'origin_of_each_returned_array(impl)': cases[0][2][2]})
        batch.add('origins_J', imp + 'Require Import Gen.C15GenHash Gen.C15GenJ.',
                 '(origins gen_J_key (fun ia => keep_all ia))', 'nats_eqb', cases, nontrivial=lambda r: nontriv(r[2]))
    # ---- lazily initialised attributes: key = (object, attribute), nothing else
    if 'C15GenLazy' in facts:
        batch.req = []
        rows = facts['C15GenLazy']['rows']
        names = {}
        cases = []
        for _ in range(ctx.n(20, 80)):
            h = hist_lazy(rng, rows, L())
            cases.append((clist([f'({cnat(o)}, {cnat(names.setdefault(a, len(names)))})' for o, a in h['hist']]),
                          clist([cnat(o) for o in h['origins']]), ('lazy', h['hist'], h['origins'])))
        ctx.sample({'kind': 'lazy attribute history', '(object, attribute)': cases[0][2][1], 'origin(impl)': cases[0][2][2]})
        batch.add('origins_lazy', imp,
                 '(origins (fun oa : nat * nat => [[KId (fst oa); KNat (snd oa)]]) (fun ia => keep_all ia))', 'nats_eqb', cases,
                 nontrivial=lambda r: nontriv(r[2]))
    # ---- solver closures
    from . import c15_translate as T
    for name in T.SOLVERS:
        short = name[len('solver_'):]
        if f'solver_{short}' not in facts:
            continue
        batch.req = [f'gen/C15GenSolver_{short}.v']
        cases = []
        for _ in range(ctx.n(12, 60)):
            fkw, calls = random_closure_case(rng, name)
            cap0, eff = closure_history(name, fkw, calls)
            if name == 'solver_iter_cg':
                cap0 = dict(fkw)
            inp = f'({enc_dict(cap0)}, {clist(["(" + enc_dict(s) + ", " + cnat(n) + ")" for s, n in calls])})'
            cases.append((inp, clist([enc_dict(e) for e in eff]), (name, fkw, calls, eff)))
        ctx.sample({'kind': f'{name} closure history', 'factory_kwargs': cases[0][2][1], 'calls(kwargs,n)': repr(cases[0][2][2]),
                    'options_at_backend(impl)': repr(cases[0][2][3])}, limit=9)
        batch.add(f'closure_{short}', imp + f'Require Import Gen.C15GenSolver_{short}.',
                 f'(fun ch : dict * list (dict * nat) => run_closure (fun A => Z.of_nat (100 + A)) gen_prog_{short} (fst ch) (snd ch))',
                 '(list_eqb dict_eqb)', cases, nontrivial=lambda r: len(r[2]) >= 2)
    return jobs


def run_correspondence(ctx, jobs, ok):
    batch = CorrBatch(ctx)
    for req, a, kw in jobs:
        if all(ok.get(r) for r in req):
            batch.add(*a, **kw)
    batch.run()


# ============================================================================ two-step witnesses per site

def _eqarr(a, b):
    a, b = np.asarray(a), np.asarray(b)
    return a.shape == b.shape and a.dtype == b.dtype and np.array_equal(a, b, equal_nan=a.dtype.kind == 'f')


def witness_pointcache(ctx, which):
    """first call at X1, second at X2: the second must equal a fresh element's value at X2"""
    import skfem
    cls, dim = (skfem.ElementLinePp, 1) if which == 'linepp' else (skfem.ElementQuadP, 2)
    rng = ctx.rng
    found = None
    pool = point_sets(rng, dim, trailing=True)
    # in-place change of the caller's array between two calls is included (a stored alias instead of a copy)
    for p in (2, 3):
        for X1, X2 in itertools.permutations(pool, 2):
            el = cls(p)
            i = p
            el.lbasis(X1, i)
            got = np.array(el.lbasis(X2, i)[0], copy=True)
            exp = cls(p).lbasis(X2, i)[0]
            ctx.count((which, 'two-step', p, X1.tobytes(), X1.shape, X2.tobytes(), X2.shape), nontrivial=True)
            if not _eqarr(got, exp) and found is None:
                found = {'p': p, 'X1': jsonable(X1), 'X2': jsonable(X2), 'i': i, 'got': jsonable(got), 'expected': jsonable(exp)}
        X = pool[2].copy()
        el = cls(p)
        el.lbasis(X, 0)
        X[0, 0] = 0.75
        got = np.array(el.lbasis(X, 0)[0], copy=True)
        exp = cls(p).lbasis(X, 0)[0]
        ctx.count((which, 'in-place', p), nontrivial=True)
        if not _eqarr(got, exp):
            ctx.fail(f'cache:{cls.__name__}:points-changed-in-place-not-noticed',
                     f'{cls.__name__}.lbasis returns the table of the old content after the caller changed the point array in place',
                     {'site': which, 'p': p, 'X': jsonable(X)})
    return found


def witness_global(ctx):
    import skfem
    found = None
    X = np.array([[0.25, 0.5], [0.25, 0.125]])
    for ecls in (skfem.ElementTriMorley, skfem.ElementTriArgyris):
        ms = [skfem.MeshTri().refined(1), skfem.MeshTri.init_sqsymmetric(), skfem.MeshTri().refined(1).scaled(2.0)]
        for a, b in itertools.permutations(range(3), 2):
            el = ecls()
            tind = np.array([0, 1])
            el.gbasis(ms[a]._mapping(), X, 1, tind=tind)
            try:
                got = el.gbasis(ms[b]._mapping(), X, 1, tind=tind)[0].value
                exc = None
            except Exception as e:      # a stale V of the wrong size also raises
                got, exc = None, repr(e)
            exp = ecls().gbasis(ms[b]._mapping(), X, 1, tind=tind)[0].value
            ctx.count(('global', ecls.__name__, a, b), nontrivial=True)
            if (got is None or not np.allclose(got, exp, rtol=1e-12, atol=1e-12)) and found is None:
                found = {'element': ecls.__name__, 'first_mesh': a, 'second_mesh': b,
                         'meshes': ['MeshTri().refined(1)', 'MeshTri.init_sqsymmetric()', 'MeshTri().refined(1).scaled(2.0)'],
                         'got': None if got is None else jsonable(got), 'raised': exc, 'expected': jsonable(exp)}
    return found


def witness_J(ctx):
    """search key collisions of the REAL hash_args over a pool of arrays, then replay them on a real mapping"""
    import skfem
    from skfem.generic_utils import hash_args
    found = None
    m = skfem.MeshQuad().refined(1)
    tinds = [t for t in index_sets(m.t.shape[1]) if t is not None]
    X = np.array([[0.25, 0.5], [0.25, 0.75]])
    groups = {}
    for t in tinds:
        groups.setdefault(hash_args(t), []).append(t)
    for grp in groups.values():
        for t1, t2 in itertools.permutations(grp, 2):
            if _eqarr(t1, t2):
                continue
            mp = skfem.MappingIsoparametric(m, skfem.ElementQuad1(), skfem.ElementLineP1())
            mp.detDF(X, tind=t1)
            got = mp.detDF(X, tind=t2)
            exp = skfem.MappingIsoparametric(m, skfem.ElementQuad1(), skfem.ElementLineP1()).detDF(X, tind=t2)
            ctx.count(('J', t1.dtype.str, t1.tolist(), t2.dtype.str, t2.tolist()), nontrivial=True)
            if not _eqarr(got, exp) and found is None:
                found = {'mesh': 'MeshQuad().refined(1)', 'X': jsonable(X), 'tind1': jsonable(t1), 'tind2': jsonable(t2),
                         'got_shape': list(got.shape), 'expected_shape': list(exp.shape)}
    # and the same for the point argument
    Xs = [np.array([[0.25, 0.5], [0.25, 0.75]]), np.array([[0.25, 0.5, 0.25, 0.75]]).reshape(2, 2, 1),
          np.array([[0.25], [0.5], [0.25], [0.75]]).reshape(2, 2)]
    for X1, X2 in itertools.permutations(Xs, 2):
        if hash_args(X1) == hash_args(X2) and not _eqarr(X1, X2):
            ctx.count(('J-X', X1.shape, X2.shape), nontrivial=True)
    return found


def witness_closure(ctx, name):
    """call 1 with some solve-time kwargs, call 2 without: the options at the backend must be those of a fresh closure"""
    found = None
    rng = ctx.rng
    for _ in range(6):
        fkw, calls = random_closure_case(rng, name)
        _, eff = closure_history(name, fkw, calls)
        for k, (stk, n) in enumerate(calls):
            _, fresh = closure_history(name, fkw, [(stk, n)])
            ctx.count(('closure', name, repr(fkw), repr(calls[:k + 1])), nontrivial=k >= 1)
            if code_dict(eff[k]) != code_dict(fresh[0]) and found is None:
                # shrink to two steps
                for j in range(k):
                    _, e2 = closure_history(name, fkw, [calls[j], calls[k]])
                    if code_dict(e2[1]) != code_dict(fresh[0]):
                        found = {'factory': name, 'factory_kwargs': fkw, 'calls': [list(calls[j]), list(calls[k])],
                                 'options_at_backend_second_call': code_dict(e2[1]), 'fresh_closure_would_pass': code_dict(fresh[0])}
                        break
    return found


# ============================================================================ operand monitor

def reach(obj, path, out, seen, depth=0, dicts=None):
    """every ndarray reachable from obj (by identity), with a path name"""
    import scipy.sparse as sp
    if obj is None or depth > 7 or id(obj) in seen:
        return
    if isinstance(obj, (int, float, str, bool, complex, bytes, type)):
        return
    seen.add(id(obj))
    if isinstance(obj, np.ndarray):
        out.append((path, obj))
        ori = getattr(obj, 'ori', None)
        if isinstance(ori, np.ndarray):
            out.append((path + '.ori', ori))
        if obj.base is not None and isinstance(obj.base, np.ndarray):
            reach(obj.base, path + '.base', out, seen, depth + 1, dicts)
        return
    if sp.issparse(obj):
        for a in ('data', 'indices', 'indptr', 'row', 'col'):
            if hasattr(obj, a):
                reach(getattr(obj, a), f'{path}.{a}', out, seen, depth + 1, dicts)
        return
    if isinstance(obj, dict):
        if dicts is not None and obj and all(isinstance(k, str) for k in obj):
            dicts.append((path, obj))          # tag dictionaries / keyword dictionaries: their key sets are operand state too
        for k, v in obj.items():
            reach(v, f'{path}[{k!r}]', out, seen, depth + 1, dicts)
        return
    if isinstance(obj, (list, tuple)):
        for k, v in enumerate(obj):
            reach(v, f'{path}[{k}]', out, seen, depth + 1, dicts)
        return
    mod = type(obj).__module__ or ''
    if mod.startswith('skfem') and hasattr(obj, '__dict__'):
        for k, v in vars(obj).items():
            reach(v, f'{path}.{k}', out, seen, depth + 1, dicts)
        return
    if callable(obj) and getattr(obj, '__closure__', None):
        for k, c in enumerate(obj.__closure__):
            try:
                reach(c.cell_contents, f'{path}.<closure {k}>', out, seen, depth + 1, dicts)
            except ValueError:
                pass


def _digest(a):
    return hashlib.sha1(np.ascontiguousarray(a).view(np.uint8).tobytes() if a.dtype != object else repr(a.tolist()).encode()).hexdigest() \
        + str(a.shape) + a.dtype.str


def _dict_state(d):
    """names and per-name content of a tag / keyword dictionary: sorted keys, identity of each mapped object, checksum of arrays
    (with the orientation of an OrientedBoundary)"""
    out = []
    for k in sorted(d):
        v = d[k]
        if isinstance(v, np.ndarray):
            ori = getattr(v, 'ori', None)
            out.append((k, id(v), _digest(np.asarray(v)), None if ori is None else _digest(np.asarray(ori))))
        else:
            out.append((k, id(v), None, None))
    return tuple(out)


class Monitor:
    def __init__(self):
        self.items = []
        self.dicts = []

    def watch(self, obj, label):
        out, dicts = [], []
        reach(obj, label, out, set(), 0, dicts)
        for path, a in out:
            self.items.append((path, a, _digest(a)))
        for path, d in dicts:
            self.dicts.append((path, d, _dict_state(d)))
        return obj

    def changed(self):
        ch = [path for path, a, d in self.items if _digest(a) != d]
        for path, d, st in self.dicts:
            now = _dict_state(d)
            if now != st:
                old_keys, new_keys = [x[0] for x in st], [x[0] for x in now]
                ch.append(f'{path}: names {old_keys} -> {new_keys}' if old_keys != new_keys else f'{path}: entries re-bound or changed')
        return ch


# ============================================================================ the object pool and its operations

MESH_SPECS = {
    'tri': {'cls': 'MeshTri', 'ctor': 'init_tensor', 'args': [[0., 1., 3.], [0., 2., 3.]]},
    'tri_b': {'cls': 'MeshTri', 'ctor': 'init_tensor', 'args': [[0., 2., 3.], [0., 1., 3.]]},     # same sizes, other geometry
    'tri_c': {'cls': 'MeshTri', 'ctor': 'init_tensor', 'args': [[0., 1., 2., 4.], [0., 1.]]},
    'quad': {'cls': 'MeshQuad', 'ctor': 'init_tensor', 'args': [[0., 1., 3.], [0., 2., 3.]]},
    'quad_b': {'cls': 'MeshQuad', 'ctor': 'init_tensor', 'args': [[0., 2., 3.], [0., 1., 3.]]},
    'tet': {'cls': 'MeshTet', 'ctor': 'init_tensor', 'args': [[0., 1., 2.], [0., 2.], [0., 1.]]},
    'line': {'cls': 'MeshLine', 'ctor': None, 'args': [[0., 1., 3., 4.]]},
    'line_b': {'cls': 'MeshLine', 'ctor': None, 'args': [[0., 2., 3., 4.]]},
    'tri2': {'cls': 'MeshTri2', 'ctor': 'init_circle', 'args': [1]},
    'hex': {'cls': 'MeshHex', 'ctor': 'init_tensor', 'args': [[0., 1., 2.], [0., 2.], [0., 1.]]},
    # quadratic classes, built from the linear meshes above (isoparametric mapping of degree 2)
    'quad2': {'cls': 'MeshQuad2', 'ctor': 'from_mesh', 'base': 'quad'},
    'tet2': {'cls': 'MeshTet2', 'ctor': 'from_mesh', 'base': 'tet'},
    'hex2': {'cls': 'MeshHex2', 'ctor': 'from_mesh', 'base': 'hex'},
    'tri2_b': {'cls': 'MeshTri2', 'ctor': 'from_mesh', 'base': 'tri_b'},
    # the library's default meshes, refined (triangles whose longest edge is not in a fixed local position)
    'tri_r': {'cls': 'MeshTri', 'ctor': 'default_refined', 'args': [1]},
    'tri_s': {'cls': 'MeshTri', 'ctor': 'init_sqsymmetric', 'args': []},
    'tet_r': {'cls': 'MeshTet', 'ctor': 'default_refined', 'args': [1]},
}
ELEM_SPECS = {
    'tri': ['ElementTriP1', 'ElementTriP2', 'ElementTriMorley', 'ElementTriArgyris', 'ElementVector:ElementTriP1', 'ElementTriRT1'],
    'quad': ['ElementQuad1', 'ElementQuad2', 'ElementQuadP:2', 'ElementQuadP:3'],
    'tet': ['ElementTetP1', 'ElementTetP2'],
    'line': ['ElementLineP1', 'ElementLinePp:3', 'ElementLinePp:2', 'ElementLineHermite'],
    'tri2': ['ElementTriP2', 'ElementTriP1'],
    'hex': ['ElementHex1'],
    'quad2': ['ElementQuad2', 'ElementQuad1'],
    'tet2': ['ElementTetP2', 'ElementTetP1'],
    'hex2': ['ElementHex2', 'ElementHex1'],
}
FAMILY = {'tri': 'tri', 'tri_b': 'tri', 'tri_c': 'tri', 'quad': 'quad', 'quad_b': 'quad', 'tet': 'tet', 'line': 'line',
          'line_b': 'line', 'tri2': 'tri2', 'hex': 'hex', 'quad2': 'quad2', 'tet2': 'tet2', 'hex2': 'hex2', 'tri2_b': 'tri2',
          'tri_r': 'tri', 'tri_s': 'tri', 'tet_r': 'tet'}
SOLVER_SPECS = {
    'krylov': ('solver_iter_krylov', {}),
    'direct': ('solver_direct_scipy', {}),
    'cg': ('solver_iter_cg', {'maxiters': 40}),
    'eigsym': ('solver_eigen_scipy_sym', {}),
    'pcg': ('solver_iter_pcg', {}),
    'eig': ('solver_eigen_scipy', {}),
}


class Pool:
    """long-lived objects, built on first use and then reused by every later operation"""

    def __init__(self):
        self.objs = {}

    def mesh(self, name):
        import skfem
        if ('m', name) not in self.objs:
            s = MESH_SPECS[name]
            cls = getattr(skfem, s['cls'])
            if s['ctor'] == 'default_refined':
                m = cls().refined(*s['args'])
            elif s['ctor'] == 'init_sqsymmetric':
                m = cls.init_sqsymmetric()
            elif s['ctor'] == 'from_mesh':
                b = MESH_SPECS[s['base']]
                m = cls.from_mesh(getattr(getattr(skfem, b['cls']), b['ctor'])(*[np.array(a) for a in b['args']]))
            elif s['ctor'] is None:
                m = cls(np.array(s['args'][0]))
            elif s['ctor'] == 'init_circle':
                m = cls.init_circle(*s['args'])
            else:
                m = getattr(cls, s['ctor'])(*[np.array(a) for a in s['args']])
            self.objs[('m', name)] = m
        return self.objs[('m', name)]

    def tagged(self, name):
        """a long-lived mesh that already carries named boundaries and subdomains"""
        if ('mt', name) not in self.objs:
            m = self.mesh(name)
            lo, mid = float(m.p[0].min()), float(m.p[0].mean())
            self.objs[('mt', name)] = m.with_boundaries({'low': lambda x: x[0] == lo, 'gamma': lambda x: x[0] < mid}) \
                .with_subdomains({'a': lambda x: x[0] < mid})
        return self.objs[('mt', name)]

    def elem(self, name):
        """ONE element object per name, shared by all meshes of the pool"""
        import skfem
        if ('e', name) not in self.objs:
            parts = name.split(':')
            if parts[0] == 'ElementVector':
                e = skfem.ElementVector(getattr(skfem, parts[1])())
            elif len(parts) == 2:
                e = getattr(skfem, parts[0])(int(parts[1]))
            else:
                e = getattr(skfem, parts[0])()
            self.objs[('e', name)] = e
        return self.objs[('e', name)]

    def basis(self, mname, ename):
        import skfem
        k = ('b', mname, ename)
        if k not in self.objs:
            self.objs[k] = skfem.Basis(self.mesh(mname), self.elem(ename))
        return self.objs[k]

    def fbasis(self, mname, ename):
        import skfem
        k = ('fb', mname, ename)
        if k not in self.objs:
            self.objs[k] = skfem.FacetBasis(self.mesh(mname), self.elem(ename))
        return self.objs[k]

    def system(self, mname, ename):
        """(A, b, D, x) assembled once and reused"""
        import skfem
        from skfem.helpers import dot
        k = ('s', mname, ename)
        if k not in self.objs:
            bs = self.basis(mname, ename)
            vec = ename.startswith('ElementVector') or ename == 'ElementTriRT1'

            @skfem.BilinearForm
            def a(u, v, w):
                return dot(u, v) * (1.0 + w.x[0]) if vec else u * v * (1.0 + w.x[0])

            @skfem.LinearForm
            def f(v, w):
                return (v[0] if vec else v) * (1.0 + w.x[0])
            A = a.assemble(bs)
            b = f.assemble(bs)
            D = np.arange(2)
            self.objs[k] = (A, b, D, np.linspace(0.0, 1.0, bs.N))
        return self.objs[k]

    def solver(self, name):
        import skfem.utils as U
        k = ('sol', name)
        if k not in self.objs:
            fac, kw = SOLVER_SPECS[name]
            self.objs[k] = getattr(U, fac)(**kw)
        return self.objs[k]


def make_pool_elem(name):
    import skfem
    parts = name.split(':')
    if len(parts) == 2:
        return getattr(skfem, parts[0])(int(parts[1]))
    return getattr(skfem, parts[0])()


API_HOWS_MESH = ['with_defaults', 'satisfying', 'facets_around', 'incidence', 'is_valid', 'matmul', 'copy', 'trace', 'remove_nodes',
                 'normalize', 'mapping', 'init_refdom']
API_HOWS_BASIS = ['with_element', 'with_elements', 'boundary', 'facet_trace', 'refinterp', 'project', 'dofs', 'zeros_ones', 'composite_ops',
                  'interior_facets', 'utils']
API_COVERAGE = [
    ('Mesh: refined / scaled / translated / mirrored / morphed / smoothed / with_boundaries / with_subdomains / restrict / remove_elements / '
     '__add__ / to_dict / from_dict / save / load / save_npz / load_npz / oriented / from_mesh / constructors', True, True, 'pool histories + witnesses'),
    ('Mesh.with_defaults, nodes_satisfying / facets_satisfying (boundaries_only, normal) / elements_satisfying, facets_around (flip), '
     'p2f / p2t / p2e / e2t, boundary_edges, interior_nodes, is_valid, __matmul__, copy, trace, remove_unused_nodes, remove_duplicate_nodes, '
     'normalize_nodes / normalize_facets / normalize_elements, mapping(), init_refdom', False, True,
     "pool operation 'api' (operands checksummed, result == fresh pool, also after other operations on the same objects)"),
    ('CellBasis.with_element / with_elements / boundary / refinterp / project, FacetBasis.trace / with_element / project, '
     'AbstractBasis.get_dofs / complement_dofs / zeros / ones / zero_w / __matmul__ / __mul__, CompositeBasis.interpolate / X / W (get_dofs raises NotImplementedError), '
     'InteriorFacetBasis', False, True, "pool operation 'api' on long-lived bases"),
    ('utils.rcm, build_pc_ilu (as M of solver_iter_krylov), adaptive_theta, projection / project (deprecated wrappers)', False, True,
     "pool operation 'api' how=utils: operands unchanged, result == fresh"),
    ('MeshTri1.init_symmetric / init_lshaped / init_circle, MeshTet1/MeshTet2.init_ball, MeshDG.periodic / init_tensor (MeshQuad1DG, MeshLine1DG), Mesh.smoothed (fixed_nodes)', False, True,
     'constructed inside the api operation and assembled on; source mesh of periodic() checksummed'),
    ('Mesh.draw / plot, AbstractBasis.plot / plot3 / draw, MeshDG.draw / save / load', False, False, 'out of scope: visualisation; MeshDG.save/load raise NotImplementedError'),
    ('Mesh.param / params', False, False, 'out of scope: pure functions of p, t without state (C18)'),
]


def do_api(pool, d, mon):
    """public call forms around the core: every one returns new objects, must leave its operands unchanged and give the same
    result as on a fresh pool"""
    import skfem
    import skfem.utils as U
    how = d['how']
    m = mon.watch(pool.mesh(d['mesh']), 'mesh')
    dim = m.dim()
    lo, mid = float(m.p[0].min()), float(m.p[0].mean())
    if how == 'with_defaults':
        r = m.with_defaults()
        return canon([r, {k_: int(len(v)) for k_, v in (r.boundaries or {}).items()}])
    if how == 'satisfying':
        out = [m.nodes_satisfying(lambda x: x[0] <= mid), m.nodes_satisfying(lambda x: x[0] <= mid, boundaries_only=True),
               m.facets_satisfying(lambda x: x[0] <= mid), m.facets_satisfying(lambda x: x[0] <= mid, boundaries_only=True),
               m.elements_satisfying(lambda x: x[0] <= mid)]
        if dim >= 2:
            out.append(m.facets_satisfying(lambda x: x[0] <= mid, normal=np.array([1.0] + [0.0] * (dim - 1))))
        return canon(out)
    if how == 'facets_around':
        els = mon.watch(np.arange(max(1, m.t.shape[1] // 2)), 'elements')
        a, b = m.facets_around(els), m.facets_around(els, flip=True)
        return canon([a, b])
    if how == 'incidence':
        out = [m.p2f, m.p2t, m.interior_nodes()]
        if dim == 3:
            out += [m.p2e, m.e2t, m.boundary_edges(), m.interior_edges()]
        return canon(out)
    if how == 'is_valid':
        return canon([bool(m.is_valid())])
    if how == 'matmul':
        other = mon.watch(m.translated(tuple([float(m.p[0].max() - lo) + 1.0] + [0.0] * (dim - 1))), 'other')
        return canon([m @ other, m + other])
    if how == 'copy':
        return canon(m.copy())
    if how == 'trace':
        mt = mon.watch(pool.tagged(d['mesh']), 'tagged_mesh')
        if dim == 1:
            return canon(None)
        r = mt.trace('low')
        return canon([x_ for x_ in (r if isinstance(r, tuple) else (r,))])
    if how == 'remove_nodes':
        dup = m + m.translated(tuple([0.0] * dim))            # every node twice ... joined again by __add__
        r1 = dup.remove_unused_nodes()
        r2 = m.remove_duplicate_nodes() if hasattr(m, 'remove_duplicate_nodes') else None
        return canon([r1, r2])
    if how == 'normalize':
        mt = mon.watch(pool.tagged(d['mesh']), 'tagged_mesh')
        ar = mon.watch(np.array([1, 0]), 'index_array')
        return canon([mt.normalize_facets('low'), mt.normalize_facets(ar), mt.normalize_facets(('low', 'gamma')),
                      mt.normalize_elements('a'), mt.normalize_elements(ar), mt.normalize_nodes(ar), mt.normalize_nodes(lambda x: x[0] <= mid)])
    if how == 'mapping':
        X = mon.watch(_ref_points(FAMILY[d['mesh']], 1), 'X')
        return canon([m.mapping().F(X), m.mapping().detDF(X)])
    if how == 'init_refdom':
        out = [type(m).init_refdom()]
        if isinstance(m, skfem.MeshTri1):
            out += [skfem.MeshTri.init_symmetric(), skfem.MeshTri.init_lshaped(), skfem.MeshTri.init_circle(1)]
        if isinstance(m, skfem.MeshTet1):
            out += [skfem.MeshTet.init_ball(1), skfem.MeshTet2.init_ball(1)]
        if isinstance(m, (skfem.MeshTri1, skfem.MeshTet1)):
            out += [m.smoothed(), m.smoothed(fixed_nodes=m.boundary_nodes())]
        if isinstance(m, skfem.MeshQuad1):
            out += [skfem.MeshQuad1DG.init_tensor(np.linspace(0, 1, 3), np.linspace(0, 1, 3), periodic=[0])]
        return canon(out)
    # ---- basis level
    e = pool.elem(d['elem'])
    bs = mon.watch(pool.basis(d['mesh'], d['elem']), 'basis')
    y = mon.watch(np.cos(0.4 * np.arange(bs.N)), 'y')

    @skfem.BilinearForm
    def a(u, v, w):
        return u * v * (1.0 + w.x[0])
    if how == 'with_element':
        e2 = make_pool_elem(d['elem2'])
        return canon([a.assemble(bs.with_element(e2)), a.assemble(pool.fbasis(d['mesh'], d['elem']).with_element(e2))])
    if how == 'with_elements':
        sub = mon.watch(np.arange(max(1, m.t.shape[1] // 2)), 'elements')
        r = bs.with_elements(sub)
        return canon([a.assemble(r), r.element_dofs])
    if how == 'boundary':
        fb = bs.boundary()
        fb2 = bs.boundary(facets=m.boundary_facets()[:2], intorder=3)
        return canon([a.assemble(fb), a.assemble(fb2)])
    if how == 'facet_trace':
        if dim == 1:
            return canon(None)
        fb = skfem.FacetBasis(m, e, facets=m.facets_satisfying(lambda x: x[0] == lo, boundaries_only=True))
        tb, ty = fb.trace(y, lambda p: p[1:] if dim == 3 else p[1])
        return canon([ty, tb.N])
    if how == 'refinterp':
        M, w = bs.refinterp(y, nrefs=1)
        return canon([M, w])
    if how == 'project':
        fb = pool.fbasis(d['mesh'], d['elem'])
        return canon([bs.project(lambda x: 1.0 + x[0]), bs.project(bs.interpolate(y)), bs.project(lambda x: x[0], elements=np.array([0])),
                      fb.project(lambda x: 1.0 + x[0])])
    if how == 'dofs':
        D = bs.get_dofs()
        D2 = bs.get_dofs(lambda x: x[0] == lo)
        D3 = bs.get_dofs(elements=np.array([0]))
        return canon([D.all(), D2.all(), D3.all(), bs.complement_dofs(D), bs.nodal_dofs, bs.facet_dofs, bs.interior_dofs]
                     + ([bs.edge_dofs] if dim == 3 else []))
    if how == 'zeros_ones':
        return canon([bs.zeros(), bs.ones(), bs.zero_w(), bs.zeros(dtype=np.complex128)])
    if how == 'composite_ops':
        b2 = skfem.Basis(m, make_pool_elem(d['elem2']), quadrature=(bs.X, bs.W))
        c1, c2 = bs * b2, bs @ skfem.Basis(m, e, quadrature=(bs.X, bs.W))
        yy = np.cos(0.2 * np.arange(c1.N))
        f1 = c1.interpolate(yy)
        f2 = c2.interpolate(np.cos(0.2 * np.arange(c2.N)))
        return canon([[np.asarray(f_.value) for f_ in f1], [np.asarray(f_.value) for f_ in f2], c1.X, c1.W, c2.N, c2.element_dofs])
    if how == 'interior_facets':
        ib = skfem.InteriorFacetBasis(m, e, side=0)
        ib1 = skfem.InteriorFacetBasis(m, e, side=1)
        return canon([a.assemble(ib), a.assemble(ib1)])
    if how == 'utils':
        A, b, D, x = pool.system(d['mesh'], d['elem'])
        key = ('cs', d['mesh'], d['elem'])
        if key not in pool.objs:
            pool.objs[key] = U.condense(A, b, x=x, D=D, expand=False)
        Kc, fc = pool.objs[key]
        mon.watch(Kc, 'A'); mon.watch(fc, 'b')
        est = mon.watch(np.cos(np.arange(m.t.shape[1])) ** 2, 'estimators')
        out = [list(U.rcm(Kc, fc)), U.adaptive_theta(est), U.adaptive_theta(est, theta=0.8)]
        pc = U.build_pc_ilu(Kc)
        out.append(U.solver_iter_krylov(M=pc, atol=1e-14)(Kc, fc))
        out.append(U.project(lambda x: 1.0 + x[0], basis_to=bs))
        out.append(U.projection(lambda x: 1.0 + x[0], basis_to=bs))
        return canon(out)
    if how == 'periodic':
        if isinstance(m, skfem.MeshQuad1) and not isinstance(m, skfem.MeshQuad2):
            left = m.nodes_satisfying(lambda x: x[0] == lo)
            right = m.nodes_satisfying(lambda x: x[0] == float(m.p[0].max()))
            mp = skfem.MeshQuad1DG.periodic(m, left, right)
            return canon([a.assemble(skfem.Basis(mp, skfem.ElementQuad1())), mp.p, mp.t])
        if isinstance(m, skfem.MeshLine1):
            mp = skfem.MeshLine1DG.periodic(m, [int(np.argmin(m.p[0]))], [int(np.argmax(m.p[0]))])
            return canon([a.assemble(skfem.Basis(mp, skfem.ElementLineP1())), mp.p, mp.t])
        return canon(None)
    raise KeyError(how)


def canon(x):
    """results as nested tuples of (dtype, shape, bytes) so that equality is bit-equality"""
    import scipy.sparse as sp
    import skfem
    if x is None or isinstance(x, (bool, int, str)):
        return x
    if isinstance(x, float):
        return ('f', x)
    if isinstance(x, np.ndarray):
        a = np.ascontiguousarray(x)
        ori = getattr(x, 'ori', None)
        return ('a', a.dtype.str, a.shape, a.tobytes(), None if ori is None else canon(np.asarray(ori)))
    if isinstance(x, (np.integer,)):
        return int(x)
    if isinstance(x, (np.floating,)):
        return ('f', float(x))
    if sp.issparse(x):
        c = sp.csr_matrix(x)
        c.sum_duplicates()
        c.sort_indices()
        return ('sp', c.shape, canon(c.data), canon(c.indices), canon(c.indptr))
    if isinstance(x, skfem.Mesh):
        return ('mesh', type(x).__name__, canon(x.p), canon(x.t), canon(x.boundaries), canon(x.subdomains))
    if isinstance(x, dict):
        return ('d',) + tuple((k, canon(v)) for k, v in sorted(x.items(), key=lambda kv: str(kv[0])))
    if isinstance(x, (list, tuple)):
        return ('t',) + tuple(canon(v) for v in x)
    raise TypeError(type(x))


def maxdiff(c1, c2):
    """None if structure differs; else max |difference| over float arrays (inf if an integer array differs)"""
    if type(c1) is not type(c2):
        return None
    if isinstance(c1, tuple):
        if len(c1) != len(c2):
            return None
        if c1 and c1[0] == 'a' and len(c1) == 5 and isinstance(c1[3], bytes):
            if c1[1] != c2[1] or c1[2] != c2[2]:
                return None
            if c1[3] == c2[3]:
                d = 0.0
            else:
                a = np.frombuffer(c1[3], dtype=np.dtype(c1[1]))
                b = np.frombuffer(c2[3], dtype=np.dtype(c2[1]))
                if a.dtype.kind in 'fc':
                    both_nan = np.isnan(a) & np.isnan(b)
                    d = float(np.max(np.where(both_nan, 0.0, np.abs(a - b)) / (1.0 + np.abs(np.where(both_nan, 0.0, b))))) if a.size else 0.0
                    if np.isnan(d):
                        d = float('inf')
                else:
                    d = float('inf')
            o = maxdiff(c1[4], c2[4])
            return None if o is None else max(d, o)
        m = 0.0
        for u, v in zip(c1, c2):
            d = maxdiff(u, v)
            if d is None:
                return None
            m = max(m, d)
        return m
    if c1 == c2:
        return 0.0
    return float('inf')


TOL = 1e-13


def _ref_points(fam, which):
    """small reference point arrays per family; several of equal size and different content"""
    dim = {'tri': 2, 'quad': 2, 'tet': 3, 'line': 1, 'tri2': 2, 'hex': 3, 'quad2': 2, 'tet2': 3, 'hex2': 3}[fam]
    base = [[0.125, 0.25], [0.25, 0.125], [0.5], [0.25], [0.125, 0.25, 0.5], [0.25, 0.5, 0.125]][which % 6]
    return np.array([[(c * (1 + r)) % 1.0 * (0.9 / dim) + 0.03125 for c in base] for r in range(dim)])


def _phys_points(m, which):
    """query points inside the mesh (cell centroids shifted towards a vertex): sets of equal size, different content"""
    nt = m.t.shape[1]
    sel = [[0], [nt - 1], [0, 1], [1, 0], [nt - 1, 0], [0, nt // 2, nt - 1], [nt - 1, 1, 0]][which % 7]
    sel = [s % nt for s in sel]
    p = m.p[:, m.t[:m.refdom.nnodes, sel]]
    w = np.arange(1, p.shape[1] + 1, dtype=float)
    w = w / w.sum()
    return np.einsum('ijk,j->ik', p, w)


def do_op(pool, d, mon):
    """perform one operation described by the JSON-able dict d on the pool; returns the canonical result"""
    import skfem
    import skfem.utils as U
    k = d['op']
    fam = FAMILY.get(d.get('mesh', ''), None)
    if k == 'conn':
        m = mon.watch(pool.mesh(d['mesh']), 'mesh')
        out = [m.facets, m.t2f, m.f2t, m.boundary_facets(), m.boundary_nodes()]
        if m.dim() == 3:
            out += [m.edges, m.t2e, m.f2e]
        return canon(out)
    if k == 'asm':
        A, b, D, x = pool.system(d['mesh'], d['elem'])
        bs = mon.watch(pool.basis(d['mesh'], d['elem']), 'basis')
        from skfem.helpers import dot
        vec = d['elem'].startswith('ElementVector') or d['elem'] == 'ElementTriRT1'

        @skfem.BilinearForm
        def a(u, v, w):
            return dot(u, v) * (2.0 + w.x[0]) if vec else u * v * (2.0 + w.x[0]) + u * v * w.h
        return canon(a.assemble(bs))
    if k == 'asm_facet':
        fb = mon.watch(pool.fbasis(d['mesh'], d['elem']), 'facet_basis')
        from skfem.helpers import dot
        vec = d['elem'].startswith('ElementVector') or d['elem'] == 'ElementTriRT1'

        @skfem.BilinearForm
        def a(u, v, w):
            return dot(u, v) * (1.0 + w.x[0] * w.n[0]) if vec else u * v * (1.0 + w.x[0] * w.n[0]) * w.h

        @skfem.Functional
        def fn(w):
            return w.x[0] * w.n[0]
        return canon([a.assemble(fb), fn.assemble(fb)])
    if k == 'linear':
        bs = mon.watch(pool.basis(d['mesh'], d['elem']), 'basis')
        vec = d['elem'].startswith('ElementVector') or d['elem'] == 'ElementTriRT1'
        y = mon.watch(np.cos(np.arange(bs.N) * 0.3), 'y')

        @skfem.LinearForm
        def f(v, w):
            return (v[0] if vec else v) * (1.0 + w.x[0]) + 0.0 * w['prev'].value.sum(axis=0) if vec else v * (1.0 + w.x[0]) * w['prev']

        @skfem.Functional
        def fn(w):
            return (w['prev'].value[0] if vec else w['prev']) * w.x[0]
        return canon([f.assemble(bs, prev=y), fn.assemble(bs, prev=bs.interpolate(y)), fn.elemental(bs, prev=y)])
    if k == 'interp':
        bs = mon.watch(pool.basis(d['mesh'], d['elem']), 'basis')
        y = mon.watch(np.cos(np.arange(bs.N) * 0.7 + d.get('seed', 0)), 'y')
        f = bs.interpolate(y)
        return canon([f.value] + ([f.grad] if f.grad is not None else []))
    if k in ('probes', 'interpolator', 'point_source'):
        bs = mon.watch(pool.basis(d['mesh'], d['elem']), 'basis')
        x = mon.watch(_phys_points(bs.mesh, d['pts']), 'x')
        if k == 'probes':
            return canon(bs.probes(x))
        if k == 'point_source':
            return canon(bs.point_source(x[:, 0]))
        y = mon.watch(np.cos(np.arange(bs.N) * 0.7), 'y')
        return canon(bs.interpolator(y)(x))
    if k == 'map':
        m = mon.watch(pool.mesh(d['mesh']), 'mesh')
        mp = m._mapping()
        X = mon.watch(_ref_points(fam, d['pts']), 'X')
        ti = index_sets(m.t.shape[1])[d['tind'] % 8]
        ti = mon.watch(ti, 'tind')
        return canon([mp.F(X, tind=ti), mp.detDF(X, tind=ti), mp.invDF(X, tind=ti)])
    if k == 'gbasis':
        m = mon.watch(pool.mesh(d['mesh']), 'mesh')
        e = pool.elem(d['elem'])
        X = mon.watch(_ref_points(fam, d['pts']), 'X')
        ti = mon.watch(np.array([0, m.t.shape[1] - 1]), 'tind')
        i = d['i'] % max(1, len(e.doflocs) if hasattr(e, 'doflocs') and e.doflocs is not None else 1)
        f = e.gbasis(m._mapping(), X, i, tind=ti)[0]
        return canon([a for a in f if a is not None])
    if k == 'lbasis':
        e = pool.elem(d['elem'])
        X = mon.watch(_ref_points(fam, d['pts']), 'X')
        i = d['i'] % len(e.doflocs)
        r = e.lbasis(X, i)
        return canon([np.array(a) for a in r])
    if k == 'api':
        return do_api(pool, d, mon)
    if k == 'retag':
        # tagging a mesh that ALREADY carries tags: same names (redefinition in the NEW mesh only) and new names
        mt = mon.watch(pool.tagged(d['mesh']), 'tagged_mesh')
        hi = float(mt.p[0].max())
        if d['how'] == 'boundaries-same':
            r = mt.with_boundaries({'gamma': lambda x: x[0] > -1e9})
        elif d['how'] == 'boundaries-new':
            r = mt.with_boundaries({'high': lambda x: x[0] == hi})
        elif d['how'] == 'subdomains-same':
            r = mt.with_subdomains({'a': lambda x: x[0] > -1e9})
        elif d['how'] == 'subdomains-new':
            r = mt.with_subdomains({'b': lambda x: x[0] > -1e9})
        elif d['how'] == 'refined':
            r = mt.refined() if d['mesh'] not in ('tet', 'hex') else mt.scaled(2.0)
        else:
            raise KeyError(d['how'])
        # the operand itself is part of the result: it must still be what a freshly tagged mesh is
        return canon([r, mt, {nm: int(len(v)) for nm, v in (mt.boundaries or {}).items()}])
    if k == 'transform_use':
        # transform a mesh that may have been USED before (lazy tables, mapping, KD-tree attached), then use the RESULT:
        # nothing of the operand's geometry may survive in the new mesh
        m = mon.watch(pool.mesh(d['mesh']), 'mesh')
        how = d['how']
        dim = m.dim()
        if how == 'translated':
            r = m.translated(tuple([3.0] + [1.0] * (dim - 1)))
        elif how == 'scaled':
            r = m.scaled(2.0)
        elif how == 'mirrored':
            r = m.mirrored(tuple([1.0] + [0.0] * (dim - 1)))
        elif how == 'morphed':
            r = m.morphed(*[(lambda pp, i=i: 1.5 * pp[i] + 0.125 * pp[(i + 1) % dim] + 2.0) for i in range(dim)])
        elif how == 'with_boundaries':
            r = m.with_boundaries({'low': lambda x: x[0] == 0.0})
        elif how == 'with_subdomains':
            r = m.with_subdomains({'a': lambda x: x[0] < 1.5})
        else:
            raise KeyError(how)
        e = make_pool_elem(d['elem'])
        bs = skfem.Basis(r, e)

        @skfem.LinearForm
        def f(v, w):
            return v * (1.0 + w.x[0] + 2.0 * w.x[dim - 1])
        out = [r, f.assemble(bs), bs.doflocs, r._mapping().F(_ref_points(fam, 0)), r.facets, r.boundary_nodes()]
        if fam not in ('tri2', 'quad2', 'tet2', 'hex2'):
            c0 = np.array([0, r.t.shape[1] - 1])
            xq = r.p[:, r.t[:, c0]].mean(axis=1) + 1e-3
            out.append(np.asarray(r.element_finder()(*xq)))
            out.append(bs.probes(xq))
        return canon(out)
    if k == 'transform':
        m = mon.watch(pool.mesh(d['mesh']), 'mesh')
        how = d['how']
        if how == 'refined':
            r = m.refined()
        elif how == 'scaled':
            r = m.scaled(2.0)
        elif how == 'translated':
            r = m.translated(tuple([1.0] * m.dim()))
        elif how == 'with_boundaries':
            r = m.with_boundaries({'low': lambda x: x[0] == 0.0, 'all': lambda x: x[0] > -1.0})
        elif how == 'with_subdomains':
            r = m.with_subdomains({'a': lambda x: x[0] < 1.5})
        elif how == 'restrict':
            r = m.restrict(np.arange(max(1, m.t.shape[1] // 2)))
        elif how == 'with_both_refined':
            r = m.with_boundaries({'low': lambda x: x[0] == 0.0}).with_subdomains({'a': lambda x: x[0] < 1.5}).refined()
        elif how == 'morphed':
            d = m.dim()
            r = m.morphed(*[(lambda pp, i=i: pp[i] + 0.125 * pp[(i + 1) % d]) for i in range(d)])
        elif how == 'mirrored':
            r = m.mirrored(tuple([1.0] + [0.0] * (m.dim() - 1)))
        elif how == 'smoothed':
            r = m.smoothed()
        elif how == 'adaptive':
            r = m.refined(np.array([0, m.t.shape[1] - 1]))
        elif how == 'join':
            r = m + m.translated(tuple([float(m.p[0].max() - m.p[0].min())] + [0.0] * (m.dim() - 1)))
        elif how == 'remove_elements':
            r = m.remove_elements(np.array([0]))
        elif how == 'to_dict':
            r = m.to_dict()
            return canon({k: (np.asarray(v) if isinstance(v, list) else v) for k, v in r.items() if not isinstance(v, dict)})
        else:
            raise KeyError(how)
        return canon(r)
    if k == 'io':
        import json
        import os
        import tempfile
        m = mon.watch(pool.mesh(d['mesh']), 'mesh')
        how = d['how']
        mt = m.with_boundaries({'low': lambda x: x[0] == m.p[0].min()}).with_subdomains({'a': lambda x: x[0] < m.p[0].mean()})
        mon.watch(mt, 'tagged_mesh')
        cls = type(mt)
        if how == 'dict':
            data = mon.watch(mt.to_dict(), 'from_dict_argument')          # a caller-owned dictionary
            r = cls.from_dict(data)
        elif how == 'json':
            data = mon.watch(json.loads(json.dumps(mt.to_dict())), 'from_dict_argument')
            r = cls.from_dict(data)
        elif how == 'meshio':
            from skfem.io.meshio import from_meshio, to_meshio
            pd = mon.watch({'u': np.arange(mt.p.shape[1], dtype=float)}, 'point_data')      # caller-owned dictionaries
            cd = mon.watch({'c': [np.arange(mt.t.shape[1], dtype=float)]}, 'cell_data')
            mio = to_meshio(mt, point_data=pd, cell_data=cd)
            r = from_meshio(mio)
            return canon([r, mt, sorted(mio.point_data), sorted(mio.cell_data)])
        else:
            with tempfile.TemporaryDirectory(prefix='grpI_c15_') as td:
                if how == 'npz':
                    fn = os.path.join(td, 'm.npz')
                    mt.save_npz(fn)
                    r = cls.load_npz(fn)
                else:
                    fn = os.path.join(td, 'm.' + how)
                    mt.save(fn)
                    r = cls.load(fn)
        return canon([r, mt])
    if k == 'composite':
        from skfem.assembly.basis.composite_basis import CompositeBasis
        from skfem.helpers import grad, dot
        key = ('cb', d['mesh'], d['elem'], d['elem2'])
        if key not in pool.objs:
            b1 = pool.basis(d['mesh'], d['elem'])
            b2 = skfem.Basis(pool.mesh(d['mesh']), pool.elem(d['elem2']), quadrature=(b1.X, b1.W))
            pool.objs[key] = CompositeBasis(b1, b2)
        cb = mon.watch(pool.objs[key], 'composite_basis')

        @skfem.BilinearForm
        def a(u, p, v, q, w):
            return dot(grad(u), grad(v)) + p * q * (1.0 + w.x[0]) + u * q + p * v
        A = a.assemble(cb)
        y = np.cos(np.arange(cb.N) * 0.2)
        parts = cb.split(y)
        return canon([A, cb.element_dofs, [np.asarray(pp[0]) for pp in parts]])
    if k == 'mpc':
        A, b, D, x = pool.system(d['mesh'], d['elem'])
        mon.watch(A, 'A'); mon.watch(b, 'b')
        n = A.shape[0]
        M = mon.watch(np.array([0, 1]), 'M')
        S = mon.watch(np.array([n - 1, n - 2]), 'S')
        T = mon.watch((0.5 * sp_identity(2)).tocsr(), 'T')
        g = mon.watch(np.array([0.25, -0.5]), 'g')
        out = U.mpc(A, b, S=S, M=M, T=T, g=g)
        sol = U.solve(*out)
        return canon([list(out[:2]), sol])
    if k == 'bc':
        A, b, D, x = pool.system(d['mesh'], d['elem'])
        mon.watch(A, 'A'); mon.watch(b, 'b'); mon.watch(D, 'D'); mon.watch(x, 'x')
        if d['how'] == 'condense':
            return canon(list(U.condense(A, b, x=x, D=D)))
        if d['how'] == 'enforce':
            return canon(list(U.enforce(A, b, x=x, D=D)))
        return canon(list(U.penalize(A, b, x=x, D=D)))
    if k == 'solve_direct':
        # the solver closure called directly on long-lived, caller-owned operands (as after condense), twice
        A, b, D, x = pool.system(d['mesh'], d['elem'])
        key = ('cs', d['mesh'], d['elem'])
        if key not in pool.objs:
            pool.objs[key] = U.condense(A, b, x=x, D=D, expand=False)
        Kc, fc = pool.objs[key]
        mon.watch(Kc, 'A'); mon.watch(fc, 'b')
        s = pool.solver(d['solver'])
        kw = dict(d.get('kwargs', {}))
        r1 = s(Kc, fc, **kw)
        r2 = s(Kc, fc, **kw)
        return canon([r1, r2, fc])
    if k == 'solve':
        A, b, D, x = pool.system(d['mesh'], d['elem'])
        mon.watch(A, 'A'); mon.watch(b, 'b'); mon.watch(D, 'D'); mon.watch(x, 'x')
        kw = dict(d.get('kwargs', {}))
        sname = d.get('solver')
        if sname == 'eigsym':
            I = np.setdiff1d(np.arange(A.shape[0]), D)
            kw['v0'] = np.ones(len(I))
            s = pool.solver(sname)
            lam, vecs = U.solve(*U.condense(A, A.T @ A + A, D=D, expand=False), solver=s, **kw)
            return canon([np.sort(np.round(lam, 8))])
        if sname is None:
            return canon(U.solve(*U.condense(A, b, x=x, D=D)))
        s = pool.solver(sname)
        return canon(U.solve(*U.condense(A, b, x=x, D=D), solver=s, **kw))
    raise KeyError(k)


GLOBAL_ELEMS = ('ElementTriMorley', 'ElementTriArgyris', 'ElementLineHermite')
SCALAR_H1 = ('ElementTriP1', 'ElementTriP2', 'ElementQuad1', 'ElementQuad2', 'ElementTetP1', 'ElementTetP2', 'ElementLineP1',
             'ElementLinePp:3', 'ElementLinePp:2', 'ElementHex1', 'ElementHex2', 'ElementQuadP:2', 'ElementQuadP:3')


def random_subpool(rng):
    """a small set of objects to be shared by one history: one cell family, two meshes of it (same sizes, other
    geometry where available), two elements, so that objects ARE reused within <= 12 operations"""
    fam = rng.choice(['tri', 'tri', 'tri', 'quad', 'quad', 'line', 'line', 'tet', 'tet', 'tri2', 'hex', 'quad2', 'tet2', 'hex2'])
    ms = [m for m, f in FAMILY.items() if f == fam]
    meshes = rng.sample(ms, min(2, len(ms)))
    elems = rng.sample(ELEM_SPECS[fam], min(2, len(ELEM_SPECS[fam])))
    return fam, meshes, elems


def random_op(rng, sub=None):
    fam, meshes, elems = sub if sub is not None else random_subpool(rng)
    mname, ename = rng.choice(meshes), rng.choice(elems)
    glob = ename in GLOBAL_ELEMS
    kinds = ['conn', 'asm', 'asm', 'interp', 'map', 'map', 'gbasis', 'gbasis', 'linear']
    if not glob and fam not in ('tri2',):
        kinds += ['asm_facet']
    if fam not in ('tri2', 'quad2', 'tet2', 'hex2') and not glob and ename != 'ElementTriRT1':
        kinds += ['probes', 'interpolator', 'interpolator', 'point_source', 'point_source']
    if not glob and not ename.startswith('ElementVector'):
        kinds += ['lbasis', 'lbasis']
    if fam not in ('tri2', 'quad2', 'tet2', 'hex2'):
        kinds += ['transform', 'transform', 'io', 'retag', 'retag']
    if ename in SCALAR_H1:
        kinds += ['transform_use', 'transform_use']
    if fam in ('tri', 'quad', 'tet', 'hex', 'line') and ename in SCALAR_H1:
        kinds += ['api', 'api', 'api']
    if ename in SCALAR_H1 and len([e for e in elems if e in SCALAR_H1]) >= 2:
        kinds += ['composite']
    if ename in SCALAR_H1:
        kinds += ['mpc']
    if ename in SCALAR_H1:
        kinds += ['bc', 'solve', 'solve', 'solve', 'solve_direct']
    k = rng.choice(kinds)
    if k == 'conn':
        return {'op': 'conn', 'mesh': mname}
    if k in ('asm', 'asm_facet', 'linear'):
        return {'op': k, 'mesh': mname, 'elem': ename}
    if k == 'interp':
        return {'op': 'interp', 'mesh': mname, 'elem': ename, 'seed': rng.randrange(3)}
    if k in ('probes', 'interpolator', 'point_source'):
        return {'op': k, 'mesh': mname, 'elem': ename, 'pts': rng.randrange(7)}
    if k == 'map':
        return {'op': 'map', 'mesh': mname, 'pts': rng.randrange(2), 'tind': rng.randrange(5)}
    if k == 'gbasis':
        return {'op': 'gbasis', 'mesh': mname, 'elem': ename, 'pts': rng.randrange(6), 'i': rng.randrange(12)}
    if k == 'lbasis':
        return {'op': 'lbasis', 'mesh': mname, 'elem': ename, 'pts': rng.randrange(6), 'i': rng.randrange(12)}
    if k == 'transform':
        hows = ['refined', 'scaled', 'translated', 'with_boundaries', 'with_subdomains', 'restrict', 'with_both_refined',
                'morphed', 'mirrored', 'join', 'remove_elements', 'to_dict']
        if fam in ('hex', 'tet'):
            hows.remove('with_both_refined')
        if fam in ('tri', 'tet', 'line'):
            hows += ['adaptive', 'smoothed'] if fam != 'line' else ['adaptive']
        return {'op': 'transform', 'mesh': mname, 'how': rng.choice(hows)}
    if k == 'api':
        e2 = rng.choice([e_ for e_ in elems if e_ in SCALAR_H1 and e_ != ename] or [ename])
        return {'op': 'api', 'mesh': mname, 'elem': ename, 'elem2': e2, 'how': rng.choice(API_HOWS_MESH + API_HOWS_BASIS + ['periodic'])}
    if k == 'transform_use':
        return {'op': 'transform_use', 'mesh': mname, 'elem': ename,
                'how': rng.choice(['translated', 'scaled', 'mirrored', 'morphed', 'with_boundaries', 'with_subdomains'])}
    if k == 'retag':
        return {'op': 'retag', 'mesh': mname,
                'how': rng.choice(['boundaries-same', 'boundaries-new', 'subdomains-same', 'subdomains-new', 'refined'])}
    if k == 'io':
        hows = ['dict', 'json', 'npz', 'msh', 'vtk', 'meshio', 'meshio'] if fam != 'line' else ['dict', 'json', 'npz', 'meshio']
        return {'op': 'io', 'mesh': mname, 'how': rng.choice(hows)}
    if k == 'composite':
        e2 = rng.choice([e for e in elems if e in SCALAR_H1 and e != ename] or [ename])
        return {'op': 'composite', 'mesh': mname, 'elem': ename, 'elem2': e2}
    if k == 'mpc':
        return {'op': 'mpc', 'mesh': mname, 'elem': ename}
    if k == 'bc':
        return {'op': 'bc', 'mesh': mname, 'elem': ename, 'how': rng.choice(['condense', 'enforce', 'penalize'])}
    if k == 'solve_direct':
        sname = rng.choice(['krylov', 'direct', 'cg', 'pcg'])
        return {'op': 'solve_direct', 'mesh': mname, 'elem': ename, 'solver': sname,
                'kwargs': rng.choice([{}, {'maxiters': 3}]) if sname == 'cg' else {}}
    sname = rng.choice([None, 'krylov', 'krylov', 'direct', 'cg', 'cg', 'eigsym', 'eigsym', 'pcg'])
    kw = {}
    if sname == 'krylov':
        kw = rng.choice([{}, {'atol': 1e-14, 'maxiter': 400}, {'maxiter': 1}, {'atol': 1e-3}])
    elif sname == 'cg':
        kw = rng.choice([{}, {'maxiters': 2}, {'tol': 1e-2}])
    elif sname == 'eigsym':
        kw = rng.choice([{}, {'k': 2}, {'k': 3}, {'sigma': 0.5}])
    elif sname == 'direct':
        kw = rng.choice([{}, {'use_umfpack': False}])
    return {'op': 'solve', 'mesh': mname, 'elem': ename, 'solver': sname, 'kwargs': kw}


def _rng_state():
    """global state an operation must not touch: the caller's NumPy random stream, NumPy's floating-point error handling and
    print options, the levels / handlers of the root and 'skfem' loggers (the warnings filter list is not monitored: third-party
    modules append to it on first use)"""
    import logging
    st = np.random.get_state()
    lg = [(n, logging.getLogger(n).level, len(logging.getLogger(n).handlers), logging.getLogger(n).disabled) for n in ('', 'skfem')]
    return ((st[0], st[1].tobytes(), st[2], st[3], st[4]), tuple(sorted(np.geterr().items())),
            repr(sorted(np.get_printoptions().items())), tuple(lg))


GLOBAL_NAMES = ['<global numpy random state>', '<numpy error handling (np.seterr)>', '<numpy print options>',
                '<logging levels / handlers>']


def run_history(ops, collect=None):
    """run ops on ONE shared pool; compare every result with the same op on a brand-new pool.
    returns list of (index, kind, detail) problems and the largest float discrepancy seen"""
    pool = Pool()
    problems, worst = [], 0.0
    for k, d in enumerate(ops):
        mon = Monitor()
        rs0 = _rng_state()
        try:
            got = do_op(pool, d, mon)
            gexc = None
        except Exception as e:          # noqa: BLE001 - an exception after a history is compared with the fresh behaviour
            got, gexc = None, f'{type(e).__name__}: {e}'
        ch = mon.changed()
        rs1 = _rng_state()
        if rs1 != rs0:
            ch = [GLOBAL_NAMES[i] for i in range(len(rs0)) if rs0[i] != rs1[i]] + ch
        if ch:
            problems.append((k, 'mutated', ch[:6]))
        fmon = Monitor()
        try:
            exp = do_op(Pool(), d, fmon)
            eexc = None
        except Exception as e:          # noqa: BLE001
            exp, eexc = None, f'{type(e).__name__}: {e}'
        if (gexc is None) != (eexc is None):
            problems.append((k, 'exception-differs', {'pooled': gexc, 'fresh': eexc}))
        elif gexc is None:
            dd = maxdiff(got, exp)
            if dd is None or dd > TOL:
                problems.append((k, 'result-differs', {'max_rel_diff': None if dd is None else dd}))
            else:
                worst = max(worst, dd)
        if collect is not None:
            collect.append((d, gexc, eexc))
    return problems, worst


def shrink(ops, k, kind):
    """smallest prefix subset (greedy removal) that still makes op k misbehave in the same way"""
    cur = list(ops[:k + 1])
    changed = True
    while changed and len(cur) > 1:
        changed = False
        for j in range(len(cur) - 1):
            trial = cur[:j] + cur[j + 1:]
            pr, _ = run_history(trial)
            if any(p[0] == len(trial) - 1 and p[1] == kind for p in pr):
                cur = trial
                changed = True
                break
    return cur


def type_of_mesh(d):
    return MESH_SPECS.get(d.get('mesh', ''), {}).get('cls', '')


def classify(ops, kind):
    """stable key of a failing (shrunk) history: names the state that leaked"""
    last = ops[-1]
    e = last.get('elem', '')
    if kind == 'mutated':
        return f'operand-mutated:{last["op"]}:{last.get("how", last.get("solver", ""))}'
    if kind == 'rng':
        return f'global-state:changed:{last["op"]}:{last.get("how", "")}:{type_of_mesh(last)}'
    if last['op'] == 'solve' and last.get('solver'):
        fac = SOLVER_SPECS[last['solver']][0]
        return f'closure:{fac}:kwargs-leak-between-calls'
    if e.startswith('ElementLinePp'):
        return 'cache:ElementLinePp.P:equal-count-different-points'
    if e.startswith('ElementQuadP'):
        return 'cache:ElementQuadP.P:stale-table'
    if e in ('ElementTriMorley', 'ElementTriArgyris', 'ElementLineHermite'):
        return 'cache:ElementGlobal.V:element-reused-on-another-mesh'
    iso = FAMILY.get(last.get('mesh', ''), '') in ('quad', 'hex', 'tri2')
    if last['op'] == 'map' or (iso and any(o['op'] == 'map' and o.get('mesh') == last.get('mesh') for o in ops[:-1])):
        return 'cache:MappingIsoparametric.J:hash_args-ignores-shape-dtype'
    return f'history-dependent:{last["op"]}:{e}'



# ============================================================================ mesh construction must not touch the caller's arrays

def _unsorted_source(fam):
    """(class name, p, t) of a small valid mesh whose connectivity columns are NOT sorted row-wise"""
    import skfem
    if fam == 'tri':
        m = skfem.MeshTri.init_tensor(np.array([0., 1., 3.]), np.array([0., 2., 3.]))
        t = m.t.copy()
        t[:, ::2] = t[[2, 0, 1]][:, ::2]            # rotate the vertices of every other triangle
        return 'MeshTri', m.p.copy(), t
    if fam == 'quad':
        m = skfem.MeshQuad.init_tensor(np.array([0., 1., 3.]), np.array([0., 2., 3.]))
        t = m.t.copy()
        t[:, ::2] = t[[2, 3, 0, 1]][:, ::2]         # cyclic shift keeps the cells valid
        return 'MeshQuad', m.p.copy(), t
    if fam == 'tet':
        m = skfem.MeshTet.init_tensor(np.array([0., 1., 2.]), np.array([0., 2.]), np.array([0., 1.]))
        t = m.t.copy()
        t[:, ::2] = t[[1, 2, 0, 3]][:, ::2]
        return 'MeshTet', m.p.copy(), t
    if fam == 'hex':
        m = skfem.MeshHex.init_tensor(np.array([0., 1., 2.]), np.array([0., 2.]), np.array([0., 1.]))
        return 'MeshHex', m.p.copy(), m.t.copy()
    if fam == 'line':
        return 'MeshLine', np.array([[0., 1., 3., 4.]]), np.array([[1, 3, 0], [0, 2, 1]])     # cells [1,0], [3,2], [0,1]... as columns
    if fam == 'wedge':
        m = skfem.MeshTri.init_tensor(np.array([0., 1.]), np.array([0., 2.])) * skfem.MeshLine(np.array([0., 1., 2.]))
        return 'MeshWedge1', m.p.copy(), m.t.copy()
    raise KeyError(fam)


def _mass(m, ename):
    import skfem
    from skfem.helpers import dot, grad
    bs = skfem.Basis(m, getattr(skfem, ename)())

    @skfem.BilinearForm
    def a(u, v, w):
        return u * v * (1.0 + w.x[0]) + dot(grad(u), grad(v))
    return canon(a.assemble(bs))


P1 = {'tri': 'ElementTriP2', 'quad': 'ElementQuad1', 'tet': 'ElementTetP1', 'hex': 'ElementHex1', 'line': 'ElementLineP2', 'wedge': 'ElementWedge1'}
HIGHER = {'tri': ['MeshTri2'], 'quad': ['MeshQuad2'], 'tet': ['MeshTet2'], 'hex': ['MeshHex2'], 'line': [], 'wedge': []}


def search_constructors(ctx):
    """(a) every mesh class from caller-owned arrays of every dtype / memory layout, sort_t default and on: the caller's
    arrays must be bit-for-bit unchanged; (b) new meshes built from a LONG-LIVED mesh (its arrays, from_mesh, quadratic
    versions and their refinements): the source mesh must be unchanged and must still assemble like a fresh rebuild"""
    import skfem
    n = 0
    for fam in ('tri', 'quad', 'tet', 'hex', 'line', 'wedge'):
        cname, p0, t0 = _unsorted_source(fam)
        cls = getattr(skfem, cname)
        unsorted = bool(np.any(np.sort(t0, axis=0) != t0))
        # ---- (a) caller-owned arrays
        for tdt, order, pord, kw in [(a, b, c, d) for a in (np.int32, np.int64) for b in ('C', 'F') for c in ('C', 'F')
                                     for d in ({}, {'sort_t': True}, {'sort_t': False})]:
            t_in = np.array(t0, dtype=tdt, order=order)
            p_in = np.array(p0, dtype=np.float64, order=pord)
            tb, pb = t_in.tobytes(order='A'), p_in.tobytes(order='A')
            tc, pc = t_in.copy(), p_in.copy()
            try:
                cls(p_in, t_in, **kw)
            except Exception as e:      # noqa: BLE001 - an invalid combination (e.g. sorting breaks a quadrilateral) may be rejected
                ctx.hist('constructor_raises', f'{cname}:{type(e).__name__}')
            n += 1
            ctx.count(('ctor', cname, tdt.__name__, order, pord, repr(kw)), nontrivial=unsorted)
            if not (np.array_equal(t_in, tc) and t_in.tobytes(order='A') == tb and np.array_equal(p_in, pc) and p_in.tobytes(order='A') == pb):
                ctx.fail(f'operand-mutated:constructor:{cname}',
                         f'{cname}(p, t{", " + repr(kw) if kw else ""}) changed the caller\'s array ({tdt.__name__}, {order}-contiguous): '
                         f't {tc.tolist()} -> {t_in.tolist()}',
                         {'site': 'constructor', 'class': cname, 'p': p0.tolist(), 't': t0.tolist(), 'dtype': tdt.__name__, 'order': order,
                          'p_order': pord, 'kwargs': kw})
        # ---- (b) a long-lived source mesh with unsorted connectivity, caches warm
        try:
            ms = cls(p0.copy(), np.array(t0, dtype=np.int32, order='C'), sort_t=False)
        except Exception as e:      # noqa: BLE001
            ctx.hist('constructor_raises', f'{cname}:source:{type(e).__name__}')
            continue
        ref = _mass(ms, P1[fam])
        ms.facets, ms.t2f, ms.f2t, ms._mapping()
        derived = [('same-class(p, t)', lambda: cls(ms.p, ms.t)),
                   ('same-class(p, t, sort_t=True)', lambda: cls(ms.p, ms.t, sort_t=True)),
                   ('from_mesh', lambda: cls.from_mesh(ms)),
                   ('refined', lambda: ms.refined())]
        if fam in ('tri', 'tet'):
            derived.append(('oriented', lambda: ms.oriented()))
        for hname in HIGHER[fam]:
            hcls = getattr(skfem, hname)
            derived.append((f'{hname}.from_mesh', lambda hcls=hcls: hcls.from_mesh(ms)))
            derived.append((f'{hname}.from_mesh.refined', lambda hcls=hcls: hcls.from_mesh(ms).refined()))
            derived.append((f'{hname}.from_mesh.refined(marked)', lambda hcls=hcls: hcls.from_mesh(ms).refined(np.array([0]))))
            derived.append((f'{cname}.from_mesh({hname})', lambda hcls=hcls: cls.from_mesh(hcls.from_mesh(ms))))
        for dname, thunk in derived:
            mon = Monitor()
            mon.watch(ms, 'source_mesh')
            try:
                thunk()
            except Exception as e:      # noqa: BLE001 - not every derived construction exists for every class
                ctx.hist('constructor_raises', f'{cname}:{dname}:{type(e).__name__}')
            n += 1
            ctx.count(('derived', cname, dname), nontrivial=unsorted)
            ch = mon.changed()
            data = {'site': 'constructor-derived', 'class': cname, 'p': p0.tolist(), 't': t0.tolist(), 'derived': dname}
            if ch:
                ctx.fail(f'operand-mutated:construction-from-mesh:{cname}', f'{dname} of a long-lived {cname} changed arrays of the source mesh: {ch[:4]}',
                         dict(data, changed=ch[:6]))
            try:
                again = _mass(ms, P1[fam])
            except Exception as e:      # noqa: BLE001
                again = ('exception', f'{type(e).__name__}: {e}')
            if again != ref and (not isinstance(again, tuple) or maxdiff(again, ref) is None or maxdiff(again, ref) > TOL):
                ctx.fail(f'history-dependent:source-mesh-after:{cname}', f'after {dname} the long-lived {cname} assembles a different matrix than a '
                         'fresh rebuild from the same arrays', data)
                break
    ctx.extra['constructor_search'] = {'constructions': n}

# ============================================================================ search()

def _refute_in_coq(ctx, name, imports, stmt, proof, pending):
    """queue a model-side confirmation: the model agrees that the witness is a key collision with different computation inputs"""
    rel = f'chk/refute_{name}.v'
    ctx.write(rel, f'From Coq Require Import List Arith ZArith Bool.\nImport ListNotations.\n'
                   f'Require Import Base.Corr Base.C15_Memo Model.C15_Caches.\n{imports}\n'
                   f'Lemma {name}_refuted : {stmt}.\nProof. {proof} Qed.\n')
    pending.append((name, rel))


def _run_refutations(ctx, pending):
    res = ctx.coqc_many([rel for _, rel in pending], 120, jobs=4) if pending else {}
    for name, rel in pending:
        okc, out, err, secs = res[rel]
        ctx.obligations.append({'name': f'{rel}:{name}_refuted', 'kind': 'refutation-witness', 'ok': okc})
        ctx.log(f'coqc {rel}: {"ok" if okc else "FAILED"} ({secs:.1f}s) — model-side confirmation of the witness')
        if not okc:
            ctx.broke('correspondence', f'refutation:{name}', 'the implementation returns a stale value for a pair of arguments that the '
                      'model (regenerated key) does not identify: ' + err[-600:])


ALL_SOLVERS = ['solver_direct_scipy', 'solver_iter_krylov', 'solver_iter_pcg', 'solver_iter_cg', 'solver_eigen_scipy_sym', 'solver_eigen_scipy']


def _spd_system(n, shift=0.0):
    import scipy.sparse as sp
    main = 2.0 + shift + 0.1 * np.arange(n)
    K = sp.diags([main, -np.ones(n - 1), -np.ones(n - 1)], [0, 1, -1], format='csr')
    M = sp.diags([1.0 + 0.05 * np.arange(n)], [0], format='csr')
    f = np.cos(np.arange(n) * 0.7) + 1.5
    return K, M, f


def witness_solvers(ctx):
    """every solver factory of utils.py called DIRECTLY on caller-owned operands: A, b (and M) bit-for-bit unchanged, and a
    second solve with the same operands gives the same solution"""
    import skfem.utils as U
    for name in ALL_SOLVERS:
        if not hasattr(U, name):
            continue
        for n, kw in ((9, {}), (12, {})):
            K, M, f = _spd_system(n)
            eig = 'eigen' in name
            fkw = {'maxiters': 60} if name == 'solver_iter_cg' else {}
            s = getattr(U, name)(**fkw)
            ckw = dict(kw)
            if eig:
                ckw.update({'k': 3, 'v0': np.ones(n)})
            ops = [K, (M if eig else f)]
            mon = Monitor()
            for lab, o in zip(('A', 'M' if eig else 'b'), ops):
                mon.watch(o, lab)
            copies = [K.copy(), ops[1].copy()]
            data = {'site': 'solver-operands', 'factory': name, 'n': n}
            ctx.count(('solver-operands', name, n), nontrivial=True)
            try:
                r1 = s(*ops, **ckw)
                ch = mon.changed()
                r2 = s(*ops, **ckw)
            except Exception as ex:      # noqa: BLE001 - a well-posed SPD system
                ctx.fail(f'solver:{name}:exception', f'{name} raised {type(ex).__name__}: {ex} on a small SPD system', data)
                continue
            if ch:
                ctx.fail(f'operand-mutated:solver:{name}', f'{name}()(A, b): the caller\'s operands changed: {ch}', dict(data, changed=ch))
                continue
            c1 = canon([np.sort(np.round(np.real(r1[0]), 8))] if eig else r1)
            c2 = canon([np.sort(np.round(np.real(r2[0]), 8))] if eig else r2)
            dd = maxdiff(c1, c2)
            if dd is None or dd > 1e-10:
                ctx.fail(f'history-dependent:solver:{name}:second-solve-differs', f'{name}: solving twice with the same operands gives different '
                         f'solutions (max difference {dd})', data)
            # through solve(), too
            ref = canon(U.solve(copies[0], copies[1], solver=getattr(U, name)(**fkw), **ckw)) if not eig else None
            if ref is not None:
                dd = maxdiff(canon(r1), ref)
                if dd is None or dd > 1e-10:
                    ctx.fail(f'history-dependent:solver:{name}:differs-from-fresh', f'{name}: direct call differs from solve() on fresh copies ({dd})', data)


def witness_id_reuse(ctx):
    """an element object that remembers 'the mesh it was last used on' must not confuse it with a LATER mesh that happens to get
    the same id() after the first one was freed.  Loop: use the element on a mesh, free the mesh, build another mesh of equal
    size and different geometry; whenever CPython reuses the id, compare with a fresh element object."""
    import gc
    import skfem
    X = np.array([[0.25, 0.5], [0.25, 0.125]])
    tind = np.array([0, 1])
    stats = {'iterations': 0, 'id_reuses_exercised': 0}
    for ecls in (skfem.ElementTriMorley, skfem.ElementTriArgyris):
        el = ecls()
        old_id = None
        for k in range(50):
            g = np.array([0.0, 1.0 + 0.125 * (k % 7), 3.0 + 0.25 * (k % 5)])
            m = skfem.MeshTri.init_tensor(g, g[::-1].cumsum() * 0 + np.array([0.0, 2.0 - 0.125 * (k % 3), 3.0]))
            stats['iterations'] += 1
            reused = old_id is not None and id(m) == old_id
            got = el.gbasis(m._mapping(), X, 1, tind=tind)[0].value.copy()
            if reused:
                stats['id_reuses_exercised'] += 1
                exp = ecls().gbasis(m._mapping(), X, 1, tind=tind)[0].value
                ctx.count(('id-reuse', ecls.__name__, k), nontrivial=True)
                if not np.allclose(got, exp, rtol=1e-12, atol=1e-12):
                    ctx.fail('cache:ElementGlobal.V:stale-after-mesh-id-reuse',
                             f'{ecls.__name__}: a mesh created after the previous one was freed got the same id(); the element serves the '
                             'inverse Vandermonde matrix of the FREED mesh', {'site': 'id-reuse', 'element': ecls.__name__, 'iteration': k,
                                                                            'got': jsonable(got), 'expected': jsonable(exp)})
                    break
            old_id = id(m)
            del m
            gc.collect()
    ctx.extra['mesh_id_reuse'] = stats


def witness_aliasing(ctx):
    """objects built from caller-owned arrays: where the library COPIES its argument (unchanged tree: the orientation array of
    OrientedBoundary for every input type; the connectivity of a sorting mesh class) the object's observable results must not
    change when the caller later modifies its own array in place.  Constructors that keep a reference by design (indices of
    OrientedBoundary, Mesh.doflocs, the arrays of with_boundaries / with_subdomains dictionaries) are only recorded."""
    import skfem
    from skfem.generic_utils import OrientedBoundary
    table = []
    m0 = skfem.MeshTri.init_tensor(np.linspace(0, 1, 5), np.linspace(0, 1, 4))
    fac = m0.facets_satisfying(lambda x: np.isclose(x[0], .5))
    mid = m0.p[:, m0.t].mean(axis=1)
    ori0 = [0 if mid[0, m0.f2t[0, f]] < .5 else 1 for f in fac]

    @skfem.Functional
    def flux(w):
        return w.n[0]
    for dt in ('int64', 'int32', 'bool', 'intp', 'list'):
        ori = list(ori0) if dt == 'list' else np.array(ori0, dtype=np.dtype(dt))
        ob = OrientedBoundary(fac, ori)
        m = m0.with_boundaries({'left': ob})
        before = float(flux.assemble(skfem.FacetBasis(m, skfem.ElementTriP1(), facets='left')))
        ori_before = np.array(m.boundaries['left'].ori)
        shares = bool(dt != 'list' and np.shares_memory(ob.ori, ori))
        # the caller re-uses its own array for the opposite side
        if dt == 'list':
            for k_ in range(len(ori)):
                ori[k_] = 1 - ori[k_]
        elif dt == 'bool':
            ori[:] = ~ori
        else:
            ori[:] = 1 - ori
        after = float(flux.assemble(skfem.FacetBasis(m, skfem.ElementTriP1(), facets='left')))
        ori_after = np.array(m.boundaries['left'].ori)
        ctx.count(('alias', 'OrientedBoundary.ori', dt), nontrivial=True)
        table.append({'constructor': f'OrientedBoundary(indices, ori: {dt})', 'argument': 'ori', 'shares_memory_with_caller': shares,
                      'by_design': False})
        if not np.array_equal(ori_before, ori_after) or abs(before - after) > 1e-14:
            ctx.fail('aliasing:OrientedBoundary.ori:shares-callers-array',
                     f'OrientedBoundary(indices, ori) with a {dt} orientation array keeps a reference to the caller\'s array: after the caller '
                     f'flips its array in place the stored orientation changes {ori_before.tolist()} -> {ori_after.tolist()} and the flux over the '
                     f'unchanged mesh goes {before} -> {after}', {'site': 'aliasing', 'dtype': dt, 'ori': ori0, 'facets': fac.tolist()})
    # a sorting mesh class copies the connectivity (np.sort / dtype conversion)
    for dt in (np.int32, np.int64):
        p_ = m0.p.copy()
        t_ = np.array(m0.t[[2, 0, 1]], dtype=dt)
        m = skfem.MeshTri(p_, t_)
        A0 = _mass(m, 'ElementTriP2')
        tb = m.t.copy()
        shares = bool(np.shares_memory(m.t, t_))
        t_[:] = t_[[1, 2, 0]][:, ::-1]
        ctx.count(('alias', 'MeshTri.t', dt.__name__), nontrivial=True)
        table.append({'constructor': f'MeshTri(p, t: {dt.__name__})', 'argument': 't', 'shares_memory_with_caller': shares, 'by_design': False})
        if not np.array_equal(m.t, tb) or _mass(skfem.MeshTri(m.p, m.t), 'ElementTriP2') != A0 or _mass(m, 'ElementTriP2') != A0:
            ctx.fail('aliasing:MeshTri.t:shares-callers-array', f'MeshTri(p, t) ({dt.__name__}) changes when the caller permutes its own t afterwards',
                     {'site': 'aliasing', 'dtype': dt.__name__})
    # references kept by design: recorded, not judged
    ix = np.array(fac)
    ob = OrientedBoundary(ix, list(ori0))
    table.append({'constructor': 'OrientedBoundary(indices, ori)', 'argument': 'indices', 'shares_memory_with_caller': bool(np.shares_memory(np.asarray(ob), ix)),
                  'by_design': True})
    pc = m0.p.copy()
    table.append({'constructor': 'MeshTri(p: float64 C-contiguous, t)', 'argument': 'p', 'by_design': True,
                  'shares_memory_with_caller': bool(np.shares_memory(skfem.MeshTri(pc, m0.t.copy()).p, pc))})
    arr = np.array(fac)
    table.append({'constructor': 'Mesh.with_boundaries({name: array})', 'argument': 'dict value', 'by_design': True,
                  'shares_memory_with_caller': bool(np.shares_memory(m0.with_boundaries({'a': arr}).boundaries['a'], arr))})
    el = np.array([0, 1])
    table.append({'constructor': 'Mesh.with_subdomains({name: array})', 'argument': 'dict value', 'by_design': True,
                  'shares_memory_with_caller': bool(np.shares_memory(m0.with_subdomains({'s': el}).subdomains['s'], el))})
    ctx.extra['constructor_memory_sharing'] = table


def _elem_state(e, depth=0):
    """the observable attributes of an element object, sub-elements included"""
    st = [type(e).__name__] + [int(getattr(e, k, -1)) for k in ('nodal_dofs', 'facet_dofs', 'edge_dofs', 'interior_dofs', 'maxdeg')]
    dl = getattr(e, 'doflocs', None)
    st.append(canon(np.asarray(dl)) if isinstance(dl, np.ndarray) else None)
    if depth < 4:
        st.append([_elem_state(x, depth + 1) for x in getattr(e, 'elems', [])])
        st.append(_elem_state(e.elem, depth + 1) if hasattr(e, 'elem') and e.elem is not e else None)
    return st


def _basis_state(bs):
    out = [int(bs.N), canon(np.asarray(bs.element_dofs))]
    for fields in bs.basis:
        for f in (fields if isinstance(fields, tuple) else (fields,)):
            out.append(tuple(canon(np.asarray(a)) if a is not None else None for a in f))
    return out


CONDENSED_CASES = [
    # (name, mesh spec, how to build the element; sub-elements held by the caller come back too)
    ('ElementTriMini', 'tri', lambda sk: (sk.ElementTriMini(), [])),
    ('ElementTriP2', 'tri', lambda sk: (sk.ElementTriP2(), [])),
    ('ElementQuad2', 'quad', lambda sk: (sk.ElementQuad2(), [])),
    ('ElementTetMini', 'tet', lambda sk: (sk.ElementTetMini(), [])),
    ('ElementVector(ElementTriMini)', 'tri', lambda sk: (lambda a: (sk.ElementVector(a), [a]))(sk.ElementTriMini())),
    ('ElementTriMini*ElementTriP1', 'tri', lambda sk: (lambda a, b: (a * b, [a, b]))(sk.ElementTriMini(), sk.ElementTriP1())),
    ('ElementVector(ElementTriMini)*ElementTriP1', 'tri',
     lambda sk: (lambda a, b: (sk.ElementVector(a) * b, [a, b]))(sk.ElementTriMini(), sk.ElementTriP1())),
    ('ElementComposite(ElementQuad2,ElementQuad0)', 'quad', lambda sk: (lambda a, b: (sk.ElementComposite(a, b), [a, b]))(sk.ElementQuad2(), sk.ElementQuad0())),
]


def witness_condensed(ctx, only=None):
    """Element.condensed() returns two NEW elements; the element it is called on (and, for a composite, the sub-element objects
    the caller still holds) must be unchanged: DOF counts and doflocs of the element and of every sub-element, and a basis built
    with the element / the sub-elements AFTER the call is bit-identical to one built with freshly made elements"""
    import skfem
    n = 0
    for name, mspec, mk in CONDENSED_CASES:
        if only is not None and name != only:
            continue
        m = Pool().mesh(mspec)
        fresh, fsubs = mk(skfem)
        ref = _basis_state(skfem.Basis(m, fresh))
        refsubs = [_basis_state(skfem.Basis(m, x)) for x in fsubs]
        el, subs = mk(skfem)
        before = _elem_state(el)
        sub_before = [_elem_state(x) for x in subs]
        used_before = _basis_state(skfem.Basis(m, el))
        ei, eo = el.condensed()
        nin, nout = int(ei.interior_dofs), int(eo.nodal_dofs + eo.facet_dofs + eo.edge_dofs)
        after = _elem_state(el)
        sub_after = [_elem_state(x) for x in subs]
        n += 1
        ctx.count(('condensed', name), nontrivial=True)
        data = {'site': 'condensed', 'element': name, 'mesh': mspec}
        if before != after or sub_before != sub_after:
            ctx.fail(f'operand-mutated:Element.condensed:{name}',
                     f'{name}.condensed() changes the element it is called on: (class, nodal, facet, edge, interior, maxdeg, ...) of the element '
                     f'{before[:6]} -> {after[:6]}; '
                     f'sub-elements held by the caller {[x[:6] for x in sub_before]} -> {[x[:6] for x in sub_after]}', data)
            continue
        try:
            later = _basis_state(skfem.Basis(m, el))
            latersubs = [_basis_state(skfem.Basis(m, x)) for x in subs]
        except Exception as ex:      # noqa: BLE001
            ctx.fail(f'history-dependent:Element.condensed:{name}', f'Basis(mesh, element) after element.condensed() raises {type(ex).__name__}: {ex}', data)
            continue
        if later != ref or later != used_before or latersubs != refsubs or nin != before[4] or nout != before[1] + before[2] + before[3]:
            ctx.fail(f'history-dependent:Element.condensed:{name}',
                     f'a basis built with the element (or a sub-element object) after {name}.condensed() differs from one built with a fresh element: '
                     f'N {later[0]} vs {ref[0]}, sub-element bases equal: {latersubs == refsubs}, interior / other DOF counts of the returned pair {nin} / {nout}', data)
    ctx.extra['condensed_witness'] = {'elements': n}


def _inplace_cases():
    import skfem
    from skfem.helpers import dot

    @skfem.BilinearForm
    def wx(u, v, w):
        r = w.x[0]
        r -= .5
        return r * u * v

    @skfem.LinearForm
    def wx1(v, w):
        r = w.x[1]
        r *= 3.0
        return r * v

    @skfem.BilinearForm
    def wn(u, v, w):
        r = w.n[0]
        r += 2.0
        return r * u * v

    @skfem.BilinearForm
    def u0(u, v, w):
        a = u[0]
        a += 1.0
        b = v[1]
        b *= 2.0
        return a * b + dot(u, v)

    @skfem.BilinearForm
    def us(u, v, w):
        a = u[0]
        a += 1.0
        return a * v

    @skfem.LinearForm
    def prev(v, w):
        r = w['prev'][0]
        r -= 1.0
        return r * v + w['prev'] * v

    P1, m = skfem.ElementTriP1, (lambda: Pool().mesh('tri'))
    return [
        ('w.x[0]', wx, lambda: skfem.Basis(m(), P1()), None),
        ('w.x[1]', wx1, lambda: skfem.Basis(m(), skfem.ElementTriP2()), None),
        ('w.n[0]', wn, lambda: skfem.FacetBasis(m(), P1()), None),
        ('w.n[0]:interior', wn, lambda: skfem.InteriorFacetBasis(m(), P1()), None),
        ('u[0]:vector', u0, lambda: skfem.Basis(m(), skfem.ElementVector(P1())), None),
        ('u[0]:scalar', us, lambda: skfem.Basis(m(), P1()), None),
        ('w.field[0]', prev, lambda: skfem.Basis(m(), P1()), 'prev'),
    ]


def witness_inplace_integrands(ctx, only=None):
    """an integrand that takes a component out of a DiscreteField (w.x[0], w.n[0], u[0], w['prev'][0]) and modifies it in place
    works on its own copy (DiscreteField.__getitem__ copies): the arrays cached on the basis are unchanged, assembling the same
    form again with the same basis gives the same bits, and so does a fresh basis.  (u.grad[0] is a plain ndarray attribute whose
    [0] is a view by NumPy's rules - modifying that in place is the integrand's own doing and is only recorded.)"""
    n = 0
    for name, form, mk, field in _inplace_cases():
        if only is not None and name != only:
            continue
        bs = mk()
        kw = {}
        fresh_kw = {}
        if field:
            kw[field] = bs.interpolate(np.cos(1.0 + np.arange(bs.N)))
            fb = mk()
            fresh_kw[field] = fb.interpolate(np.cos(1.0 + np.arange(fb.N)))
        else:
            fb = mk()
        mon = Monitor()
        mon.watch(bs, 'basis')
        for k_, v_ in kw.items():
            mon.watch(v_, k_)
        n += 1
        ctx.count(('inplace-integrand', name), nontrivial=True)
        data = {'site': 'inplace-integrand', 'component': name}
        try:
            r1 = canon(form.assemble(bs, **kw))
            ch = mon.changed()
            r2 = canon(form.assemble(bs, **kw))
            r3 = canon(form.assemble(fb, **fresh_kw))
        except Exception as ex:      # noqa: BLE001 - an extracted component is the integrand's own, writable array
            ctx.fail(f'operand-mutated:integrand-in-place:{name}',
                     f'an integrand modifying the component it extracted ({name}) in place raises {type(ex).__name__}: {ex} '
                     f'(the component is not the integrand\'s own copy)', data)
            continue
        if ch:
            ctx.fail(f'operand-mutated:integrand-in-place:{name}',
                     f'an integrand that extracts {name} and modifies it in place (r = ...[0]; r -= c) rewrites arrays of the basis it is assembled '
                     f'with: {ch[:4]} ({len(ch)} arrays changed)', data)
        elif r1 != r2 or r1 != r3:
            ctx.fail(f'history-dependent:integrand-in-place:{name}',
                     f'the same form assembled twice with the same basis differs ({r1 != r2}) / differs from a fresh basis ({r1 != r3})', data)
    # recorded only: u.grad[0] is a NumPy view of the cached array
    import skfem

    @skfem.BilinearForm
    def ug(u, v, w):
        return u.grad[0] * v
    bs = skfem.Basis(Pool().mesh('tri'), skfem.ElementTriP1())
    ctx.extra['inplace_integrand_witness'] = {
        'cases': n, 'u.grad[0] shares memory with the basis (plain ndarray indexing, by NumPy rules; not judged)':
        bool(np.shares_memory(bs.basis[0][0].grad[0], bs.basis[0][0].grad))}


def witness_views(ctx):
    """results handed out earlier must not change later: one ElementLinePp / ElementQuadP object, a basis b1 on quadrature Q1
    (arrays checksummed, matrix assembled), then the SAME element object evaluated at other point sets of equal size (a second
    basis on Q2, lbasis directly): every array of b1 and every array returned before must be bit-identical, and assembling with
    b1 again must give the same matrix"""
    import skfem
    from skfem.helpers import dot, grad

    @skfem.BilinearForm
    def a(u, v, w):
        return u * v * (1.0 + w.x[0]) + dot(grad(u), grad(v))
    for cname, mk_mesh, dim in (('ElementLinePp', lambda: skfem.MeshLine(np.array([0., 1., 3., 4.])), 1),
                                ('ElementQuadP', lambda: skfem.MeshQuad.init_tensor(np.array([0., 1., 3.]), np.array([0., 2., 3.])), 2)):
        for p in (2, 3):
            el = getattr(skfem, cname)(p)
            m = mk_mesh()
            n1 = 4
            g = np.array([0.125, 0.375, 0.625, 0.875])
            X1 = np.vstack([g] + [g[::-1]] * (dim - 1))
            X2 = np.vstack([g * 0.5 + 0.0625] + [g * 0.25 + 0.5] * (dim - 1))
            X3 = np.vstack([np.array([0.1, 0.2, 0.3, 0.9])] + [np.array([0.7, 0.1, 0.4, 0.2])] * (dim - 1))
            W = np.full(n1, 1.0 / n1)
            b1 = skfem.Basis(m, el, quadrature=(X1, W))
            i0 = p
            r1 = [np.asarray(v) for v in el.lbasis(X1, i0)]
            r1_copy = [v.copy() for v in r1]
            mon = Monitor()
            mon.watch(b1, 'first_basis')
            A1 = canon(a.assemble(b1))
            # the same element object, other point sets of the same size
            b2 = skfem.Basis(m, el, quadrature=(X2, W))
            el.lbasis(X3, 0)
            a.assemble(b2)
            ctx.count(('views', cname, p), nontrivial=True)
            ch = mon.changed()
            ret_changed = [k for k, (u, v) in enumerate(zip(r1, r1_copy)) if not _eqarr(u, v)]
            A1b = canon(a.assemble(b1))
            data = {'site': 'views', 'element': cname, 'p': p, 'X1': jsonable(X1), 'X2': jsonable(X2), 'X3': jsonable(X3),
                    'changed_arrays_of_first_basis': ch[:6], 'changed_returned_arrays': ret_changed,
                    'matrix_of_first_basis_changed': A1b != A1}
            if ch or ret_changed or A1b != A1:
                ctx.fail(f'cache:{cname}:earlier-results-change-after-equal-size-point-set',
                         f'{cname}({p}): after the element object is evaluated at another point set of equal size, arrays of a basis built '
                         f'EARLIER with it change ({len(ch)} arrays; returned lbasis arrays changed: {ret_changed}; its matrix changed: {A1b != A1})', data)


def search(ctx):
    """the Python part of the search (no Coq): two-step witnesses per site, random pool histories, operand monitor.
    returns the witnesses for the model-side confirmation"""
    rng = ctx.rng
    wit = {}
    # ---------------- results handed out earlier must survive later evaluations of the same element object (runs first)
    witness_views(ctx)
    witness_aliasing(ctx)
    for w_ in (witness_condensed, witness_inplace_integrands):
        try:
            w_(ctx)
        except Exception as ex:      # noqa: BLE001
            import traceback
            ctx.broke('harness', w_.__name__, traceback.format_exc())
    witness_solvers(ctx)
    witness_id_reuse(ctx)
    # ---------------- (a) two-step witnesses per site (always run; cheap)
    w = witness_pointcache(ctx, 'linepp')
    if w:
        ctx.fail('cache:ElementLinePp.P:equal-count-different-points',
                 'ElementLinePp.lbasis(X2, i) after lbasis(X1, i) with X1.shape == X2.shape returns the table of X1 '
                 '(fresh element gives a different value)', dict(w, site='linepp'))
        wit['linepp'] = w
    w = witness_pointcache(ctx, 'quadp')
    if w:
        ctx.fail('cache:ElementQuadP.P:stale-table', 'ElementQuadP.lbasis returns a stale table', dict(w, site='quadp'))
    w = witness_global(ctx)
    if w:
        ctx.fail('cache:ElementGlobal.V:element-reused-on-another-mesh',
                 f'{w["element"]} object used on a second mesh reuses the inverse Vandermonde matrix of the first mesh', dict(w, site='global'))
        wit['global'] = w
    w = witness_J(ctx)
    if w:
        ctx.fail('cache:MappingIsoparametric.J:hash_args-ignores-shape-dtype',
                 'MappingIsoparametric.detDF(X, tind2) after detDF(X, tind1) with tind1.tobytes() == tind2.tobytes() (other dtype/shape) '
                 'returns the Jacobians of tind1', dict(w, site='J'))
        wit['J'] = w
    from . import c15_translate as T
    for name in T.SOLVERS:
        w = witness_closure(ctx, name)
        if w:
            ctx.fail(f'closure:{name}:kwargs-leak-between-calls',
                     f'{name}: keyword arguments of an earlier call reach the backend of a later call', dict(w, site='closure'))
    # ---------------- constructors: caller-owned arrays and long-lived source meshes
    search_constructors(ctx)
    # ---------------- API audit: every public call form around the core, cold and after the objects have been used
    api_first = {'tri': ('ElementTriP2', 'ElementTriP1'), 'quad': ('ElementQuad1', 'ElementQuad2'), 'tet': ('ElementTetP1', 'ElementTetP2'),
                 'hex': ('ElementHex1', 'ElementHex1'), 'line': ('ElementLineP1', 'ElementLineP2')}
    napi, raised_both = 0, []
    for mname, (ename, e2) in api_first.items():
        for how in API_HOWS_MESH + API_HOWS_BASIS + ['periodic']:
            op = {'op': 'api', 'mesh': mname, 'elem': ename, 'elem2': e2, 'how': how}
            ops = [{'op': 'asm', 'mesh': mname, 'elem': ename}, {'op': 'conn', 'mesh': mname}, op, op]
            log = []
            problems, _ = run_history(ops, collect=log)
            napi += 1
            ctx.count(('api', mname, how), nontrivial=True)
            if log[2][1] is not None and log[2][2] is not None:
                raised_both.append(f'{MESH_SPECS[mname]["cls"]}:{how}:{log[2][1][:80]}')
            for k, kind, detail in problems:
                if k < 2:
                    continue
                key = f'operand-mutated:api:{how}:{MESH_SPECS[mname]["cls"]}' if kind == 'mutated' else f'history-dependent:api:{how}:{MESH_SPECS[mname]["cls"]}'
                ctx.fail(key, f'public call form {how} on a {MESH_SPECS[mname]["cls"]} ({ename}): {kind}: {detail}',
                         {'site': 'history', 'ops': ops[:k + 1], 'kind': kind, 'detail': detail, 'changed': detail if kind == 'mutated' else None})
    ctx.extra['api_search'] = {'call_forms': napi, 'raising_in_pooled_and_fresh_alike': raised_both}
    ctx.extra['api_coverage'] = [{'callable': a_, 'covered_before': b_, 'covered_now': c_, 'note': d_} for a_, b_, c_, d_ in API_COVERAGE]
    # ---------------- use a mesh, transform it, use the result (every family x transformation)
    first = {'tri': 'ElementTriP2', 'quad': 'ElementQuad1', 'tet': 'ElementTetP1', 'hex': 'ElementHex1', 'line': 'ElementLineP1',
             'tri_r': 'ElementTriP1', 'quad2': 'ElementQuad2'}
    for mname, ename in first.items():
        for how in ('translated', 'scaled', 'mirrored', 'morphed', 'with_boundaries', 'with_subdomains'):
            ops = [{'op': 'asm', 'mesh': mname, 'elem': ename}, {'op': 'conn', 'mesh': mname}]
            if FAMILY[mname] not in ('quad2',):
                ops.append({'op': 'probes', 'mesh': mname, 'elem': ename, 'pts': 2})
            ops.append({'op': 'transform_use', 'mesh': mname, 'elem': ename, 'how': how})
            problems, _ = run_history(ops)
            ctx.count(('use-transform-use', mname, how), nontrivial=True)
            for k, kind, detail in problems:
                if k != len(ops) - 1:
                    continue
                key = f'history-dependent:used-mesh-then-{how}:{MESH_SPECS[mname]["cls"]}' if kind != 'mutated' else classify(ops[:k + 1], kind)
                ctx.fail(key, f'a {MESH_SPECS[mname]["cls"]} that has been used (assembly, connectivity, point location) and is then {how}: the '
                         f'NEW mesh does not behave like the same transformation of a fresh mesh ({kind}: {detail})',
                         {'site': 'history', 'ops': ops, 'kind': kind, 'detail': detail})
    # ---------------- adaptive refinement of meshes whose cells have to be re-sorted: the coarse mesh must not change
    for mname in ('tri_r', 'tri_s', 'tet_r', 'tri', 'line'):
        ops = [{'op': 'asm', 'mesh': mname, 'elem': ELEM_SPECS[FAMILY[mname]][0]}, {'op': 'transform', 'mesh': mname, 'how': 'adaptive'},
               {'op': 'asm', 'mesh': mname, 'elem': ELEM_SPECS[FAMILY[mname]][0]}]
        problems, _ = run_history(ops)
        ctx.count(('adaptive-operand', mname), nontrivial=True)
        for k, kind, detail in problems:
            key = classify(ops[:k + 1], kind) if kind == 'mutated' else f'history-dependent:mesh-after-adaptive-refinement:{MESH_SPECS[mname]["cls"]}'
            ctx.fail(key, f'adaptive refinement of a {MESH_SPECS[mname]["cls"]} ({mname}): {kind}: {detail}',
                     {'site': 'history', 'ops': ops[:k + 1], 'kind': kind, 'detail': detail, 'changed': detail if kind == 'mutated' else None})
    # ---------------- caller-owned dictionaries handed to to_meshio / from_dict (every family)
    for mname in ('tri', 'quad', 'tet', 'hex', 'line', 'tri2'):
        for how in ('meshio', 'dict', 'json'):
            ops = [{'op': 'io', 'mesh': mname, 'how': how}]
            problems, _ = run_history(ops)
            ctx.count(('io-dicts', mname, how), nontrivial=True)
            for k, kind, detail in problems:
                key = classify(ops, kind)
                ctx.fail(key, f'{how} round trip of a {MESH_SPECS[mname]["cls"]}: {kind}: {detail}',
                         {'site': 'history', 'ops': ops, 'changed': detail if kind == 'mutated' else None, 'kind': kind})
    # ---------------- tagging meshes that already carry tags (every family, same and new names): operand and its tag
    # dictionaries unchanged, result equal to a fresh pool's
    for mname in ('tri', 'quad', 'tet', 'hex', 'line', 'tri2'):
        for how in ('boundaries-same', 'boundaries-new', 'subdomains-same', 'subdomains-new', 'refined'):
            ops = [{'op': 'retag', 'mesh': mname, 'how': how}, {'op': 'retag', 'mesh': mname, 'how': 'refined'}]
            problems, _ = run_history(ops)
            ctx.count(('retag', mname, how), nontrivial=True)
            for k, kind, detail in problems:
                key = classify(ops[:k + 1], kind)
                ctx.fail(key, f'tagging an already tagged {MESH_SPECS[mname]["cls"]} again ({ops[k]["how"]}): {kind}: {detail}',
                         {'site': 'history', 'ops': ops[:k + 1], 'changed': detail if kind == 'mutated' else None, 'kind': kind})
    # ---------------- (b)+(c) random histories over a shared pool
    nhist = ctx.n(70, 700)
    worst, nops, nprob = 0.0, 0, 0
    seen_keys = set()
    for hno in range(nhist):
        sub = random_subpool(rng)
        ops = [random_op(rng, sub) for _ in range(rng.randrange(4, 13))]
        log = []
        problems, wd = run_history(ops, collect=log)
        worst = max(worst, wd)
        for d, ge, ee in log:
            nops += 1
            ctx.hist('operation', d['op'] + (':' + d['how'] if 'how' in d else '') + (':' + str(d['solver']) if d['op'] == 'solve' else ''))
            if ge is not None and ee is not None:
                ctx.hist('operations_raising_in_both', d['op'])
        used = {}
        for d in ops:
            for kk in ('mesh', 'elem', 'solver'):
                if d.get(kk):
                    used[(kk, d[kk])] = used.get((kk, d[kk]), 0) + 1
        ctx.count(('history', json.dumps(ops, sort_keys=True)), nontrivial=any(v >= 2 for v in used.values()))
        ctx.hist('history_length', len(ops))
        if hno < 1:
            ctx.sample({'kind': 'pool history', 'ops': ops, 'problems': problems})
        mutated_at = min([k for k, kind, _ in problems if kind == 'mutated'], default=None)
        for k, kind, detail in problems:
            nprob += 1
            if mutated_at is not None and kind != 'mutated' and k >= mutated_at:
                continue          # a consequence of the operand mutation reported for this history
            if kind == 'mutated':
                only_rng = bool(detail) and all(x in GLOBAL_NAMES for x in detail)
                key = classify(ops[:k + 1], 'rng' if only_rng else kind)
                if key not in seen_keys:
                    seen_keys.add(key)
                    what = (f'operation {ops[k]} changed global state of the process: {detail}' if only_rng
                            else f'operation {ops[k]} changed arrays of its operands: {detail}')
                    ctx.fail(key, what, {'site': 'history', 'ops': [ops[k]] if only_rng else ops[:k + 1], 'changed': detail})
                continue
            small = shrink(ops, k, kind) if len(seen_keys) < 8 else ops[:k + 1]
            key = classify(small, kind)
            if key in seen_keys:
                continue
            seen_keys.add(key)
            ctx.fail(key, f'after the history {small[:-1]} the operation {small[-1]} gives a result different from freshly built objects ({kind}: {detail})',
                     {'site': 'history', 'ops': small, 'kind': kind, 'detail': detail})
    ctx.extra['pool_histories'] = {'histories': nhist, 'operations': nops, 'problems': nprob,
                                   'max_float_discrepancy_pooled_vs_fresh': worst, 'tolerance': TOL}
    # ---------------- global RNG (recorded, not part of the property statement: no skfem result depends on it)
    import skfem
    np.random.seed(4242)
    a = np.random.get_state()[1][:4].tolist()
    m = skfem.MeshTet().refined(1)
    m.refined([0])
    b = np.random.get_state()[1][:4].tolist()
    ctx.extra['global_rng_state_changed_by_MeshTet1_adaptive_refinement'] = (a != b)
    if a != b:
        ctx.fail('global-state:numpy-random-stream-changed:transform:adaptive:MeshTet',
                 'MeshTet.refined(marked) (adaptive refinement) re-seeds the global NumPy random state: np.random draws of the caller '
                 'after the call no longer depend on the caller\'s seed', {'site': 'history', 'ops': [{'op': 'transform', 'mesh': 'tet', 'how': 'adaptive'}],
                                                                           'changed': ['<global numpy random state>']})
    return wit




def refute(ctx, wit, ok):
    """model-side confirmation of the witnesses: the regenerated key identifies the two arguments, the automaton returns
    the first call's value to the second call"""
    pending = []
    if 'linepp' in wit and ok.get('gen/C15GenLinePp.v'):
        w = wit['linepp']
        X1, X2 = unjson_arr(w['X1']), unjson_arr(w['X2'])
        _refute_in_coq(ctx, 'linepp', 'Require Import Gen.C15GenLinePp.',
                       f'gen_linepp_key {enc_farr(X1)} = gen_linepp_key {enc_farr(X2)} /\\ '
                       f'gen_linepp_dep {enc_farr(X1)} <> gen_linepp_dep {enc_farr(X2)} /\\ '
                       f'origins (fun X => [gen_linepp_key X]) (fun ia => drop_all ia) [{enc_farr(X1)}; {enc_farr(X2)}] = [0; 0]',
                       'split; [vm_compute; reflexivity | split; [vm_compute; intros H; discriminate H | vm_compute; reflexivity]].', pending)
    if 'global' in wit and ok.get('gen/C15GenGlobal.v'):
        _refute_in_coq(ctx, 'global', 'Require Import Gen.C15GenGlobal.',
                       'gen_global_key 0 = gen_global_key 1 /\\ origins (fun m => [gen_global_key m]) (fun ia => drop_all ia) [0; 1] = [0; 0]',
                       'split; vm_compute; reflexivity.', pending)
    if 'J' in wit and ok.get('gen/C15GenJ.v'):
        w = wit['J']
        X, t1, t2 = unjson_arr(w['X']), unjson_arr(w['tind1']), unjson_arr(w['tind2'])
        _refute_in_coq(ctx, 'J', 'Require Import Gen.C15GenHash Gen.C15GenJ.',
                       f'gen_J_key {enc_jargs(0, 0, X, t1)} = gen_J_key {enc_jargs(0, 0, X, t2)} /\\ '
                       f'gen_J_dep {enc_jargs(0, 0, X, t1)} <> gen_J_dep {enc_jargs(0, 0, X, t2)}',
                       'split; [vm_compute; reflexivity | vm_compute; intros H; discriminate H].', pending)
    _run_refutations(ctx, pending)


# ============================================================================ replay

def replay(ctx, data):
    inp = data['input']
    site = inp.get('site')
    import skfem
    if site == 'history':
        problems, _ = run_history(inp['ops'])
        ctx.log('problems:', problems)
        for k, kind, detail in problems:
            if k == len(inp['ops']) - 1:
                ctx.fail(data['key'], data['what'], inp)
                break
    elif site in ('linepp', 'quadp'):
        cls = skfem.ElementLinePp if site == 'linepp' else skfem.ElementQuadP
        X1, X2 = unjson_arr(inp['X1']), unjson_arr(inp['X2'])
        el = cls(inp['p'])
        el.lbasis(X1, inp['i'])
        got = np.array(el.lbasis(X2, inp['i'])[0])
        exp = cls(inp['p']).lbasis(X2, inp['i'])[0]
        ctx.log('second call returns', got.tolist(), 'fresh element returns', exp.tolist())
        if not _eqarr(got, exp):
            ctx.fail(data['key'], data['what'], inp)
    elif site == 'global':
        w = witness_global(ctx)
        if w:
            ctx.fail(data['key'], data['what'], w)
    elif site == 'J':
        w = witness_J(ctx)
        if w:
            ctx.fail(data['key'], data['what'], w)
    elif site == 'closure':
        name = inp['factory']
        calls = [(c[0], c[1]) for c in inp['calls']]
        _, eff = closure_history(name, inp['factory_kwargs'], calls)
        _, fresh = closure_history(name, inp['factory_kwargs'], [calls[-1]])
        ctx.log('options at backend, second call:', code_dict(eff[-1]), ' fresh closure:', code_dict(fresh[0]))
        if code_dict(eff[-1]) != code_dict(fresh[0]):
            ctx.fail(data['key'], data['what'], inp)
    elif site == 'aliasing':
        witness_aliasing(ctx)
    elif site == 'condensed':
        witness_condensed(ctx, only=inp['element'])
    elif site == 'inplace-integrand':
        witness_inplace_integrands(ctx, only=inp['component'])
    elif site == 'views':
        witness_views(ctx)
    elif site == 'solver-operands':
        witness_solvers(ctx)
    elif site == 'id-reuse':
        witness_id_reuse(ctx)
    elif site in ('constructor', 'constructor-derived'):
        search_constructors(ctx)
    else:
        ctx.log('unknown replay site', site)
