"""placeholder"""
def correspond(ctx, facts, ok): pass
def search(ctx, facts, ok): pass
def replay(ctx, data): pass
