"""C03 oracle: a random coefficient vector evaluated from both sides of every interior facet.

For every element with a continuity claim x mesh family x random vertex renumbering / cell permutation x random
admissible local vertex order (any order for simplices, cyclic shifts for quadrilaterals, the 24 rotations for
hexahedra) handed to the DEFAULT mesh constructors: jump of value (H1), normal component (H(div)), tangential
component (H(curl)), normal-normal component (HHJ), additionally gradient (C1) <= TOL * scale at facet points.
Non-conforming elements: continuity of the defining functionals only.
"""
import itertools
import warnings

import numpy as np

TOL = 1e-9
# globally defined elements invert a Vandermonde matrix of monomials in GLOBAL coordinates in floats (condition
# number up to ~1e9 on small cells): their traces are compared with a looser tolerance (a real discontinuity is O(0.1))
GLOBAL_TOL = 2e-5


# ------------------------------------------------------------------------------ local symmetries

def hex_rotations():
    """the 24 vertex permutations of RefHex induced by the rotations of the cube (orientation preserving)"""
    from skfem.refdom import RefHex
    P = np.asarray(RefHex.p).T          # (8, 3)
    c = np.array([.5, .5, .5])
    out = []
    for perm in itertools.permutations(range(3)):
        for signs in itertools.product((1, -1), repeat=3):
            R = np.zeros((3, 3))
            for r in range(3):
                R[r, perm[r]] = signs[r]
            if round(np.linalg.det(R)) != 1:
                continue
            img = (P - c) @ R.T + c
            sigma = [int(np.argmin(np.sum((P - q) ** 2, axis=1))) for q in img]
            assert sorted(sigma) == list(range(8))
            out.append(sigma)
    assert len(out) == 24
    return out


def local_reorder(t, refdom_name, rng):
    """random admissible local vertex order of every cell"""
    t = t.copy()
    nt = t.shape[1]
    if refdom_name in ('RefTri', 'RefTet', 'RefLine'):
        for c in range(nt):
            t[:, c] = t[rng.permutation(t.shape[0]), c]
    elif refdom_name == 'RefQuad':
        for c in range(nt):
            t[:, c] = np.roll(t[:, c], int(rng.integers(0, 4)))
    elif refdom_name == 'RefHex':
        rots = hex_rotations()
        for c in range(nt):
            t[:, c] = t[rots[int(rng.integers(0, 24))], c]
    return t


def renumber(p, t, rng):
    """random vertex renumbering and cell permutation"""
    n = p.shape[1]
    perm = rng.permutation(n)            # new index of old vertex v is perm[v]
    p2 = np.empty_like(p)
    p2[:, perm] = p
    t2 = perm[t]
    t2 = t2[:, rng.permutation(t2.shape[1])]
    return p2, t2


# ------------------------------------------------------------------------------ meshes

def base_mesh(refdom_name, kind, rng, min_quality=0.0):
    """first-order (p, t) of a small mesh.  kinds: 'delaunay' (simplices), 'structured', 'jiggled'"""
    import skfem
    from scipy.spatial import Delaunay
    if refdom_name == 'RefLine':
        x = np.sort(rng.uniform(0, 1, int(rng.integers(4, 8))))
        x = np.unique(np.round(x, 3))
        m = skfem.MeshLine(x)
        return m.p.copy(), m.t.copy()
    if refdom_name in ('RefTri', 'RefTet'):
        d = 2 if refdom_name == 'RefTri' else 3
        if kind == 'delaunay':
            for _ in range(200):
                pts = np.round(rng.uniform(0, 1, (int(rng.integers(7, 11)) if d == 2 else int(rng.integers(7, 9)), d)), 3)
                tri = Delaunay(pts)
                t = tri.simplices.T.astype(np.int64)
                # drop slivers (well-conditioned inputs): volume and, when asked, the shape quality of every cell
                vol = np.abs(np.linalg.det(np.array([pts[t[k + 1]] - pts[t[0]] for k in range(d)]).transpose(1, 0, 2)))
                keep = vol > (2e-3 if d == 2 else 2e-4)
                if min_quality and d == 2:
                    e2 = sum(np.sum((pts[t[a]] - pts[t[b]]) ** 2, axis=1) for a, b in ((0, 1), (1, 2), (0, 2)))
                    keep &= (4 * np.sqrt(3) * 0.5 * vol / e2) >= min_quality
                t = t[:, keep]
                if t.shape[1] < 4:
                    continue
                used, inv = np.unique(t, return_inverse=True)
                t = inv.reshape(t.shape)
                pts = pts[used]
                # interior facets must exist
                from collections import Counter
                cnt = Counter(tuple(sorted(t[list(f), c])) for c in range(t.shape[1]) for f in itertools.combinations(range(d + 1), d))
                if sum(1 for v in cnt.values() if v == 2) >= 3:
                    return pts.T.copy(), t
            raise RuntimeError('no acceptable Delaunay mesh generated')
        if d == 2:
            m = skfem.MeshTri.init_tensor(np.linspace(0, 1, 3), np.linspace(0, 1, 3))
        else:
            m = skfem.MeshTet.init_tensor(np.linspace(0, 1, 3), np.linspace(0, 1, 2), np.linspace(0, 1, 2))
    elif refdom_name == 'RefQuad':
        m = skfem.MeshQuad.init_tensor(np.linspace(0, 1, 4), np.linspace(0, 1, 3))
    elif refdom_name == 'RefHex':
        m = skfem.MeshHex.init_tensor(np.linspace(0, 1, 3), np.linspace(0, 1, 3), np.linspace(0, 1, 2))
    elif refdom_name == 'RefWedge':
        m = skfem.MeshTri.init_tensor(np.linspace(0, 1, 3), np.linspace(0, 1, 2)) * skfem.MeshLine(np.linspace(0, 1, 3))
    else:
        raise ValueError(refdom_name)
    p, t = m.p.copy(), m.t.copy().astype(np.int64)
    if kind == 'jiggled':
        h = 0.08
        p = p + rng.uniform(-h, h, p.shape)
    return p, t


MESH1 = {'RefLine': 'MeshLine1', 'RefTri': 'MeshTri1', 'RefQuad': 'MeshQuad1', 'RefTet': 'MeshTet1', 'RefHex': 'MeshHex1',
         'RefWedge': 'MeshWedge1'}
MESH2 = {'RefTri': 'MeshTri2', 'RefQuad': 'MeshQuad2', 'RefTet': 'MeshTet2', 'RefHex': 'MeshHex2'}


def _min_tri_quality(m):
    """smallest shape quality 4*sqrt(3)*area / (sum of squared edge lengths) of the cells of a triangular mesh"""
    P = np.asarray(m.p)[:, np.asarray(m.t)[:3]]                  # (2, 3, nt): straight-sided corners
    a, b, c = P[:, 0], P[:, 1], P[:, 2]
    area = 0.5 * np.abs((b[0] - a[0]) * (c[1] - a[1]) - (b[1] - a[1]) * (c[0] - a[0]))
    e2 = ((a - b) ** 2).sum(0) + ((b - c) ** 2).sum(0) + ((a - c) ** 2).sum(0)
    return float((4 * np.sqrt(3) * area / e2).min())


# the float error of the ElementGlobal family (numerical inverse of a Vandermonde matrix in global coordinates) grows
# like h^-5 for the quintic Argyris element: measured worst scaled jump 1e-9 at h = 0.125, 1.4e-6 at h = 0.0275, 1.2e-4
# at h = 0.012 (seed 92, a twice refined Delaunay mesh - a false alarm of this oracle, corrected by this gate).  With
# h >= 0.04 the worst jump seen in 700 meshes is 4e-7, a factor 50 below GLOBAL_TOL; a real discontinuity is O(0.1).
MIN_GLOBAL_H = 0.04


def _min_tri_size(m):
    """sqrt(2 * area) of the smallest cell of a triangular mesh"""
    P = np.asarray(m.p)[:, np.asarray(m.t)[:3]]
    a, b, c = P[:, 0], P[:, 1], P[:, 2]
    return float(np.sqrt(np.abs((b[0] - a[0]) * (c[1] - a[1]) - (b[1] - a[1]) * (c[0] - a[0])).min()))


def make_mesh(refdom_name, kind, rng, reorder=True, renum=True, min_quality=0.0):
    """`_make_mesh`; when a minimal shape quality is asked for (the numerically conditioned ElementGlobal family) it
    holds for the cells of the FINAL mesh, not only of the base mesh, together with a minimal cell size MIN_GLOBAL_H:
    refinement chains make cells small (and bisection can halve angles), so such meshes are redrawn (the draw is part
    of the recorded input)"""
    if not min_quality or refdom_name != 'RefTri':
        return _make_mesh(refdom_name, kind, rng, reorder, renum, min_quality)
    for _ in range(60):
        m, desc = _make_mesh(refdom_name, kind, rng, reorder, renum, min_quality)
        if _min_tri_quality(m) >= 0.8 * min_quality and _min_tri_size(m) >= MIN_GLOBAL_H:
            return m, desc
    return _make_mesh(refdom_name, 'structured', rng, reorder, renum, min_quality)


def _make_mesh(refdom_name, kind, rng, reorder=True, renum=True, min_quality=0.0):
    """a mesh built through the DEFAULT constructor from randomly renumbered / locally reordered data.
    kind in {'delaunay','structured','jiggled','curved','adaptive'}; returns (mesh, description dict).
    'adaptive' (simplices): a LIBRARY-PRODUCED mesh — m.refined(random marked cells) of such a mesh, followed by a random
    chain of derived meshes (uniform refinement, translated, scaled, with_boundaries)"""
    import skfem
    if kind == 'adaptive':
        return _adaptive_mesh(refdom_name, rng, reorder, renum, min_quality)
    if kind in ('novalidate', 'unsorted'):
        return _special_simplex_mesh(refdom_name, kind, rng, min_quality)
    if kind == 'derived':
        return _derived_mesh(refdom_name, rng, min_quality)
    if kind == 'init':
        return _init_mesh(refdom_name, rng)
    base = 'jiggled' if kind == 'curved' else kind
    p, t = base_mesh(refdom_name, base, rng, min_quality=min_quality)
    if renum:
        p, t = renumber(p, t, rng)
    if reorder and refdom_name != 'RefWedge':
        t = local_reorder(t, refdom_name, rng)
    with warnings.catch_warnings():
        warnings.simplefilter('ignore')
        m = getattr(skfem, MESH1[refdom_name])(p, t)
        if kind == 'curved':
            M = getattr(skfem, MESH2[refdom_name]).from_mesh(m)
            dl = M.doflocs.copy()
            nv = m.p.shape[1]
            dl[:, nv:] += rng.uniform(-0.02, 0.02, dl[:, nv:].shape)
            m = type(M)(dl, M.t)
    return m, {'refdom': refdom_name, 'kind': kind, 'p': np.asarray(p).tolist(), 't': np.asarray(t).tolist(),
               'mesh_class': type(m).__name__}


def _special_simplex_mesh(refdom_name, kind, rng, min_quality):
    """'novalidate': the default constructor with validate=False (a public flag that must not influence the per-cell
    sorting) from randomly ordered connectivity, sort_t left at the class default, optionally refined;
    'unsorted': per-cell sorting explicitly OFF (MeshTri(p, t, sort_t=False) / m.oriented()) and meshes derived from it —
    inside the claim for elements with at most one DOF per facet / edge"""
    import skfem
    base = ['delaunay', 'structured', 'jiggled'][int(rng.integers(0, 3))]
    p, t = base_mesh(refdom_name, base, rng, min_quality=min_quality)
    p, t = renumber(p, t, rng)
    t = local_reorder(t, refdom_name, rng)
    cls = getattr(skfem, MESH1[refdom_name])
    how = []
    with warnings.catch_warnings():
        warnings.simplefilter('ignore')
        if kind == 'novalidate':
            m = cls(p, t, validate=False)
            how.append('validate=False')
        else:
            if rng.random() < 0.5:
                m = cls(p, t, sort_t=False)
                how.append('sort_t=False')
            else:
                m = cls(p, t).oriented()
                how.append('oriented()')
        r = rng.random()
        if r < 0.3 and m.t.shape[1] <= 30:
            m = m.refined()
            how.append('refined()')
        elif r < 0.6:
            m, op = _tagging_op(m, rng)
            how.append(op)
    return m, {'refdom': refdom_name, 'kind': kind, 'base': base, 'p': np.asarray(p).tolist(), 't': np.asarray(t).tolist(),
               'built_by': how, 'mesh_class': type(m).__name__}


DERIVING_OPS = ('mirrored', 'morphed', 'smoothed', 'restrict', 'remove_elements', 'copy', 'dict-roundtrip', 'npz-roundtrip',
                'remove_unused_nodes', 'remove_duplicate_nodes', 'mul-MeshLine-none')


def _derived_mesh(refdom_name, rng, min_quality):
    """a mesh obtained from a default-constructor mesh by the other public mesh-producing operations (API coverage):
    mirrored, morphed, smoothed, restrict / remove_elements, copy, to_dict/from_dict, save_npz/load_npz,
    remove_unused_nodes / remove_duplicate_nodes — optionally followed by a refinement"""
    import os
    import tempfile
    import skfem
    base = ['delaunay', 'structured', 'jiggled'][int(rng.integers(0, 3))]
    p, t = base_mesh(refdom_name, base, rng, min_quality=min_quality)
    p, t = renumber(p, t, rng)
    t = local_reorder(t, refdom_name, rng) if refdom_name in ('RefTri', 'RefTet', 'RefQuad', 'RefHex') else t
    cls = getattr(skfem, MESH1[refdom_name])
    d = p.shape[0]
    ops = []
    with warnings.catch_warnings():
        warnings.simplefilter('ignore')
        m = cls(p, t)
        for _ in range(int(rng.integers(1, 3))):
            op = DERIVING_OPS[int(rng.integers(0, len(DERIVING_OPS) - 1))]
            nt = m.t.shape[1]
            if op == 'mirrored' and nt <= 40:
                nrm = tuple(1.0 if k == 0 else 0.0 for k in range(d))
                m = m.mirrored(nrm, tuple(float(v) for v in (m.p.min(axis=1) - 0.25)))
            elif op == 'morphed':
                m = m.morphed(lambda q: q[0] + 0.05 * q[-1] ** 2, None)
            elif op == 'smoothed' and refdom_name in ('RefTri', 'RefTet'):
                m = m.smoothed()
            elif op in ('restrict', 'remove_elements') and nt >= 6:
                drop = np.sort(rng.choice(nt, size=max(1, nt // 5), replace=False))
                keep = np.setdiff1d(np.arange(nt), drop)
                m = m.restrict(keep) if op == 'restrict' else m.remove_elements(drop)
            elif op == 'copy':
                m = m.copy()
            elif op == 'dict-roundtrip':
                m = type(m).from_dict(m.to_dict())
            elif op == 'npz-roundtrip':
                with tempfile.TemporaryDirectory(prefix='c03_') as td:   # removed again: nothing is left under /tmp
                    fn = os.path.join(td, 'm.npz')
                    m.save_npz(fn)
                    m = type(m).load_npz(fn)
            elif op == 'remove_unused_nodes':
                m = m.remove_unused_nodes()
            elif op == 'remove_duplicate_nodes':
                m = m.remove_duplicate_nodes()
            else:
                continue
            ops.append(op)
        if rng.random() < 0.3 and m.t.shape[1] <= 30:
            m = m.refined()
            ops.append('refined()')
    return m, {'refdom': refdom_name, 'kind': 'derived', 'base': base, 'p': np.asarray(p).tolist(), 't': np.asarray(t).tolist(),
               'built_by': ops, 'mesh_class': type(m).__name__}


INIT_CONSTRUCTORS = {
    'RefTri': [('MeshTri', 'init_symmetric', ()), ('MeshTri', 'init_sqsymmetric', ()), ('MeshTri', 'init_lshaped', ()),
               ('MeshTri', 'init_circle', (1,)), ('MeshTri', 'init_refdom', ()), ('MeshTri2', 'init_circle', (1,))],
    'RefTet': [('MeshTet', 'init_ball', (1,)), ('MeshTet', 'init_refdom', ()), ('MeshTet2', 'init_ball', (1,))],
    'RefQuad': [('MeshQuad', 'init_refdom', ())],
    'RefHex': [('MeshHex', 'init_refdom', ())],
}


def _init_mesh(refdom_name, rng):
    """the library's named constructors (API coverage), refined once so that interior facets exist"""
    import skfem
    lst = INIT_CONSTRUCTORS[refdom_name]
    cname, meth, args = lst[int(rng.integers(0, len(lst)))]
    with warnings.catch_warnings():
        warnings.simplefilter('ignore')
        m = getattr(getattr(skfem, cname), meth)(*args)
        how = [f'{cname}.{meth}{args}']
        if np.count_nonzero(m.f2t[1] != -1) < 3 or rng.random() < 0.3:
            m = m.refined()
            how.append('refined()')
    return m, {'refdom': refdom_name, 'kind': 'init', 'p': m.p.tolist(), 't': m.t.tolist(), 'built_by': how,
               'mesh_class': type(m).__name__}


LAST_PARENT = {}      # the parent mesh of the last 'adaptive' mesh and the checksum of its arrays before it was derived from


def _tagging_op(m, rng):
    """a random public operation that returns a derived mesh with the same cells"""
    op = ['with_subdomains', 'with_boundaries', 'with_defaults', 'translated', 'scaled'][int(rng.integers(0, 5))]
    if op == 'with_subdomains':
        return m.with_subdomains({'low': lambda x: x[0] < 0.5}), op
    if op == 'with_boundaries':
        return m.with_boundaries({'left': lambda x: x[0] < 0.3}), op
    if op == 'with_defaults' and hasattr(m, 'with_defaults'):
        return m.with_defaults(), op
    if op == 'translated':
        return m.translated(tuple(float(v) for v in np.round(rng.uniform(-1, 1, m.p.shape[0]), 2))), op
    return m.scaled(tuple(float(v) for v in np.round(rng.uniform(0.5, 2, m.p.shape[0]), 2))), 'scaled'


def _adaptive_mesh(refdom_name, rng, reorder, renum, min_quality):
    import hashlib
    import skfem
    base = ['delaunay', 'structured', 'jiggled'][int(rng.integers(0, 3))]
    p, t = base_mesh(refdom_name, base, rng, min_quality=min_quality)
    if renum:
        p, t = renumber(p, t, rng)
    if reorder:
        t = local_reorder(t, refdom_name, rng)
    with warnings.catch_warnings():
        warnings.simplefilter('ignore')
        m0 = getattr(skfem, MESH1[refdom_name])(p, t)
        pre = []
        for _ in range(int(rng.integers(0, 3))):       # tagging / moving BEFORE the refinement
            m0, op = _tagging_op(m0, rng)
            pre.append(op)
        # the parent is used before it is derived from (connectivity tables built and cached) and again afterwards
        _ = m0.f2t, m0.t2f, m0.facets
        chk = hashlib.sha1(np.ascontiguousarray(m0.t).tobytes() + np.ascontiguousarray(m0.p).tobytes()).hexdigest()
        t_before = m0.t.copy()
        nt = m0.t.shape[1]
        marked = sorted(int(c) for c in rng.choice(nt, size=int(rng.integers(1, max(2, nt // 2 + 1))), replace=False))
        if rng.random() < 0.25 and nt <= 30:
            m, marked = m0.refined(), 'uniform'
        else:
            m = m0.refined(marked)
        ops = []
        for _ in range(int(rng.integers(0, 3))):
            if rng.random() < 0.5:
                m, op = _tagging_op(m, rng)
            elif rng.random() < 0.5 and m.t.shape[1] <= (40 if refdom_name == 'RefTri' else 30):
                m, op = m.refined(), 'uniform'
            elif m.t.shape[1] <= 60:
                mk = sorted(int(c) for c in rng.choice(m.t.shape[1], size=int(rng.integers(1, 4)), replace=False))
                m, op = m.refined(mk), f'adaptive{mk}'
            else:
                continue
            ops.append(op)
    desc = {'refdom': refdom_name, 'kind': 'adaptive', 'base': base, 'p': np.asarray(p).tolist(), 't': np.asarray(t).tolist(),
            'before_refinement': pre, 'marked': marked, 'derived_by': ops, 'mesh_class': type(m).__name__}
    LAST_PARENT.clear()
    LAST_PARENT.update({'mesh': m0, 'checksum': chk, 't_before': t_before, 'desc': dict(desc, kind='adaptive-parent')})
    return m, desc


def check_parent_untouched(report):
    """deriving a mesh must not change the mesh it was derived from (operand checksum of the parent's p and t)"""
    import hashlib
    if not LAST_PARENT:
        return True
    m0 = LAST_PARENT['mesh']
    now = hashlib.sha1(np.ascontiguousarray(m0.t).tobytes() + np.ascontiguousarray(m0.p).tobytes()).hexdigest()
    if now != LAST_PARENT['checksum']:
        d = LAST_PARENT['desc']
        changed = np.nonzero(np.any(m0.t != LAST_PARENT['t_before'], axis=0))[0]
        report(f'mesh={type(m0).__name__}:parent-mutated-by-refined',
               f'{type(m0).__name__}.refined({d.get("marked")}) changed the connectivity of the mesh it was called on '
               f'({len(changed)} cells, first {changed[:3].tolist()}: {LAST_PARENT["t_before"][:, changed[:1]].T.tolist()} -> '
               f'{m0.t[:, changed[:1]].T.tolist()}); its cached facet tables are stale',
               dict(d, changed_cells=changed[:10].tolist()))
        return False
    return True


def check_sorted(mesh, desc, report):
    """T3 tie of part (b): a triangle mesh the library produces from a MeshTri1 (whose cells are sorted by the
    constructor) must again have sort_t on and strictly ascending cell columns"""
    if type(mesh).__name__ != 'MeshTri1':
        return True
    ok = bool(getattr(mesh, 'sort_t', False)) and bool(np.all(np.diff(mesh.t, axis=0) > 0))
    desc = dict(desc)
    if not ok:
        bad = np.nonzero(~np.all(np.diff(mesh.t, axis=0) > 0, axis=0))[0]
        report('mesh=MeshTri1:library-produced-mesh-unsorted',
               f'MeshTri1 produced by ' + (f'{desc["built_by"]}' if 'built_by' in desc else
                                           f'{desc.get("before_refinement")} + refined({desc.get("marked")}) + {desc.get("derived_by")}')
               + f' has sort_t={getattr(mesh, "sort_t", None)} and '
               f'{len(bad)} cells whose vertices are not ascending (first: {mesh.t[:, bad[:1]].T.tolist()})',
               dict(desc, unsorted_cells=bad[:10].tolist()))
    return ok


# ------------------------------------------------------------------------------ claims

def claims():
    """label -> (factory, refdom name, continuity kind, mesh kinds, options).  continuity kinds:
    'value' (H1), 'value+grad' (C1), 'normal' (H(div)), 'tangential' (H(curl)), 'normal-normal' (HHJ),
    'midpoint' / 'morley' / 'plate15' (non-conforming: defining functionals only)"""
    import skfem.element as E
    C = {}
    allk = ('delaunay', 'structured', 'jiggled', 'curved', 'adaptive', 'novalidate', 'derived', 'init')
    gk = ('delaunay', 'structured', 'jiggled', 'adaptive', 'novalidate', 'derived')
    anyorder = allk + ('unsorted',)      # at most one DOF per facet / edge: conforming for ANY vertex order
    quadk = ('structured', 'jiggled', 'curved', 'derived')

    def add(label, f, kind, kinds, **opt):
        C[label] = (f, kind, kinds, opt)
    for n in ('ElementTriP1', 'ElementTriP2', 'ElementTriP3', 'ElementTriP4', 'ElementTriP1B', 'ElementTriP2B',
              'ElementTetP1', 'ElementTetP2', 'ElementTetMini', 'ElementTetCCR'):
        add(n, getattr(E, n), 'value', allk if n in ('ElementTriP3', 'ElementTriP4') else anyorder)
    for n in ('ElementQuad1', 'ElementQuad2', 'ElementQuadS2', 'ElementHex1', 'ElementHex2', 'ElementHexS2'):
        add(n, getattr(E, n), 'value', quadk)
    for n in ('ElementLineP1', 'ElementLineP2', 'ElementLineMini'):
        add(n, getattr(E, n), 'value', ('structured',))
    add('ElementWedge1', E.ElementWedge1, 'value', ('structured',))
    for p in range(1, 6):
        add(f'ElementLinePp({p})', (lambda p=p: E.ElementLinePp(p)), 'value', ('structured',))
        add(f'ElementQuadP({p})', (lambda p=p: E.ElementQuadP(p)), 'value', quadk)
    for n in ('ElementTriRT1', 'ElementTriRT2', 'ElementTriBDM1', 'ElementTetRT1'):
        add(n, getattr(E, n), 'normal', anyorder if n in ('ElementTriRT1', 'ElementTetRT1') else allk)
    for n in ('ElementQuadRT1', 'ElementHexRT1'):
        add(n, getattr(E, n), 'normal', quadk)
    for n in ('ElementTriN1', 'ElementTriN2', 'ElementTriN3', 'ElementTetN1'):
        add(n, getattr(E, n), 'tangential', anyorder if n in ('ElementTriN1', 'ElementTetN1') else allk)
    add('ElementQuadN1', E.ElementQuadN1, 'tangential', quadk)
    for n in ('ElementTriHHJ0', 'ElementTriHHJ1'):
        add(n, getattr(E, n), 'normal-normal', gk)
    # globally defined elements: affine first-order meshes (their gdof use vertex / midpoint / normal data)
    for n in ('ElementTriHermite', 'ElementTriP1G', 'ElementTriP2G'):
        add(n, getattr(E, n), 'value', gk, tol=GLOBAL_TOL)
    add('ElementTriArgyris', E.ElementTriArgyris, 'value+grad', gk, tol=GLOBAL_TOL)
    add('ElementQuad2G', E.ElementQuad2G, 'value', ('structured',), tol=GLOBAL_TOL)
    add('ElementQuadBFS', E.ElementQuadBFS, 'value+grad', ('structured',), no_reorder=True, tol=GLOBAL_TOL)
    add('ElementHexC1', E.ElementHexC1, 'value+grad', ('structured',), no_reorder=True, tol=GLOBAL_TOL, heavy=True)
    add('ElementLineHermite', E.ElementLineHermite, 'value+grad', ('structured',), tol=GLOBAL_TOL)
    # non-conforming: defining functionals only
    add('ElementTriCR', E.ElementTriCR, 'midpoint', ('delaunay', 'structured', 'jiggled'))
    add('ElementTetCR', E.ElementTetCR, 'midpoint', ('delaunay', 'structured', 'jiggled'))
    add('ElementTriMorley', E.ElementTriMorley, 'morley', ('delaunay', 'structured', 'jiggled'), tol=GLOBAL_TOL)
    add('ElementTri15ParamPlate', E.ElementTri15ParamPlate, 'plate15', ('delaunay', 'structured', 'jiggled'), tol=GLOBAL_TOL)
    # wrappers
    add('ElementVector(ElementTriP2)', lambda: E.ElementVector(E.ElementTriP2()), 'value', allk)
    add('ElementVector(ElementTetP2)', lambda: E.ElementVector(E.ElementTetP2()), 'value', ('delaunay', 'curved', 'adaptive'))
    add('ElementVector(ElementQuad2)', lambda: E.ElementVector(E.ElementQuad2()), 'value', quadk)
    add('ElementComposite(TriP3,TriP1)', lambda: E.ElementComposite(E.ElementTriP3(), E.ElementTriP1()), 'value', allk)
    add('ElementComposite(TriRT2,TriP1)', lambda: E.ElementComposite(E.ElementTriRT2(), E.ElementTriP1()), 'normal|value', allk)
    return C


NOT_CLAIMED = {
    'ElementTriP0': 'piecewise constant', 'ElementQuad0': 'piecewise constant', 'ElementTetP0': 'piecewise constant',
    'ElementHex0': 'piecewise constant', 'ElementLineP0': 'piecewise constant',
    'ElementTriP1DG': 'discontinuous by construction', 'ElementQuad1DG': 'discontinuous by construction',
    'ElementHex1DG': 'discontinuous by construction', 'ElementLineP1DG': 'discontinuous by construction',
    'ElementDG': 'discontinuous by construction',
    'ElementTriSkeletonP0': 'skeleton (facet) element', 'ElementTriSkeletonP1': 'skeleton (facet) element',
    'ElementTetSkeletonP0': 'skeleton (facet) element', 'ElementHexSkeleton0': 'skeleton (facet) element',
}


# ------------------------------------------------------------------------------ evaluation

def facet_points(refdom_name, kind):
    """quadrature points on the reference facet used for the comparison (weights irrelevant)"""
    if refdom_name == 'RefLine':
        return np.zeros((1, 1)), np.ones(1)       # 0-dimensional facets: a single point
    if refdom_name in ('RefTri', 'RefQuad'):
        if kind == 'midpoint':
            X = np.array([[0.5]])
        elif kind in ('morley', 'plate15'):
            X = np.array([[0.0, 0.5, 1.0]])
        else:
            X = np.array([[0.0, 0.13, 0.5, 0.77, 1.0]])
        return X, np.ones(X.shape[1])
    if refdom_name == 'RefTet':
        if kind == 'midpoint':
            X = np.array([[1 / 3], [1 / 3]])
        else:
            X = np.array([[0.0, 1.0, 0.0, 0.2, 0.5, 0.1], [0.0, 0.0, 1.0, 0.3, 0.5, 0.6]])
        return X, np.ones(X.shape[1])
    # quadrilateral facets
    X = np.array([[0.0, 1.0, 1.0, 0.0, 0.3, 0.5, 0.9], [0.0, 0.0, 1.0, 1.0, 0.6, 0.5, 0.2]])
    return X, np.ones(X.shape[1])


def _sides_via_basis(mesh, elem_factory, quad):
    from skfem.assembly import InteriorFacetBasis
    out = []
    for side in (0, 1):
        out.append(InteriorFacetBasis(mesh, elem_factory(), side=side, quadrature=quad))
    return out


def _interp_manual(mesh, elem_factory, quad, x, xg=None):
    """facet by facet, cell by cell, with shared 2-d local points (fallback when the facet basis raises; the only
    path for wedge meshes, which have no facet mapping: there the points are the facet vertices and their mean)"""
    from skfem.assembly import CellBasis
    from skfem.element import DiscreteField
    mapping = mesh._mapping()
    cb = CellBasis(mesh, elem_factory(), intorder=1)
    find = np.nonzero(mesh.f2t[1] != -1)[0]
    if xg is None:
        xg = mapping.G(quad[0], find=find)               # (d, nfacets, npts)
    res = []
    for side in (0, 1):
        vals, normals = None, None
        comps = None
        for k, f in enumerate(find):
            c = int(mesh.f2t[side, f])
            Y = mapping.invF(xg[:, k:k + 1, :], tind=np.array([c]))[:, 0, :]
            e = elem_factory()
            acc = None
            for i in range(cb.Nbfun):
                g = e.gbasis(mapping, Y, i, tind=np.array([c]))
                w = x[cb.element_dofs[i, c]]
                if acc is None:
                    acc = [{'value': w * np.asarray(gc), **{n: w * np.asarray(getattr(gc, n)) for n in ('grad',) if getattr(gc, n, None) is not None}} for gc in g]
                else:
                    for a, gc in zip(acc, g):
                        a['value'] = a['value'] + w * np.asarray(gc)
                        if 'grad' in a:
                            a['grad'] = a['grad'] + w * np.asarray(gc.grad)
            if comps is None:
                comps = [[] for _ in acc]
            for lst, a in zip(comps, acc):
                lst.append(a)
        fields = []
        for lst in comps:
            val = np.concatenate([a['value'] for a in lst], axis=-2)
            kw = {}
            if 'grad' in lst[0]:
                kw['grad'] = np.concatenate([a['grad'] for a in lst], axis=-2)
            fields.append(DiscreteField(val, **kw))
        res.append(tuple(fields))
    # normals of side 0, as the library defines them
    if quad is None:
        return res, None, find
    Y0 = mapping.invF(xg, tind=mesh.f2t[0, find])
    nrm = mapping.normals(Y0, mesh.f2t[0, find], find, mesh.t2f)
    return res, nrm, find


def fail_key(label, what):
    """stable key of a failure: one key for the whole family ElementQuadP(p>=3) (finding F9)"""
    import re
    m = re.match(r'ElementQuadP\((\d+)\)$', label)
    if m and int(m.group(1)) >= 3:
        label = 'ElementQuadP(p>=3)'
    return f'elem={label}:{what}'


def jumps(mesh, label, elem_factory, kind, rng, report, desc, tol=TOL):
    """evaluate a random coefficient vector from both sides of all interior facets; report jumps > TOL.
    Returns (number of scalar comparisons, max scaled jump)."""
    rd = mesh.elem.refdom.__name__ if hasattr(mesh.elem, 'refdom') else None
    rd = type(mesh).refdom.__name__ if rd is None else rd
    kinds = kind.split('|')
    quad = facet_points(rd, kinds[0])
    find = np.nonzero(mesh.f2t[1] != -1)[0]
    if len(find) == 0:
        return 0, 0.0
    fallback = False
    if rd == 'RefWedge':
        # no facet mapping exists for wedge meshes (mixed facets): evaluate at the facet vertices and their mean
        from skfem.assembly import CellBasis
        fv = mesh.facets[:, find]                                   # (4, nf), triangles repeat the last index
        P = mesh.p[:, fv]                                           # (3, 4, nf)
        mid = P[:, :3].mean(axis=1, keepdims=True) if False else np.stack([P[:, :, k][:, np.unique(fv[:, k], return_index=True)[1]].mean(axis=1)
                                                                            for k in range(fv.shape[1])], axis=1)[:, None, :]
        xg = np.concatenate([0.5 * (P + mid), mid], axis=1).transpose(0, 2, 1)   # (3, nf, 5): planar facets (structured mesh)
        cb = CellBasis(mesh, elem_factory(), intorder=1)
        x = rng.uniform(-1, 1, cb.N)
        (u0, u1), nrm, find = _interp_manual(mesh, elem_factory, None, x, xg=xg)
        return _compare(mesh, label, kinds, u0, u1, nrm, find, x, report, desc, tol)
    try:
        with warnings.catch_warnings():
            warnings.simplefilter('ignore')
            b0, b1 = _sides_via_basis(mesh, elem_factory, quad)
        x = rng.uniform(-1, 1, b0.N)
        u0, u1 = b0.interpolate(x), b1.interpolate(x)
        if not isinstance(u0, tuple):
            u0, u1 = (u0,), (u1,)
        nrm = np.asarray(b0.normals)
    except Exception as ex:  # noqa: the facet basis of the library raised: report, then evaluate by hand
        import traceback
        report(fail_key(label, 'facet-basis-exception'),
               f'InteriorFacetBasis(mesh, {label}) raised {type(ex).__name__}: {ex}',
               dict(desc, element=label, traceback=traceback.format_exc()[-1200:]))
        fallback = True
    if fallback:
        from skfem.assembly import CellBasis
        cb = CellBasis(mesh, elem_factory(), intorder=1)
        x = rng.uniform(-1, 1, cb.N)
        (u0, u1), nrm, find = _interp_manual(mesh, elem_factory, quad, x)
    return _compare(mesh, label, kinds, u0, u1, nrm, find, x, report, desc, tol)


def _compare(mesh, label, kinds, u0, u1, nrm, find, x, report, desc, tol):
    ncmp, worst = 0, 0.0
    for comp, (a, b) in enumerate(zip(u0, u1)):
        ck = kinds[min(comp, len(kinds) - 1)]
        va, vb = np.asarray(a), np.asarray(b)
        scale = max(1.0, float(np.max(np.abs(va))))
        d = va - vb
        checks = []
        if ck in ('value', 'value+grad', 'midpoint'):
            checks.append(('value', d))
        if ck == 'value+grad':
            ga, gb = np.asarray(a.grad), np.asarray(b.grad)
            checks.append(('grad', ga - gb))
            scale = max(scale, float(np.max(np.abs(ga))))
        if ck == 'normal':
            checks.append(('normal-component', np.einsum('ijk,ijk->jk', d, nrm)))
        if ck == 'tangential':
            if d.shape[0] == 2:
                checks.append(('tangential-component', d[0] * nrm[1] - d[1] * nrm[0]))
            else:
                checks.append(('tangential-component', np.cross(d, nrm, axis=0)))
        if ck == 'normal-normal':
            checks.append(('normal-normal-component', np.einsum('ijkl,ikl,jkl->kl', d, nrm, nrm)))
        if ck == 'morley':      # vertex values (points 0 and 2), normal derivative at the midpoint (point 1)
            checks.append(('vertex-value', d[..., [0, 2]]))
            gd = np.asarray(a.grad) - np.asarray(b.grad)
            checks.append(('midpoint-normal-derivative', np.einsum('ijk,ijk->jk', gd, nrm)[..., [1]]))
            scale = max(scale, float(np.max(np.abs(np.asarray(a.grad)))))
        if ck == 'plate15':     # vertex values and gradients, midpoint value and normal derivative
            gd = np.asarray(a.grad) - np.asarray(b.grad)
            checks.append(('vertex-value', d[..., [0, 2]]))
            checks.append(('vertex-gradient', gd[..., [0, 2]]))
            checks.append(('midpoint-value', d[..., [1]]))
            checks.append(('midpoint-normal-derivative', np.einsum('ijk,ijk->jk', gd, nrm)[..., [1]]))
            scale = max(scale, float(np.max(np.abs(np.asarray(a.grad)))))
        for nm, j in checks:
            j = np.asarray(j, dtype=float)
            ncmp += j.size
            err = float(np.max(np.abs(j))) / scale if j.size else 0.0
            worst = max(worst, err)
            if not err <= tol:
                idx = np.unravel_index(int(np.argmax(np.abs(j))), j.shape)
                fpos = idx[-2] if j.ndim >= 2 else 0
                f = int(find[fpos])
                report(fail_key(label, f'{nm}-jump'),
                       f'{label} on {type(mesh).__name__} ({desc["kind"]}): jump of {nm} across interior facet {f} '
                       f'(cells {mesh.f2t[:, f].tolist()}) is {float(j[idx])!r} (scaled {err:.3g})',
                       dict(desc, element=label, field=nm, facet=f, cells=mesh.f2t[:, f].tolist(), jump=float(j[idx]),
                            coefficients=x.tolist(), component=comp))
    return ncmp, worst
