"""C08: writer of the generated Coq files (rule literals, per-rule checks, the assembled table)."""
from .c08_dump import COQ_ID, SHAPE, MAX_POINTS, as_ints
from . import c08_oracle as orc

HDR = ('From Coq Require Import ZArith List QArith Qabs Bool Arith Lia.\n'
       'Require Import Base.Corr Model.C08_Rules Proofs.C08_RulesProofs Proofs.C08_TensorProofs.\n'
       'Import ListNotations.\n')

PRIMITIVE = ['RefPoint', 'RefLine', 'RefTri', 'RefTet']
# (factor 1, factor 2): the rule of the cell is compared with tensor(rule of f1, rule of f2) for the same n
TENSOR = {'RefQuad': ('RefLine', 'RefLine'), 'RefHex': ('RefQuad', 'RefLine'), 'RefWedge': ('RefTri', 'RefLine')}
# tolerance with which the rules of a cell are established internally (all imply tol45)
TOLINT = {'RefPoint': 'tol48', 'RefLine': 'tol48', 'RefTri': 'tol46', 'RefTet': 'tol46',
          'RefQuad': 'tolq', 'RefHex': 'tol45', 'RefWedge': 'tol45'}
DELTA = 'delta50'
UNIT_SECONDS = 43e-6     # measured: seconds per (61-bit limb)^2 product step in vm_compute
PART_SECONDS = 3.0


def zlit(z):
    return f'({z})' if z < 0 else str(z)


def coq_shape(cell):
    return '[' + '; '.join(f'{d}%nat' for d in SHAPE[cell]) + ']'


def rname(cell, n):
    return f'r_{COQ_ID[cell]}_{"m" if n < 0 else ""}{abs(n)}'


def sfx(cell, n):
    return f'{COQ_ID[cell]}_{"m" if n < 0 else ""}{abs(n)}'


def rule_literal(name, nodes_int, kx, kw):
    body = ';\n  '.join('([' + '; '.join(zlit(x) for x in xs) + '], ' + zlit(w) + ')' for xs, w in nodes_int)
    return f'Definition {name} : drule := mkR (Pos.shiftl 1 {kx}) (Pos.shiftl 1 {kw}) [\n  {body}\n]%Z.\n'


def groups_of(dumps, cell):
    """orders of one cell that returned the identical rule -> {representative (largest n): [orders]}"""
    by = {}
    for (c, n), d in sorted(dumps.items()):
        if c == cell and d.kind == 'rule' and len(d.nodes) <= MAX_POINTS:
            by.setdefault(tuple(d.nodes), []).append(n)
    return {max(ns): sorted(ns) for ns in by.values()}


def mono_cost(es):
    s, c = 1, 0
    for e in es:
        if e:
            c += s * e
            s += e
    return c + 1


def plan_parts(cell, n_adv, nq):
    """split the monomial list of a primitive rule into index ranges of about PART_SECONDS each"""
    ms = orc.monos(SHAPE[cell], n_adv)
    costs = [mono_cost(es) * nq * UNIT_SECONDS for es in ms]
    total = sum(costs)
    nparts = max(1, int(total / PART_SECONDS + 0.999))
    target = total / nparts
    parts, start, acc = [], 0, 0.0
    for i, c in enumerate(costs):
        acc += c
        if acc >= target and len(parts) < nparts - 1:
            parts.append((start, i + 1 - start, acc))
            start, acc = i + 1, 0.0
    parts.append((start, len(ms) - start, acc))
    return [p for p in parts if p[1] > 0], len(ms)


def pack(jobs, nfiles):
    """jobs: list of (cost, text); longest-processing-time packing into at most nfiles files"""
    bins = [[0.0, []] for _ in range(max(1, nfiles))]
    for cost, text in sorted(jobs, key=lambda j: -j[0]):
        b = min(bins, key=lambda b: b[0])
        b[0] += cost
        b[1].append(text)
    return [b for b in bins if b[1]]
