"""C08: writer of the generated Coq files (rule literals, per-rule checks, the assembled table)."""
from .c08_dump import COQ_ID, SHAPE, MAX_POINTS
from . import c08_oracle as orc

HDR = ('From Coq Require Import ZArith List QArith Qabs Bool Arith Lia.\n'
       'Require Import Base.Corr Model.C08_Rules Proofs.C08_RulesProofs Proofs.C08_TensorProofs Proofs.C08_FastProofs.\n'
       'Import ListNotations.\n')

PRIMITIVE = ['RefPoint', 'RefLine', 'RefTri', 'RefTet']
# (factor 1, factor 2): the rule of the cell is compared with tensor(rule of f1, rule of f2) for the same n
TENSOR = {'RefQuad': ('RefLine', 'RefLine'), 'RefHex': ('RefQuad', 'RefLine'), 'RefWedge': ('RefTri', 'RefLine')}
DELTA = 'delta50'
PART_SECONDS = 3.0


def zlit(z):
    return f'({z})' if z < 0 else str(z)


def coq_shape(cell):
    return '[' + '; '.join(f'{d}%nat' for d in SHAPE[cell]) + ']'


def rname(cell, n):
    return f'r_{COQ_ID[cell]}_{"m" if n < 0 else ""}{abs(n)}'


def sfx(cell, n):
    return f'{COQ_ID[cell]}_{"m" if n < 0 else ""}{abs(n)}'


def rule_literal(name, nodes_int, kx, kw, dictname=None, index=None):
    """a rule as Coq term; with a dictionary the coordinates are written as indices into it"""
    if dictname is None:
        body = ';\n  '.join('([' + '; '.join(zlit(x) for x in xs) + '], ' + zlit(w) + ')' for xs, w in nodes_int)
        return f'Definition {name} : drule := mkR (Pos.shiftl 1 {kx}) (Pos.shiftl 1 {kw}) [\n  {body}\n]%Z.\n'
    body = ';\n  '.join('([' + '; '.join(f'{index[x]}%N' for x in xs) + '], ' + zlit(w) + ')' for xs, w in nodes_int)
    return (f'Definition {name} : drule := mkR (Pos.shiftl 1 {kx}) (Pos.shiftl 1 {kw}) (decode {dictname} [\n  {body}\n]%Z).\n')


def dict_literal(name, values):
    return f'Definition {name} : list Z := [' + '; '.join(zlit(v) for v in values) + ']%Z.\n'


def groups_of(dumps, cell):
    """orders of one cell that returned the identical rule -> {representative (largest n): [orders]}"""
    by = {}
    for (c, n), d in sorted(dumps.items()):
        if c == cell and d.kind == 'rule' and len(d.nodes) <= MAX_POINTS:
            by.setdefault(tuple(d.nodes), []).append(n)
    return {max(ns): sorted(ns) for ns in by.values()}


def plan_parts(cell, n_adv, nq):
    """split the monomial list of a directly checked rule into index ranges of about PART_SECONDS each
    (cost model of the fast checker, measured: ~0.1 ms per coordinate and (monomial, node) pair)"""
    dim = sum(SHAPE[cell])
    nmon = orc.n_monos(SHAPE[cell], n_adv)
    per = nq * (60e-6 + 100e-6 * dim)
    table = nq * dim * n_adv * 60e-6
    total = nmon * per + table
    nparts = max(1, int(total / PART_SECONDS + 0.999))
    size = -(-nmon // nparts)
    parts = []
    start = 0
    while start < nmon:
        ln = min(size, nmon - start)
        parts.append((start, ln, ln * per + table))
        start += ln
    return parts, nmon


def pack(jobs, nfiles):
    """jobs: list of (cost, text); longest-processing-time packing into at most nfiles files"""
    bins = [[0.0, []] for _ in range(max(1, nfiles))]
    for cost, text in sorted(jobs, key=lambda j: -j[0]):
        b = min(bins, key=lambda b: b[0])
        b[0] += cost
        b[1].append(text)
    return [b for b in bins if b[1]]
