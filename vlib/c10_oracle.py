"""C10 — failing-input search on real meshes of every class (straight and curved second-order).

For each mesh: its default mapping (affine for simplices, isoparametric otherwise) and, on straight simplices, BOTH
implementations.  Checks (tolerances for well-shaped cells with O(1) coordinates; observed maxima go to the evidence):
  layouts      F / DF / invDF / detDF give the same values for shared (dim x npts) and per-cell (dim x ncells x npts)
               points and for every tind (None, subset, permuted subset with repetition); G / detDG likewise for find
  round trip   invF(F(X)) == X and F(invF(x)) == x                       (1e-11: includes the Newton iteration of the
               isoparametric inverse, whose convergence is a runtime property)
  jacobian     DF == central finite difference of F (1e-6), invDF DF == I (1e-10), detDF == numpy.linalg.det(DF) (1e-10)
  facet map    G(X, f) == F(Y, cell) with Y = invF(G) on the local facet t2f^-1(f) of the reference cell (1e-11),
               detDG == norm of the Gram determinant of the finite-difference tangents (1e-6)
  normals      unit (1e-12), orthogonal to the facet tangents (1e-6), outward
  divergence   boundary integral of x.n == d * volume (1e-10 relative)
  affine==iso  on straight simplices every method of MappingAffine and MappingIsoparametric agrees (1e-11)
"""
import numpy as np

STAT = {}


def _upd(kind, v):
    STAT[kind] = max(STAT.get(kind, 0.0), float(v))


TOL = {'facet_basis_normal': 1e-6, 'layouts': 1e-13, 'round_trip': 1e-11, 'fd_jacobian': 1e-6, 'inverse_jacobian': 1e-10, 'det': 1e-10, 'facet_map': 1e-11,
       'surface_factor': 1e-6, 'normal_unit': 1e-12, 'normal_orthogonal': 1e-6, 'divergence': 1e-10, 'affine_iso': 1e-11}


def _check(ctx, kind, key, err, data):
    err = float(err)
    _upd(kind, err)
    if not err <= TOL[kind]:
        ctx.fail(key, f'{kind}: discrepancy {err:.3e} > {TOL[kind]:g}', dict(data, kind=kind, discrepancy=err))


def _jiggle(m, rng, amp):
    p = m.p.copy()
    if hasattr(m, 'interior_nodes'):
        ib = m.interior_nodes()
    else:
        ib = np.arange(p.shape[1])
    h = 1.0 / max(2.0, m.t.shape[1] ** (1.0 / p.shape[0]))
    p[:, ib] += amp * h * (rng.random((p.shape[0], len(ib))) - 0.5)
    return type(m)(p, m.t)


def _curve(m2, rng, amp):
    """perturb the non-vertex nodes of a second-order mesh: curved edges / faces"""
    import skfem as fe
    p = m2.doflocs.copy()
    nv = int(m2.t.max()) + 1
    h = 1.0 / max(2.0, m2.t.shape[1] ** (1.0 / p.shape[0]))
    p[:, nv:] += amp * h * (rng.random((p.shape[0], p.shape[1] - nv)) - 0.5)
    return type(m2)(p, m2.t)


def meshes(ctx, rng):
    import skfem as fe
    out = []
    xs = np.sort(np.concatenate([[0., 1.], rng.random(4)]))
    out.append(('MeshLine1', fe.MeshLine(xs)))
    # cells traversed in DESCENDING direction (negative Jacobian): points listed right to left, reversed connectivity, mirrored mesh
    out.append(('MeshLine1-descending', fe.MeshLine(xs[::-1].copy())))
    out.append(('MeshLine1-reversed-t', fe.MeshLine1(xs[None, :].copy(), np.array([np.arange(1, len(xs)), np.arange(0, len(xs) - 1)]))))
    out.append(('MeshLine1-mirrored', fe.MeshLine(xs).mirrored((1.,))))
    out.append(('MeshTri1', _jiggle(fe.MeshTri.init_sqsymmetric().refined(1), rng, 0.4)))
    out.append(('MeshTri1-unsorted', fe.MeshTri(np.array([[0., 1., 0., 1.3], [0., 0., 1., 1.1]]), np.array([[1, 3], [0, 1], [2, 2]]), sort_t=False)
                if _accepts_sort_t(fe.MeshTri) else _jiggle(fe.MeshTri().refined(1), rng, 0.3)))
    out.append(('MeshQuad1', _jiggle(fe.MeshQuad().refined(2), rng, 0.4)))
    out.append(('MeshTet1', _jiggle(fe.MeshTet().refined(1), rng, 0.3)))
    out.append(('MeshHex1', _jiggle(fe.MeshHex().refined(1), rng, 0.3)))
    out.append(('MeshTri2', _curve(fe.MeshTri2.init_circle() if hasattr(fe.MeshTri2, 'init_circle') else fe.MeshTri2(), rng, 0.15)))
    out.append(('MeshQuad2', _curve(fe.MeshQuad2().refined(1) if hasattr(fe.MeshQuad2(), 'refined') else fe.MeshQuad2(), rng, 0.2)))
    out.append(('MeshTet2', _curve(fe.MeshTet2(), rng, 0.15)))
    out.append(('MeshHex2', _curve(fe.MeshHex2.from_mesh(fe.MeshHex.init_tensor(np.array([0., .5, 1.]), np.array([0., 1.]), np.array([0., 1.]))),
                                   rng, 0.15)))
    if hasattr(fe, 'MeshWedge1'):
        out.append(('MeshWedge1', fe.MeshWedge1()))
    if not ctx.quick():
        out.append(('MeshTri1-big', _jiggle(fe.MeshTri().refined(3), rng, 0.4)))
        out.append(('MeshTet1-big', _jiggle(fe.MeshTet().refined(2), rng, 0.3)))
        out.append(('MeshTri2-refined', _curve(fe.MeshTri2().refined(2), rng, 0.2)))
        out.append(('MeshHex2-refined', _curve(fe.MeshHex2().refined(1), rng, 0.1)))
    return out


def _accepts_sort_t(cls):
    try:
        import dataclasses
        return any(f.name == 'sort_t' for f in dataclasses.fields(cls))
    except Exception:  # noqa: BLE001
        return False


def _ref_points(refdom, rng, npts, shape_cells=None):
    """random points strictly inside the reference cell: convex combinations of its vertices"""
    V = refdom.p                                   # dim x nverts
    shp = (npts,) if shape_cells is None else (shape_cells, npts)
    lam = rng.random(shp + (V.shape[1],)) + 0.15
    lam /= lam.sum(-1, keepdims=True)
    X = np.einsum('...v,iv->i...', lam, V)
    return X


def _subsets(rng, n):
    yield None
    yield np.sort(rng.choice(n, size=max(1, n // 2), replace=False)).astype(np.int32)
    yield rng.choice(n, size=min(n, 5), replace=True).astype(np.int32)


def check_mapping(ctx, name, m, mp, rng, label, cells_only=False):
    dim = m.dim()
    refdom = m.elem.refdom
    nt = m.t.shape[1]
    npts = 3
    desc = {'mesh': name, 'mapping': label, 'doflocs': m.doflocs.tolist(), 't': m.t.tolist()}
    Xs = _ref_points(refdom, rng, npts)
    Fs = mp.F(Xs)
    DFs, iDFs, dDFs = mp.DF(Xs), mp.invDF(Xs), mp.detDF(Xs)
    # ---- layouts and subsets
    for tind in _subsets(rng, nt):
        cells = np.arange(nt) if tind is None else tind
        tag = 'None' if tind is None else ('sorted' if np.all(np.diff(tind) > 0) else 'repeated')
        key = f'layout:{label}:{name}:tind={tag}'
        ctx.count(('layout', name, label, tag), nontrivial=dim >= 2)
        Xp = np.broadcast_to(Xs[:, None, :], (dim, len(cells), npts)).copy()
        for lay, X in (('shared', Xs), ('per-cell', Xp)):
            d2 = dict(desc, tind=None if tind is None else tind.tolist(), layout=lay)
            try:
                F, DF, iDF, dDF = mp.F(X, tind=tind), mp.DF(X, tind=tind), mp.invDF(X, tind=tind), mp.detDF(X, tind=tind)
            except Exception as e:  # noqa: BLE001 - an exception on a documented argument form is a failing input
                ctx.fail(key + ':' + lay, f'{label} raises {type(e).__name__} for {lay} points with tind={tag}: {e}', d2)
                continue
            ok_shape = F.shape == (dim, len(cells), npts) and DF.shape == (dim, dim, len(cells), npts) and dDF.shape == (len(cells), npts)
            if not ok_shape:
                ctx.fail(key + ':' + lay, f'{label}: wrong result shapes F{F.shape} DF{DF.shape} detDF{dDF.shape}', d2)
                continue
            _check(ctx, 'layouts', key + ':' + lay, max(np.abs(F - Fs[:, cells]).max(), np.abs(DF - DFs[:, :, cells]).max(),
                                                   np.abs(iDF - iDFs[:, :, cells]).max() / (1 + np.abs(iDFs).max()),
                                                   np.abs(dDF - dDFs[cells]).max()), d2)
        # ---- round trips (per-cell random points so that every cell gets its own)
        Xr = _ref_points(refdom, rng, npts, len(cells))
        d2 = dict(desc, tind=None if tind is None else tind.tolist())
        try:
            x = mp.F(Xr, tind=tind)
            Xb = mp.invF(x, tind=tind)
            _check(ctx, 'round_trip', f'round-trip:{label}:{name}', np.abs(Xb - Xr).max(), d2)
            xb = mp.F(Xb, tind=tind)
            _check(ctx, 'round_trip', f'round-trip:{label}:{name}', np.abs(xb - x).max(), d2)
        except Exception as e:  # noqa: BLE001
            ctx.fail(f'round-trip:{label}:{name}:tind={tag}', f'{label} raises {type(e).__name__} in F/invF with per-cell points: {e}', d2)
            continue
        # ---- Jacobian
        h = 1e-5
        DF = mp.DF(Xr, tind=tind)
        for j in range(dim):
            E = np.zeros_like(Xr)
            E[j] = h
            fd = (mp.F(Xr + E, tind=tind) - mp.F(Xr - E, tind=tind)) / (2 * h)
            _check(ctx, 'fd_jacobian', f'jacobian:{label}:{name}', np.abs(DF[:, j] - fd).max() / (1 + np.abs(fd).max()), d2)
        iDF, dDF = mp.invDF(Xr, tind=tind), mp.detDF(Xr, tind=tind)
        prod = np.einsum('ijkl,jmkl->imkl', iDF, DF)
        eye = np.eye(dim)[:, :, None, None]
        _check(ctx, 'inverse_jacobian', f'jacobian:{label}:{name}', np.abs(prod - eye).max(), d2)
        ref = np.linalg.det(np.moveaxis(DF, (0, 1), (-2, -1)))
        _check(ctx, 'det', f'jacobian:{label}:{name}', np.abs(dDF - ref).max() / (1 + np.abs(ref).max()), d2)
    # ---- facets
    if cells_only or (dim == 1 and label == 'iso') or refdom.brefdom is None:      # prisms have mixed facets: no facet map in the library
        return
    nf = m.facets.shape[1]
    bref = refdom.brefdom
    Xf = _ref_points(bref, rng, npts) if dim > 1 else np.zeros((0, npts))
    Gs, dGs = mp.G(Xf), mp.detDG(Xf)
    for find in _subsets(rng, nf):
        fac = np.arange(nf) if find is None else find
        tag = 'None' if find is None else ('sorted' if np.all(np.diff(find) > 0) else 'repeated')
        d2 = dict(desc, find=None if find is None else find.tolist())
        key = f'facet:{label}:{name}'
        ctx.count(('facet', name, label, tag), nontrivial=dim >= 2)
        try:
            G, dG = mp.G(Xf, find=find), mp.detDG(Xf, find=find)
            lays = [('shared', Xf)]
            if dim > 1:
                lays.append(('per-facet', np.broadcast_to(Xf[:, None, :], (dim - 1, len(fac), npts)).copy()))
            for lay, XX in lays:
                G2, dG2 = mp.G(XX, find=find), mp.detDG(XX, find=find)
                _check(ctx, 'layouts', f'layout:{label}:{name}:find={tag}:{lay}',
                       max(np.abs(G2 - Gs[:, fac]).max(), np.abs(dG2 - dGs[fac]).max()), dict(d2, layout=lay))
        except Exception as e:  # noqa: BLE001
            ctx.fail(f'layout:{label}:{name}:find={tag}', f'{label} raises {type(e).__name__} in G/detDG: {e}', d2)
            continue
        for side in (0, 1):
            cells = m.f2t[side, fac]
            keep = cells >= 0
            if not keep.any():
                continue
            fk, ck = fac[keep], cells[keep]
            g = mp.G(Xf, find=fk)
            Y = mp.invF(g, tind=ck)
            _check(ctx, 'facet_map', key, np.abs(mp.F(Y, tind=ck) - g).max(), dict(d2, side=side))
            # Y lies on the local facet s of the reference cell with t2f[s, cell] == f
            slot = np.array([int(np.nonzero(m.t2f[:, c] == f)[0][0]) for f, c in zip(fk, ck)])
            dist = _facet_distance(refdom, slot, Y)
            _check(ctx, 'facet_map', key, dist, dict(d2, side=side, what='reference point not on the matching local facet'))
            # normals of the cell on this side
            n = mp.normals(Y, ck, fk, m.t2f)
            _check(ctx, 'normal_unit', f'normals:{label}:{name}', np.abs(np.sqrt((n ** 2).sum(0)) - 1).max(), dict(d2, side=side))
            if dim > 1:
                hh = 1e-5
                tang = []
                for j in range(dim - 1):
                    E = np.zeros_like(Xf)
                    E[j] = hh
                    tj = (mp.G(Xf + E, find=fk) - mp.G(Xf - E, find=fk)) / (2 * hh)
                    tang.append(tj)
                    _check(ctx, 'normal_orthogonal', f'normals:{label}:{name}', np.abs((n * tj).sum(0)).max() / (1 + np.abs(tj).max()),
                           dict(d2, side=side))
                if dim == 2:
                    area = np.sqrt((tang[0] ** 2).sum(0))
                else:
                    cr = np.cross(tang[0], tang[1], axis=0)
                    area = np.sqrt((cr ** 2).sum(0))
                dGk = mp.detDG(Xf, find=fk)
                _check(ctx, 'surface_factor', f'facet:{label}:{name}', np.abs(np.abs(dGk) - area).max() / (1 + area.max()), dict(d2, side=side))
            # outward: the cell's vertex centroid is behind the facet
            cen = m.p[:, m.t[:, ck]].mean(1)                  # dim x ncells
            out = (n * (g - cen[:, :, None])).sum(0)
            if not (out > 0).all():
                ctx.fail(f'normals-outward:{label}:{name}', 'a normal does not point out of the cell it is taken from',
                         dict(d2, side=side, min_n_dot_outward=float(out.min())))


def _facet_distance(refdom, slot, Y):
    """how far the reference points Y (dim x n x npts) are from lying IN the local facet `slot[k]` of the reference cell:
    distance from the facet's affine hull, and violation of the convex-combination constraints"""
    V = refdom.p
    dim = V.shape[0]
    worst = 0.0
    for k, s in enumerate(slot):
        fv = V[:, refdom.facets[s]]                   # dim x nfv
        y = Y[:, k, :]
        if dim == 1:
            worst = max(worst, float(np.abs(y - fv[:, :1]).max()))
            continue
        base = fv[:, :1]
        span = fv[:, 1:] - base
        coef, *_ = np.linalg.lstsq(span, y - base, rcond=None)
        resid = (y - base) - span @ coef
        worst = max(worst, float(np.abs(resid).max()))
        if fv.shape[1] == dim:                        # simplicial facet: barycentric coordinates in [0, 1]
            lam = np.vstack([1 - coef.sum(0), coef])
            worst = max(worst, float(np.maximum(-lam, 0).max()), float(np.maximum(lam - 1, 0).max()))
        else:                                         # quadrilateral face of the unit cube
            worst = max(worst, float(np.maximum(-y, 0).max()), float(np.maximum(y - 1, 0).max()))
    return worst


def divergence(ctx, name, m, rng):
    import skfem as fe
    from skfem.helpers import dot
    dim = m.dim()
    elem = m.elem()
    if m.elem.refdom.brefdom is None:
        return
    order = 6
    try:
        vb = fe.Basis(m, elem, intorder=order)
        fb = fe.FacetBasis(m, elem, intorder=order)
    except Exception as e:  # noqa: BLE001
        ctx.fail(f'basis:{name}', f'building Basis/FacetBasis raises {type(e).__name__}: {e}', {'mesh': name})
        return
    vol = fe.Functional(lambda w: 1. + 0. * w.x[0]).assemble(vb)
    flux = fe.Functional(lambda w: dot(w.x, w.n)).assemble(fb)
    ctx.count(('divergence', name, m.doflocs.tolist()), nontrivial=dim >= 2)
    _check(ctx, 'divergence', f'divergence:{name}', abs(flux - dim * vol) / (1 + abs(dim * vol)),
           {'mesh': name, 'doflocs': m.doflocs.tolist(), 't': m.t.tolist(), 'boundary_integral_x_dot_n': float(flux), 'd_times_volume': float(dim * vol)})


def facet_basis_normals(ctx, name, m, rng):
    """FacetBasis / InteriorFacetBasis normals on interior facets, for both traces (side 0 / 1) and for an OrientedBoundary
    with random orientation flags, against an INDEPENDENT normal: the normalised rotated tangent (2-D) / cross product of the
    two tangents (3-D) of the facet map, obtained by finite differences of mapping.G at the quadrature points, signed so that
    it points out of the cell the library documents the normal to be taken from (f2t[0, f], resp. f2t[ori, f]).  This covers
    unit length, orthogonality to the facet, outwardness, and 'both traces see the same normal' at the same physical point."""
    import skfem as fe
    from skfem.generic_utils import OrientedBoundary
    dim = m.dim()
    if dim == 1 or m.elem.refdom.brefdom is None:
        return
    intf = np.nonzero(m.f2t[1] >= 0)[0].astype(np.int32)
    if len(intf) == 0:
        return
    elem = m.elem()
    mp = m.mapping()
    ori = rng.integers(0, 2, size=len(intf))
    if ori.all() or not ori.any():
        ori[0] = 1 - ori[0]
    for variant, side, oriented in (('side0', 0, False), ('side1', 1, False), ('oriented-side0', 0, True), ('oriented-side1', 1, True)):
        if oriented:
            fb = fe.FacetBasis(m, elem, facets=OrientedBoundary(intf, ori), side=side, intorder=3)
            ncell = m.f2t[ori, intf]
        else:
            fb = fe.InteriorFacetBasis(m, elem, side=side, intorder=3) if side == 0 or variant == 'side1' else None
            ncell = m.f2t[0, intf]
            if not np.array_equal(np.asarray(fb.find), intf):
                fb = fe.FacetBasis(m, elem, facets=intf, side=side, intorder=3)
        n = np.asarray(fb.normals)
        x = np.asarray(fb.global_coordinates())
        X = fb.X
        h = 1e-6
        tang = []
        for j in range(dim - 1):
            E = np.zeros_like(X)
            E[j] = h
            tang.append((mp.G(X + E, find=intf) - mp.G(X - E, find=intf)) / (2 * h))
        if dim == 2:
            nu = np.array([tang[0][1], -tang[0][0]])
        else:
            nu = np.cross(tang[0], tang[1], axis=0)
        nu = nu / np.sqrt((nu ** 2).sum(0))
        cen = m.p[:, m.t[:, ncell]].mean(1)                    # vertex centroid of the cell the normal belongs to
        sgn = np.sign((nu * (x - cen[:, :, None])).sum(0))
        nu = nu * sgn
        ctx.count(('facet-basis-normals', name, variant, m.doflocs.tolist()), nontrivial=True)
        ctx.hist('facet_basis_normals', f'{name}:{variant}')
        if n.shape != nu.shape:
            ctx.fail(f'facet-basis-normals:{name}:{variant}', f'normals have shape {n.shape}, expected {nu.shape}', {'mesh': name})
            continue
        err = np.abs(n - nu).max(0)                              # per facet and point
        k, l = np.unravel_index(np.argmax(err), err.shape)
        _check(ctx, 'facet_basis_normal', f'facet-basis-normals:{name}:{variant}', err.max(),
               {'mesh': name, 'variant': variant, 'side': side, 'doflocs': m.doflocs.tolist(), 't': m.t.tolist(), 'facet': int(intf[k]),
                'orientation_flags': ori.tolist() if oriented else None, 'cells_of_facet': m.f2t[:, intf[k]].tolist(),
                'normal_taken_from_cell': int(ncell[k]), 'point': x[:, k, l].tolist(),
                'normal_of_FacetBasis': n[:, k, l].tolist(), 'independent_normal_from_facet_tangents': nu[:, k, l].tolist()})


def ctor_tind(ctx, name, m, rng):
    """MappingAffine(mesh, tind=T) (subset fixed at construction, 'memory optimisation') must deliver, cell by cell in the order
    of T (also unsorted / with repetitions), what the mapping of the whole mesh delivers for tind=T"""
    from skfem.mapping import MappingAffine
    dim, nt = m.dim(), m.t.shape[1]
    full = MappingAffine(m)
    refdom = m.elem.refdom
    for T in (rng.permutation(nt)[:max(1, nt // 2)].astype(np.int32), rng.choice(nt, size=min(nt, 6), replace=True).astype(np.int32)):
        sub = MappingAffine(m, tind=T)
        X = _ref_points(refdom, rng, 3, len(T))
        d2 = {'mesh': name, 'p': m.p.tolist(), 't': m.t.tolist(), 'tind_given_to_constructor': T.tolist()}
        ctx.count(('ctor-tind', name, T.tolist()), nontrivial=dim >= 2)
        try:
            pairs = [(sub.F(X), full.F(X, tind=T)), (sub.DF(X), full.DF(X, tind=T)), (sub.invDF(X), full.invDF(X, tind=T)),
                     (sub.detDF(X), full.detDF(X, tind=T))]
            x = full.F(X, tind=T)
            pairs.append((sub.invF(x), full.invF(x, tind=T)))
        except Exception as e:  # noqa: BLE001
            ctx.fail(f'ctor-tind:{name}', f'MappingAffine(mesh, tind=T) raises {type(e).__name__}: {e}', d2)
            continue
        for a, b in pairs:
            if a.shape != b.shape:
                ctx.fail(f'ctor-tind:{name}', f'MappingAffine(mesh, tind=T) returns shape {a.shape}, the full mapping with tind=T {b.shape}', d2)
            else:
                _check(ctx, 'layouts', f'ctor-tind:{name}', np.abs(a - b).max(), d2)


def affine_vs_iso(ctx, name, m, rng):
    from skfem.mapping import MappingAffine, MappingIsoparametric
    dim = m.dim()
    ma = MappingAffine(m)
    mi = MappingIsoparametric(m, m.elem(), m.bndelem)
    refdom = m.elem.refdom
    nt, nf, npts = m.t.shape[1], m.facets.shape[1], 3
    desc = {'mesh': name, 'p': m.p.tolist(), 't': m.t.tolist()}
    for tind in _subsets(rng, nt):
        cells = np.arange(nt) if tind is None else tind
        for lay in ('shared', 'per-cell'):
            X = _ref_points(refdom, rng, npts, None if lay == 'shared' else len(cells))
            d2 = dict(desc, tind=None if tind is None else tind.tolist(), layout=lay)
            key = f'affine-iso:{name}:{lay}'
            ctx.count(('affine-iso', name, lay, d2['tind']), nontrivial=dim >= 2)
            try:
                pairs = [(ma.F(X, tind), mi.F(X, tind)), (ma.DF(X, tind), mi.DF(X, tind)), (ma.invDF(X, tind), mi.invDF(X, tind)),
                         (ma.detDF(X, tind), mi.detDF(X, tind))]
                x = ma.F(X, tind)
                pairs.append((ma.invF(x, tind), mi.invF(x, tind)))
            except Exception as e:  # noqa: BLE001
                ctx.fail(key, f'raises {type(e).__name__}: {e}', d2)
                continue
            for a, b in pairs:
                if a.shape != b.shape:
                    ctx.fail(key, f'affine and isoparametric results differ in shape: {a.shape} vs {b.shape}', d2)
                else:
                    _check(ctx, 'affine_iso', key, np.abs(a - b).max() / (1 + np.abs(a).max()), d2)
    if dim > 1:
        for find in _subsets(rng, nf):
            fac = np.arange(nf) if find is None else find
            Xf = _ref_points(refdom.brefdom, rng, npts)
            d2 = dict(desc, find=None if find is None else find.tolist())
            key = f'affine-iso:{name}:facets'
            try:
                pairs = [(ma.G(Xf, find), mi.G(Xf, find)), (ma.detDG(Xf, find), mi.detDG(Xf, find))]
                cells = m.f2t[0, fac]
                Y = ma.invF(ma.G(Xf, find), tind=cells)
                pairs.append((ma.normals(Y, cells, fac, m.t2f), mi.normals(Y, cells, fac, m.t2f)))
            except Exception as e:  # noqa: BLE001
                ctx.fail(key, f'raises {type(e).__name__}: {e}', d2)
                continue
            for a, b in pairs:
                if a.shape != b.shape:
                    ctx.fail(key, f'affine and isoparametric results differ in shape: {a.shape} vs {b.shape}', d2)
                else:
                    _check(ctx, 'affine_iso', key, np.abs(a - b).max() / (1 + np.abs(a).max()), d2)


def api_forms(ctx, rng):
    """public call forms that forward to the mapping / facet-basis core (coverage audit): each is compared with the core path"""
    import skfem as fe
    from skfem.generic_utils import OrientedBoundary
    from skfem.mapping import MappingAffine, MappingIsoparametric
    cov = {}

    def same(key, what, a, b, data, tol=1e-12):
        a, b = np.asarray(a, dtype=float), np.asarray(b, dtype=float)
        ctx.count(('api', key, what), nontrivial=True)
        if a.shape != b.shape:
            ctx.fail(key, f'{what}: shapes {a.shape} vs {b.shape}', data)
        elif a.size and not np.abs(a - b).max() <= tol * (1 + np.abs(b).max()):
            ctx.fail(key, f'{what}: differs from the core path by {np.abs(a - b).max():.3e}', data)
    cases = [('tri', _jiggle(fe.MeshTri().refined(2), rng, 0.3), fe.ElementTriP1(), fe.ElementTriP2()),
             ('quad', _jiggle(fe.MeshQuad().refined(2), rng, 0.3), fe.ElementQuad1(), fe.ElementQuad2()),
             ('tet', _jiggle(fe.MeshTet().refined(1), rng, 0.2), fe.ElementTetP1(), fe.ElementTetP2())]
    for name, m, e1, e2 in cases:
        d0 = {'mesh': name, 'p': m.p.tolist(), 't': m.t.tolist()}
        m = m.with_boundaries({'left': lambda x: x[0] < 1e-9, 'cut': lambda x: np.abs(x[0] - 0.5) < 1e-9})
        basis = fe.Basis(m, e1, intorder=3)
        # CellBasis.boundary(facets, intorder, quadrature) == FacetBasis(...)
        for facets in (None, 'left', m.boundaries['left'][::2]):
            fb1 = basis.boundary(facets, intorder=3) if facets is not None else basis.boundary(intorder=3)
            fb2 = fe.FacetBasis(m, e1, facets=facets, intorder=3)
            key = f'api:CellBasis.boundary:{name}'
            same(key, 'normals', fb1.normals, fb2.normals, d0)
            same(key, 'dx', fb1.dx, fb2.dx, d0)
            same(key, 'global_coordinates', fb1.global_coordinates(), fb2.global_coordinates(), d0)
        fbq = basis.boundary('left', quadrature=(fb2.X, fb2.W))
        same(f'api:CellBasis.boundary:{name}', 'quadrature option', fbq.dx, fe.FacetBasis(m, e1, facets='left', quadrature=(fb2.X, fb2.W)).dx, d0)
        cov['CellBasis.boundary(facets=None|name|array, intorder, quadrature)'] = 'now: == FacetBasis(...) (normals, dx, coordinates)'
        # FacetBasis.with_element keeps facets, side, orientation, quadrature
        intf = np.nonzero(m.f2t[1] >= 0)[0].astype(np.int32)
        ori = (np.arange(len(intf)) % 2)
        for side, fac in ((0, intf), (1, intf), (0, OrientedBoundary(intf, ori)), (1, OrientedBoundary(intf, ori))):
            fa = fe.FacetBasis(m, e1, facets=fac, side=side, intorder=3)
            fbb = fa.with_element(e2)
            key = f'api:FacetBasis.with_element:{name}'
            same(key, 'normals', fbb.normals, fa.normals, dict(d0, side=side))
            same(key, 'dx', fbb.dx, fa.dx, dict(d0, side=side))
            same(key, 'cells (tind)', fbb.tind, fa.tind, dict(d0, side=side))
            same(key, 'global_coordinates', fbb.global_coordinates(), fa.global_coordinates(), dict(d0, side=side))
        cov['FacetBasis.with_element (side 0/1, OrientedBoundary)'] = 'now: normals, dx, tind, coordinates unchanged'
        # named boundary 'cut' (interior facets) and facets_satisfying(..., normal=v): the delivered normals follow v
        v = np.zeros(m.dim())
        v[0] = 1.
        ob = m.facets_satisfying(lambda x: np.abs(x[0] - 0.5) < 1e-9, normal=v)
        ob2 = m.facets_satisfying(lambda x: np.abs(x[0] - 0.5) < 1e-9, normal=-v)
        for tag, o, sgn in (('normal=+e1', ob, 1.), ('normal=-e1', ob2, -1.)):
            if len(o) == 0:
                continue
            fo = fe.FacetBasis(m, e1, facets=o, intorder=3)
            ctx.count(('api', 'facets_satisfying', name, tag), nontrivial=True)
            if not (sgn * np.asarray(fo.normals)[0] > 0).all():
                ctx.fail(f'api:facets_satisfying-normal:{name}', f'FacetBasis on facets_satisfying(..., {tag}) delivers normals against the requested direction',
                         dict(d0, facets=np.asarray(o).tolist(), ori=o.ori.tolist()))
        cov['Mesh.facets_satisfying(normal=) -> OrientedBoundary -> FacetBasis.normals'] = 'now: normals follow the requested direction'
        # Basis / FacetBasis with an explicit mapping= (affine and isoparametric P1 on straight simplices)
        if name in ('tri', 'tet'):
            ma, mi = MappingAffine(m), MappingIsoparametric(m, m.elem(), m.bndelem)
            ba, bi = fe.Basis(m, e1, mapping=ma, intorder=3), fe.Basis(m, e1, mapping=mi, intorder=3)
            same(f'api:Basis(mapping=):{name}', 'dx affine vs isoparametric', ba.dx, bi.dx, d0)
            same(f'api:Basis(mapping=):{name}', 'coordinates', ba.global_coordinates(), bi.global_coordinates(), d0)
            fa_, fi_ = fe.FacetBasis(m, e1, mapping=ma, intorder=3), fe.FacetBasis(m, e1, mapping=mi, intorder=3)
            same(f'api:FacetBasis(mapping=):{name}', 'normals', fa_.normals, fi_.normals, d0)
            same(f'api:FacetBasis(mapping=):{name}', 'dx', fa_.dx, fi_.dx, d0)
            cov['Basis(mapping=) / FacetBasis(mapping=)'] = 'now: affine vs isoparametric P1 give the same dx, coordinates, normals'
        # Refdom.on_facet / init_refdom / dim
        refdom = m.elem.refdom
        p0, t0 = refdom.init_refdom()
        if not (np.array_equal(p0, refdom.p) and np.array_equal(t0, refdom.t) and refdom.dim() == m.dim()):
            ctx.fail(f'api:Refdom.init_refdom:{name}', 'init_refdom() / dim() differ from the class tables', d0)
        mp = m.mapping()
        fb = fe.FacetBasis(m, e1, intorder=2)                 # boundary facets, points strictly inside each facet
        Y = mp.invF(mp.G(fb.X, find=fb.find), tind=fb.tind)
        slot = np.array([int(np.nonzero(m.t2f[:, c] == f)[0][0]) for f, c in zip(fb.find, fb.tind)])
        Xin = _ref_points(refdom, rng, 4)
        try:
            for s in range(len(refdom.facets)):
                on = np.asarray(refdom.on_facet(s, Y)).astype(bool)
                ctx.count(('api', 'on_facet', name, s), nontrivial=True)
                if not np.array_equal(on, np.broadcast_to((slot == s)[:, None], on.shape)):
                    ctx.fail(f'api:Refdom.on_facet:{name}', f'{refdom.__name__}.on_facet({s}, Y) does not characterise the reference points of local facet {s}',
                             dict(d0, slot=s, expected=(slot == s).tolist(), got=on.tolist()))
                if np.asarray(refdom.on_facet(s, Xin)).astype(bool).any():
                    ctx.fail(f'api:Refdom.on_facet:{name}', f'{refdom.__name__}.on_facet({s}, X) is true for a point strictly inside the cell', dict(d0, X=Xin.tolist()))
            cov[f'{refdom.__name__}.on_facet / init_refdom / dim'] = 'now: on_facet(s, invF(G(X))) <=> s is the local slot; false inside the cell'
        except NotImplementedError:
            cov[f'{refdom.__name__}.on_facet'] = 'not implemented by the library for this reference domain'
        # isoparametric options: Newton tolerance / iteration limit, J= argument
        mi = MappingIsoparametric(m, m.elem(), m.bndelem) if name != 'quad' else mp
        X = _ref_points(refdom, rng, 3, m.t.shape[1])
        x = mi.F(X)
        same(f'api:invF(newton_tol):{name}', 'invF(x, newton_tol=1e-8)', mi.invF(x, newton_tol=1e-8), X, d0, tol=1e-7)
        if name == 'quad':
            try:
                mi.invF(x, newton_max_iters=1)
                ctx.fail(f'api:invF(newton_max_iters):{name}', 'invF with newton_max_iters=1 on distorted quadrilaterals returned without convergence', d0)
            except Exception:  # noqa: BLE001 - documented behaviour: raises
                pass
        J = [[mi.J(i, j, X) for j in range(m.dim())] for i in range(m.dim())]
        same(f'api:DF(J=):{name}', 'DF(X, J=J)', mi.DF(X, J=J), mi.DF(X), d0)
        same(f'api:DF(J=):{name}', 'detDF(X, J=J)', mi.detDF(X, J=J), mi.detDF(X), d0)
        cov['MappingIsoparametric.invF(newton_tol, newton_max_iters), DF/detDF(J=)'] = 'now'
    # discontinuous / periodic mesh classes: the cell maps use doflocs[element_dofs]
    for cls, base in (('MeshTri1DG', fe.MeshTri().refined(2)), ('MeshQuad1DG', fe.MeshQuad().refined(2)), ('MeshLine1DG', fe.MeshLine(np.linspace(0, 1, 6))),
                      ('MeshHex1DG', fe.MeshHex().refined(1))):
        if not hasattr(fe, cls):
            continue
        M = getattr(fe, cls)
        try:
            md = M.periodic(base, base.nodes_satisfying(lambda x: x[0] == 1), base.nodes_satisfying(lambda x: x[0] == 0))
            check_mapping(ctx, cls + '-periodic', md, md.mapping(), rng, 'iso', cells_only=True)
            ed = md.dofs.element_dofs
            V = md.elem.refdom.p
            Fv = md.mapping().F(V)                                   # images of the reference vertices: the cell's own nodes
            same(f'api:{cls}.periodic', 'F(reference vertices) == doflocs[element_dofs]', Fv, md.doflocs[:, ed].transpose(0, 2, 1), {'mesh': cls})
            vol = np.abs(md.mapping().detDF(_ref_points(md.elem.refdom, rng, 1))).sum() * {1: 1., 2: 1., 3: 1.}[md.dim()]
            cov[f'{cls}.periodic(...).mapping()'] = 'now: cell maps (layouts, round trips, Jacobians, vertex images)'
        except Exception as e:  # noqa: BLE001
            ctx.fail(f'api:{cls}.periodic', f'{type(e).__name__}: {e}', {'mesh': cls})
    cov.update({'FacetBasis.trace / _trace_project / project': 'out of scope for C10 (L2 projection / lower-dimensional trace mesh: C06, C18)',
                'Mapping (abstract base) F/invF/G/...': 'out of scope: raise NotImplementedError',
                'MappingAffine / MappingIsoparametric F, invF, DF, invDF, detDF, G, detDG, normals, A, b, invA, detA, B, c, detB, Fmap, _J, J, bndmap, bndJ': 'covered before (all layouts / subsets)',
                'FacetBasis / InteriorFacetBasis (facets, side, OrientedBoundary, intorder), default_parameters, global_coordinates, mesh_parameters': 'covered before',
                'generic_utils.hash_args / OrientedBoundary / deprecated': 'hash_args is C15; OrientedBoundary covered; deprecated is a decorator (not C10)'})
    ctx.extra['api_coverage'] = cov


def mixed_cells_witness(ctx):
    """deterministic witness, first in every tier: structured quadrilateral / hexahedral grids in which SOME cells are strongly
    distorted (one interior node moved by 35% of the cell size) and the others stay rectangles, queried in ONE call (tind None and
    explicit subsets mixing both kinds, several points per cell): invF(F(X)) == X, and the reference points FacetBasis /
    InteriorFacetBasis computes (invF of the facet map) reproduce the physical points from both sides.  A Newton iteration that
    stops as soon as the affine cells have converged is wrong exactly here."""
    import skfem as fe
    cases = []
    mq = fe.MeshQuad.init_tensor(np.linspace(0, 1, 4), np.linspace(0, 1, 4))
    p = mq.p.copy()
    k = int(np.argmin(np.abs(p[0] - 1 / 3) + np.abs(p[1] - 1 / 3)))
    p[:, k] += 0.35 / 3 * np.array([1.0, 0.6])
    cases.append(('quad', fe.MeshQuad(p, mq.t), fe.ElementQuad1()))
    mh = fe.MeshHex.init_tensor(np.linspace(0, 1, 4), np.linspace(0, 1, 3), np.linspace(0, 1, 3))
    p = mh.p.copy()
    k = int(np.argmin(np.abs(p[0] - 1 / 3) + np.abs(p[1] - 0.5) + np.abs(p[2] - 0.5)))
    p[:, k] += 0.35 / 3 * np.array([1.0, 0.7, -0.5])
    cases.append(('hex', fe.MeshHex(p, mh.t), fe.ElementHex1()))
    for name, m, elem in cases:
        dim, nt = m.dim(), m.t.shape[1]
        mp = m.mapping()
        g1 = np.array([0.15, 0.5, 0.85])
        X = np.array(np.meshgrid(*([g1] * dim), indexing='ij')).reshape(dim, -1)
        detc = mp.detDF(X)
        distorted = np.nonzero(np.ptp(detc, axis=1) > 1e-9 * np.abs(detc).max())[0]
        straight = np.setdiff1d(np.arange(nt), distorted)
        desc = {'mesh': name, 'p': m.p.tolist(), 't': m.t.tolist(), 'distorted_cells': distorted.tolist(), 'rectangular_cells': straight.tolist()}
        if len(distorted) == 0 or len(straight) == 0:
            ctx.fail(f'mixed-cells-witness:{name}', 'the witness mesh does not mix distorted and rectangular cells', desc)
            continue
        mixed = np.ravel(np.column_stack([straight[:min(len(straight), len(distorted))], distorted[:min(len(straight), len(distorted))]])).astype(np.int32)
        for tag, tind in (('None', None), ('mixed', mixed), ('reversed', np.arange(nt - 1, -1, -1).astype(np.int32))):
            ctx.count(('mixed-cells', name, tag), nontrivial=True)
            ctx.hist('mixed_cells_witness', f'{name}:tind={tag}')
            nc = nt if tind is None else len(tind)
            Xp = np.broadcast_to(X[:, None, :], (dim, nc, X.shape[1])).copy()
            d2 = dict(desc, tind=None if tind is None else tind.tolist(), points_per_cell=int(X.shape[1]))
            try:
                x = mp.F(Xp, tind=tind)
                Xb = mp.invF(x, tind=tind)
            except Exception as e:  # noqa: BLE001
                ctx.fail(f'mixed-cells-round-trip:{name}', f'invF(F(X)) on a mesh mixing rectangular and distorted cells raises {type(e).__name__}: {e}', d2)
                continue
            err = np.abs(Xb - Xp).max(axis=(0, 2))
            c = int(np.argmax(err))
            _check(ctx, 'round_trip', f'mixed-cells-round-trip:{name}', err.max(),
                   dict(d2, worst_cell=int(c if tind is None else tind[c]), X=Xp[:, c].tolist(), invF_of_F_X=Xb[:, c].tolist()))
        # the reference points of the facet bases (invF of the facet map in the cell of each side) reproduce the physical points
        for side in (0, 1):
            try:
                fb = fe.InteriorFacetBasis(m, elem, side=side, intorder=3)
                xg = np.asarray(fb.global_coordinates())
                xi = np.array([np.asarray(fb.interpolate(m.p[i].copy())) for i in range(dim)])
            except Exception as e:  # noqa: BLE001
                ctx.fail(f'mixed-cells-facet-points:{name}', f'InteriorFacetBasis(side={side}) raises {type(e).__name__}: {e}', desc)
                continue
            ctx.count(('mixed-cells-facets', name, side), nontrivial=True)
            err = np.abs(xi - xg).max(axis=(0, 2))
            f = int(np.argmax(err))
            _check(ctx, 'facet_map', f'mixed-cells-facet-points:{name}', err.max(),
                   dict(desc, side=side, facet=int(fb.find[f]), cells_of_facet=m.f2t[:, fb.find[f]].tolist(),
                        physical_points=xg[:, f].tolist(), F_at_the_reference_points_of_the_basis=xi[:, f].tolist()))


def run(ctx, rng):
    import warnings
    from skfem.mapping import MappingAffine, MappingIsoparametric
    STAT.clear()
    with warnings.catch_warnings():
        warnings.simplefilter('ignore')
        try:
            api_forms(ctx, rng)
        except Exception as e:  # noqa: BLE001
            import traceback
            ctx.fail('api-forms:exception', f'{type(e).__name__}: {e}', {'traceback': traceback.format_exc()[-1500:]})
        try:
            mixed_cells_witness(ctx)
        except Exception as e:  # noqa: BLE001
            import traceback
            ctx.fail('mixed-cells-witness:exception', f'{type(e).__name__}: {e}', {'traceback': traceback.format_exc()[-1500:]})
        allm = []
        for rep in range(ctx.n(3, 8)):
            allm += meshes(ctx, rng)
        for name, m in allm:
            ctx.hist('oracle_mesh', name)
            try:
                mp = m.mapping()
                label = 'affine' if isinstance(mp, MappingAffine) else 'iso'
                check_mapping(ctx, name, m, mp, rng, label)
                if label == 'affine':
                    affine_vs_iso(ctx, name, m, rng)
                    ctor_tind(ctx, name, m, rng)
                    mi = MappingIsoparametric(m, m.elem(), m.bndelem)
                    check_mapping(ctx, name, m, mi, rng, 'iso')
                divergence(ctx, name, m, rng)
                facet_basis_normals(ctx, name, m, rng)
            except Exception as e:  # noqa: BLE001 - an exception of the code under test on a valid mesh is a failing input
                import traceback
                ctx.fail(f'exception:{name}', f'{type(e).__name__} while evaluating the mapping of {name}: {e}',
                         {'mesh': name, 'doflocs': m.doflocs.tolist(), 't': m.t.tolist(), 'traceback': traceback.format_exc()[-1500:]})
    ctx.extra['oracle_max_discrepancy'] = dict(STAT)
    ctx.extra['oracle_tolerances'] = dict(TOL)
