"""C18 — exact (Fraction) geometry of small meshes with integer / dyadic coordinates: cell measures,
cell and facet point sets, validity.  Independent of skfem's mappings."""
from fractions import Fraction

import numpy as np


def F(x):
    return Fraction(float(x))


def cols(p, idx):
    """tuple of exact coordinate tuples of the vertices idx"""
    return tuple(tuple(F(p[d, v]) for d in range(p.shape[0])) for v in idx)


def det2(a, b):
    return a[0] * b[1] - a[1] * b[0]


def det3(a, b, c):
    return (a[0] * (b[1] * c[2] - b[2] * c[1]) - a[1] * (b[0] * c[2] - b[2] * c[0])
            + a[2] * (b[0] * c[1] - b[1] * c[0]))


def sub(a, b):
    return tuple(x - y for x, y in zip(a, b))


def refp(m):
    return np.asarray(m.elem.refdom.p)


def cell_measure(name, v, ref=None):
    """exact measure of one cell with vertex coordinate tuples v (skfem local numbering).
    Quadrilaterals: shoelace (any simple quadrilateral).  Hexahedra / prisms: must be affine images of the
    reference cell (checked exactly); returns None otherwise."""
    if name.startswith('MeshLine'):
        return abs(v[1][0] - v[0][0])
    if name.startswith('MeshTri'):
        return abs(det2(sub(v[1], v[0]), sub(v[2], v[0]))) / 2
    if name.startswith('MeshQuad'):
        s = sum(det2(v[i], v[(i + 1) % 4]) for i in range(4))
        return abs(s) / 2
    if name.startswith('MeshTet'):
        return abs(det3(sub(v[1], v[0]), sub(v[2], v[0]), sub(v[3], v[0]))) / 6
    # affine image of the reference cell: v_i = o + A ref_i
    R = [tuple(Fraction(int(x)) for x in ref[:, i]) for i in range(ref.shape[1])]
    o_idx = [i for i, r in enumerate(R) if r == (0, 0, 0)][0]
    o = v[o_idx]
    ax = []
    for d in range(3):
        e = tuple(Fraction(int(k == d)) for k in range(3))
        ax.append(sub(v[R.index(e)], o))
    for i, r in enumerate(R):
        img = tuple(o[k] + sum(r[d] * ax[d][k] for d in range(3)) for k in range(3))
        if img != v[i]:
            return None
    vol = abs(det3(*ax))
    return vol / 2 if name.startswith('MeshWedge') else vol


def measures(m):
    name = type(m).__name__
    ref = refp(m) if name.startswith(('MeshHex', 'MeshWedge')) else None
    nv = m.elem.refdom.nnodes
    return [cell_measure(name, cols(m.p, m.t[:nv, k]), ref) for k in range(m.t.shape[1])]


def centroid(pts):
    n = len(pts)
    return tuple(sum(p[d] for p in pts) / n for d in range(len(pts[0])))


def cell_points(m, cells):
    """set of exact vertex-coordinate sets of the given cells"""
    nv = m.elem.refdom.nnodes
    return {frozenset(cols(m.p, m.t[:nv, int(k)])) for k in cells}


def facet_points(m, facets):
    return {frozenset(cols(m.p, m.facets[:, int(f)])) for f in facets}


def valid(m):
    """(ok, why): indices in range, every vertex used, no coordinate-equal vertices, no degenerate cell"""
    t, p = m.t, m.p
    if t.min() < 0 or t.max() >= p.shape[1]:
        return False, 'vertex index out of range'
    if len(np.unique(t)) != p.shape[1]:
        return False, 'unused vertex'
    if len({tuple(p[:, i].tolist()) for i in range(p.shape[1])}) != p.shape[1]:
        return False, 'coordinate-equal vertices'
    for k, a in enumerate(measures(m)):
        if a is not None and a == 0:
            return False, f'degenerate cell {k}'
    nv = m.elem.refdom.nnodes
    for k in range(t.shape[1]):
        if len(set(t[:nv, k].tolist())) != nv:
            return False, f'cell {k} repeats a vertex'
    return True, ''


def bary_signs(simplex, x):
    """exact barycentric coordinates of x in a triangle / tetrahedron (tuple of Fractions); None if degenerate"""
    n = len(simplex) - 1
    det = det2 if n == 2 else det3
    e = [sub(v, simplex[0]) for v in simplex[1:]]
    D = det(*e)
    if D == 0:
        return None
    lam = []
    for i in range(n + 1):
        s2 = list(simplex)
        s2[i] = x
        lam.append(det(*[sub(v, s2[0]) for v in s2[1:]]) / D)
    return lam


def cover_counts(children, x):
    """(#children containing x in their interior, #children containing x in their closure)"""
    strict = closed = 0
    for ch in children:
        lam = bary_signs(ch, x)
        if lam is None:
            continue
        strict += all(l > 0 for l in lam)
        closed += all(l >= 0 for l in lam)
    return strict, closed
