"""C05 translators (T2, fail closed): skfem/utils.py -> Gen/C05Gen.v

1. ``IdxTr``: the integer-array arithmetic of ``enforce`` ("set rows on lhs to zero") is turned,
   statement by statement, into a term over the NumPy-on-lists operations of Base.C05_Np in the
   option monad (None = the operation raises).  It understands a small array language (gather,
   slices ``[:-1]``, ``+ -``, ``np.ones/arange/cumsum/repeat``, ``.sum()``, in-place ``a[i] -= v``), so
   both the pinned and a repaired form of these lines translate; anything else raises.
2. ``MvTr``: the matrix/vector plumbing of ``_init_bc``, ``condense``, ``solve_linear``, ``solve_eigen``,
   the rest of ``enforce`` and ``penalize`` is turned into terms over the combinators of Model.C05_BC
   (``A[I][:, I]`` -> ``msel_cols (msel_rows A I) I`` ...), to be proved equal to the hand-written model by
   ``reflexivity`` in coq/dyn/C05/C05Tie.v.
"""
import ast

from . import t2
from .core import TranslateError

SRC = 'skfem/utils.py'


def _body(fn):
    """function body without the docstring"""
    b = fn.body
    if b and isinstance(b[0], ast.Expr) and isinstance(b[0].value, ast.Constant) and isinstance(b[0].value.value, str):
        b = b[1:]
    return b


def _expect(node, text, what):
    if t2.src(node) != text:
        raise TranslateError(f'{what}: expected `{text}`, found `{t2.src(node)[:160]}`')


def _expect_aout(node, what):
    """the working copy: `Aout = A if overwrite else A.copy()` or the CSR-converting form (non-CSR input is converted)"""
    s = t2.src(node)
    ok = ['Aout = A if overwrite else A.copy()',
          "if overwrite and A.format == 'csr':\n    Aout = A\nelse:\n    Aout = A.tocsr(copy=True)"]
    if s not in ok:
        raise TranslateError(f'{what}: working copy of A: `{s[:160]}`')
    return ok.index(s)


def _expect_any(node, texts, what):
    s = t2.src(node)
    if s not in texts:
        raise TranslateError(f'{what}: expected one of {texts!r}, found `{s[:160]}`')
    return texts.index(s)


# ------------------------------------------------------------------------------------ 1. index arithmetic

class IdxTr:
    """statements over integer arrays -> nested ``bind`` term.  Types: 'arr' | 'int'."""

    INT_DTYPES = {'np.int32', 'np.int64', 'int', 'np.intp'}

    def __init__(self, env):
        self.env = dict(env)          # python name -> (coq ident, type)
        self.binds = []               # (coq ident, rhs term)
        self.used = set(v[0] for v in env.values())
        self.ntmp = 0

    def fresh(self, base):
        name = base
        k = 0
        while name in self.used:
            k += 1
            name = f'{base}_{k}'
        self.used.add(name)
        return name

    def emit(self, rhs, base=None):
        if base is None:
            self.ntmp += 1
            base = f't{self.ntmp}'
        nm = self.fresh(base)
        self.binds.append((nm, rhs))
        return nm

    def _dtype_ok(self, kws):
        for k in kws:
            if k.arg != 'dtype' or t2.src(k.value) not in self.INT_DTYPES:
                raise TranslateError('keyword ' + t2.src(k))

    def expr(self, n, name=None):
        """returns (coq atom, type); every operation is bound to a variable"""
        if isinstance(n, ast.Constant):
            if isinstance(n.value, bool) or not isinstance(n.value, int):
                raise TranslateError(f'literal {n.value!r} in index arithmetic')
            return f'({n.value})%Z', 'int'
        if isinstance(n, (ast.Name, ast.Attribute)):
            d = t2.dotted(n)
            if d not in self.env:
                raise TranslateError(f'unknown name {d} in index arithmetic')
            return self.env[d]
        if isinstance(n, ast.UnaryOp) and isinstance(n.op, ast.USub) and isinstance(n.operand, ast.Constant):
            return self.expr(ast.Constant(-n.operand.value))
        if isinstance(n, ast.Subscript):
            a, ta = self.expr(n.value)
            if ta != 'arr':
                raise TranslateError('subscript of a scalar: ' + t2.src(n))
            s = n.slice
            if isinstance(s, ast.Slice):
                if s.lower is None and s.step is None and s.upper is not None and t2.src(s.upper) == '-1':
                    return self.emit(f'np_init {a}', name), 'arr'
                raise TranslateError('slice ' + t2.src(n))
            i, ti = self.expr(s)
            if ti != 'arr':
                raise TranslateError('scalar index: ' + t2.src(n))
            return self.emit(f'np_gather {a} {i}', name), 'arr'
        if isinstance(n, ast.BinOp) and isinstance(n.op, (ast.Add, ast.Sub)):
            a, ta = self.expr(n.left)
            b, tb = self.expr(n.right)
            add = isinstance(n.op, ast.Add)
            if ta == 'arr' and tb == 'arr':
                return self.emit(f'{"np_add" if add else "np_sub"} {a} {b}', name), 'arr'
            if ta == 'arr' and tb == 'int':
                return self.emit(f'{"np_adds" if add else "np_subs"} {a} {b}', name), 'arr'
            if ta == 'int' and tb == 'arr' and add:
                return self.emit(f'np_adds {b} {a}', name), 'arr'
            if ta == 'int' and tb == 'int':
                return self.emit(f'Some ({a} {"+" if add else "-"} {b})', name), 'int'
            raise TranslateError('operand types in ' + t2.src(n))
        if isinstance(n, ast.Call):
            f = n.func
            if isinstance(f, ast.Attribute) and f.attr == 'sum' and not n.args and not n.keywords:
                a, ta = self.expr(f.value)
                if ta != 'arr':
                    raise TranslateError('sum of scalar')
                return self.emit(f'np_sum {a}', name), 'int'
            fn = t2.src(f)
            args = [self.expr(a) for a in n.args]
            if fn == 'np.ones' and len(args) == 1 and args[0][1] == 'int':
                self._dtype_ok(n.keywords)
                return self.emit(f'np_ones {args[0][0]}', name), 'arr'
            if fn == 'np.arange' and len(args) == 1 and args[0][1] == 'int':
                self._dtype_ok(n.keywords)
                return self.emit(f'np_arange {args[0][0]}', name), 'arr'
            if fn == 'np.cumsum' and len(args) == 1 and args[0][1] == 'arr' and not n.keywords:
                return self.emit(f'np_cumsum {args[0][0]}', name), 'arr'
            if fn == 'np.repeat' and len(args) == 2 and args[0][1] == 'arr' and args[1][1] == 'arr' and not n.keywords:
                return self.emit(f'np_repeat {args[0][0]} {args[1][0]}', name), 'arr'
            raise TranslateError('call ' + t2.src(n)[:100])
        raise TranslateError('unsupported index expression: ' + t2.src(n)[:100])

    def stmt(self, s):
        if isinstance(s, ast.Assign) and len(s.targets) == 1 and isinstance(s.targets[0], ast.Name):
            nm = s.targets[0].id
            before = len(self.binds)
            v, ty = self.expr(s.value, name=nm)
            if len(self.binds) == before:            # plain alias / constant
                v = self.emit(f'Some {v}', nm)
            self.env[nm] = (v, ty)
            return
        if (isinstance(s, ast.AugAssign) and isinstance(s.op, ast.Sub) and isinstance(s.target, ast.Subscript)
                and isinstance(s.target.value, ast.Name) and not isinstance(s.target.slice, ast.Slice)):
            nm = s.target.value.id
            a, ta = self.expr(s.target.value)
            i, ti = self.expr(s.target.slice)
            v, tv = self.expr(s.value)
            if (ta, ti, tv) != ('arr', 'arr', 'arr'):
                raise TranslateError('in-place update types: ' + t2.src(s))
            self.env[nm] = (self.emit(f'np_scatter_sub {a} {i} {v}', nm), 'arr')
            return
        raise TranslateError('unsupported statement in index arithmetic: ' + t2.src(s)[:120])

    def term(self, result):
        out = ''
        for nm, rhs in self.binds:
            out += f'  bind ({rhs}) (fun {nm} =>\n'
        out += f'  Some {result}' + ')' * len(self.binds)
        return out


def translate_enforce(fn):
    """-> (gen_enforce_idx definition text, dict of the remaining pieces)"""
    body = _body(fn)
    if [a.arg for a in fn.args.args] != ['A', 'b', 'x', 'I', 'D', 'diag', 'overwrite']:
        raise TranslateError('enforce signature: ' + repr([a.arg for a in fn.args.args]))
    _expect(body[0], 'b, x, I, D = _init_bc(A, b, x, I, D)', 'enforce[0]')
    _expect_aout(body[1], 'enforce[1]')
    # the index arithmetic: everything up to  Aout.data[<name>] = 0.0
    k = 2
    tr = IdxTr({'Aout.indptr': ('indptr', 'arr'), 'D': ('D', 'arr')})
    while True:
        if k >= len(body):
            raise TranslateError('enforce: no `Aout.data[...] = 0.` statement')
        s = body[k]
        if (isinstance(s, ast.Assign) and isinstance(s.targets[0], ast.Subscript)
                and t2.src(s.targets[0].value) == 'Aout.data'):
            break
        tr.stmt(s)
        k += 1
    tgt = body[k].targets[0]
    if not isinstance(tgt.slice, ast.Name) or tgt.slice.id not in tr.env or tr.env[tgt.slice.id][1] != 'arr':
        raise TranslateError('zeroing statement: ' + t2.src(body[k]))
    if not (isinstance(body[k].value, ast.Constant) and body[k].value.value == 0):
        raise TranslateError('zeroing value: ' + t2.src(body[k]))
    idx_def = ('Definition gen_enforce_idx (indptr D : list Z) : option (list Z) :=\n'
               + tr.term(tr.env[tgt.slice.id][0]) + '.')
    rest = body[k + 1:]
    if len(rest) != 5:
        raise TranslateError(f'enforce: {len(rest)} statements after the zeroing, expected 5')
    mv = MvTr({'Aout': ('M', 'mat'), 'D': ('D', 'idx'), 'diag': ('diag', 'scalar')})
    for s in rest[:3]:
        mv.stmt(s)
    diag_def = ('Definition gen_enforce_diag (M : mat) (D : list nat) (diag : R) : mat :=\n  '
                + mv.close(mv.env['Aout'][0]) + '.')
    ifb = rest[3]
    if not (isinstance(ifb, ast.If) and t2.src(ifb.test) == 'b is not None' and not ifb.orelse and len(ifb.body) == 2):
        raise TranslateError('enforce: `if b is not None` block')
    inner, ret = ifb.body
    _expect(ret, 'return (Aout, bout)', 'enforce return')
    if not (isinstance(inner, ast.If) and t2.src(inner.test) == 'isinstance(b, spmatrix)' and len(inner.body) == 1
            and len(inner.orelse) == 2):
        raise TranslateError('enforce: isinstance(b, spmatrix) block')
    # recursion for the mass matrix
    rec = inner.body[0]
    if not (isinstance(rec, ast.Assign) and t2.src(rec.targets[0]) == 'bout' and isinstance(rec.value, ast.Call)
            and t2.src(rec.value.func) == 'enforce' and [t2.src(a) for a in rec.value.args] == ['b']):
        raise TranslateError('enforce: recursive call ' + t2.src(rec))
    kw = {k_.arg: k_.value for k_ in rec.value.keywords}
    if set(kw) != {'D', 'diag', 'overwrite'} or t2.src(kw['D']) != 'D' or t2.src(kw['overwrite']) != 'overwrite':
        raise TranslateError('enforce: recursive call keywords ' + t2.src(rec))
    if not (isinstance(kw['diag'], ast.Constant) and kw['diag'].value == 0):
        raise TranslateError('enforce: recursive diag ' + t2.src(kw['diag']))
    # the working copy of the right-hand side: a copy unless overwrite (and, in the promoting form, equal dtype); the
    # dtype promotion b -> result_type(b, x) is a runtime matter (oracle: complex prescribed values with a real b)
    _expect_any(inner.orelse[0], ['bout = b if overwrite else b.copy()',
                                  'bout = b.astype(np.result_type(b, x), copy=not overwrite)'], 'enforce rhs copy')
    mv2 = MvTr({'bout': ('b', 'vec'), 'x': ('x', 'vec'), 'D': ('D', 'idx')})
    mv2.stmt(inner.orelse[1])
    rhs_def = ('Definition gen_enforce_rhs (b x : vec) (D : list nat) : vec :=\n  ' + mv2.close(mv2.env['bout'][0]) + '.')
    _expect(rest[4], 'return Aout', 'enforce final return')
    return idx_def, [diag_def, rhs_def,
                     'Definition gen_enforce_zero_value : R := r0 o.  (* Aout.data[idx] = 0. *)',
                     'Definition gen_enforce_mass_diag : R := r0 o.   (* enforce(b, D=D, diag=0., overwrite=overwrite) *)']


# ------------------------------------------------------------------------------------ 2. matrix / vector plumbing

class MvTr:
    """expressions / statements over sparse matrices (as rows), vectors and index arrays.
    Types: 'mat' | 'vec' | 'idx' | 'scalar'."""

    def __init__(self, env):
        self.env = dict(env)
        self.lets = []
        self.used = set(v[0] for v in env.values())

    def fresh(self, base):
        name, k = base, 0
        while name in self.used:
            k += 1
            name = f'{base}_{k}'
        self.used.add(name)
        return name

    def expr(self, n):
        if isinstance(n, ast.Name):
            if n.id not in self.env:
                raise TranslateError(f'unknown name {n.id}')
            return self.env[n.id]
        if isinstance(n, ast.Subscript):
            a, ta = self.expr(n.value)
            ix = t2.index_tuple(n)
            if ta == 'mat' and len(ix) == 1 and not isinstance(ix[0], ast.Slice):
                i, ti = self.expr(ix[0])
                if ti == 'idx':
                    return f'(msel_rows {a} {i})', 'mat'
            if (ta == 'mat' and len(ix) == 2 and isinstance(ix[0], ast.Slice) and ix[0].lower is None
                    and ix[0].upper is None and ix[0].step is None):
                j, tj = self.expr(ix[1])
                if tj == 'idx':
                    return f'(msel_cols {a} {j})', 'mat'
            if (ta == 'vec' and len(ix) == 1 and isinstance(ix[0], ast.Slice) and ix[0].upper is None and ix[0].step is None
                    and isinstance(ix[0].lower, ast.Call) and t2.src(ix[0].lower.func) == 'len' and len(ix[0].lower.args) == 1):
                j, tj = self.expr(ix[0].lower.args[0])
                if tj == 'idx':
                    return f'(skipn (length {j}) {a})', 'vec'
            if ta == 'vec' and len(ix) == 1 and not isinstance(ix[0], ast.Slice):
                i, ti = self.expr(ix[0])
                if ti == 'idx':
                    return f'(vsel o {a} {i})', 'vec'
            raise TranslateError('subscript ' + t2.src(n))
        if isinstance(n, ast.BinOp):
            a, ta = self.expr(n.left)
            b, tb = self.expr(n.right)
            if isinstance(n.op, ast.MatMult) and (ta, tb) == ('mat', 'vec'):
                return f'(matvec o {a} {b})', 'vec'
            if isinstance(n.op, ast.Sub) and (ta, tb) == ('vec', 'vec'):
                return f'(vsub o {a} {b})', 'vec'
            if isinstance(n.op, ast.Add) and (ta, tb) == ('vec', 'vec'):
                return f'(vadd o {a} {b})', 'vec'
            if isinstance(n.op, ast.Add) and (ta, tb) == ('mat', 'mat'):
                return f'(madd {a} {b})', 'mat'
            if isinstance(n.op, ast.MatMult) and (ta, tb) == ('mat', 'mat'):
                return f'(mmul o {a} {b})', 'mat'
            if isinstance(n.op, ast.Div) and (ta, tb) == ('vec', 'invw'):
                # v / epsilon  with w = 1/epsilon
                return f'(map (fun v => rmul o v {b}) {a})', 'vec'
            raise TranslateError('operator in ' + t2.src(n))
        if isinstance(n, ast.Subscript) and isinstance(n.slice, ast.Slice):
            pass
        if isinstance(n, ast.Call) and t2.src(n.func) == 'np.concatenate' and len(n.args) == 1 and not n.keywords \
                and isinstance(n.args[0], ast.Tuple) and len(n.args[0].elts) >= 2:
            parts = [self.expr(e) for e in n.args[0].elts]
            tys = {ty for _, ty in parts}
            if tys in ({'vec'}, {'idx'}):
                out = parts[-1][0]
                for a, _ in reversed(parts[:-1]):
                    out = f'({a} ++ {out})'
                return out, tys.pop()
            raise TranslateError('concatenate of ' + repr(tys))
        if isinstance(n, ast.Call) and t2.src(n.func) == 'bmat':
            # bmat([[a, b], [c, d]], 'csr'): the left blocks are  X[..][:, <J>]  with the same J
            if not (len(n.args) == 2 and isinstance(n.args[1], ast.Constant) and n.args[1].value == 'csr' and not n.keywords
                    and isinstance(n.args[0], ast.List) and len(n.args[0].elts) == 2
                    and all(isinstance(r, ast.List) and len(r.elts) == 2 for r in n.args[0].elts)):
                raise TranslateError('bmat shape: ' + t2.src(n)[:80])
            rows, widths = [], set()
            for r in n.args[0].elts:
                left = r.elts[0]
                ix = t2.index_tuple(left) if isinstance(left, ast.Subscript) else []
                if not (len(ix) == 2 and isinstance(ix[0], ast.Slice) and isinstance(ix[1], ast.Name)):
                    raise TranslateError('bmat left block: ' + t2.src(left))
                widths.add(ix[1].id)
                (a, ta), (b, tb) = self.expr(r.elts[0]), self.expr(r.elts[1])
                if (ta, tb) != ('mat', 'mat'):
                    raise TranslateError('bmat block types')
                rows.append((a, b))
            if len(widths) != 1:
                raise TranslateError('bmat: left blocks of different width')
            w = self.env[widths.pop()][0]
            return (f'(mvstack (mhstack (length {w}) {rows[0][0]} {rows[0][1]}) (mhstack (length {w}) {rows[1][0]} {rows[1][1]}))'), 'mat'
        if isinstance(n, ast.Call) and isinstance(n.func, ast.Attribute) and not n.args and not n.keywords:
            a, ta = self.expr(n.func.value)
            if n.func.attr == 'diagonal' and ta == 'mat':
                return f'(mdiag o {a})', 'vec'
            if n.func.attr == 'copy':
                return a, ta
        raise TranslateError('unsupported expression: ' + t2.src(n)[:100])

    def let(self, base, term):
        nm = self.fresh(base)
        self.lets.append((nm, term))
        return nm

    def stmt(self, s):
        if isinstance(s, ast.Assign) and len(s.targets) == 1:
            tg = s.targets[0]
            if isinstance(tg, ast.Name):
                v, ty = self.expr(s.value)
                self.env[tg.id] = (self.let(tg.id, v), ty)
                return
            if isinstance(tg, ast.Subscript) and isinstance(tg.value, ast.Name) and not isinstance(tg.slice, (ast.Slice, ast.Tuple)):
                a, ta = self.expr(tg.value)
                i, ti = self.expr(tg.slice)
                if (ta, ti) != ('vec', 'idx'):
                    raise TranslateError('assignment target ' + t2.src(tg))
                if self._is_inv_eps(s.value):
                    v, tv = self.env['epsilon'][0], 'scalar'
                else:
                    v, tv = self.expr(s.value)
                if tv == 'scalar':
                    new = f'(vset_const {a} {i} {v})'
                elif tv == 'vec':
                    new = f'(vset {a} {i} {v})'
                else:
                    raise TranslateError('assigned value ' + t2.src(s))
                self.env[tg.value.id] = (self.let(tg.value.id, new), 'vec')
                return
        if (isinstance(s, ast.Expr) and isinstance(s.value, ast.Call) and isinstance(s.value.func, ast.Attribute)
                and s.value.func.attr == 'setdiag' and isinstance(s.value.func.value, ast.Name)
                and len(s.value.args) == 1 and not s.value.keywords):
            m = s.value.func.value.id
            a, ta = self.expr(s.value.func.value)
            d, td = self.expr(s.value.args[0])
            if (ta, td) != ('mat', 'vec'):
                raise TranslateError('setdiag ' + t2.src(s))
            self.env[m] = (self.let(m, f'(msetdiag o {a} {d})'), 'mat')
            return
        raise TranslateError('unsupported statement: ' + t2.src(s)[:120])

    def _is_inv_eps(self, n):
        """``1.0 / epsilon`` where epsilon is bound as the type 'invw' (the model carries w = 1/epsilon)"""
        return (isinstance(n, ast.BinOp) and isinstance(n.op, ast.Div) and isinstance(n.left, ast.Constant)
                and n.left.value == 1 and isinstance(n.right, ast.Name) and n.right.id == 'epsilon'
                and self.env.get('epsilon', (None, None))[1] == 'invw')

    def close(self, result):
        out = ''
        for nm, term in self.lets:
            out += f'let {nm} := {term} in\n  '
        return out + result


def translate_init_bc(fn):
    body = _body(fn)
    if [a.arg for a in fn.args.args] != ['A', 'b', 'x', 'I', 'D']:
        raise TranslateError('_init_bc signature')
    _expect(body[0], 'D = _flatten_dofs(D)', '_init_bc[0]')
    _expect(body[1], 'I = _flatten_dofs(I)', '_init_bc[1]')
    br = body[2]
    tests, bodies = [], []
    while isinstance(br, ast.If):
        tests.append(t2.src(br.test))
        bodies.append(br.body)
        if len(br.orelse) == 1 and isinstance(br.orelse[0], ast.If):
            br = br.orelse[0]
        else:
            bodies.append(br.orelse)
            break
    if tests != ['I is None and D is None', 'I is None and D is not None', 'D is None and I is not None']:
        raise TranslateError('_init_bc branch tests: ' + repr(tests))
    if not (len(bodies) == 4 and all(len(b) == 1 for b in bodies) and isinstance(bodies[0][0], ast.Raise)
            and isinstance(bodies[3][0], ast.Raise)):
        raise TranslateError('_init_bc branches')

    def compl(st, tgt, other):
        if not (isinstance(st, ast.Assign) and t2.src(st.targets[0]) == tgt):
            raise TranslateError('_init_bc assignment ' + t2.src(st))
        _expect(st.value, f'np.setdiff1d(np.arange(A.shape[0], dtype=np.int32), {other})', '_init_bc complement')
        return f'complement n {other.lower()}'
    ci = compl(bodies[1][0], 'I', 'D')
    cd = compl(bodies[2][0], 'D', 'I')
    # defaults for x and b
    _expect(body[-1], 'return (b, x, I, D)', '_init_bc return')
    dfl = [s for s in body[3:-1] if not isinstance(s, ast.Assert)]
    if len(dfl) != 1 or t2.src(dfl[0]) != ('if x is None:\n    x = np.zeros(A.shape[0], dtype=A.dtype)\n'
                                            'elif b is None:\n    b = np.zeros_like(x)'):
        raise TranslateError('_init_bc defaults: ' + '; '.join(t2.src(s) for s in dfl)[:200])
    return ('Definition gen_init_bc (n : nat) (I D : option (list nat)) : option (list nat * list nat) :=\n'
            '  match I, D with\n  | None, None => None\n'
            f'  | None, Some d => Some ({ci}, d)\n'
            f'  | Some i, None => Some (i, {cd})\n'
            '  | Some _, Some _ => None\n  end.')


def translate_condense(fn):
    body = _body(fn)
    if [a.arg for a in fn.args.args] != ['A', 'b', 'x', 'I', 'D', 'expand']:
        raise TranslateError('condense signature')
    _expect(body[0], 'b, x, I, D = _init_bc(A, b, x, I, D)', 'condense[0]')
    env = {'A': ('A', 'mat'), 'b': ('b', 'vec'), 'x': ('x', 'vec'), 'I': ('I', 'idx'), 'D': ('D', 'idx')}
    ifs = [s for s in body if isinstance(s, ast.If)]
    if len(ifs) != 2 or t2.src(ifs[0].test) != 'b is None' or t2.src(ifs[1].test) != 'expand':
        raise TranslateError('condense structure')
    # b is None: (A[I][:, I],)
    s0 = t2.only(ifs[0].body, 'condense b-is-None branch')
    if not (isinstance(s0, ast.Assign) and isinstance(s0.value, ast.Tuple) and len(s0.value.elts) == 1):
        raise TranslateError('condense: ' + t2.src(s0))
    a0 = MvTr(env).expr(s0.value.elts[0])
    if len(ifs[0].orelse) != 2:
        raise TranslateError('condense else branch')
    inner = ifs[0].orelse[0]
    _expect(ifs[0].orelse[1], 'ret_value = (Aout, bout)', 'condense ret_value')
    if not (isinstance(inner, ast.If) and t2.src(inner.test) == 'isinstance(b, spmatrix)' and len(inner.orelse) == 1):
        raise TranslateError('condense: spmatrix test')
    vecb = inner.orelse[0]
    if not (isinstance(vecb, ast.If) and t2.src(vecb.test) == 'isinstance(b, ndarray)' and len(vecb.body) == 2
            and len(vecb.orelse) == 1 and isinstance(vecb.orelse[0], ast.Raise)):
        raise TranslateError('condense: ndarray branch')

    def pair(stmts, benv):
        if len(stmts) != 2 or t2.src(stmts[0].targets[0]) != 'Aout' or t2.src(stmts[1].targets[0]) != 'bout':
            raise TranslateError('condense: Aout/bout assignments')
        tr = MvTr(benv)
        return tr.expr(stmts[0].value), tr.expr(stmts[1].value)
    envm = dict(env)
    envm['b'] = ('B', 'mat')
    (am, _), (bm, tbm) = pair(inner.body, envm)
    (av, _), (bv, tbv) = pair(vecb.body, env)
    if not (a0[0] == am == av and tbm == 'mat' and tbv == 'vec'):
        raise TranslateError('condense: the three branches reduce A differently')
    ex = t2.only(ifs[1].body, 'condense expand branch')
    _expect(ex, 'ret_value += (x, I)', 'condense expand')
    return [f'Definition gen_condense_A (A : mat) (I : list nat) : mat := {av}.',
            f'Definition gen_condense_b (A : mat) (b x : vec) (I D : list nat) : vec := {bv}.',
            f'Definition gen_condense_B (B : mat) (I : list nat) : mat := {bm}.']


def translate_solve(tree):
    lin = t2.find_def(tree, 'solve_linear')
    blk = t2.only([s for s in _body(lin) if isinstance(s, ast.If) and t2.src(s.test) == 'x is not None and I is not None'],
                  'solve_linear expansion block')
    srcs = [t2.src(s) for s in blk.body]
    if len(srcs) == 3 and srcs[0] == 'y = x.copy()':
        sol, br = 'solver(A, b, **kwargs)', blk.body[1]
    elif len(srcs) == 4 and srcs[0] == 'sol = solver(A, b, **kwargs)' and srcs[1] == 'y = x.astype(np.result_type(x, sol))':
        sol, br = 'sol', blk.body[2]                # the copy is allocated with the dtype of the result
    else:
        raise TranslateError('solve_linear expansion block: ' + repr(srcs)[:300])
    _expect(blk.body[-1], 'return y', 'solve_linear return')
    if not (isinstance(br, ast.If) and t2.src(br.test) == 'isinstance(I, tuple)' and len(br.orelse) == 1 and len(br.body) == 1):
        raise TranslateError('solve_linear branch')
    _expect(br.body[0], f'np.add.at(y, I[0], I[1]({sol}))', 'solve_linear tuple branch')
    _expect(br.orelse[0], f'y[I] = {sol}', 'solve_linear assignment')
    tr = MvTr({'x': ('x', 'vec'), 'I': ('I', 'idx'), 'z': ('z', 'vec')})
    tr.stmt(ast.parse('y = x.copy()').body[0])
    tr.stmt(ast.parse('y[I] = z').body[0])
    lin_def = f'Definition gen_expand (x : vec) (I : list nat) (z : vec) : vec :=\n  {tr.close(tr.env["y"][0])}.'
    eig = t2.find_def(tree, 'solve_eigen')
    blk = t2.only([s for s in _body(eig) if isinstance(s, ast.If) and t2.src(s.test) == 'x is not None and I is not None'],
                  'solve_eigen expansion block')
    if len(blk.body) != 4:
        raise TranslateError('solve_eigen expansion block')
    _expect(blk.body[0], 'L, X = solver(A, M, **kwargs)', 'solve_eigen solve')
    _expect_any(blk.body[1], ['y = np.tile(x.copy()[:, None], (1, X.shape[1]))',
                              'y = np.tile(x.astype(np.result_type(x, X))[:, None], (1, X.shape[1]))'], 'solve_eigen tile')
    br = blk.body[2]
    if not (isinstance(br, ast.If) and t2.src(br.test) == 'isinstance(I, tuple)' and len(br.orelse) == 1 and len(br.body) == 1):
        raise TranslateError('solve_eigen branch')
    _expect(br.body[0], 'np.add.at(y, I[0], np.array([I[1](x) for x in X.T]).T)', 'solve_eigen tuple branch')
    _expect(br.orelse[0], 'y[I] = X', 'solve_eigen assignment')
    _expect(blk.body[3], 'return (L, y)', 'solve_eigen return')
    eig_def = ('Definition gen_expand_eig (x : vec) (I : list nat) (X : list vec) : list vec :=\n'
               '  map (fun z => gen_expand x I z) X.   (* columns of y: tile(x), y[I] = X *)')
    return [lin_def, eig_def]


def translate_penalize(fn):
    body = _body(fn)
    if [a.arg for a in fn.args.args] != ['A', 'b', 'x', 'I', 'D', 'epsilon', 'overwrite']:
        raise TranslateError('penalize signature')
    _expect(body[0], 'b, x, I, D = _init_bc(A, b, x, I, D)', 'penalize[0]')
    _expect_aout(body[1], 'penalize[1]')
    _expect(body[2], 'd = Aout.diagonal()', 'penalize[2]')
    # the default penalty parameter: any block that only computes local scalars and binds epsilon (its VALUE is a runtime
    # matter checked by the oracle; the model is parametrised by w = 1/epsilon)
    blk = body[3]
    if not (isinstance(blk, ast.If) and t2.src(blk.test) == 'epsilon is None' and not blk.orelse):
        raise TranslateError('penalize: default epsilon block')

    def only_local_scalars(stmts):
        names = set()
        for s in stmts:
            if isinstance(s, ast.Assign) and len(s.targets) == 1 and isinstance(s.targets[0], ast.Name):
                names.add(s.targets[0].id)
            elif isinstance(s, ast.If):
                names |= only_local_scalars(s.body) | only_local_scalars(s.orelse)
            else:
                raise TranslateError('penalize default epsilon block: ' + t2.src(s)[:80])
        return names
    assigned = only_local_scalars(blk.body)
    if 'epsilon' not in assigned or assigned & {'Aout', 'd', 'D', 'b', 'x', 'I', 'A'}:
        raise TranslateError('penalize default epsilon block assigns ' + repr(sorted(assigned)))
    mv = MvTr({'Aout': ('M', 'mat'), 'D': ('D', 'idx'), 'epsilon': ('w', 'invw')})
    for s in body[2:3] + body[4:6]:
        mv.stmt(s)
    mdef = 'Definition gen_penalize_matrix (M : mat) (D : list nat) (w : R) : mat :=\n  ' + mv.close(mv.env['Aout'][0]) + '.'
    _expect(body[6], 'if b is None:\n    return Aout', 'penalize b None')
    if len(body) == 10:
        _expect(body[7], 'bout = b if overwrite else b.copy()', 'penalize rhs copy')
        blk = body[8]
        if not (isinstance(blk, ast.If) and t2.src(blk.test) == 'not isinstance(b, spmatrix)' and not blk.orelse and len(blk.body) == 1):
            raise TranslateError('penalize rhs block')
        upd = blk.body[0]
    elif len(body) == 9:
        # mass matrix: plain copy; vector: copy with the dtype promoted to that of the prescribed values
        blk = body[7]
        if not (isinstance(blk, ast.If) and t2.src(blk.test) == 'isinstance(b, spmatrix)' and len(blk.body) == 1 and len(blk.orelse) == 2):
            raise TranslateError('penalize rhs block')
        _expect(blk.body[0], 'bout = b if overwrite else b.copy()', 'penalize mass matrix copy')
        _expect(blk.orelse[0], 'bout = b.astype(np.result_type(b, x), copy=not overwrite)', 'penalize rhs copy')
        upd = blk.orelse[1]
    else:
        raise TranslateError(f'penalize: {len(body)} statements')
    mv2 = MvTr({'bout': ('b', 'vec'), 'x': ('x', 'vec'), 'D': ('D', 'idx'), 'epsilon': ('w', 'invw')})
    mv2.stmt(upd)
    rdef = 'Definition gen_penalize_rhs (b x : vec) (D : list nat) (w : R) : vec :=\n  ' + mv2.close(mv2.env['bout'][0]) + '.'
    _expect(body[-1], 'return (Aout, bout)', 'penalize return')
    return [mdef, rdef]


def translate_flatten_dofs(fn):
    """_flatten_dofs: ndarray -> itself, DofsView -> .flatten(), dict of views -> np.unique(np.concatenate(flattened views))"""
    body = _body(fn)
    if [a.arg for a in fn.args.args] != ['S'] or len(body) != 3:
        raise TranslateError('_flatten_dofs shape')
    _expect(body[0], 'if S is None:\n    return None', '_flatten_dofs None')
    br = body[1]
    tests = []
    while isinstance(br, ast.If):
        tests.append((t2.src(br.test), br.body))
        br = br.orelse[0] if len(br.orelse) == 1 else None
    if [x[0] for x in tests] != ['isinstance(S, ndarray)', 'isinstance(S, DofsView)', 'isinstance(S, dict)']:
        raise TranslateError('_flatten_dofs branches ' + repr([x[0] for x in tests]))
    arr = [t2.src(s) for s in tests[0][1] if not (isinstance(s, ast.Expr) and isinstance(s.value, ast.Constant))]
    if arr == ['return S']:
        flat = 'S'                                   # repeated indices are kept
    elif arr == ['_, ix = np.unique(S, return_index=True)', 'return S[np.sort(ix)]']:
        flat = 'dedup_first S'                       # first occurrences, original order
    elif arr == ['if S.size == 0:\n    return S.astype(np.int32)', '_, ix = np.unique(S, return_index=True)', 'return S[np.sort(ix)]']:
        # an empty array (np.array([]) is an array of floats) is the empty index set
        flat = 'if Nat.eqb (length S) 0 then S else dedup_first S'
    else:
        raise TranslateError('_flatten_dofs ndarray branch: ' + repr(arr))
    _expect(tests[1][1][0], 'return S.flatten()', '_flatten_dofs view')
    d = tests[2][1]
    if len(d) != 2 or not isinstance(d[0], ast.FunctionDef):
        raise TranslateError('_flatten_dofs dict branch')
    _expect(d[0], 'def _flatten_helper(S, key):\n    if key in S and isinstance(S[key], DofsView):\n        return S[key].flatten()\n'
                  '    raise NotImplementedError', '_flatten_dofs helper')
    _expect(d[1], 'return np.unique(np.concatenate([_flatten_helper(S, key) for key in S]))', '_flatten_dofs dict')
    if not isinstance(body[2], ast.Raise):
        raise TranslateError('_flatten_dofs fallthrough')
    return ('Definition gen_flatten_dict (views : list (list nat)) : list nat := sort_unique (concat views).'
            '   (* np.unique(np.concatenate([...])) *)\n'
            f'Definition gen_flatten_array (S : list nat) : list nat := {flat}.   (* _flatten_dofs on an index array *)')


def translate_mpc(tree):
    fn = t2.find_def(tree, 'mpc')
    body = _body(fn)
    if [a.arg for a in fn.args.args] != ['A', 'b', 'S', 'M', 'T', 'g']:
        raise TranslateError('mpc signature')
    want = ['if M is None:\n    M = np.array([], dtype=np.int32)',
            'if S is None:\n    S = np.array([], dtype=np.int32)',
            None,
            'if T is None:\n    T = sp.eye(len(S), len(M))',
            'if g is None:\n    g = np.zeros(len(S))',
            "if T.shape[0] != len(S) or T.shape[1] != len(M) or len(g) != len(S):\n    raise ValueError('Inputs to mpc have incompatible shapes.')"]
    if len(body) != 9:
        raise TranslateError(f'mpc: {len(body)} statements')
    for s, w in zip(body, want):
        if w is not None:
            _expect(s, w, 'mpc prologue')
    _expect(body[2], 'U = np.setdiff1d(np.arange(A.shape[0], dtype=np.int32), np.concatenate((M, S)))', 'mpc U')
    env = {'A': ('A', 'mat'), 'T': ('T', 'mat'), 'b': ('b', 'vec'), 'g': ('g', 'vec'),
           'U': ('U', 'idx'), 'M': ('M', 'idx'), 'S': ('S', 'idx')}
    sB, sy, ret = body[6], body[7], body[8]
    if not (isinstance(sB, ast.Assign) and t2.src(sB.targets[0]) == 'B' and isinstance(sy, ast.Assign) and t2.src(sy.targets[0]) == 'y'):
        raise TranslateError('mpc: B / y assignments')
    Bt, tB = MvTr(env).expr(sB.value)
    yt, ty = MvTr(env).expr(sy.value)
    if (tB, ty) != ('mat', 'vec'):
        raise TranslateError('mpc: types of B, y')
    if not (isinstance(ret, ast.Return) and isinstance(ret.value, ast.Tuple) and len(ret.value.elts) == 4):
        raise TranslateError('mpc return')
    r0_, r1_, r2_, r3_ = ret.value.elts
    if t2.src(r0_) != 'B' or t2.src(r1_) != 'y':
        raise TranslateError('mpc return B, y')
    _expect(r2_, 'np.zeros_like(b, dtype=B.dtype)', 'mpc x0')
    if not (isinstance(r3_, ast.Tuple) and len(r3_.elts) == 2 and isinstance(r3_.elts[1], ast.Lambda)):
        raise TranslateError('mpc return tuple')
    perm, tp = MvTr(env).expr(r3_.elts[0])
    lam = r3_.elts[1]
    if [a.arg for a in lam.args.args] != ['x'] or lam.args.vararg or lam.args.kwarg:
        raise TranslateError('mpc lambda signature')
    envl = dict(env)
    envl['x'] = ('x', 'vec')
    ex, te = MvTr(envl).expr(lam.body)
    if (tp, te) != ('idx', 'vec'):
        raise TranslateError('mpc: types of permutation / expansion')
    return ['Definition gen_mpc_U (n : nat) (M S : list nat) : list nat := complement n (M ++ S).',
            f'Definition gen_mpc_B (A T : mat) (U M S : list nat) : mat :=\n  {Bt}.',
            f'Definition gen_mpc_y (A : mat) (b g : vec) (U M S : list nat) : vec :=\n  {yt}.',
            f'Definition gen_mpc_perm (U M S : list nat) : list nat := {perm}.',
            f'Definition gen_mpc_expand (T : mat) (g : vec) (U : list nat) (x : vec) : vec := {ex}.',
            'Definition gen_expand_tuple (x : vec) (perm : list nat) (f : vec -> vec) (z : vec) : vec := vadd_at o x perm (f z).'
            '   (* np.add.at(y, I[0], I[1](z)) *)',
            'Definition gen_expand_tuple_eig (x : vec) (perm : list nat) (f : vec -> vec) (X : list vec) : list vec :=\n'
            '  map (fun z => gen_expand_tuple x perm f z) X.']


def translate_solve_dispatch(tree):
    """solve / solve_linear / solve_eigen as dispatch wrappers: which callee, which positional arguments, when the result is
    expanded.  The expansion statements themselves are translated by translate_solve."""
    def sig(name):
        return [a.arg for a in t2.find_def(tree, name).args.args]
    if sig('solve') != ['A', 'b', 'x', 'I', 'solver'] or sig('solve_linear') != ['A', 'b', 'x', 'I', 'solver'] \
            or sig('solve_eigen') != ['A', 'M', 'x', 'I', 'solver']:
        raise TranslateError('solve signatures: ' + repr((sig('solve'), sig('solve_linear'), sig('solve_eigen'))))
    body = [s for s in _body(t2.find_def(tree, 'solve'))
            if not (isinstance(s, ast.Expr) and isinstance(s.value, ast.Call) and t2.src(s.value.func) == 'logger.info')]
    if len(body) != 2:
        raise TranslateError('solve: body')
    _expect(body[1], 'return out', 'solve return')
    br = body[0]
    tests, calls = [], []
    while isinstance(br, ast.If):
        tests.append(t2.src(br.test))
        st = t2.only(br.body, 'solve branch')
        if not (isinstance(st, ast.Assign) and t2.src(st.targets[0]) == 'out' and isinstance(st.value, ast.Call)):
            raise TranslateError('solve branch: ' + t2.src(st))
        calls.append(st.value)
        if len(br.orelse) == 1 and isinstance(br.orelse[0], ast.If):
            br = br.orelse[0]
        else:
            if not (len(br.orelse) == 1 and isinstance(br.orelse[0], ast.Raise)):
                raise TranslateError('solve: final else must raise')
            break
    if tests != ['isinstance(b, spmatrix)', 'isinstance(b, ndarray)']:
        raise TranslateError('solve dispatch tests: ' + repr(tests))
    env = {'A': 'A', 'x': 'x', 'I': 'Ia'}

    def args_of(call, callee, second):
        if t2.src(call.func) != callee or [k.arg for k in call.keywords] != [None]:
            raise TranslateError(f'solve: expected {callee}(..., **kwargs): ' + t2.src(call))
        names = [t2.src(a) for a in call.args]
        if len(names) != 5 or names[4] != 'solver':
            raise TranslateError('solve: arguments ' + repr(names))
        m = dict(env)
        m['b'] = second
        try:
            return [m[n] for n in names[:4]]
        except KeyError as e:
            raise TranslateError('solve: unknown argument ' + str(e))
    ae = args_of(calls[0], 'solve_eigen', 'B')
    al = args_of(calls[1], 'solve_linear', 'v')
    # solve_linear / solve_eigen: default solver, guarded expansion, plain call otherwise
    for name, second, ret in (('solve_linear', 'b', 'return solver(A, b, **kwargs)'), ('solve_eigen', 'M', 'return solver(A, M, **kwargs)')):
        bd = _body(t2.find_def(tree, name))
        if len(bd) != 3 or not (isinstance(bd[0], ast.If) and t2.src(bd[0].test) == 'solver is None') \
                or not (isinstance(bd[1], ast.If) and t2.src(bd[1].test) == 'x is not None and I is not None' and not bd[1].orelse):
            raise TranslateError(name + ': structure')
        _expect(bd[2], ret, name + ' plain call')
    return [
        'Definition gen_solve_linear (lin : mat -> vec -> vec) (A : mat) (b : vec) (x : option vec) (Ia : option (@iarg R)) : vec :=\n'
        '  match x, Ia with\n  | Some x\', Some (IArr l) => gen_expand x\' l (lin A b)\n'
        '  | Some x\', Some (ITup perm f) => gen_expand_tuple x\' perm f (lin A b)\n  | _, _ => lin A b\n  end.',
        'Definition gen_solve_eigen (eig : mat -> mat -> vec * list vec) (A M : mat) (x : option vec) (Ia : option (@iarg R)) : vec * list vec :=\n'
        '  match x, Ia with\n  | Some x\', Some (IArr l) => (fst (eig A M), gen_expand_eig x\' l (snd (eig A M)))\n'
        '  | Some x\', Some (ITup perm f) => (fst (eig A M), gen_expand_tuple_eig x\' perm f (snd (eig A M)))\n  | _, _ => eig A M\n  end.',
        'Definition gen_solve (lin : mat -> vec -> vec) (eig : mat -> mat -> vec * list vec) (A : mat) (b : @rhs R) (x : option vec) '
        '(Ia : option (@iarg R)) : option (@sol R) :=\n'
        '  match b with\n'
        f'  | RMat B => Some (SEig (fst (gen_solve_eigen eig {" ".join(ae)})) (snd (gen_solve_eigen eig {" ".join(ae)})))\n'
        f'  | RVec v => Some (SVec (gen_solve_linear lin {" ".join(al)}))\n'
        '  | ROther => None\n  end.']


def translate():
    tree = t2.parse(SRC)
    idx_def, enf = translate_enforce(t2.find_def(tree, 'enforce'))
    parts = [translate_flatten_dofs(t2.find_def(tree, '_flatten_dofs')), translate_init_bc(t2.find_def(tree, '_init_bc'))]
    parts += translate_condense(t2.find_def(tree, 'condense'))
    parts += translate_solve(tree)
    parts += enf
    parts += translate_penalize(t2.find_def(tree, 'penalize'))
    parts += translate_mpc(tree)
    parts += translate_solve_dispatch(tree)
    sec = '\n'.join(parts)
    return f'''(* GENERATED by vlib/c05_tr.py from {SRC} — do not edit *)
From Coq Require Import List ZArith.
Import ListNotations.
Require Import Base.C05_Np Model.C05_BC Model.C05_MPC Model.C05_Ext Model.C05_Solve.

(* enforce: "set rows on lhs to zero" — positions of the stored values to be zeroed *)
{idx_def}

Section Gen.
Context {{R : Type}} (o : ring_ops R).
Local Notation mat := (@Model.C05_BC.mat R).
Local Notation vec := (@Model.C05_BC.vec R).
{sec}
End Gen.
'''
