"""Symbolic execution of the integrated-Legendre family ElementLinePp(p) / ElementQuadP(p).

The REAL ``lbasis`` and the REAL ``_reval_legendre`` are executed; only the module-level name ``np`` seen by
``_reval_legendre`` is replaced by a shim with two differences:
  * ``np.zeros(<tuple shape>)`` returns an object array (so that polynomials can be stored in the tables P, dP);
  * ``np.sqrt(v)`` returns a fresh INDETERMINATE c_v (one per distinct argument v) instead of a float.
NumPy's ``Legendre(c).integ(lbnd=-1)``, ``.deriv()`` and the Clenshaw evaluation run unchanged on object arrays; their
float coefficients (which carry round-off of order 1e-17) are snapped to the small-denominator rational within 4e-16
(c09_sym.SNAP), else the degree is untranslatable (fail closed); the tie of this family is therefore the tolerance
correspondence with the numerical lbasis, and the theorems speak about the ideal coefficients.
The resulting polynomials live in dim + (p-1) variables: the coordinates and the scales c_n = sqrt((2n-1)/2); every
identity proved about them holds for EVERY value of the scales, in particular the real ones.
"""
import types

import numpy as np

from . import c09_sym
from .c09_sym import NonRational, Poly, SymbolicError, to_poly_tree


class _NpShim:
    def __init__(self, nv, first_scale):
        self._nv, self._first, self.scales = nv, first_scale, {}

    def zeros(self, shape, *a, **k):
        if isinstance(shape, tuple):
            out = np.empty(shape, dtype=object)
            out.fill(0)
            return out
        return np.zeros(shape, *a, **k)

    def sqrt(self, v):
        v = float(v)
        if v not in self.scales:
            idx = self._first + len(self.scales)
            if idx >= self._nv:
                raise SymbolicError('more sqrt scales than expected')
            self.scales[v] = idx
        return Poly.var(self.scales[v], self._nv)

    def __getattr__(self, name):
        return getattr(np, name)


def run(cls, p):
    """(dim, nv, basis list of (value tree, grad tree), scales {sqrt argument: variable index}, element)"""
    import logging
    logging.disable(logging.WARNING)
    try:
        probe = cls(p)
    finally:
        logging.disable(logging.NOTSET)
    dim = probe.refdom.dim()
    nscale = max(p - 1, 0)
    nv = dim + nscale
    nb = int(sum(probe._bfun_counts()))
    from skfem.element.element_line.element_line_pp import ElementLinePp
    f = ElementLinePp.__dict__['_reval_legendre']
    f = f.__func__ if isinstance(f, staticmethod) else f
    basis, scales = [], {}
    for i in range(nb):
        logging.disable(logging.WARNING)
        try:
            e = cls(p)
        finally:
            logging.disable(logging.NOTSET)
        shim = _NpShim(nv, dim)
        shim.scales = scales            # the same indeterminate for the same sqrt argument across calls
        g = dict(f.__globals__)
        g['np'] = shim
        e._reval_legendre = types.FunctionType(f.__code__, g, f.__name__, f.__defaults__, f.__closure__)
        X = np.empty((dim, 1), dtype=object)
        for k in range(dim):
            X[k, 0] = Poly.var(k, nv)
        c09_sym.SNAP = True
        try:
            res = e.lbasis(X, i)
        finally:
            c09_sym.SNAP = False
        if not isinstance(res, tuple) or len(res) != 2:
            raise SymbolicError('lbasis did not return (phi, dphi)')
        val = to_poly_tree(res[0], nv)
        grad = to_poly_tree(res[1], nv)
        basis.append((val, grad))
    if len(scales) != nscale:
        raise SymbolicError(f'{len(scales)} distinct sqrt scales for p={p}, expected {nscale}')
    return dim, nv, basis, dict(scales), probe


def run_bdm1():
    """ElementTriBDM1: the module constants s_1, s_2 = .5 -+ sqrt(3)/6 are re-evaluated from the module's source with
    np.sqrt(3) replaced by the indeterminate s (variable index 2) and arithmetic in Q(s)/(s^2 - 3); the REAL lbasis then
    runs with those two globals replaced.  Returns (dim, nv, basis, scales, element)."""
    import ast
    import inspect
    from skfem.element.element_tri import element_tri_bdm1 as mod
    cls = mod.ElementTriBDM1
    dim, nv = 2, 3
    tree = ast.parse(inspect.getsource(mod))
    consts = {}

    class Shim:
        def sqrt(self, v):
            if v != 3:
                raise SymbolicError(f'sqrt({v!r}) at module level')
            return Poly.var(2, nv)
    old = Poly.SQRT
    Poly.SQRT = (2, 3)
    try:
        for node in tree.body:
            if isinstance(node, ast.Assign) and len(node.targets) == 1 and isinstance(node.targets[0], ast.Name) \
                    and node.targets[0].id in ('s_1', 's_2'):
                consts[node.targets[0].id] = eval(compile(ast.Expression(node.value), '<bdm1>', 'eval'), {'np': Shim()})
        if set(consts) != {'s_1', 's_2'} or not all(isinstance(v, Poly) for v in consts.values()):
            raise SymbolicError('module constants s_1, s_2 not found as expressions in sqrt(3)')
        f = cls.lbasis
        g = dict(f.__globals__)
        g.update(consts)
        e = cls()
        lb = types.FunctionType(f.__code__, g, f.__name__, f.__defaults__, f.__closure__)
        basis = []
        for i in range(int(sum(e._bfun_counts()))):
            X = np.empty((dim, 1), dtype=object)
            for k in range(dim):
                X[k, 0] = Poly.var(k, nv)
            res = lb(e, X, i)
            basis.append((to_poly_tree(res[0], nv), to_poly_tree(res[1], nv)))
    finally:
        Poly.SQRT = old
    return dim, nv, basis, {3.0: 2}, e
