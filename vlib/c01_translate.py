"""C01 — fail-closed translator of the assembly loops to Gallina (tie T2).

Reads, on every run, from the working tree of the implementation under test:

  skfem/assembly/form/bilinear_form.py   BilinearForm._assemble (serial part), _kernel, assemble
  skfem/assembly/form/linear_form.py     LinearForm._assemble, _kernel
  skfem/assembly/form/functional.py      Functional._kernel, elemental, _assemble
  skfem/assembly/form/coo_data.py        COOData._assemble_scipy_csr, toarray (1-d), todefault

and writes Gen/C01Gen.v: the three assemblers as Gallina terms over the combinators of
Model.C01_Assembly (slice_set, for_range, nd3_set_row, sum_axis1, dense1/dense2).  Every statement of
the translated functions must match one of the shapes below; anything else raises TranslateError.
The threaded branch of BilinearForm._assemble is the subject of C16 and is only required not to touch
rows/cols or re-bind data.
"""
import ast

from . import t2
from .core import TranslateError

BIL = 'skfem/assembly/form/bilinear_form.py'
LIN = 'skfem/assembly/form/linear_form.py'
FUN = 'skfem/assembly/form/functional.py'
COO = 'skfem/assembly/form/coo_data.py'

BASIS_ATTR = {'Nbfun': 'bNbfun', 'nelems': 'bnelems', 'N': 'bN', 'dx': 'bdx'}


def _nodoc(body):
    return [s for s in body if not (isinstance(s, ast.Expr) and isinstance(s.value, ast.Constant)
                                    and isinstance(s.value.value, str))]


class Scope:
    """names that are bound to nat expressions / bases while walking one function"""

    def __init__(self, bases, nats=()):
        self.bases = set(bases)        # python names denoting basis objects
        self.nats = set(nats)          # python names denoting nat variables (kept under the same name)

    def expr(self):
        env = {}
        for b in self.bases:
            for a in ('Nbfun', 'nelems', 'N'):
                env[f'{b}.{a}'] = f'({BASIS_ATTR[a]} {b})'
        for n in self.nats:
            env[n] = n
        return t2.Expr(env, 'nat')

    def nat(self, node):
        return self.expr().tr(node)

    def basis_attr(self, node, attr):
        """<basis>.<attr> -> basis name"""
        if isinstance(node, ast.Attribute) and node.attr == attr and isinstance(node.value, ast.Name) \
                and node.value.id in self.bases:
            return node.value.id
        raise TranslateError(f'expected <basis>.{attr}: ' + t2.src(node))

    def basis_item(self, node, attr):
        """<basis>.<attr>[<nat var>] -> (basis, index)"""
        if isinstance(node, ast.Subscript) and isinstance(node.slice, ast.Name) and node.slice.id in self.nats:
            return self.basis_attr(node.value, attr), node.slice.id
        raise TranslateError(f'expected <basis>.{attr}[<index>]: ' + t2.src(node))


def _assign(st, what):
    if not (isinstance(st, ast.Assign) and len(st.targets) == 1):
        raise TranslateError(f'{what}: expected a simple assignment, got ' + t2.src(st)[:100])
    return st.targets[0], st.value


def _name_assign(st, name, what=None):
    tgt, val = _assign(st, what or name)
    if not (isinstance(tgt, ast.Name) and tgt.id == name):
        raise TranslateError(f'expected "{name} = ...", got ' + t2.src(st)[:100])
    return val


def _zeros_call(val, dtype):
    """np.zeros(<shape>, dtype=<dtype>) -> shape node"""
    if not (isinstance(val, ast.Call) and t2.src(val.func) == 'np.zeros' and len(val.args) == 1
            and [(k.arg, t2.src(k.value)) for k in val.keywords] == [('dtype', dtype)]):
        raise TranslateError(f'expected np.zeros(<shape>, dtype={dtype}): ' + t2.src(val))
    return val.args[0]


def _params_stmt(st, sc):
    """<name> = FormExtraParams({**B.default_parameters(), **self._normalize_asm_kwargs(kwargs, B)}) -> (name, B)"""
    tgt, val = _assign(st, 'FormExtraParams')
    if not isinstance(tgt, ast.Name):
        raise TranslateError('parameter dictionary: ' + t2.src(st))
    for b in sc.bases:
        for b2 in sc.bases:
            want = f'FormExtraParams({{**{b}.default_parameters(), **self._normalize_asm_kwargs(kwargs, {b2})}})'
            if t2.src(val) == want:
                return tgt.id, (b, b2)
    raise TranslateError('parameter dictionary: ' + t2.src(val))


def _slice_stmt(st, sc):
    val = _name_assign(st, 'ixs')
    if not (isinstance(val, ast.Call) and t2.src(val.func) == 'slice' and len(val.args) == 2 and not val.keywords):
        raise TranslateError('expected ixs = slice(lo, hi): ' + t2.src(st))
    return sc.nat(val.args[0]), sc.nat(val.args[1])


def _kernel_def(fn, nfields):
    """def _kernel(self, <field params...>, w, dx): return np.sum(self.form(*a, *b, w) * dx, axis=1)
    -> (param names, order in which the field params are passed to the form)"""
    params = [a.arg for a in fn.args.args]
    if len(params) != nfields + 3 or params[0] != 'self' or fn.args.vararg or fn.args.kwarg or fn.args.kwonlyargs:
        raise TranslateError('_kernel signature: ' + repr(params))
    fields, wn, dxn = params[1:1 + nfields], params[-2], params[-1]
    body = _nodoc(fn.body)
    ret = t2.only(body, '_kernel body')
    if not isinstance(ret, ast.Return):
        raise TranslateError('_kernel: ' + t2.src(ret))
    c = ret.value
    if not (isinstance(c, ast.Call) and t2.src(c.func) == 'np.sum' and len(c.args) == 1
            and [(k.arg, t2.src(k.value)) for k in c.keywords] == [('axis', '1')]):
        raise TranslateError('_kernel: expected np.sum(<integrand> * dx, axis=1): ' + t2.src(c))
    prod = c.args[0]
    if not (isinstance(prod, ast.BinOp) and isinstance(prod.op, ast.Mult) and isinstance(prod.right, ast.Name)
            and prod.right.id == dxn):
        raise TranslateError('_kernel: expected <form call> * dx: ' + t2.src(prod))
    call = prod.left
    if not (isinstance(call, ast.Call) and t2.src(call.func) == 'self.form' and not call.keywords
            and len(call.args) == nfields + 1):
        raise TranslateError('_kernel: form call: ' + t2.src(call))
    order = []
    for a in call.args[:-1]:
        if not (isinstance(a, ast.Starred) and isinstance(a.value, ast.Name) and a.value.id in fields):
            raise TranslateError('_kernel: form argument: ' + t2.src(a))
        order.append(a.value.id)
    if not (isinstance(call.args[-1], ast.Name) and call.args[-1].id == wn):
        raise TranslateError('_kernel: last form argument must be the parameter dictionary: ' + t2.src(call))
    if sorted(order) != sorted(fields):
        raise TranslateError('_kernel: each field must be passed exactly once: ' + t2.src(call))
    return fields, order, wn, dxn


def _kernel_call(val, sc, nfields, wname, dxname):
    """self._kernel(B1.basis[x], ..., <w>, dx) -> [(basis, index), ...]"""
    if not (isinstance(val, ast.Call) and t2.src(val.func) == 'self._kernel' and not val.keywords
            and len(val.args) == nfields + 2 and t2.src(val.args[-2]) == wname and t2.src(val.args[-1]) == dxname):
        raise TranslateError('kernel call: ' + t2.src(val))
    return [sc.basis_item(a, 'basis') for a in val.args[:nfields]]


# ------------------------------------------------------------------------------------------ BilinearForm

def bilinear():
    tree = t2.parse(BIL)
    fn = t2.find_def(tree, '_assemble', 'BilinearForm')
    kn = t2.find_def(tree, '_kernel', 'BilinearForm')
    asm = t2.find_def(tree, 'assemble', 'BilinearForm')
    params = [a.arg for a in fn.args.args]
    if params != ['self', 'ubasis', 'vbasis'] or fn.args.kwarg is None or fn.args.kwarg.arg != 'kwargs' or fn.args.vararg:
        raise TranslateError('BilinearForm._assemble signature: ' + repr(params))
    if [t2.src(d) for d in fn.args.defaults] != ['None']:
        raise TranslateError('BilinearForm._assemble defaults')
    body = _nodoc(fn.body)
    sc = Scope(['ubasis', 'vbasis'])
    out = []
    # 1. vbasis defaulting and the quadrature guard
    first = body[0]
    if not (isinstance(first, ast.If) and t2.src(first.test) == 'vbasis is None'
            and [t2.src(s) for s in first.body] == ['vbasis = ubasis'] and len(first.orelse) == 1
            and isinstance(first.orelse[0], ast.If) and not first.orelse[0].orelse
            and len(first.orelse[0].body) == 1 and isinstance(first.orelse[0].body[0], ast.Raise)):
        raise TranslateError('expected "if vbasis is None: vbasis = ubasis / elif <mismatch>: raise": ' + t2.src(first)[:200])
    guard = t2.src(first.orelse[0].test)
    if guard not in ('ubasis.X.shape[-1] != vbasis.X.shape[-1]', 'vbasis.X.shape[-1] != ubasis.X.shape[-1]'):
        raise TranslateError('quadrature guard: ' + guard)
    out.append('let vbasis := match vbasis0 with None => ubasis | Some b => b end in')
    out.append('if (match vbasis0 with None => false | Some b => negb (bnq ubasis =? bnq b) end) then None else')
    pos = 1
    # 2. nt, dx, parameters
    b_nt = sc.basis_attr(_name_assign(body[pos], 'nt'), 'nelems'); pos += 1
    out.append(f'let nt := bnelems {b_nt} in')
    sc.nats.add('nt')
    b_dx = sc.basis_attr(_name_assign(body[pos], 'dx'), 'dx'); pos += 1
    out.append(f'let dx := bdx {b_dx} in')
    out.append(f'let nq := bnq {b_dx} in')
    wname, b_w = _params_stmt(body[pos], sc); pos += 1
    if b_w != ('ubasis', 'ubasis'):
        raise TranslateError('default parameters must come from ubasis')
    # 3. allocation
    out.append(f'let sz := {sc.nat(_name_assign(body[pos], "sz"))} in'); pos += 1
    sc.nats.add('sz')
    shp = _zeros_call(_name_assign(body[pos], 'data'), 'self.dtype'); pos += 1
    if not (isinstance(shp, ast.Tuple) and len(shp.elts) == 3):
        raise TranslateError('data shape: ' + t2.src(shp))
    d = [sc.nat(e) for e in shp.elts]
    out.append(f'let data := nd3_zeros rO {d[0]} {d[1]} {d[2]} in')
    for nm in ('rows', 'cols'):
        s = _zeros_call(_name_assign(body[pos], nm), 'np.int32'); pos += 1
        out.append(f'let {nm} := repeat 0 {sc.nat(s)} in')
    # 4. the double loop
    outer = body[pos]; pos += 1
    if not (isinstance(outer, ast.For) and isinstance(outer.target, ast.Name) and not outer.orelse and len(outer.body) == 1
            and isinstance(outer.body[0], ast.For) and isinstance(outer.body[0].target, ast.Name) and not outer.body[0].orelse):
        raise TranslateError('expected a nest of two for loops: ' + t2.src(outer)[:120])
    inner = outer.body[0]
    jn, inn = outer.target.id, inner.target.id
    r_out = sc.nat(t2.is_range_of(outer.iter))
    r_in = sc.nat(t2.is_range_of(inner.iter))
    sc.nats.update([jn, inn])
    out.append(f'bind (for_range {r_out} (fun {jn} => for_range {r_in} (fun {inn} (st : st3 R) =>')
    out.append("  let '(data, rows, cols) := st in")
    closing = 0
    ib = list(inner.body)
    lo, hi = _slice_stmt(ib[0], sc)
    out.append(f'  let lo := {lo} in')
    out.append(f'  let hi := {hi} in')
    written = []
    for st in ib[1:]:
        if isinstance(st, ast.If):
            if t2.src(st.test) != 'self.nthreads <= 0' or st.orelse or len(st.body) != 1:
                raise TranslateError('serial guard: ' + t2.src(st)[:120])
            st = st.body[0]
        tgt, val = _assign(st, 'loop body')
        if not isinstance(tgt, ast.Subscript) or not isinstance(tgt.value, ast.Name):
            raise TranslateError('loop body store: ' + t2.src(st)[:120])
        arr = tgt.value.id
        if arr in ('rows', 'cols'):
            if t2.src(tgt.slice) != 'ixs':
                raise TranslateError('index of rows/cols store: ' + t2.src(tgt))
            b, k = sc.basis_item(val, 'element_dofs')
            out.append(f'  bind (slice_set lo hi (element_dofs {b} {k}) {arr}) (fun {arr} =>')
        elif arr == 'data':
            ix = t2.index_tuple(tgt)
            if not (len(ix) == 3 and t2.src(ix[2]) == ':' and all(isinstance(e, ast.Name) and e.id in (jn, inn) for e in ix[:2])):
                raise TranslateError('data store index: ' + t2.src(tgt))
            args = _kernel_call(val, sc, 2, wname, 'dx')
            out.append(f'  bind (nd3_set_row {ix[0].id} {ix[1].id} (gen_bilinear_kernel form (bB {args[0][0]} {args[0][1]}) '
                       f'(bB {args[1][0]} {args[1][1]}) w dx nt nq) data) (fun data =>')
        else:
            raise TranslateError('store to unknown array: ' + t2.src(st)[:100])
        written.append(arr)
        closing += 1
    if sorted(written) != ['cols', 'data', 'rows']:
        raise TranslateError('loop body must store rows, cols and data exactly once: ' + repr(written))
    out.append('  Some (data, rows, cols)' + ')' * closing + '))')
    out.append('  (data, rows, cols))')
    # 5. threaded branch (C16): must not touch the triplet arrays
    if pos < len(body) and isinstance(body[pos], ast.If) and t2.src(body[pos].test) == 'self.nthreads > 0':
        for n in ast.walk(body[pos]):
            if isinstance(n, (ast.Assign, ast.AugAssign)):
                tg = n.targets if isinstance(n, ast.Assign) else [n.target]
                for tgn in tg:
                    if t2.src(tgn).split('[')[0] in ('rows', 'cols', 'data', 'nt', 'dx', 'sz', 'ubasis', 'vbasis'):
                        raise TranslateError('threaded branch re-binds ' + t2.src(tgn))
        if body[pos].orelse:
            raise TranslateError('threaded branch has an else')
        pos += 1
    # 6. flatten, return
    if t2.src(body[pos]) != "data = data.flatten('C')":
        raise TranslateError("expected data = data.flatten('C'): " + t2.src(body[pos])[:100])
    pos += 1
    ret = body[pos]
    if pos != len(body) - 1 or not (isinstance(ret, ast.Return) and isinstance(ret.value, ast.Tuple) and len(ret.value.elts) == 4):
        raise TranslateError('return statement: ' + t2.src(ret)[:200])
    ind, dat, shape, lshape = ret.value.elts
    if not (isinstance(ind, ast.Call) and t2.src(ind.func) == 'np.array' and len(ind.args) == 1 and isinstance(ind.args[0], ast.List)
            and all(isinstance(e, ast.Name) and e.id in ('rows', 'cols') for e in ind.args[0].elts) and t2.src(dat) == 'data'):
        raise TranslateError('returned indices/data: ' + t2.src(ret)[:200])
    inds = '; '.join(e.id for e in ind.args[0].elts)
    if not all(isinstance(x, ast.Tuple) for x in (shape, lshape)):
        raise TranslateError('returned shapes: ' + t2.src(ret)[:200])
    sh = '; '.join(sc.nat(e) for e in shape.elts)
    lsh = '; '.join(sc.nat(e) for e in lshape.elts)
    out.append("(fun st => let '(data, rows, cols) := st in")
    out.append(f'  Some (mkCoo [{inds}] (flattenC data) [{sh}] [{lsh}])).')
    # kernel
    fields, order, wn, dxn = _kernel_def(kn, 2)
    kern = (f'Definition gen_bilinear_kernel (form : V -> V -> W -> R) ({fields[0]} {fields[1]} : nat -> nat -> V) '
            f'(w : nat -> nat -> W) (dx : nat -> nat -> R) (nt nq : nat) : list R :=\n'
            f'  sum_axis1 R rO radd nt nq (fun e q => rmul (form ({order[0]} e q) ({order[1]} e q) (w e q)) (dx e q)).')
    # assemble(): the triplets go to COOData._assemble_scipy_csr unchanged
    srcs = [t2.src(s) for s in _nodoc(asm.body)]
    if 'mat = COOData._assemble_scipy_csr(*self._assemble(*args, **kwargs))' not in srcs or srcs[-1] != 'return mat':
        raise TranslateError('BilinearForm.assemble: ' + repr(srcs))
    head = ('Definition gen_bilinear_assemble (form : V -> V -> W -> R) (w : nat -> nat -> W)\n'
            '    (ubasis : basis R V) (vbasis0 : option (basis R V)) : option (coo R) :=\n  ')
    return kern + '\n\n' + head + '\n  '.join(out)


# ------------------------------------------------------------------------------------------ LinearForm

def linear():
    tree = t2.parse(LIN)
    fn = t2.find_def(tree, '_assemble', 'LinearForm')
    kn = t2.find_def(tree, '_kernel', 'LinearForm')
    params = [a.arg for a in fn.args.args]
    if params != ['self', 'ubasis', 'vbasis'] or fn.args.kwarg is None or fn.args.vararg:
        raise TranslateError('LinearForm._assemble signature: ' + repr(params))
    body = _nodoc(fn.body)
    if [t2.src(s) for s in body[:2]] != ['assert vbasis is None', 'vbasis = ubasis']:
        raise TranslateError('LinearForm._assemble head: ' + repr([t2.src(s) for s in body[:2]]))
    sc = Scope(['ubasis', 'vbasis'])
    out = ['let vbasis := ubasis in']
    pos = 2
    b_nt = sc.basis_attr(_name_assign(body[pos], 'nt'), 'nelems'); pos += 1
    out.append(f'let nt := bnelems {b_nt} in')
    sc.nats.add('nt')
    b_dx = sc.basis_attr(_name_assign(body[pos], 'dx'), 'dx'); pos += 1
    out.append(f'let dx := bdx {b_dx} in')
    out.append(f'let nq := bnq {b_dx} in')
    wname, _ = _params_stmt(body[pos], sc); pos += 1
    out.append(f'let sz := {sc.nat(_name_assign(body[pos], "sz"))} in'); pos += 1
    sc.nats.add('sz')
    s = _zeros_call(_name_assign(body[pos], 'data'), 'self.dtype'); pos += 1
    out.append(f'let data := repeat rO {sc.nat(s)} in')
    s = _zeros_call(_name_assign(body[pos], 'rows'), 'np.int32'); pos += 1
    out.append(f'let rows := repeat 0 {sc.nat(s)} in')
    loop = body[pos]; pos += 1
    if not (isinstance(loop, ast.For) and isinstance(loop.target, ast.Name) and not loop.orelse):
        raise TranslateError('expected a for loop: ' + t2.src(loop)[:100])
    inn = loop.target.id
    sc.nats.add(inn)
    out.append(f'bind (for_range {sc.nat(t2.is_range_of(loop.iter))} (fun {inn} (st : list R * list nat) =>')
    out.append("  let '(data, rows) := st in")
    lo, hi = _slice_stmt(loop.body[0], sc)
    out.append(f'  let lo := {lo} in')
    out.append(f'  let hi := {hi} in')
    written = []
    for st in loop.body[1:]:
        tgt, val = _assign(st, 'loop body')
        if not (isinstance(tgt, ast.Subscript) and isinstance(tgt.value, ast.Name) and t2.src(tgt.slice) == 'ixs'):
            raise TranslateError('loop body store: ' + t2.src(st)[:120])
        arr = tgt.value.id
        if arr == 'rows':
            b, k = sc.basis_item(val, 'element_dofs')
            out.append(f'  bind (slice_set lo hi (element_dofs {b} {k}) rows) (fun rows =>')
        elif arr == 'data':
            args = _kernel_call(val, sc, 1, wname, 'dx')
            out.append(f'  bind (slice_set lo hi (gen_linear_kernel form (bB {args[0][0]} {args[0][1]}) w dx nt nq) data) (fun data =>')
        else:
            raise TranslateError('store to unknown array: ' + t2.src(st)[:100])
        written.append(arr)
    if sorted(written) != ['data', 'rows']:
        raise TranslateError('loop body must store rows and data exactly once: ' + repr(written))
    out.append('  Some (data, rows))))')
    out.append('  (data, rows))')
    ret = body[pos]
    if pos != len(body) - 1 or not (isinstance(ret, ast.Return) and isinstance(ret.value, ast.Tuple) and len(ret.value.elts) == 4):
        raise TranslateError('return statement: ' + t2.src(ret)[:200])
    ind, dat, shape, lshape = ret.value.elts
    if t2.src(ind) != 'np.array([rows])' or t2.src(dat) != 'data':
        raise TranslateError('returned indices/data: ' + t2.src(ret)[:200])
    sh = '; '.join(sc.nat(e) for e in shape.elts)
    lsh = '; '.join(sc.nat(e) for e in lshape.elts)
    out.append("(fun st => let '(data, rows) := st in")
    out.append(f'  Some (mkCoo [rows] data [{sh}] [{lsh}])).')
    fields, order, wn, dxn = _kernel_def(kn, 1)
    kern = (f'Definition gen_linear_kernel (form : V -> W -> R) ({fields[0]} : nat -> nat -> V) '
            f'(w : nat -> nat -> W) (dx : nat -> nat -> R) (nt nq : nat) : list R :=\n'
            f'  sum_axis1 R rO radd nt nq (fun e q => rmul (form ({order[0]} e q) (w e q)) (dx e q)).')
    head = ('Definition gen_linear_assemble (form : V -> W -> R) (w : nat -> nat -> W) (ubasis : basis R V) : option (coo R) :=\n  ')
    return kern + '\n\n' + head + '\n  '.join(out)


# ------------------------------------------------------------------------------------------ Functional

def functional():
    tree = t2.parse(FUN)
    kn = t2.find_def(tree, '_kernel', 'Functional')
    el = t2.find_def(tree, 'elemental', 'Functional')
    fn = t2.find_def(tree, '_assemble', 'Functional')
    # _kernel(self, w, dx): [if self.form is None: raise]; return (self.form(w) * dx).sum(-1)
    if [a.arg for a in kn.args.args] != ['self', 'w', 'dx']:
        raise TranslateError('Functional._kernel signature')
    kb = _nodoc(kn.body)
    if len(kb) == 2 and isinstance(kb[0], ast.If) and t2.src(kb[0].test) == 'self.form is None' \
            and len(kb[0].body) == 1 and isinstance(kb[0].body[0], ast.Raise) and not kb[0].orelse:
        kb = kb[1:]
    ret = t2.only(kb, 'Functional._kernel body')
    if not (isinstance(ret, ast.Return) and t2.src(ret.value) == '(self.form(w) * dx).sum(-1)'):
        raise TranslateError('Functional._kernel: ' + t2.src(ret))
    # elemental(self, v, **kwargs): w = FormExtraParams(...v...); return self._kernel(w, v.dx)
    if [a.arg for a in el.args.args] != ['self', 'v']:
        raise TranslateError('Functional.elemental signature')
    eb = _nodoc(el.body)
    sc = Scope(['v'])
    if len(eb) != 2:
        raise TranslateError('Functional.elemental body')
    wname, _ = _params_stmt(eb[0], sc)
    if not (isinstance(eb[1], ast.Return) and t2.src(eb[1].value) == f'self._kernel({wname}, v.dx)'):
        raise TranslateError('Functional.elemental: ' + t2.src(eb[1]))
    # _assemble
    body = _nodoc(fn.body)
    if [t2.src(s) for s in body[:2]] != ['assert vbasis is None', 'vbasis = ubasis'] or len(body) != 3:
        raise TranslateError('Functional._assemble head')
    ret = body[2]
    want = 'return (np.array([]), np.array([self.elemental(vbasis, **kwargs).sum(-1)]), (), ())'
    if t2.src(ret) != want:
        raise TranslateError('Functional._assemble return: ' + t2.src(ret))
    return ('''Definition gen_functional_elemental (form : W -> R) (w : nat -> nat -> W) (v : basis R V) : list R :=
  map (fun e => sumn rO radd (bnq v) (fun q => rmul (form (w e q)) (bdx v e q))) (seq 0 (bnelems v)).   (* (self.form(w) * dx).sum(-1) *)

Definition gen_functional_assemble (form : W -> R) (w : nat -> nat -> W) (ubasis : basis R V) : coo R :=
  let vbasis := ubasis in
  mkCoo [] [sum_list rO radd (gen_functional_elemental form w vbasis)] [] [].''')


# ------------------------------------------------------------------------------------------ COOData

def coodata():
    tree = t2.parse(COO)
    fn = t2.find_def(tree, '_assemble_scipy_csr', 'COOData')
    if [a.arg for a in fn.args.args] != ['indices', 'data', 'shape', 'local_shape']:
        raise TranslateError('_assemble_scipy_csr signature')
    srcs = [t2.src(s) for s in _nodoc(fn.body)]
    if srcs and srcs[0].startswith('K = '):
        k = _nodoc(fn.body)[0].value
    else:
        raise TranslateError('_assemble_scipy_csr body: ' + repr(srcs))
    if [s for s in srcs[1:] if s != 'K.eliminate_zeros()'] != ['return K.tocsr()']:
        # eliminate_zeros only drops stored zeros: the dense matrix is unchanged
        raise TranslateError('_assemble_scipy_csr body: ' + repr(srcs))
    r, c = _coo_call(k, 'indices', 'data', 'shape')
    # toarray: 1-d branch and the 2-d branch through tocsr()
    ta = t2.find_def(tree, 'toarray', 'COOData')
    tb = _nodoc(ta.body)
    if not (len(tb) >= 1 and isinstance(tb[0], ast.If) and t2.src(tb[0].test) == 'len(self.shape) == 1'):
        raise TranslateError('COOData.toarray: ' + t2.src(tb[0])[:100])
    want1 = ('return coo_matrix((self.data, (self.indices[0], np.zeros_like(self.indices[0]))), '
             'shape=self.shape + (1,)).toarray().T[0]')
    if [t2.src(s) for s in tb[0].body] != [want1]:
        raise TranslateError('COOData.toarray 1-d branch: ' + repr([t2.src(s) for s in tb[0].body]))
    el = tb[0].orelse
    if not (len(el) == 1 and isinstance(el[0], ast.If) and t2.src(el[0].test) == 'len(self.shape) == 2'
            and [t2.src(s) for s in el[0].body] == ['return self.tocsr().toarray()']):
        raise TranslateError('COOData.toarray 2-d branch')
    tc = t2.find_def(tree, 'tocsr', 'COOData')
    if [t2.src(s) for s in _nodoc(tc.body)] != ['return self._assemble_scipy_csr(self.indices, self.data, self.shape, self.local_shape)']:
        raise TranslateError('COOData.tocsr')
    td = t2.find_def(tree, 'todefault', 'COOData')
    tdb = [t2.src(s) for s in _nodoc(td.body)]
    want = ['if len(self.shape) == 0:\n    return np.sum(self.data, axis=0)\nelif len(self.shape) == 1:\n    return self.toarray()\n'
            'elif len(self.shape) == 2:\n    return self.tocsr()', 'return self']
    if tdb != want:
        raise TranslateError('COOData.todefault: ' + repr(tdb))
    return f'''Definition gen_to_dense2 (c : coo R) : option (list (list R)) :=
  match c_shape c with
  | [nr; nc] => dense2 R rO radd (nth {r} (c_indices c) []) (nth {c} (c_indices c) []) (c_data c) nr nc
  | _ => None
  end.

Definition gen_to_dense1 (c : coo R) : option (list R) :=
  match c_shape c with
  | [nr] => dense1 R rO radd (nth 0 (c_indices c) []) (c_data c) nr
  | _ => None
  end.

Definition gen_to_scalar (c : coo R) : R := sum_list rO radd (c_data c).   (* np.sum(self.data, axis=0) *)'''


def _coo_call(k, ind, data, shape):
    """coo_matrix((data, (indices[a], indices[b])), shape=shape) -> (a, b)"""
    if not (isinstance(k, ast.Call) and t2.src(k.func) == 'coo_matrix' and len(k.args) == 1
            and [(x.arg, t2.src(x.value)) for x in k.keywords] == [('shape', shape)]):
        raise TranslateError('coo_matrix call: ' + t2.src(k))
    a = k.args[0]
    if not (isinstance(a, ast.Tuple) and len(a.elts) == 2 and t2.src(a.elts[0]) == data and isinstance(a.elts[1], ast.Tuple)
            and len(a.elts[1].elts) == 2):
        raise TranslateError('coo_matrix argument: ' + t2.src(a))
    out = []
    for e in a.elts[1].elts:
        if not (isinstance(e, ast.Subscript) and t2.src(e.value) == ind and isinstance(e.slice, ast.Constant)
                and e.slice.value in (0, 1)):
            raise TranslateError('coo_matrix index array: ' + t2.src(e))
        out.append(e.slice.value)
    return out



# ------------------------------------------------------------------------------------------ TrilinearForm
TRI = 'skfem/assembly/form/trilinear_form.py'


def trilinear():
    tree = t2.parse(TRI)
    fn = t2.find_def(tree, '_assemble', 'TrilinearForm')
    kn = t2.find_def(tree, '_kernel', 'TrilinearForm')
    params = [a.arg for a in fn.args.args]
    if params != ['self', 'ubasis', 'vbasis', 'wbasis'] or fn.args.kwarg is None or fn.args.vararg \
            or [t2.src(d) for d in fn.args.defaults] != ['None', 'None']:
        raise TranslateError('TrilinearForm._assemble signature: ' + repr(params))
    body = _nodoc(fn.body)
    sc = Scope(['ubasis', 'vbasis', 'wbasis'])
    out = []
    pos = 0
    for b in ('vbasis', 'wbasis'):
        if t2.src(body[pos]) != f'if {b} is None:\n    {b} = ubasis':
            raise TranslateError(f'expected "if {b} is None: {b} = ubasis": ' + t2.src(body[pos])[:100])
        out.append(f'let {b} := match {b}0 with None => ubasis | Some b => b end in')
        pos += 1
    b_nt = sc.basis_attr(_name_assign(body[pos], 'nt'), 'nelems'); pos += 1
    out.append(f'let nt := bnelems {b_nt} in')
    sc.nats.add('nt')
    b_dx = sc.basis_attr(_name_assign(body[pos], 'dx'), 'dx'); pos += 1
    out.append(f'let dx := bdx {b_dx} in')
    out.append(f'let nq := bnq {b_dx} in')
    wname, b_w = _params_stmt(body[pos], sc); pos += 1
    if b_w != ('ubasis', 'ubasis'):
        raise TranslateError('default parameters must come from ubasis')
    shp = _name_assign(body[pos], 'sz'); pos += 1
    if not (isinstance(shp, ast.Tuple) and len(shp.elts) == 4):
        raise TranslateError('sz: ' + t2.src(shp))
    d = [sc.nat(e) for e in shp.elts]
    zero = {'data': 'rO', 'rows': '0', 'cols': '0', 'mats': '0'}
    seen = []
    while pos < len(body) and isinstance(body[pos], ast.Assign):
        tgt, val = _assign(body[pos], 'allocation')
        nm = t2.src(tgt)
        if nm not in zero:
            raise TranslateError('allocation of ' + nm)
        s = _zeros_call(val, 'self.dtype' if nm == 'data' else 'np.int32')
        if t2.src(s) != 'sz':
            raise TranslateError('allocation shape: ' + t2.src(val))
        out.append(f'let {nm} := nd4_zeros {zero[nm]} {d[0]} {d[1]} {d[2]} {d[3]} in')
        seen.append(nm)
        pos += 1
    if sorted(seen) != ['cols', 'data', 'mats', 'rows']:
        raise TranslateError('allocations: ' + repr(seen))
    l0 = body[pos]; pos += 1
    loops = []
    cur = l0
    for _ in range(3):
        if not (isinstance(cur, ast.For) and isinstance(cur.target, ast.Name) and not cur.orelse):
            raise TranslateError('expected a nest of three for loops: ' + t2.src(cur)[:100])
        loops.append((cur.target.id, sc.nat(t2.is_range_of(cur.iter))))
        nxt = cur.body
        if len(loops) < 3:
            if len(nxt) != 1:
                raise TranslateError('loop nest: unexpected statements')
            cur = nxt[0]
    names = [n for n, _ in loops]
    sc.nats.update(names)
    out.append(f'bind (for_range {loops[0][1]} (fun {names[0]} => for_range {loops[1][1]} (fun {names[1]} => '
               f'for_range {loops[2][1]} (fun {names[2]} (st : st4 R) =>')
    out.append("  let '(data, rows, cols, mats) := st in")
    written = []
    for st in cur.body:
        tgt, val = _assign(st, 'loop body')
        if not (isinstance(tgt, ast.Subscript) and isinstance(tgt.value, ast.Name) and tgt.value.id in zero):
            raise TranslateError('loop body store: ' + t2.src(st)[:120])
        ix = t2.index_tuple(tgt)
        if not (len(ix) == 3 and all(isinstance(e, ast.Name) and e.id in names for e in ix)):
            raise TranslateError('store index: ' + t2.src(tgt))
        arr = tgt.value.id
        ixs = ' '.join(e.id for e in ix)
        if arr == 'data':
            args = _kernel_call(val, sc, 3, wname, 'dx')
            rhs = ('(gen_trilinear_kernel form ' + ' '.join(f'(bB {b} {k})' for b, k in args) + ' params dx nt nq)')
        else:
            b, k = sc.basis_item(val, 'element_dofs')
            rhs = f'(element_dofs {b} {k})'
        out.append(f'  bind (nd4_set_row {ixs} {rhs} {arr}) (fun {arr} =>')
        written.append(arr)
    if sorted(written) != ['cols', 'data', 'mats', 'rows']:
        raise TranslateError('loop body must store mats, rows, cols and data exactly once: ' + repr(written))
    out.append('  Some (data, rows, cols, mats))))))))')
    out.append('  (data, rows, cols, mats))')
    ret = body[pos]
    if pos != len(body) - 1 or not (isinstance(ret, ast.Return) and isinstance(ret.value, ast.Tuple) and len(ret.value.elts) == 4):
        raise TranslateError('return statement: ' + t2.src(ret)[:200])
    ind, dat, shape, lshape = ret.value.elts
    if not (isinstance(ind, ast.Call) and t2.src(ind.func) == 'np.array' and len(ind.args) == 1 and isinstance(ind.args[0], ast.List)):
        raise TranslateError('returned indices: ' + t2.src(ind))
    inds = []
    for e in ind.args[0].elts:
        sname = t2.src(e)
        if sname not in ('mats.flatten()', 'rows.flatten()', 'cols.flatten()'):
            raise TranslateError('returned index array: ' + sname)
        inds.append(f'flatten4 {sname.split(".")[0]}')
    if t2.src(dat) != 'data.flatten()':
        raise TranslateError('returned data: ' + t2.src(dat))
    sh = '; '.join(sc.nat(e) for e in shape.elts)
    lsh = '; '.join(sc.nat(e) for e in lshape.elts)
    out.append("(fun st => let '(data, rows, cols, mats) := st in")
    out.append(f'  Some (mkCoo [{"; ".join(inds)}] (flatten4 data) [{sh}] [{lsh}])).')
    fields, order, wn, dxn = _kernel_def(kn, 3)
    kern = (f'Definition gen_trilinear_kernel (form : V -> V -> V -> W -> R) ({" ".join(fields)} : nat -> nat -> V) '
            f'(params : nat -> nat -> W) (dx : nat -> nat -> R) (nt nq : nat) : list R :=\n'
            f'  sum_axis1 R rO radd nt nq (fun e q => rmul (form ({order[0]} e q) ({order[1]} e q) ({order[2]} e q) (params e q)) (dx e q)).')
    head = ('Definition gen_trilinear_assemble (form : V -> V -> V -> W -> R) (params : nat -> nat -> W)\n'
            '    (ubasis : basis R V) (vbasis0 wbasis0 : option (basis R V)) : option (coo R) :=\n  ')
    # COOData.toarray, N-tensor branch
    ta = t2.find_def(t2.parse(COO), 'toarray', 'COOData')
    tail = [' '.join(t2.src(x).split()) for x in _nodoc(ta.body)[1:]]
    want = ['out = np.zeros(self.shape)', 'for itr in range(self.indices.shape[1]): out[tuple(self.indices[:, itr])] += self.data[itr]',
            'return out']
    if [t for t in tail if not t.startswith('out = np.zeros(self.shape')][0:] != want[1:] or not tail or not tail[0].startswith('out = np.zeros(self.shape'):
        raise TranslateError('COOData.toarray N-tensor branch: ' + repr(tail))
    dense = ('Definition gen_to_dense3 (c : coo R) : option (list (list (list R))) :=\n  match c_shape c with\n'
             '  | [n0; n1; n2] => dense3 R rO radd (nth 0 (c_indices c) []) (nth 1 (c_indices c) []) (nth 2 (c_indices c) []) (c_data c) n0 n1 n2\n'
             '  | _ => None\n  end.')
    return kern + '\n\n' + head + '\n  '.join(out) + '\n\n' + dense

# ------------------------------------------------------------------------------------------ FacetBasis: which cell is "side s"
FB = 'skfem/assembly/basis/facet_basis.py'


def facet_sides():
    """FacetBasis.__init__: the row of f2t that supplies the cell of each facet, for oriented facet sets and plain ones.
    `(-1) ** side` is folded for side = 0, 1; the remaining expression is linear in ori and translated to Z."""
    fn = t2.find_def(t2.parse(FB), '__init__', 'FacetBasis')
    blk = [x for x in ast.walk(fn) if isinstance(x, ast.If) and t2.src(x.test) == 'isinstance(self.find, OrientedBoundary)']
    blk = t2.only(blk, 'orientation branch of FacetBasis.__init__')

    def row(stmts, target):
        st = t2.only([x for x in stmts if isinstance(x, ast.Assign) and t2.src(x.targets[0]) == target], target)
        v = st.value
        if not (isinstance(v, ast.Subscript) and t2.src(v.value) == 'self.mesh.f2t'):
            raise TranslateError(f'{target}: expected self.mesh.f2t[row, self.find]: ' + t2.src(v))
        ix = t2.index_tuple(v)
        if len(ix) != 2 or t2.src(ix[1]) != 'self.find':
            raise TranslateError(f'{target}: index ' + t2.src(v))
        return ix[0]

    class Fold(ast.NodeTransformer):
        def __init__(self, side):
            self.side = side

        def visit_BinOp(self, n):
            if isinstance(n.op, ast.Pow) and t2.src(n.left) in ('(-1)', '-1') and t2.src(n.right) == 'side':
                return ast.copy_location(ast.Constant(1 if self.side == 0 else -1), n)
            self.generic_visit(n)
            return n

        def visit_Name(self, n):
            return ast.copy_location(ast.Constant(self.side), n) if n.id == 'side' else n
    import copy
    ex = t2.Expr({'self.find.ori': 'ori'}, 'Z')
    ot, on = row(blk.body, 'self.tind'), row(blk.body, 'self.tind_normals')
    pt, pn = row(blk.orelse, 'self.tind'), row(blk.orelse, 'self.tind_normals')
    out = []
    for sd in (0, 1):
        e = ast.fix_missing_locations(Fold(sd).visit(copy.deepcopy(ot)))
        out.append(f'Definition gen_oriented_row{sd} (ori : Z) : Z := {ex.tr(e)}.')
    out.append(f'Definition gen_oriented_normal_row (ori : Z) : Z := {ex.tr(on)}.')
    if t2.src(pt) != 'side' or t2.src(pn) != '0':
        raise TranslateError('plain facet sets: rows of f2t: ' + t2.src(pt) + ', ' + t2.src(pn))
    out.append('Definition gen_plain_row (side : Z) : Z := side.\nDefinition gen_plain_normal_row : Z := 0%Z.')
    return ('(* FacetBasis.__init__: row of f2t (negative rows count from the end: row mod 2) giving the cell on side 0 / 1 *)\n'
            + '\n'.join(out))

# ------------------------------------------------------------------------------------------ Form._normalize_asm_kwargs
FRM = 'skfem/assembly/form/form.py'


def normalize_kwargs():
    fn = t2.find_def(t2.parse(FRM), '_normalize_asm_kwargs', 'Form')
    if [a.arg for a in fn.args.args] != ['w', 'basis']:
        raise TranslateError('_normalize_asm_kwargs signature')
    body = _nodoc(fn.body)
    if len(body) != 2 or not isinstance(body[0], ast.For) or t2.src(body[0].target) != 'k' or t2.src(body[0].iter) != 'w' \
            or t2.src(body[1]) != 'return w':
        raise TranslateError('_normalize_asm_kwargs: loop over the keys / return w')
    node = t2.only(body[0].body, '_normalize_asm_kwargs loop body')
    chain = []
    while isinstance(node, ast.If):
        chain.append((' '.join(t2.src(node.test).split()), node.body))
        if len(node.orelse) == 1 and isinstance(node.orelse[0], ast.If):
            node = node.orelse[0]
        else:
            chain.append(('else', node.orelse))
            break
    kinds = {'isinstance(w[k], DiscreteField)': 'RField', 'isinstance(w[k], numbers.Number)': 'RNumber',
             'isinstance(w[k], tuple)': 'RTuple', 'isinstance(w[k], ndarray) and len(w[k].shape) == 1': 'RVector',
             'isinstance(w[k], ndarray) and len(w[k].shape) > 1': 'RArray', 'isinstance(w[k], list)': 'RList', 'else': 'ROther'}
    act = {}
    order = []
    for test, stmts in chain:
        if test not in kinds:
            raise TranslateError('_normalize_asm_kwargs: unknown case: ' + test)
        kd = kinds[test]
        order.append(kd)
        srcs = [' '.join(t2.src(x).split()) for x in stmts]
        if kd == 'RField':
            if not (len(stmts) == 1 and isinstance(stmts[0], ast.If) and ' '.join(t2.src(stmts[0].test).split()) == 'w[k].shape[-1] != basis.X.shape[-1]'
                    and isinstance(stmts[0].body[0], ast.Raise) and not stmts[0].orelse):
                raise TranslateError('_normalize_asm_kwargs: DiscreteField case: ' + repr(srcs))
            act[kd] = 'RField f nq => if nq =? bnq b then Some (NField f) else None'
        elif kd in ('RNumber', 'RTuple'):
            if srcs != ['continue']:
                raise TranslateError(f'_normalize_asm_kwargs: {kd} case: ' + repr(srcs))
            act[kd] = 'RNumber s => Some (NNumber s)' if kd == 'RNumber' else 'RTuple => Some NTuple'
        elif kd == 'RVector':
            if srcs != ['w[k] = basis.interpolate(w[k])']:
                raise TranslateError('_normalize_asm_kwargs: 1-d array case: ' + repr(srcs))
            act[kd] = 'RVector u len => if len =? bN b then Some (NField (interp R rO V vadd vscale b u)) else None'
        elif kd == 'RArray':
            if srcs != ['w[k] = DiscreteField(w[k])']:
                raise TranslateError('_normalize_asm_kwargs: n-d array case: ' + repr(srcs))
            act[kd] = 'RArray a => Some (NField a)'
        elif kd == 'ROther':
            if not (len(stmts) == 1 and isinstance(stmts[0], ast.Raise)):
                raise TranslateError('_normalize_asm_kwargs: else case must raise: ' + repr(srcs))
            act[kd] = 'ROther => None'
    if order[:1] != ['RField'] or order[-1:] != ['ROther'] or sorted(k for k in act) != ['RArray', 'RField', 'RNumber', 'ROther', 'RTuple', 'RVector']:
        raise TranslateError('_normalize_asm_kwargs: cases ' + repr(order) + ' (DiscreteField must be tested before ndarray)')
    # AbstractBasis.interpolate rejects a vector of the wrong length
    itp = t2.find_def(t2.parse('skfem/assembly/basis/abstract_basis.py'), 'interpolate', 'AbstractBasis')
    first = _nodoc(itp.body)[0]
    if ' '.join(t2.src(first).split()) != "if w.shape[0] != self.N: raise ValueError('Input array has wrong size.')":
        raise TranslateError('AbstractBasis.interpolate size check: ' + t2.src(first)[:100])
    # which basis normalises / supplies the defaults in the three form types
    def pstmt(path, cls, fname, bases, alias=None):
        f = t2.find_def(t2.parse(path), fname, cls)
        sc = Scope(bases)
        hits = []
        for st in _nodoc(f.body):
            if isinstance(st, ast.Assign) and 'FormExtraParams' in t2.src(st.value):
                hits.append(_params_stmt(st, sc)[1])
        d, n = t2.only(hits, f'{cls}.{fname}: FormExtraParams statement')
        return (alias or {}).get(d, d), (alias or {}).get(n, n)
    pb = pstmt(BIL, 'BilinearForm', '_assemble', ['ubasis', 'vbasis'])
    pl = pstmt(LIN, 'LinearForm', '_assemble', ['ubasis', 'vbasis'], {'vbasis': 'ubasis'})      # vbasis = ubasis there
    pf = pstmt(FUN, 'Functional', 'elemental', ['v'], {'v': 'ubasis'})
    cases = '\n    | '.join(act[k] for k in ('RField', 'RNumber', 'RTuple', 'RVector', 'RArray', 'ROther'))
    def pdef(name, extra, p):
        return (f'  Definition {name} (dflt : basis R V -> list (nat * norm R V)) (kw : list (nat * raw R V)) (ubasis : basis R V){extra} '
                f': option (nat -> option (norm R V)) :=\n'
                f'    match normalize_all R V (gen_normalize_one {p[1]}) kw with Some u => Some (merged (dflt {p[0]}) u) | None => None end.')
    return ('Section GenParams.\n  Variable R : Type.\n  Variable rO : R.\n  Variable V : Type.\n  Variables (vadd : V -> V -> V) (vscale : R -> V -> V).\n'
            '  Definition gen_normalize_one (b : basis R V) (p : raw R V) : option (norm R V) :=\n    match p with\n    | ' + cases + '\n    end.\n'
            + pdef('gen_params_bilinear', ' (vbasis : basis R V)', pb) + '\n' + pdef('gen_params_linear', '', pl) + '\n'
            + pdef('gen_params_functional', '', pf) + '\nEnd GenParams.')

# ------------------------------------------------------------------------------------------ form-copying wrappers, asm dispatch
ASMF = 'skfem/assembly/__init__.py'


def _ctor_call(call, what):
    """type(self)(<form expr>?, form=..., dtype=..., nthreads=..., **self.params) -> dict of the four attributes (source strings);
    attributes that are not passed get the defaults of Form.__init__"""
    if not (isinstance(call, ast.Call) and t2.src(call.func) == 'type(self)'):
        raise TranslateError(f'{what}: expected type(self)(...): ' + t2.src(call)[:120])
    got = {'dtype': None, 'nthreads': None, 'params': None, 'form': None}
    if len(call.args) > 1:
        raise TranslateError(f'{what}: positional arguments')
    if call.args:
        got['form'] = call.args[0]
    for k in call.keywords:
        if k.arg is None:
            if t2.src(k.value) != 'self.params':
                raise TranslateError(f'{what}: ** argument ' + t2.src(k.value))
            got['params'] = 'self'
        elif k.arg in ('dtype', 'nthreads'):
            if t2.src(k.value) != f'self.{k.arg}':
                raise TranslateError(f'{what}: {k.arg}=' + t2.src(k.value))
            got[k.arg] = 'self'
        elif k.arg == 'form':
            got['form'] = k.value
        else:
            raise TranslateError(f'{what}: keyword {k.arg}')
    return got


def _rec(formterm, got):
    return (f'mkFr {formterm} {"(fr_dtype r)" if got["dtype"] else "d0"} {"(fr_nthreads r)" if got["nthreads"] else "0"} '
            f'{"(fr_params r)" if got["params"] else "p0"}')


def form_wrappers():
    tree = t2.parse(FRM)
    # __init__
    ini = t2.find_def(tree, '__init__', 'Form')
    if [a.arg for a in ini.args.args] != ['self', 'form', 'dtype', 'nthreads'] or ini.args.kwarg is None or ini.args.kwarg.arg != 'params' \
            or [' '.join(t2.src(d).split()) for d in ini.args.defaults] != ['None', 'np.float64', '0']:
        raise TranslateError('Form.__init__ signature / defaults')
    body = {t2.src(x.targets[0]): ' '.join(t2.src(x.value).split()) for x in _nodoc(ini.body) if isinstance(x, ast.Assign)}
    want = {'self.form': 'form.form if isinstance(form, Form) else form', 'self.dtype': 'dtype', 'self.nthreads': 'nthreads', 'self.params': 'params'}
    for k, v in want.items():
        if body.get(k) != v:
            raise TranslateError(f'Form.__init__: {k} = {body.get(k)}')
    out = ['Definition gen_form_init (f : F) (dtype : D) (nthreads : nat) (params : P) : formrec F D P := mkFr (Some f) dtype nthreads params.',
           'Definition gen_form_init_from (fo : formrec F D P) (dtype : D) (nthreads : nat) (params : P) : formrec F D P :=\n'
           '  mkFr (fr_form fo) dtype nthreads params.']
    # partial / block: either deepcopy(self) with the integrand replaced, or a constructor call
    for name in ('partial', 'block'):
        fn = t2.find_def(tree, name, 'Form')
        st = _nodoc(fn.body)
        srcs = [' '.join(t2.src(x).split()) for x in st]
        if srcs[0] == 'form = deepcopy(self)':
            if 'name = form.form.__name__' not in srcs or 'form.form.__name__ = name' not in srcs or srcs[-1] != 'return form':
                raise TranslateError(f'Form.{name}: ' + repr(srcs)[:300])
            asg = [x for x in st if isinstance(x, ast.Assign) and t2.src(x.targets[0]) == 'form.form']
            t2.only(asg, f'Form.{name}: assignment of form.form')
            others = [x for x in st if isinstance(x, ast.Assign) and t2.src(x.targets[0]).startswith('form.') and t2.src(x.targets[0]) not in ('form.form', 'form.form.__name__')]
            if others:
                raise TranslateError(f'Form.{name}: other attributes of the copy are re-assigned: ' + t2.src(others[0]))
            rec = 'fr_set_form (fr_copy r) (omap bind (fr_form r))'
        else:
            asg = t2.only([x for x in st if isinstance(x, ast.Assign) and t2.src(x.targets[0]) == 'form'], f'Form.{name}: form = ...')
            got = _ctor_call(asg.value, f'Form.{name}')
            if got['form'] is None or srcs[-1] != 'return form':
                raise TranslateError(f'Form.{name}: constructor call without integrand')
            rec = _rec('(omap bind (fr_form r))', got)
        if name == 'partial':
            a = t2.only([x for x in ast.walk(fn) if isinstance(x, ast.Call) and t2.src(x.func) == 'partial'], 'Form.partial: partial(...)')
            if ' '.join(t2.src(a).split()) not in ('partial(form.form, *args, **kwargs)', 'partial(self.form, *args, **kwargs)'):
                raise TranslateError('Form.partial: bound integrand: ' + t2.src(a))
        out.append(f'(* {name}: `bind` stands for binding the given arguments (functools.partial) / padding the other slots (block) *)\n'
                   f'Definition gen_form_{"copy_block" if name == "block" else name} (bind : F -> F) (r : formrec F D P) : formrec F D P := {rec}.')
    # decorator
    cl = t2.find_def(tree, '__call__', 'Form')
    first = _nodoc(cl.body)[0]
    if not (isinstance(first, ast.If) and t2.src(first.test) == 'self.form is None' and len(first.body) == 1 and isinstance(first.body[0], ast.Return)):
        raise TranslateError('Form.__call__: decorator branch')
    got = _ctor_call(first.body[0].value, 'Form.__call__')
    if got['form'] is None or t2.src(got['form']) != 'args[0]':
        raise TranslateError('Form.__call__: decorated function')
    out.append('Definition gen_form_decorate (r : formrec F D P) (f : F) : formrec F D P := ' + _rec('(Some f)', got) + '.')
    # asm: wrapper class by argument count
    fa = t2.find_def(t2.parse(ASMF), 'asm')
    sub = [x for x in ast.walk(fa) if isinstance(x, ast.Assign) and t2.src(x.targets[0]) == 'wrapper']
    w = t2.only(sub, 'asm: wrapper = [...][nargs - 1]').value
    if not (isinstance(w, ast.Subscript) and isinstance(w.value, ast.List) and t2.src(w.slice) == 'nargs - 1'
            and all(isinstance(e, ast.Name) and e.id in ('Functional', 'LinearForm', 'BilinearForm', 'TrilinearForm') for e in w.value.elts)):
        raise TranslateError('asm: wrapper table: ' + t2.src(w)[:200])
    if 'nargs = form.__code__.co_argcount' not in [' '.join(t2.src(x).split()) for x in ast.walk(fa) if isinstance(x, ast.Assign)]:
        raise TranslateError('asm: nargs')
    lst = '; '.join('W' + e.id for e in w.value.elts)
    asm_def = f'Definition gen_asm_wrapper (nargs : nat) : formclass := match nargs with 0 => WNone | S k => nth k [{lst}] WNone end.'
    pre = ' {F D P : Type} (d0 : D) (p0 : P)'
    out = [o.replace('Definition gen_form_init ', 'Definition gen_form_init' + pre + ' ').replace('Definition gen_form_init_from ', 'Definition gen_form_init_from' + pre + ' ')
            .replace('Definition gen_form_partial ', 'Definition gen_form_partial' + pre + ' ').replace('Definition gen_form_copy_block ', 'Definition gen_form_copy_block' + pre + ' ')
            .replace('Definition gen_form_decorate ', 'Definition gen_form_decorate' + pre + ' ') for o in out]
    return 'Require Import Model.C01_FormWrap.\n' + '\n'.join(out) + '\n' + asm_def


HEADER = '''(* GENERATED by vlib/c01_translate.py from bilinear_form.py, linear_form.py, functional.py, trilinear_form.py, coo_data.py
   of the implementation under test — do not edit *)
From Coq Require Import List Arith Bool.
Import ListNotations.
Require Import Base.C01_Sums Model.C01_Assembly Model.C01_Trilinear Model.C01_Params.

Section Gen.
  Variable R : Type.
  Variables (rO : R) (radd rmul : R -> R -> R).
  Variable V W : Type.

'''


def translate():
    parts = [bilinear(), linear(), functional(), coodata(), trilinear()]
    body = '\n\n'.join(parts)
    body = '\n'.join(('  ' + l if l else l) for l in body.split('\n'))
    return HEADER + body + '\nEnd Gen.\n\n' + normalize_kwargs() + '\n\n' + form_wrappers() + '\n\nRequire Import ZArith.\nLocal Open Scope Z_scope.\n' + facet_sides() + '\n'
