"""C09 oracle: direct check of the property statement on the REAL lbasis / gbasis of every exported element
class (supporting validation + search for a concrete failing input).  Floats; derivatives of the delivered
value by 5-point central differences in GLOBAL coordinates (exact for degree <= 4 per direction, error
~ h^4 f^(5) / 30 above), tolerance relative to the field scale.
"""
import inspect
import warnings

import numpy as np

H_FD = 2e-3
TOL = 2e-6


def fresh(factory):
    """a new element instance for every evaluation: some classes cache tables keyed on the point count
    (finding F8 of C15, not the subject here)"""
    with warnings.catch_warnings():
        warnings.simplefilter('ignore')
        import logging
        logging.disable(logging.WARNING)
        try:
            return factory()
        finally:
            logging.disable(logging.NOTSET)


def element_factories(pmax=5):
    """(label, factory) for every exported concrete class, the parametrised classes for p = 1..pmax, and
    DG / vector / composite wrappers of representative elements.  Raises if a class cannot be constructed."""
    import skfem.element as E
    out, seen = [], set()
    wrappers = []
    for name in E.__all__:
        cls = getattr(E, name)
        if not inspect.isclass(cls) or not issubclass(cls, E.Element) or cls in seen:
            continue
        seen.add(cls)
        cname = cls.__name__
        if cname in ('Element', 'ElementH1', 'ElementHdiv', 'ElementHcurl', 'ElementGlobal'):
            continue
        if cname in ('ElementVector', 'ElementDG', 'ElementComposite'):
            wrappers.append(cname)
            continue
        if cname in ('ElementLinePp', 'ElementQuadP'):
            for p in range(1, pmax + 1):
                out.append((f'{cname}({p})', (lambda c=cls, q=p: c(q))))
            continue
        out.append((cname, cls))
    # wrappers
    for base in ('ElementLineP2', 'ElementTriP2', 'ElementTriP1B', 'ElementQuad2', 'ElementTetP2', 'ElementHex1',
                 'ElementTriRT1', 'ElementTriN1', 'ElementTriMorley', 'ElementWedge1'):
        b = getattr(E, base)
        out.append((f'ElementDG({base})', (lambda b=b: E.ElementDG(b()))))
    for base in ('ElementLineP1', 'ElementTriP2', 'ElementQuad1', 'ElementTetP1', 'ElementHexS2', 'ElementTriMorley'):
        b = getattr(E, base)
        out.append((f'ElementVector({base})', (lambda b=b: E.ElementVector(b()))))
    out.append(('ElementVector(ElementTriP1,3)', lambda: E.ElementVector(E.ElementTriP1(), 3)))
    out.append(('ElementComposite(TriP2,TriP1)', lambda: E.ElementComposite(E.ElementTriP2(), E.ElementTriP1())))
    out.append(('ElementComposite(Vector(TriP2),TriP1)', lambda: E.ElementComposite(E.ElementVector(E.ElementTriP2()), E.ElementTriP1())))
    out.append(('ElementComposite(TriRT1,TriP0)', lambda: E.ElementComposite(E.ElementTriRT1(), E.ElementTriP0())))
    out.append(('ElementComposite(TetN1,TetP1)', lambda: E.ElementComposite(E.ElementTetN1(), E.ElementTetP1())))
    out.append(('ElementComposite(Quad2,Quad1,Quad0)', lambda: E.ElementComposite(E.ElementQuad2(), E.ElementQuad1(), E.ElementQuad0())))
    # API forms: Element.__mul__ (composite by *), Element.__call__ (instance called like a class), Element.condensed()
    out.append(('ElementTriP2*ElementTriP1', lambda: E.ElementTriP2() * E.ElementTriP1()))
    out.append(('(ElementTriRT1*ElementTriP0)*ElementTriP1', lambda: (E.ElementTriRT1() * E.ElementTriP0()) * E.ElementTriP1()))
    out.append(('ElementTetP1()()', lambda: E.ElementTetP1()()))
    for base in ('ElementTriP2B', 'ElementTriRT2', 'ElementQuad2', 'ElementTetMini', 'ElementTriN2'):
        b = getattr(E, base)
        out.append((f'{base}.condensed()[0]', (lambda b=b: b().condensed()[0])))
        out.append((f'{base}.condensed()[1]', (lambda b=b: b().condensed()[1])))
    return out, wrappers


MESH_OF_REFDOM = {'RefLine': 'MeshLine1', 'RefTri': 'MeshTri1', 'RefQuad': 'MeshQuad1', 'RefTet': 'MeshTet1',
                  'RefHex': 'MeshHex1', 'RefWedge': 'MeshWedge1'}


def random_mesh(refdom_name, rng, kind):
    """a small mesh of the cell type with randomly mapped vertices.
    kind 'ref': the library's default mesh; 'affine': random non-degenerate affine image;
    'multilinear' (quad/hex/wedge only): affine image + independent vertex perturbations"""
    import skfem
    cls = getattr(skfem, MESH_OF_REFDOM[refdom_name])
    m = cls()
    if kind == 'ref':
        return m
    d = m.p.shape[0]
    while True:
        A = rng.uniform(-1, 1, (d, d)) + np.eye(d) * 1.5
        if abs(np.linalg.det(A)) > 0.3 and np.linalg.cond(A) < 12:
            break
    b = rng.uniform(-2, 2, (d, 1))
    p = A @ m.p + b
    if kind == 'multilinear':
        p = p + rng.uniform(-0.07, 0.07, p.shape)
    return cls(p, m.t)


def _fd(f, x, k, h):
    """5-point central difference of the array-valued f along global axis k"""
    e = np.zeros_like(x)
    e[k] = h
    return (-f(x + 2 * e) + 8 * f(x + e) - 8 * f(x - e) + f(x - 2 * e)) / (12 * h)


def _fields(df):
    return {n: getattr(df, n) for n in ('grad', 'div', 'curl', 'hess', 'grad3', 'grad4', 'grad5', 'grad6')
            if getattr(df, n, None) is not None}


def has_global(e):
    import skfem.element as E
    if isinstance(e, E.ElementGlobal):
        return True
    if hasattr(e, 'elem') and has_global(e.elem):
        return True
    return any(has_global(x) for x in getattr(e, 'elems', ()))


def check_gbasis(label, factory, mesh, X, report, h=H_FD, tol=TOL, indices=None):
    """for every local index and every component field of gbasis: the delivered derivative fields equal the
    finite-difference derivatives (in global coordinates) of the delivered value.  ``report(key, what, data)``
    is called for every violation; returns (number of scalar comparisons, max scaled discrepancy)."""
    mapping = mesh._mapping()
    e0 = fresh(factory)
    if has_global(e0):
        # the inverse Vandermonde of the global family is expensive and cached per instance: one instance per
        # mesh (never shared between meshes: the cache is keyed on nothing, finding F8 of C15)
        factory = (lambda inst=e0: inst)
    d = mesh.p.shape[0]
    # number of basis functions
    try:
        nb = int(sum(e0._bfun_counts()))
    except Exception:
        nb = int(e0.interior_dofs)
    if type(e0).__name__ == 'ElementDG':
        nb = int(e0.interior_dofs)
    x0 = mapping.F(X)                       # (d, nel, npts)
    tind = np.arange(mesh.t.shape[1])
    ncmp, worst = 0, 0.0
    nel = mesh.t.shape[1]

    def eval_at(Xl, i):
        """gbasis at per-element local points Xl (d, nel, npts).  First the documented 3-d point layout; if the
        element raises on it, that is reported and the cells are evaluated one by one with 2-d points."""
        try:
            return fresh(factory).gbasis(mapping, Xl, i, tind=tind)
        except Exception as ex:  # noqa
            report(f'elem={label}:gbasis-per-element-points',
                   f'{label}.gbasis raises {type(ex).__name__} for local points of shape (dim, nelems, npoints), a '
                   f'layout Element.gbasis documents as supported: {ex}',
                   {'element': label, 'i': i, 'X_shape': list(Xl.shape), 'mesh_class': type(mesh).__name__,
                    'exception': repr(ex)[:300]})
            per = [fresh(factory).gbasis(mapping, Xl[:, c, :], i, tind=np.array([c])) for c in range(nel)]
            out = []
            for comp in range(len(per[0])):
                val = np.concatenate([np.asarray(pc[comp]) for pc in per], axis=-2)
                kw = {n: np.concatenate([np.asarray(getattr(pc[comp], n)) for pc in per], axis=-2)
                      for n in _fields(per[0][comp])}
                from skfem.element import DiscreteField
                out.append(DiscreteField(val, **kw))
            return tuple(out)

    for i in (range(nb) if indices is None else [k for k in indices if k < nb]):
        ref = fresh(factory).gbasis(mapping, X, i)
        # the elementwise point layout (dim, nelems, npoints) — what FacetBasis / probes use — must deliver the same
        # value AND the same derivative fields as the shared layout (dim, npoints) at the same points
        X3 = np.ascontiguousarray(np.broadcast_to(X[:, None, :], (X.shape[0], nel, X.shape[1])))
        try:
            per = fresh(factory).gbasis(mapping, X3, i, tind=tind)
        except Exception:  # noqa — reported (with fallback) by eval_at below
            per = None
        if per is not None:
            for comp, (fa, fb) in enumerate(zip(ref, per)):
                pairs = [('value', np.asarray(fa), np.asarray(fb))] + [(nm, np.asarray(v), np.asarray(getattr(fb, nm)))
                                                                       for nm, v in _fields(fa).items() if getattr(fb, nm, None) is not None]
                for nm, a, b in pairs:
                    try:
                        a2 = np.broadcast_to(a, b.shape)
                    except ValueError:
                        a2 = None
                    sc = max(1.0, float(np.max(np.abs(a)))) if a.size else 1.0
                    err = float(np.max(np.abs(a2 - b))) / sc if (a2 is not None and b.size) else (0.0 if a2 is not None else float('inf'))
                    ncmp += b.size
                    if not err <= 1e-9:
                        report(f'elem={label}:{nm}:elementwise-points',
                               f'{label}: field {nm} of basis function {i} delivered for elementwise points (dim, nelems, npoints) '
                               f'differs from the one delivered for the same shared points (scaled difference {err:.3g})',
                               {'element': label, 'i': i, 'component': comp, 'field': nm, 'mesh_class': type(mesh).__name__,
                                'p': mesh.p.tolist(), 't': mesh.t.tolist(), 'X_local': np.asarray(X).tolist(),
                                'shared_layout': np.asarray(a).tolist() if a.size < 50 else None,
                                'elementwise_layout': np.asarray(b).tolist() if b.size < 50 else None})
        for comp, df in enumerate(ref):
            flds = _fields(df)
            if not flds:
                continue

            def field_at(x, name, comp=comp, i=i):
                # per-element local points; tind given explicitly (MappingIsoparametric.F mis-shapes its output for
                # per-element points with tind=None — outside this property)
                Xl = mapping.invF(x, tind=tind)
                out = eval_at(Xl, i)[comp]
                return np.asarray(out) if name == 'value' else np.asarray(getattr(out, name))
            val = np.asarray(df)
            scale = max(1.0, float(np.max(np.abs(val))))
            checks = []
            # consistency of the re-evaluation path (value at invF(F(X)) == value at X)
            back = field_at(x0, 'value')
            checks.append(('value-roundtrip', back, val))
            if 'grad' in flds:
                g = np.asarray(flds['grad'])
                if val.ndim == 2:      # scalar value: grad[k]
                    num = np.array([_fd(lambda x: field_at(x, 'value'), x0, k, h) for k in range(d)])
                else:                  # vector value (ElementVector / composite): grad[c, k]
                    num = np.array([[_fd(lambda x, c=c: field_at(x, 'value')[c], x0, k, h) for k in range(d)]
                                    for c in range(val.shape[0])])
                checks.append(('grad', g, num))
            if 'div' in flds:
                num = sum(_fd(lambda x, k=k: field_at(x, 'value')[k], x0, k, h) for k in range(d))
                checks.append(('div', np.asarray(flds['div']), num))
            if 'curl' in flds:
                c = np.asarray(flds['curl'])
                dv = lambda a, k: _fd(lambda x: field_at(x, 'value')[a], x0, k, h)   # noqa: E731  d_k v_a
                if d == 2:
                    num = dv(1, 0) - dv(0, 1)
                else:
                    num = np.array([dv(2, 1) - dv(1, 2), dv(0, 2) - dv(2, 0), dv(1, 0) - dv(0, 1)])
                checks.append(('curl', c, num))
            prev = 'grad'
            for name in ('hess', 'grad3', 'grad4', 'grad5', 'grad6'):
                if name in flds and prev in flds:
                    hi = np.asarray(flds[name])
                    lo_shape = np.asarray(flds[prev]).shape
                    # hi[..., k, nel, npts] = d_k lo[..., nel, npts]  (last derivative index is the new one)
                    num = np.empty(hi.shape)
                    for k in range(d):
                        dk = _fd(lambda x, nm=prev: field_at(x, nm), x0, k, h)
                        assert dk.shape == lo_shape
                        idx = (slice(None),) * (len(lo_shape) - 2) + (k,)
                        num[idx] = dk
                    checks.append((name, hi, num))
                prev = name
            for fname, got, num in checks:
                got, num = np.asarray(got, dtype=float), np.asarray(num, dtype=float)
                if got.shape != num.shape:
                    try:
                        got = np.broadcast_to(got, num.shape)
                    except ValueError:
                        report(f'elem={label}:{fname}:shape', f'{label}: field {fname} of basis function {i} has shape '
                               f'{got.shape}, derivative of the value has shape {num.shape}', {'element': label, 'i': i})
                        continue
                fs = max(scale, float(np.max(np.abs(num))) if num.size else 1.0) if fname != 'value-roundtrip' else scale
                err = float(np.max(np.abs(got - num))) / fs if num.size else 0.0
                ncmp += got.size
                worst = max(worst, err)
                if not err <= tol:
                    j = np.unravel_index(int(np.argmax(np.abs(got - num))), got.shape)
                    report(f'elem={label}:{fname}',
                           f'{label}: delivered {fname} of basis function {i} (field component {comp}) differs from the '
                           f'derivative of the delivered value: {got[j]!r} vs {num[j]!r} (scaled error {err:.3g})',
                           {'element': label, 'i': i, 'component': comp, 'field': fname, 'mesh_class': type(mesh).__name__,
                            'p': mesh.p.tolist(), 't': mesh.t.tolist(), 'X_local': np.asarray(X).tolist(), 'index': [int(q) for q in j],
                            'delivered': float(got[j]), 'finite_difference_of_value': float(num[j]), 'h': h})
    return ncmp, worst


def lattice(refdom_name, n, rng):
    """a few interior points of the reference cell (strictly inside, away from facets)"""
    d = {'RefLine': 1, 'RefTri': 2, 'RefQuad': 2, 'RefTet': 3, 'RefHex': 3, 'RefWedge': 3}[refdom_name]
    pts = []
    while len(pts) < n:
        x = rng.uniform(0.08, 0.92, d)
        if refdom_name in ('RefTri', 'RefTet') and x.sum() > 0.92:
            continue
        if refdom_name == 'RefWedge' and x[0] + x[1] > 0.92:
            continue
        pts.append(x)
    return np.array(pts).T


def check_global_duality(label, factory, mesh, report, tol=1e-6, elem=None, tind=None, tag=''):
    """ElementGlobal family: the functional each DOF's NAME denotes (u, u_x, u_xy, u_xz, ..., u_n at an edge), taken at
    the canonical location of the DOF's entity (vertex / mean of the facet's vertices / mean of all vertices) from the
    fields gbasis delivers, applied to basis function j, is delta_ij (u_n: up to the sign convention of the normal).
    Independent of gdof: names from dofnames, locations from the geometry.  Returns (comparisons, max deviation)."""
    from . import c09_gdof
    e = fresh(factory) if elem is None else elem
    exp = c09_gdof.expected(e)
    X = np.array([[float(c) for c in pt] for pt in c09_gdof.canonical_points(e)]).T      # (dim, nb) reference points
    mapping = mesh._mapping()
    nb, d = len(exp), mesh.p.shape[0]
    cells = np.arange(mesh.t.shape[1]) if tind is None else np.asarray(tind)
    nel = len(cells)
    facets = e.refdom.facets or []
    L = np.zeros((nel, nb, nb))
    for j in range(nb):
        f = e.gbasis(mapping, X, j, tind=tind)[0]
        fields = {0: np.asarray(f), 1: np.asarray(f.grad)}
        for k, nm in ((2, 'hess'), (3, 'grad3'), (4, 'grad4')):
            if getattr(f, nm, None) is not None:
                fields[k] = np.asarray(getattr(f, nm))
        for i, (kind, _) in enumerate(exp):
            if kind.startswith('u_n@edge'):
                a, b = facets[int(kind[len('u_n@edge'):])]
                tvec = mesh.p[:, mesh.t[b, cells]] - mesh.p[:, mesh.t[a, cells]]          # (2, nel)
                nrm = np.array([tvec[1], -tvec[0]]) / np.linalg.norm(tvec, axis=0)
                L[:, i, j] = np.einsum('ic,ic->c', fields[1][:, :, i], nrm)
            else:
                idx = tuple('xyz'.index(ch) for ch in kind[2:]) if kind != 'u' else ()
                if len(idx) not in fields:
                    report(f'elem={label}:functional-order', f'{label}: DOF {i} is named {kind} but gbasis delivers no derivative '
                           f'field of order {len(idx)}', {'element': label, 'i': i, 'dofname': kind})
                    continue
                L[:, i, j] = fields[len(idx)][idx + (slice(None), i)]
    worst = 0.0
    for i, (kind, _) in enumerate(exp):
        for j in range(nb):
            got = L[:, i, j]
            want = 1.0 if i == j else 0.0
            dev = np.abs(np.abs(got) - want) if kind.startswith('u_n') else np.abs(got - want)
            w = float(np.max(dev))
            worst = max(worst, w)
            if not w <= tol:
                c = int(np.argmax(dev))
                report(f'elem={label}:functional-duality{tag}',
                       f'{label}{" (" + tag.strip(":") + ")" if tag else ""}: the functional named {kind} of local DOF {i} (canonical location of its entity) applied to basis '
                       f'function {j} is {float(got[c])!r}, expected {want} (cell {c})',
                       {'element': label, 'dof': i, 'dofname': kind, 'basis_function': j, 'cell': c, 'value': float(got[c]),
                        'mesh_class': type(mesh).__name__, 'p': mesh.p.tolist(), 't': mesh.t.tolist(),
                        'tind': None if tind is None else [int(c) for c in cells], 'reference_point': X[:, i].tolist()})
    return nb * nb * nel, worst


def check_global_reuse(label, factory, meshes, report, rng, tol=1e-6):
    """ONE element object serving several bases in sequence: the same reference points on different meshes of equal
    size and on different cell subsets of one mesh.  The named functionals must stay dual to the delivered basis."""
    e = fresh(factory)
    n, worst = 0, 0.0

    def step(m, tind, tag):
        nonlocal n, worst
        try:
            a, w = check_global_duality(label, factory, m, report, tol, elem=e, tind=tind, tag=tag)
            n, worst = n + a, max(worst, w)
        except Exception as ex:  # noqa — an exception of the implementation on a valid call sequence is a failing input
            report(f'elem={label}:functional-duality{tag}-exception',
                   f'{label}: one element object used on several meshes / cell subsets in sequence: gbasis raised '
                   f'{type(ex).__name__}: {ex}',
                   {'element': label, 'step': tag, 'p': m.p.tolist(), 't': m.t.tolist(),
                    'tind': None if tind is None else [int(c) for c in tind]})
    for k, m in enumerate(meshes):
        step(m, None, f':reused-object:mesh{k}')
    for k, m in enumerate(meshes[:2]):
        nt = m.t.shape[1]
        if nt >= 2:
            step(m, np.sort(rng.choice(nt, size=nt - 1, replace=False))[::-1].copy(), f':reused-object:subset{k}')
    return n, worst


def check_api_forms(report, rng):
    """thin public wrappers around gbasis / lbasis (API coverage): they must deliver what the core path delivers.
    Returns the list of forms exercised."""
    import skfem
    import skfem.element as E
    from skfem.assembly import CellBasis
    done = []

    def same(key, what, a, b, data, tol=1e-12):
        a, b = np.asarray(a, dtype=float), np.asarray(b, dtype=float)
        if a.shape != b.shape or not np.allclose(a, b, rtol=0, atol=tol * max(1.0, float(np.max(np.abs(b))) if b.size else 1.0)):
            report(key, what + f' (shapes {a.shape} / {b.shape}, max difference '
                   f'{float(np.max(np.abs(a - b))) if a.shape == b.shape and a.size else "n/a"})', data)
    # ElementDG.lbasis forwards to the wrapped element
    X = lattice('RefTri', 3, rng)
    for i in range(6):
        a, b = E.ElementDG(E.ElementTriP2()).lbasis(X, i), E.ElementTriP2().lbasis(X, i)
        same('api=ElementDG.lbasis', f'ElementDG(ElementTriP2).lbasis differs from ElementTriP2.lbasis for i={i}', a[0], b[0], {'i': i})
        same('api=ElementDG.lbasis', f'ElementDG(ElementTriP2).lbasis gradient differs for i={i}', a[1], b[1], {'i': i})
    done.append('ElementDG.lbasis')
    # Element.orient default, ElementComposite.dim, DiscreteField.value
    m = random_mesh('RefTri', rng, 'affine')
    mp = m._mapping()
    o1, o2 = E.ElementTriP2().orient(mp, 3), E.ElementTriP2().orient(mp, 3, tind=np.array([1]))
    if not (np.all(np.asarray(o1) == 1) and np.all(np.asarray(o2) == 1) and len(np.atleast_1d(o1)) == m.t.shape[1]):
        report('api=Element.orient', 'default Element.orient is not all ones', {'o1': np.asarray(o1).tolist(), 'o2': np.asarray(o2).tolist()})
    if (E.ElementTriP2() * E.ElementTriP1()).dim != 2:
        report('api=ElementComposite.dim', 'ElementComposite.dim of two triangle elements is not 2', {})
    done += ['Element.orient (default)', 'ElementComposite.dim']
    # CellBasis.with_element / with_elements / probes / interpolator / refinterp against the core gbasis path
    for mname, e1, e2 in (('RefTri', E.ElementTriP2, E.ElementTriP3), ('RefQuad', E.ElementQuad2, E.ElementQuad1),
                          ('RefTet', E.ElementTetP2, E.ElementTetP1)):
        m = random_mesh(mname, rng, 'affine' if mname != 'RefQuad' else 'multilinear')
        b1 = CellBasis(m, e1(), intorder=3)
        b2 = b1.with_element(e2())
        b2ref = CellBasis(m, e2(), intorder=3)
        for i in range(b2.Nbfun):
            same('api=CellBasis.with_element', f'with_element({e2.__name__}) value of basis function {i} differs from a new CellBasis',
                 b2.basis[i][0], b2ref.basis[i][0], {'mesh': mname, 'i': i})
            same('api=CellBasis.with_element', f'with_element({e2.__name__}) grad of basis function {i} differs from a new CellBasis',
                 b2.basis[i][0].grad, b2ref.basis[i][0].grad, {'mesh': mname, 'i': i})
        sub = np.array([m.t.shape[1] - 1])
        b3 = b1.with_elements(sub)
        b3ref = CellBasis(m, e1(), intorder=3, elements=sub)
        for i in range(b3.Nbfun):
            same('api=CellBasis.with_elements', f'with_elements({sub.tolist()}) grad of basis function {i} differs from CellBasis(elements=...)',
                 b3.basis[i][0].grad, b3ref.basis[i][0].grad, {'mesh': mname, 'i': i})
        # probes / interpolator at points inside cell 0: against the global basis evaluated directly
        Xl = lattice(mname, 3, rng)
        xg = m._mapping().F(Xl, tind=np.array([0]))[:, 0, :]
        coef = rng.uniform(-1, 1, b1.N)
        direct = np.zeros(Xl.shape[1])
        for i in range(b1.Nbfun):
            direct += coef[b1.element_dofs[i, 0]] * np.asarray(e1().gbasis(m._mapping(), Xl, i, tind=np.array([0]))[0])[0]
        same('api=CellBasis.probes', f'{e1.__name__}: probes(x) @ coefficients differs from the direct evaluation in cell 0',
             b1.probes(xg) @ coef, direct, {'mesh': mname, 'p': m.p.tolist(), 't': m.t.tolist(), 'x': xg.tolist()}, tol=1e-9)
        same('api=CellBasis.interpolator', f'{e1.__name__}: interpolator(coefficients)(x) differs from the direct evaluation in cell 0',
             b1.interpolator(coef)(xg), direct, {'mesh': mname, 'p': m.p.tolist(), 't': m.t.tolist(), 'x': xg.tolist()}, tol=1e-9)
    done += ['CellBasis.with_element', 'CellBasis.with_elements', 'CellBasis.probes', 'CellBasis.interpolator']
    return done
