"""C20 — fail-closed translator of the integrand helpers (skfem/helpers.py, skfem/autodiff/helpers.py).

A helper is translated by *symbolic execution of its ``ast``* under a shape scenario (which arguments
are arrays of which tensor order, which attributes a DiscreteField argument carries, the common extent
``n`` of the tensor axes).  The result is a Gallina term over a generic commutative ring/field
(``Base.C20_Ring.FOps``).  Tensor-valued quantities are functions of their indices; the trailing
(cell, quadrature point, ...) axes are pointwise in every construct that is accepted, so a scalar of
the model stands for an array over the trailing axes.

Accepted Python (everything else raises TranslateError):
  statements  docstring, ``x = e``, ``a[c1, c2] = e`` into a ``zeros_like`` buffer, ``if/elif/else`` whose
              test is decidable from the scenario, ``return``, ``raise``, ``try/except ValueError``,
              ``for x in range(<int>)`` with ``lst.append(e)``
  expressions names, int/float constants (floats must be small dyadic rationals), ``+ - * /``, ``** 2``,
              unary minus, ``e[c,...]`` with constant indices, ``.shape``/``len``/``isinstance``/``is None``
              tests, conditional expressions on index equality, list comprehensions over ``range``,
              ``np.array``/``jnp.array`` of lists, ``zeros_like``, ``np.ones(trailing shape)``, ``sum``,
              calls of other helpers of the same module (inlined), and ``einsum`` with one of the
              subscripts of EINSUM (fixed combinators of Model.C20_Tensor).
"""
import ast
from fractions import Fraction

from . import t2
from .core import TranslateError

NP_SRC = 'skfem/helpers.py'
JX_SRC = 'skfem/autodiff/helpers.py'

# subscripts -> (combinator, operand ranks, result rank, takes the extent n)
EINSUM = {
    'i...,i...': ('es_i_i', (1, 1), 0, True),
    'ij...,ij...': ('es_ij_ij', (2, 2), 0, True),
    'ijk...,ijk...': ('es_ijk_ijk', (3, 3), 0, True),
    'i...,j...->ij...': ('es_i_j__ij', (1, 1), 2, False),
    'i...,j...,k...->ijk...': ('es_i_j_k__ijk', (1, 1, 1), 3, False),
    'ij...,j...->i...': ('es_ij_j__i', (2, 1), 1, True),
    'ij...,jk...->ik...': ('es_ij_jk__ik', (2, 2), 2, True),
    'ii...': ('es_ii', (2,), 0, True),
    'ij...->ji...': ('es_ij__ji', (2,), 2, False),
}
RANK_TYPE = {0: 'R', 1: 'vec R', 2: 'mat R', 3: 'ten3 R', 4: 'ten4 R'}
NTRAIL = 2          # DiscreteField arrays carry (nelems, nqp) after the tensor axes
FIELD_ATTRS = ['value', 'grad', 'div', 'curl', 'hess', 'grad3', 'grad4', 'grad5', 'grad6']


class ModelValueError(Exception):
    """the modelled NumPy call raises ValueError (einsum on too few axes)"""


class ModelRaise(Exception):
    def __init__(self, what):
        self.what = what


class _Return(Exception):
    def __init__(self, v):
        self.v = v


def cidx(i):
    return f'{i}%nat' if isinstance(i, int) else str(i)


class NSym:
    """the symbolic extent n"""
    def __repr__(self):
        return 'n'


class IndexVal:
    """a bound index variable (nat) of a comprehension / lambda"""
    def __init__(self, name):
        self.name = name


class Cond:
    """a boolean Coq term on index variables"""
    def __init__(self, term):
        self.term = term


class Sym:
    """tensor with ``rank`` leading axes of extent n; ``at(idx)`` gives the scalar Coq term for a full
    index list (python ints or Coq nat terms); ``term`` is an optional closed Coq term of function type"""

    def __init__(self, rank, at, term=None):
        self.rank, self._at, self.term = rank, at, term

    def at(self, idx):
        assert len(idx) == self.rank, (idx, self.rank)
        return self._at(list(idx))

    def sub(self, pre):
        """index the first len(pre) axes"""
        if len(pre) > self.rank:
            raise TranslateError('too many indices')
        k = len(pre)
        return Sym(self.rank - k, lambda idx: self._at(list(pre) + idx))


class Buf(Sym):
    """``zeros_like(x)`` that may receive constant-index stores"""

    def __init__(self, rank):
        self.rank, self.term, self.stores = rank, None, {}

    def _at(self, idx):
        if all(isinstance(i, int) for i in idx):
            return self.stores.get(tuple(idx), '0')
        if not self.stores:
            return '0'
        pats = ' '.join(f'| {", ".join(cidx(i) for i in k)} => {v}' for k, v in self.stores.items())
        return f'(match {", ".join(idx)} with {pats} | {", ".join("_" for _ in idx)} => 0 end)'


class Stack(Sym):
    """np.array([e0, e1, ...]) of tensors of equal rank"""

    def __init__(self, elems):
        self.elems = elems
        self.rank, self.term = elems[0].rank + 1, None

    def _at(self, idx):
        i, rest = idx[0], idx[1:]
        if isinstance(i, int):
            if not 0 <= i < len(self.elems):
                raise TranslateError('constant index out of range')
            return self.elems[i].at(rest)
        pats = ' '.join(f'| {k}%nat => {e.at(rest)}' for k, e in enumerate(self.elems))
        return f'(match {i} with {pats} | _ => 0 end)'


class Field:
    def __init__(self, attrs):
        self.attrs = attrs      # name -> Sym | None


class Shape:
    def __init__(self, dims):
        self.dims = tuple(dims)   # ints / NSym / 'T0','T1'


class LamList:
    """[elt for v in range(n)] with symbolic n"""

    def __init__(self, var, elt, env):
        self.var, self.elt, self.env = var, elt, env


class Params(dict):
    """the form parameter object w (FormExtraParams): attribute access to its entries"""


class FuncRef:
    def __init__(self, fdef):
        self.fdef = fdef


class Interp:
    def __init__(self, relpath, variant):
        self.tree = t2.parse(relpath)
        self.variant = variant                      # 'np' | 'jx'
        self.funcs = {n.name: n for n in self.tree.body if isinstance(n, ast.FunctionDef)}
        self.fresh = 0
        self.n = None
        self.used_einsum = set()
        self.depth = 0

    # ------------------------------------------------------------------ helpers
    def new_index(self):
        self.fresh += 1
        return f'k{self.fresh}'

    def num(self, v):
        """a Python number as a scalar ring term"""
        fr = Fraction(v)
        if isinstance(v, float) and Fraction(float(fr)) != fr:
            raise TranslateError(f'float literal {v!r}')
        neg, fr = fr < 0, abs(fr)
        d = fr.denominator
        if fr.numerator > 16 or d > 16 or d & (d - 1):
            raise TranslateError(f'numeric literal {v!r} outside the accepted small dyadic range')

        def nat(k):
            return '0' if k == 0 else '(' + ' + '.join(['1'] * k) + ')' if k > 1 else '1'
        t = nat(fr.numerator) if d == 1 else f'({nat(fr.numerator)} / {nat(d)})'
        return f'(- ({t}))' if neg else t

    def scalar(self, v):
        if isinstance(v, Field):          # a DiscreteField IS its value array; JaxDiscreteField delegates arithmetic to .value
            v = v.attrs.get('value')
        if isinstance(v, Sym):
            return v
        if isinstance(v, bool) or not isinstance(v, (int, float)):
            raise TranslateError(f'not a tensor value: {v!r}')
        t = self.num(v)
        return Sym(0, lambda idx: t)

    def to_coq(self, s):
        """closed Coq term of the tensor (function of its indices)"""
        if s.term is not None:
            return s.term
        if s.rank == 0:
            return s.at([])
        names = [self.new_index() for _ in range(s.rank)]
        return f'(fun {" ".join(names)} => {s.at(names)})'

    def binop(self, op, a, b):
        if isinstance(a, (int, float)) and isinstance(b, (int, float)) and not isinstance(a, bool) and not isinstance(b, bool):
            return {'+': a + b, '-': a - b, '*': a * b}[op] if op != '/' else a / b
        a, b = self.scalar(a), self.scalar(b)
        if a.rank != b.rank and 0 not in (a.rank, b.rank):
            raise TranslateError(f'broadcast between tensor orders {a.rank} and {b.rank} is not modelled')
        r = max(a.rank, b.rank)

        def at(idx, a=a, b=b):
            x = a.at(idx if a.rank else [])
            y = b.at(idx if b.rank else [])
            return f'({x} {op} {y})'
        return Sym(r, at)

    # ------------------------------------------------------------------ expressions
    def ev(self, n, env):
        m = getattr(self, 'ev_' + type(n).__name__, None)
        if m is None:
            raise TranslateError('unsupported expression: ' + t2.src(n)[:100])
        return m(n, env)

    def ev_Constant(self, n, env):
        if n.value is None or isinstance(n.value, (int, float, str)):
            return n.value
        raise TranslateError(f'constant {n.value!r}')

    def ev_Name(self, n, env):
        if n.id in env:
            return env[n.id]
        if n.id in self.funcs:
            return FuncRef(self.funcs[n.id])
        if n.id in ('np', 'jnp', 'zeros_like', 'len', 'range', 'isinstance', 'sum', 'tuple', 'JaxDiscreteField', 'hasattr', 'enumerate',
                    'DiscreteField', 'ValueError', 'NotImplementedError'):
            return ('builtin', n.id)
        raise TranslateError(f'unknown name {n.id}')

    def ev_Attribute(self, n, env):
        v = self.ev(n.value, env)
        if v is None:
            raise ModelRaise(f"AttributeError: 'NoneType' object has no attribute '{n.attr}' in {t2.src(n)}")
        if isinstance(v, tuple) and v and v[0] == 'builtin':
            return ('builtin', v[1] + '.' + n.attr)
        if isinstance(v, Params):
            if n.attr not in v:
                raise ModelRaise(f"AttributeError: Attribute '{n.attr}' not found in 'w'")
            return v[n.attr]
        if isinstance(v, Field) and n.attr != 'shape':
            if n.attr not in FIELD_ATTRS:
                raise TranslateError(f'field attribute {n.attr}')
            return v.attrs.get(n.attr)
        if isinstance(v, Field) and n.attr == 'shape' and isinstance(v.attrs.get('value'), Sym):
            v = v.attrs['value']
        if isinstance(v, Sym) and n.attr == 'shape':
            return Shape([self.n] * v.rank + ['T%d' % k for k in range(NTRAIL)])
        raise TranslateError('attribute: ' + t2.src(n))

    def const_index(self, n, env):
        v = self.ev(n, env)
        if isinstance(v, bool) or not isinstance(v, (int, IndexVal)):
            raise TranslateError('index must be a constant or a bound index: ' + t2.src(n))
        return v.name if isinstance(v, IndexVal) else v

    def ev_Subscript(self, n, env):
        v = self.ev(n.value, env)
        if isinstance(v, Shape):
            s = n.slice
            if isinstance(s, ast.Slice):
                lo = self.ev(s.lower, env) if s.lower is not None else None
                hi = self.ev(s.upper, env) if s.upper is not None else None
                if s.step is not None:
                    raise TranslateError('slice step')
                return Shape(v.dims[slice(lo, hi)])
            k = self.ev(s, env)
            if not isinstance(k, int) or not -len(v.dims) <= k < len(v.dims):
                raise TranslateError('shape index: ' + t2.src(n))
            d = v.dims[k]
            if isinstance(d, str):
                raise TranslateError('extent of a trailing axis is not modelled: ' + t2.src(n))
            return d
        if isinstance(v, (list, tuple)):
            k = self.ev(n.slice, env)
            if not isinstance(k, int):
                raise TranslateError('list index: ' + t2.src(n))
            return v[k]
        if isinstance(v, Field):
            v = self.scalar(v)
        if isinstance(v, Sym):
            idx = [self.const_index(e, env) for e in t2.index_tuple(n)]
            for i in idx:
                if isinstance(i, int) and i < 0:
                    raise TranslateError('negative tensor index')
                if isinstance(i, int) and isinstance(self.n, int) and i >= self.n:
                    raise TranslateError(f'index {i} out of range for extent {self.n}')
            return v.sub(idx)
        raise TranslateError('subscript: ' + t2.src(n))

    def ev_UnaryOp(self, n, env):
        v = self.ev(n.operand, env)
        if isinstance(n.op, ast.USub):
            if isinstance(v, (int, float)) and not isinstance(v, bool):
                return -v
            if isinstance(v, Field) and self.variant == 'jx':
                raise TranslateError('unary minus of a JaxDiscreteField (no __neg__)')
            v = self.scalar(v)
            return Sym(v.rank, lambda idx, v=v: f'(- {v.at(idx)})')
        if isinstance(n.op, ast.Not) and isinstance(v, bool):
            return not v
        raise TranslateError('unary operator: ' + t2.src(n))

    def ev_BinOp(self, n, env):
        a, b = self.ev(n.left, env), self.ev(n.right, env)
        ops = {ast.Add: '+', ast.Sub: '-', ast.Mult: '*', ast.Div: '/'}
        if type(n.op) in ops:
            return self.binop(ops[type(n.op)], a, b)
        if isinstance(n.op, ast.Pow) and all(isinstance(x, (int, float)) and not isinstance(x, bool) for x in (a, b)) \
                and isinstance(b, int) and 0 <= b <= 4:
            return a ** b
        if isinstance(n.op, ast.Pow) and isinstance(b, int) and not isinstance(b, bool) and 1 <= b <= 4:
            r = a
            for _ in range(b - 1):
                r = self.binop('*', r, a)
            return r
        raise TranslateError('operator in ' + t2.src(n))

    def ev_BoolOp(self, n, env):
        vals = []
        for e in n.values:
            v = self.ev(e, env)
            if not isinstance(v, bool):
                raise TranslateError('undecidable condition: ' + t2.src(e))
            vals.append(v)
            if isinstance(n.op, ast.And) and not v:
                return False
            if isinstance(n.op, ast.Or) and v:
                return True
        return all(vals) if isinstance(n.op, ast.And) else any(vals)

    def ev_Compare(self, n, env):
        if len(n.ops) != 1:
            raise TranslateError('chained comparison')
        a, b, op = self.ev(n.left, env), self.ev(n.comparators[0], env), n.ops[0]
        if isinstance(op, (ast.Is, ast.IsNot)):
            if b is not None:
                raise TranslateError('is-comparison with something else than None')
            return (a is None) == isinstance(op, ast.Is)
        if isinstance(a, (int, IndexVal)) and isinstance(b, (int, IndexVal)) and (isinstance(a, IndexVal) or isinstance(b, IndexVal)):
            if not isinstance(op, ast.Eq):
                raise TranslateError('index comparison other than ==')
            return Cond(f'Nat.eqb {cidx(a.name if isinstance(a, IndexVal) else a)} {cidx(b.name if isinstance(b, IndexVal) else b)}')
        if isinstance(a, NSym) or isinstance(b, NSym):
            raise TranslateError('undecidable for symbolic extent: ' + t2.src(n))
        if isinstance(a, int) and isinstance(b, int) and not isinstance(a, bool) and not isinstance(b, bool):
            fn = {ast.Eq: lambda: a == b, ast.NotEq: lambda: a != b, ast.Gt: lambda: a > b, ast.Lt: lambda: a < b,
                  ast.GtE: lambda: a >= b, ast.LtE: lambda: a <= b}.get(type(op))
            if fn is None:
                raise TranslateError('comparison operator')
            return fn()
        raise TranslateError('undecidable comparison: ' + t2.src(n))

    def ev_IfExp(self, n, env):
        c = self.ev(n.test, env)
        if isinstance(c, bool):
            return self.ev(n.body if c else n.orelse, env)
        if isinstance(c, Cond):
            a, b = self.scalar(self.ev(n.body, env)), self.scalar(self.ev(n.orelse, env))
            if a.rank != b.rank:
                raise TranslateError('conditional expression between different tensor orders')
            return Sym(a.rank, lambda idx: f'(if {c.term} then {a.at(idx)} else {b.at(idx)})')
        raise TranslateError('undecidable conditional: ' + t2.src(n.test))

    def ev_List(self, n, env):
        return [self.ev(e, env) for e in n.elts]

    def ev_Tuple(self, n, env):
        return tuple(self.ev(e, env) for e in n.elts)

    def ev_ListComp(self, n, env):
        g = t2.only(n.generators, 'comprehension generators')
        if g.ifs or not isinstance(g.target, ast.Name):
            raise TranslateError('comprehension: ' + t2.src(n))
        it = self.ev(g.iter, env)
        if isinstance(it, range):
            return [self.ev(n.elt, dict(env, **{g.target.id: k})) for k in it]
        if isinstance(it, tuple) and it and it[0] == 'range-n':
            return LamList(g.target.id, n.elt, dict(env))
        raise TranslateError('comprehension iterable: ' + t2.src(g.iter))

    def stack(self, v):
        """np.array(<nested list>)"""
        if isinstance(v, LamList):
            probe = self.stack_elem(self.ev(v.elt, dict(v.env, **{v.var: IndexVal('_probe')})))

            def at(idx, v=v):
                i = idx[0]
                e = self.stack_elem(self.ev(v.elt, dict(v.env, **{v.var: (i if isinstance(i, int) else IndexVal(i))})))
                return e.at(idx[1:])
            return Sym(probe.rank + 1, at)
        if isinstance(v, (list, tuple)):
            if not v:
                raise TranslateError('empty array literal')
            elems = [self.stack_elem(e) for e in v]
            if len({e.rank for e in elems}) != 1:
                raise TranslateError('ragged array literal')
            if isinstance(self.n, int) and len(elems) != self.n:
                raise TranslateError(f'array literal of length {len(elems)} in a scenario of extent {self.n}')
            return Stack(elems)
        raise TranslateError('np.array of ' + repr(v))

    def stack_elem(self, e):
        if isinstance(e, (list, tuple, LamList)):
            return self.stack(e)
        return self.scalar(e)

    def ev_Call(self, n, env):
        f = self.ev(n.func, env) if not (isinstance(n.func, ast.Attribute) and n.func.attr == 'append') else None
        if f is None:      # lst.append(e)
            lst = self.ev(n.func.value, env)
            if not isinstance(lst, list) or len(n.args) != 1 or n.keywords:
                raise TranslateError('append: ' + t2.src(n))
            lst.append(self.ev(n.args[0], env))
            return None
        args = [self.ev(a, env) for a in n.args]
        kw = {}
        keywords = n.keywords
        if (t2.src(n.func) in ('zeros_like', 'np.zeros_like', 'jnp.zeros_like') and len(n.args) == 1 and len(keywords) == 1
                and keywords[0].arg == 'dtype' and t2.src(keywords[0].value) == f'np.result_type({t2.src(n.args[0])}, float)'):
            keywords = []          # dtype promotion of the buffer to at least float: a runtime matter, the term is unchanged
        for k in keywords:
            if k.arg is None:
                raise TranslateError('**kwargs call')
            kw[k.arg] = self.ev(k.value, env)
        if isinstance(f, FuncRef):
            return self.call(f.fdef, args, kw)
        if not (isinstance(f, tuple) and f[0] == 'builtin'):
            raise TranslateError('call of ' + t2.src(n.func))
        name = f[1]
        if name in ('np.einsum', 'jnp.einsum'):
            if kw or not args or not isinstance(args[0], str):
                raise TranslateError('einsum call: ' + t2.src(n))
            return self.einsum(args[0], args[1:])
        if name in ('np.array', 'jnp.array'):
            if kw or len(args) != 1:
                raise TranslateError('array call: ' + t2.src(n))
            return self.stack(args[0])
        if name in ('zeros_like', 'np.zeros_like', 'jnp.zeros_like'):
            if kw or len(args) != 1 or not isinstance(args[0], (Sym, Field)):
                raise TranslateError('zeros_like call: ' + t2.src(n))
            return Buf(self.scalar(args[0]).rank)
        if name == 'np.ones':
            if kw or len(args) != 1 or not isinstance(args[0], Shape) or args[0].dims != tuple('T%d' % k for k in range(NTRAIL)):
                raise TranslateError('np.ones of something else than the trailing shape: ' + t2.src(n))
            return Sym(0, lambda idx: '1')
        if name == 'len':
            if kw or len(args) != 1:
                raise TranslateError('len call')
            if isinstance(args[0], Shape):
                return len(args[0].dims)
            if isinstance(args[0], (list, tuple)):
                return len(args[0])
            raise TranslateError('len of ' + t2.src(n.args[0]))
        if name == 'range':
            if kw or len(args) != 1:
                raise TranslateError('range call')
            if isinstance(args[0], NSym):
                return ('range-n',)
            if isinstance(args[0], int):
                return range(args[0])
            raise TranslateError('range of ' + t2.src(n.args[0]))
        if name == 'isinstance':
            if kw or len(args) != 2 or not (isinstance(args[1], tuple) and args[1][0] == 'builtin'):
                raise TranslateError('isinstance call: ' + t2.src(n))
            cls = args[1][1]
            if cls in ('JaxDiscreteField', 'DiscreteField'):
                return isinstance(args[0], Field)
            if cls == 'tuple':
                return isinstance(args[0], tuple) and not (args[0] and args[0][0] == 'builtin')
            raise TranslateError('isinstance class ' + cls)
        if name == 'hasattr':
            if kw or len(args) != 2 or not isinstance(args[0], Params) or not isinstance(args[1], str):
                raise TranslateError('hasattr call: ' + t2.src(n))
            return args[1] in args[0]
        if name == 'enumerate':
            if kw or len(args) != 1 or not isinstance(args[0], (list, tuple)):
                raise TranslateError('enumerate call: ' + t2.src(n))
            return [(k, x) for k, x in enumerate(args[0])]
        if name == 'tuple':
            if kw or len(args) != 1 or not isinstance(args[0], list):
                raise TranslateError('tuple call: ' + t2.src(n))
            return tuple(args[0])
        if name == 'sum':
            if kw or len(args) != 1 or not isinstance(args[0], list):
                raise TranslateError('sum call')
            acc = 0
            for e in args[0]:
                acc = self.binop('+', acc, e)
            return acc
        raise TranslateError('call of ' + name)

    def einsum(self, subs, operands):
        if subs not in EINSUM:
            raise TranslateError(f'einsum subscripts {subs!r} have no combinator')
        comb, ranks, out, takes_n = EINSUM[subs]
        operands = [self.scalar(o) if isinstance(o, Field) else o for o in operands]
        if len(operands) != len(ranks) or not all(isinstance(o, Sym) for o in operands):
            raise TranslateError(f'einsum {subs!r}: operands')
        for o, r in zip(operands, ranks):
            if o.rank < r:
                raise ModelValueError(subs)          # NumPy: subscripts exceed the operand's axes
            if o.rank != r:
                raise TranslateError(f'einsum {subs!r} on tensor order {o.rank}: ellipsis over tensor axes is not modelled')
        self.used_einsum.add(subs)
        t = f'({comb}{(" " + cidx(self.n if isinstance(self.n, int) else "n")) if takes_n else ""} ' + \
            ' '.join(self.to_coq(o) for o in operands) + ')'
        if out == 0:
            return Sym(0, lambda idx: t)
        return Sym(out, lambda idx: '(' + t + ' ' + ' '.join(cidx(i) for i in idx) + ')', term=t)

    # ------------------------------------------------------------------ statements
    def call(self, fdef, args, kw):
        self.depth += 1
        if self.depth > 6:
            raise TranslateError('helper recursion too deep')
        a = fdef.args
        if a.kwarg or a.kwonlyargs or a.posonlyargs:
            raise TranslateError(f'{fdef.name}: signature')
        names = [x.arg for x in a.args]
        env = {}
        if a.vararg:
            env[a.vararg.arg] = tuple(args[len(names):])
            args = args[:len(names)]
        defaults = dict(zip(names[len(names) - len(a.defaults):], a.defaults))
        if len(args) > len(names):
            raise TranslateError(f'{fdef.name}: too many arguments')
        for k, nm in enumerate(names):
            if k < len(args):
                env[nm] = args[k]
            elif nm in kw:
                env[nm] = kw[nm]
            elif nm in defaults:
                env[nm] = self.ev(defaults[nm], {})
            else:
                raise TranslateError(f'{fdef.name}: missing argument {nm}')
        try:
            self.block(fdef.body, env)
            res = None
        except _Return as r:
            res = r.v
        self.depth -= 1
        return res

    def block(self, body, env):
        for s in body:
            self.stmt(s, env)

    def stmt(self, s, env):
        if isinstance(s, ast.Expr):
            if isinstance(s.value, ast.Constant) and isinstance(s.value.value, str):
                return
            if isinstance(s.value, ast.Call):
                self.ev(s.value, env)
                return
            raise TranslateError('statement: ' + t2.src(s)[:80])
        if isinstance(s, ast.Assign):
            tg = t2.only(s.targets, 'assignment targets')
            v = self.ev(s.value, env)
            if isinstance(tg, ast.Name):
                env[tg.id] = v
                return
            if isinstance(tg, ast.Subscript) and isinstance(tg.value, ast.Name) and isinstance(env.get(tg.value.id), Buf):
                buf = env[tg.value.id]
                idx = [self.ev(e, env) for e in t2.index_tuple(tg)]
                if len(idx) != buf.rank or not all(isinstance(i, int) and not isinstance(i, bool) and 0 <= i for i in idx):
                    raise TranslateError('store index: ' + t2.src(tg))
                if isinstance(self.n, int) and any(i >= self.n for i in idx):
                    raise TranslateError('store out of range: ' + t2.src(tg))
                v = self.scalar(v)
                if v.rank != 0:
                    raise TranslateError('store of a non-scalar: ' + t2.src(s))
                buf.stores[tuple(idx)] = v.at([])     # a later store to the same slot overwrites (NumPy semantics)
                return
            raise TranslateError('assignment target: ' + t2.src(tg))
        if isinstance(s, ast.If):
            c = self.ev(s.test, env)
            if not isinstance(c, bool):
                raise TranslateError('undecidable condition: ' + t2.src(s.test))
            self.block(s.body if c else s.orelse, env)
            return
        if isinstance(s, ast.Return):
            raise _Return(self.ev(s.value, env) if s.value is not None else None)
        if isinstance(s, ast.Raise):
            raise ModelRaise(t2.src(s.exc) if s.exc is not None else 're-raise')
        if isinstance(s, ast.Try):
            if s.finalbody or s.orelse or len(s.handlers) != 1 or t2.src(s.handlers[0].type) != 'ValueError' or s.handlers[0].name:
                raise TranslateError('try statement: ' + t2.src(s)[:80])
            try:
                self.block(s.body, env)
            except ModelValueError:
                self.block(s.handlers[0].body, env)
            return
        if isinstance(s, ast.For):
            it = self.ev(s.iter, env)
            if (not s.orelse and isinstance(s.target, ast.Tuple) and all(isinstance(e, ast.Name) for e in s.target.elts)
                    and isinstance(it, list) and all(isinstance(x, tuple) and len(x) == len(s.target.elts) for x in it)):
                for x in it:
                    for e, val in zip(s.target.elts, x):
                        env[e.id] = val
                    self.block(s.body, env)
                return
            if s.orelse or not isinstance(s.target, ast.Name) or not isinstance(it, range):
                raise TranslateError('for statement: ' + t2.src(s)[:80])
            for k in it:
                env[s.target.id] = k
                self.block(s.body, env)
            return
        raise TranslateError('statement: ' + t2.src(s)[:80])

    # ------------------------------------------------------------------ scenarios
    def translate(self, defname, func, n, argspec):
        """one Coq definition: helper ``func`` under the scenario (n, argspec).
        argspec: list of ('arr', rank) | ('field', {attr: rank}) | ('none',) | ('n',) | ('tuple', [specs])
        returns (definition text, parameter list [(name, rank)], result rank)"""
        if func not in self.funcs:
            raise TranslateError(f'{func}: not defined in the module')
        fdef = self.funcs[func]
        self.n = NSym() if n == 'n' else int(n)
        self.fresh = 0
        self.depth = 0
        pnames = [x.arg for x in fdef.args.args]
        if len(argspec) > len(pnames):
            raise TranslateError(f'{func}: expected at least {len(argspec)} parameters')
        params = []

        def mk(spec, pname):
            if spec[0] == 'arr':
                params.append((pname, spec[1]))
                r = spec[1]
                return Sym(r, lambda idx, pname=pname, r=r: pname if r == 0 else '(' + pname + ' ' + ' '.join(cidx(i) for i in idx) + ')',
                           term=pname)
            if spec[0] == 'field':
                d = {}
                for a in FIELD_ATTRS:
                    if a in spec[1] and spec[1][a] is not None:
                        d[a] = mk(('arr', spec[1][a]), f'{pname}_{a}')
                    else:
                        d[a] = None
                return Field(d)
            if spec[0] == 'none':
                return None
            if spec[0] == 'n':
                return self.n
            if spec[0] == 'tuple':
                return tuple(mk(sp, f'{pname}{k}') for k, sp in enumerate(spec[1]))
            raise TranslateError('bad scenario spec')
        args = [mk(sp, pn) for sp, pn in zip(argspec, pnames)]
        try:
            res = self.call(fdef, args, {})
        except ModelRaise as e:
            return None, e.what, None
        except ModelValueError as e:
            raise TranslateError(f'{func} under scenario {defname}: uncaught ValueError of einsum {e}')
        if res is None:
            return None, 'returns None', None
        if not isinstance(res, (Sym, int, float)) or isinstance(res, bool):
            raise TranslateError(f'{func} under scenario {defname}: result {res!r} is not a tensor')
        res = self.scalar(res)
        body = self.to_coq(res)
        ptxt = (' (n : nat)' if n == 'n' else '') + ''.join(f' ({p} : {RANK_TYPE[r]})' for p, r in params)
        txt = f'Definition {defname}{ptxt} : {RANK_TYPE[res.rank]} :=\n  {body}.'
        return txt, ([('n', 'nat')] if n == 'n' else []) + params, res.rank


# ---------------------------------------------------------------------------------------- scenario tables

def _f(**kw):
    return ('field', kw)


A0, A1, A2, A3 = ('arr', 0), ('arr', 1), ('arr', 2), ('arr', 3)
SCALAR = _f(value=0, grad=1)
SCALAR_H = _f(value=0, grad=1, hess=2, grad3=3, grad4=4)
VECTOR = _f(value=1, grad=2)
HDIV = _f(value=1, div=0)
HCURL2 = _f(value=1, curl=0)
HCURL3 = _f(value=1, curl=1)

# (definition name, python function, extent, argument scenario)
NP_SCEN = [
    ('np_grad_s', 'grad', 'n', [SCALAR]),
    ('np_grad_v', 'grad', 'n', [VECTOR]),
    ('np_div_hdiv', 'div', 'n', [HDIV]),
    ('np_div_v', 'div', 'n', [VECTOR]),
    ('np_div_1d', 'div', 'n', [SCALAR]),
    ('np_curl_hcurl', 'curl', 3, [HCURL3]),
    ('np_curl_s2', 'curl', 2, [SCALAR]),
    ('np_curl_v2', 'curl', 2, [VECTOR]),
    ('np_curl_v3', 'curl', 3, [VECTOR]),
    ('np_d_grad', 'd', 'n', [SCALAR]),
    ('np_d_div', 'd', 'n', [HDIV]),
    ('np_d_curl', 'd', 3, [HCURL3]),
    ('np_sym_grad', 'sym_grad', 'n', [VECTOR]),
    ('np_dd', 'dd', 'n', [SCALAR_H]),
    ('np_ddd', 'ddd', 'n', [SCALAR_H]),
    ('np_dddd', 'dddd', 'n', [SCALAR_H]),
    ('np_inner_s', 'inner', 'n', [A0, A0]),
    ('np_inner_v', 'inner', 'n', [A1, A1]),
    ('np_inner_m', 'inner', 'n', [A2, A2]),
    ('np_inner_t', 'inner', 'n', [('tuple', [A1, A0]), ('tuple', [A1, A0])]),
    ('np_dot', 'dot', 'n', [A1, A1]),
    ('np_ddot', 'ddot', 'n', [A2, A2]),
    ('np_dddot', 'dddot', 'n', [A3, A3]),
    ('np_prod2', 'prod', 'n', [A1, A1]),
    ('np_prod3', 'prod', 'n', [A1, A1, A1]),
    ('np_mul', 'mul', 'n', [A2, A1]),
    ('np_trace', 'trace', 'n', [A2]),
    ('np_transpose', 'transpose', 'n', [A2]),
    ('np_eye', 'eye', 'n', [A0, ('n',)]),
    ('np_identity_w', 'identity', 'n', [A2]),
    ('np_identity_N', 'identity', 'n', [A0, ('n',)]),
    ('np_det_2', 'det', 2, [A2]),
    ('np_det_3', 'det', 3, [A2]),
    ('np_det_other', 'det', 4, [A2]),
    ('np_inv_2', 'inv', 2, [A2]),
    ('np_inv_3', 'inv', 3, [A2]),
    ('np_cross_2', 'cross', 2, [A1, A1]),
    ('np_cross_3', 'cross', 3, [A1, A1]),
]

JVECTOR = _f(value=1, grad=2)
JX_SCEN = [
    ('jx_grad_s', 'grad', 'n', [SCALAR]),
    ('jx_grad_v', 'grad', 'n', [VECTOR]),
    ('jx_div_hdiv', 'div', 'n', [HDIV]),
    ('jx_div_v', 'div', 'n', [VECTOR]),
    ('jx_div_1d', 'div', 'n', [SCALAR]),
    ('jx_sym_grad', 'sym_grad', 'n', [VECTOR]),
    ('jx_dd', 'dd', 'n', [SCALAR_H]),
    ('jx_dot', 'dot', 'n', [A1, A1]),
    ('jx_ddot', 'ddot', 'n', [A2, A2]),
    ('jx_dddot', 'dddot', 'n', [A3, A3]),
    ('jx_prod2', 'prod', 'n', [A1, A1]),
    ('jx_prod3', 'prod', 'n', [A1, A1, A1]),
    ('jx_mul', 'mul', 'n', [A2, A1]),
    ('jx_mul_mm', 'mul', 'n', [A2, A2]),
    ('jx_trace', 'trace', 'n', [A2]),
    ('jx_transpose', 'transpose', 'n', [A2]),
    ('jx_eye', 'eye', 'n', [A0, ('n',)]),
    ('jx_det_2', 'det', 2, [A2]),
    ('jx_det_3', 'det', 3, [A2]),
    ('jx_det_other', 'det', 4, [A2]),
    # the same helpers called with JaxDiscreteField arguments (the isinstance unwrapping)
    ('jx_dot_fld', 'dot', 'n', [_f(value=1), _f(value=1)]),
    ('jx_ddot_fld', 'ddot', 'n', [_f(value=2), _f(value=2)]),
    ('jx_dddot_fld', 'dddot', 'n', [_f(value=3), _f(value=3)]),
    ('jx_prod2_fld', 'prod', 'n', [_f(value=1), _f(value=1)]),
    ('jx_prod3_fld', 'prod', 'n', [_f(value=1), _f(value=1), _f(value=1)]),
    ('jx_mul_fld', 'mul', 'n', [_f(value=2), _f(value=1)]),
    ('jx_mul_mm_fld', 'mul', 'n', [_f(value=2), _f(value=2)]),
    ('jx_trace_fld', 'trace', 'n', [_f(value=2)]),
    ('jx_transpose_fld', 'transpose', 'n', [_f(value=2)]),
]
# helpers present in both files: (numpy definition, jax definition); the statement is pointwise equality
AGREE = [('np_grad_s', 'jx_grad_s'), ('np_grad_v', 'jx_grad_v'), ('np_div_hdiv', 'jx_div_hdiv'), ('np_div_v', 'jx_div_v'),
         ('np_div_1d', 'jx_div_1d'),
         ('np_sym_grad', 'jx_sym_grad'), ('np_dd', 'jx_dd'), ('np_dot', 'jx_dot'), ('np_ddot', 'jx_ddot'),
         ('np_dddot', 'jx_dddot'), ('np_prod2', 'jx_prod2'), ('np_prod3', 'jx_prod3'), ('np_mul', 'jx_mul'),
         ('np_trace', 'jx_trace'), ('np_transpose', 'jx_transpose'), ('np_eye', 'jx_eye'),
         ('np_det_2', 'jx_det_2'), ('np_det_other', 'jx_det_other')]
UNWRAP = [('jx_dot_fld', 'jx_dot'), ('jx_ddot_fld', 'jx_ddot'), ('jx_dddot_fld', 'jx_dddot'), ('jx_prod2_fld', 'jx_prod2'),
          ('jx_prod3_fld', 'jx_prod3'), ('jx_mul_fld', 'jx_mul'), ('jx_mul_mm_fld', 'jx_mul_mm'), ('jx_trace_fld', 'jx_trace'),
          ('jx_transpose_fld', 'jx_transpose')]
# functions of the two modules that are deliberately not modelled (must still exist; anything ELSE that
# appears in the modules is a translator failure: a new helper has no theorem)
NP_SKIP = set()
JUMP_CASES = [('none', None, 2), ('01', (0, 1), 2), ('10', (1, 0), 2), ('0', (0,), 1), ('1', (1,), 1)]


def jump_defs(it):
    """``jump(w, *args)``: each argument is multiplied by (-1) ** w.idx[i]; without w.idx the arguments are returned"""
    if 'jump' not in it.funcs:
        raise TranslateError('jump: not defined')
    out = []
    for tag, idx, nargs in JUMP_CASES:
        it.n, it.fresh, it.depth = NSym(), 0, 0
        w = Params() if idx is None else Params(idx=idx)
        syms = [Sym(0, (lambda _i, nm=nm: nm), term=nm) for nm in ['u', 'v'][:nargs]]
        try:
            res = it.call(it.funcs['jump'], [w] + syms, {})
        except ModelRaise as e:
            raise TranslateError(f'jump [{tag}]: raises {e.what}')
        comps = list(res) if isinstance(res, tuple) else [res]
        if len(comps) != nargs:
            raise TranslateError(f'jump [{tag}]: returns {len(comps)} values for {nargs} arguments')
        for k, c in enumerate(comps):
            out.append(f'(* jump, w.idx = {idx}, component {k} *)\nDefinition np_jump_{tag}_{k} (u v : R) : R :=\n  {it.scalar(c).at([])}.\n')
    return out
JX_SKIP = set()

HEADER = '''(* GENERATED by vlib/c20_tr.py from {src} -- do not edit *)
From Coq Require Import List Arith.
Import ListNotations.
Require Import Base.C20_Ring Model.C20_Tensor.
Section Gen.
Context {{R : Type}} {{ops : FOps R}}.
Open Scope F_scope.
'''


def generate(variant):
    """-> (Coq text of Gen/C20Gen_<variant>.v, {defname: (params, result rank, n)}, {defname: (func, exception)})"""
    src, scen, skip = (NP_SRC, NP_SCEN, NP_SKIP) if variant == 'np' else (JX_SRC, JX_SCEN, JX_SKIP)
    it = Interp(src, variant)
    covered = {f for _, f, _, _ in scen} | skip | ({'jump'} if variant == 'np' else set())
    extra = sorted(set(it.funcs) - covered)
    if extra:
        raise TranslateError(f'{src}: helper(s) without a model/theorem: {extra}')
    missing = sorted(covered - set(it.funcs))
    if missing:
        raise TranslateError(f'{src}: expected helper(s) not found: {missing}')
    out, meta, raises = [HEADER.format(src=src)], {}, {}
    for name, func, n, spec in scen:
        try:
            txt, params, rr = it.translate(name, func, n, spec)
        except TranslateError as e:
            raise TranslateError(f'{src}:{func} [{name}]: {e}')
        if txt is None:       # the helper raises under this scenario: a model-predicted failing input, no definition
            out.append(f'(* {func}, scenario n={n}: RAISES {params} *)\n')
            raises[name] = (func, params)
            continue
        out.append(f'(* {func}, scenario n={n} *)\n{txt}\n')
        meta[name] = (params, rr, n)
    if variant == 'np':
        out += jump_defs(it)
    out.append('End Gen.\n')
    return '\n'.join(out), meta, raises


def agreement_file(meta_np, meta_jx):
    """generated per-item lemmas: the NumPy and the JAX variant of a helper are the same function, and the
    JaxDiscreteField unwrapping does not change the term.  det 3x3 is proved in Dyn (needs ring)."""
    L = ['(* GENERATED by vlib/c20_tr.py -- NumPy/JAX agreement, one lemma per helper *)',
         'From Coq Require Import List Arith.', 'Require Import Base.C20_Ring Model.C20_Tensor Gen.C20Gen_np Gen.C20Gen_jx.',
         'Section Agree.', 'Context {R : Type} {ops : FOps R}.', 'Open Scope F_scope.', '']
    allm = dict(meta_np)
    allm.update(meta_jx)
    for a, b in AGREE + UNWRAP:
        if a not in allm or b not in allm:      # one side raises: reported as a failing input, no lemma
            continue
        pa, ra, _ = allm[a]
        pb, rb, _ = allm[b]
        if [r for _, r in pa] != [r for _, r in pb] or ra != rb:
            raise TranslateError(f'{a} / {b}: signatures differ: {pa} -> {ra} vs {pb} -> {rb}')
        binders = ' '.join(f'({p} : {"nat" if r == "nat" else RANK_TYPE[r]})' for p, r in pa)
        args = ' '.join(p for p, _ in pa)
        idx = ' '.join(f'i{k}' for k in range(ra))
        L.append(f'Lemma agree_{a}__{b} : forall {binders} {("(" + idx + " : nat)") if ra else ""}, '
                 f'{a} {args} {idx} = {b} {args} {idx}.')
        L.append('Proof. intros. reflexivity. Qed.')
    L.append('End Agree.')
    return '\n'.join(L) + '\n'
