"""Small random meshes of every cell type for the C11 / C04 / C07 checks.

Everything is derived from one numpy Generator.  Meshes are built from raw (p, t) through the public
constructors only; carving (holes, several components), vertex renumbering, cell permutation and the
local symmetries of the reference cell are done here (not with skfem's own surgery code).
"""
import itertools

import numpy as np

KINDS = ['line', 'tri', 'quad', 'tet', 'hex', 'wedge']


def mesh_class(kind):
    import skfem
    return {'line': skfem.MeshLine1, 'tri': skfem.MeshTri1, 'quad': skfem.MeshQuad1, 'tet': skfem.MeshTet1,
            'hex': skfem.MeshHex1, 'wedge': skfem.MeshWedge1}[kind]


# ----------------------------------------------------------------------------- local symmetries

def _geometric_symmetries(refp, mats):
    """vertex permutations of a reference cell induced by the affine maps x -> M x + c that map the
    vertex set onto itself"""
    pts = [tuple(np.round(refp[:, i], 9)) for i in range(refp.shape[1])]
    cen = refp.mean(axis=1)
    out = set()
    for M in mats:
        q = (M @ (refp - cen[:, None])) + cen[:, None]
        try:
            perm = tuple(pts.index(tuple(np.round(q[:, i], 9))) for i in range(q.shape[1]))
        except ValueError:
            continue
        if len(set(perm)) == len(perm):
            out.add(perm)
    return sorted(out)


def _signed_perm_mats(d):
    mats = []
    for perm in itertools.permutations(range(d)):
        for signs in itertools.product([1, -1], repeat=d):
            M = np.zeros((d, d))
            for i, (j, s) in enumerate(zip(perm, signs)):
                M[i, j] = s
            mats.append(M)
    return mats


_SYM = {}


def local_symmetries(kind):
    """list of tuples perm: new local vertex k is old local vertex perm[k]; all keep the cell valid"""
    if kind in _SYM:
        return _SYM[kind]
    from skfem.refdom import RefHex, RefQuad
    if kind == 'line':
        s = [(0, 1), (1, 0)]
    elif kind == 'tri':
        s = list(itertools.permutations(range(3)))
    elif kind == 'tet':
        s = list(itertools.permutations(range(4)))
    elif kind == 'quad':
        s = _geometric_symmetries(RefQuad.p, _signed_perm_mats(2))
        assert len(s) == 8
    elif kind == 'hex':
        s = _geometric_symmetries(RefHex.p, _signed_perm_mats(3))
        assert len(s) == 48
    elif kind == 'wedge':
        s = []
        for sg in itertools.permutations(range(3)):
            s.append(tuple(sg) + tuple(3 + i for i in sg))
            s.append(tuple(3 + i for i in sg) + tuple(sg))
    _SYM[kind] = s
    return s


# ----------------------------------------------------------------------------- base meshes

def _grid(rng, n):
    x = np.cumsum(rng.integers(1, 4, size=n + 1)).astype(float)
    return x


def _base(rng, kind, maxcells):
    """(p, t) of a structured or Delaunay mesh with at most ~maxcells cells"""
    import skfem
    style = 'structured'
    if kind == 'line':
        n = int(rng.integers(1, min(maxcells, 12) + 1))
        m = skfem.MeshLine(np.array([_grid(rng, n)]))
    elif kind in ('tri', 'tet') and rng.random() < 0.6:
        from scipy.spatial import Delaunay
        style = 'delaunay'
        d = 2 if kind == 'tri' else 3
        for _ in range(50):
            npts = int(rng.integers(d + 1, (14 if d == 2 else 9) + 1))
            pts = rng.integers(0, 12, size=(npts, d)).astype(float)
            pts = np.unique(pts, axis=0)
            if len(pts) < d + 1:
                continue
            try:
                tri = Delaunay(pts)
            except Exception:
                continue
            simp = tri.simplices
            # drop degenerate (zero volume) simplices
            vol = np.array([abs(np.linalg.det((pts[s[1:]] - pts[s[0]]))) for s in simp])
            simp = simp[vol > 1e-9]
            if 1 <= len(simp) <= maxcells:
                used = np.unique(simp)
                if len(used) == len(pts):
                    return pts.T.copy(), simp.T.astype(np.int64).copy(), style
        return _structured(rng, kind, maxcells) + ('structured',)
    else:
        return _structured(rng, kind, maxcells) + ('structured',)
    return m.p.copy(), m.t.astype(np.int64).copy(), style


def _structured(rng, kind, maxcells):
    import skfem
    if kind == 'tri':
        while True:
            a, b = (int(x) for x in rng.integers(1, 5, size=2))
            if 2 * a * b <= maxcells:
                break
        m = skfem.MeshTri1.init_tensor(_grid(rng, a), _grid(rng, b))
    elif kind == 'quad':
        while True:
            a, b = (int(x) for x in rng.integers(1, 6, size=2))
            if a * b <= maxcells:
                break
        m = skfem.MeshQuad1.init_tensor(_grid(rng, a), _grid(rng, b))
    elif kind == 'tet':
        while True:
            a, b, c = (int(x) for x in rng.integers(1, 3, size=3))
            if 6 * a * b * c <= maxcells or (a, b, c) == (1, 1, 1):
                break
        m = skfem.MeshTet1.init_tensor(_grid(rng, a), _grid(rng, b), _grid(rng, c))
    elif kind == 'hex':
        while True:
            a, b, c = (int(x) for x in rng.integers(1, 4, size=3))
            if a * b * c <= maxcells:
                break
        m = skfem.MeshHex1.init_tensor(_grid(rng, a), _grid(rng, b), _grid(rng, c))
    elif kind == 'wedge':
        while True:
            a, b, c = (int(x) for x in rng.integers(1, 4, size=3))
            if 2 * a * b * c <= maxcells:
                break
        m = skfem.MeshTri1.init_tensor(_grid(rng, a), _grid(rng, b)) * skfem.MeshLine(np.array([_grid(rng, c)]))
    else:
        raise ValueError(kind)
    return m.p.copy(), m.t.astype(np.int64).copy()


def compact(p, t):
    used = np.unique(t)
    new = -np.ones(p.shape[1], dtype=np.int64)
    new[used] = np.arange(len(used))
    return p[:, used], new[t]


def gen_raw(rng, kind, maxcells=40, carve=True, renumber=True, local=True):
    """(p, t, info): a geometrically valid mesh, carved / renumbered / permuted / locally re-oriented"""
    p, t, style = _base(rng, kind, maxcells)
    info = {'kind': kind, 'style': style, 'carved': False, 'renumbered': False, 'local': False}
    nt = t.shape[1]
    if carve and nt >= 2 and rng.random() < 0.5:
        keep = rng.random(nt) < rng.uniform(0.4, 0.9)
        if not keep.any():
            keep[int(rng.integers(nt))] = True
        if not keep.all():
            info['carved'] = True
        t = t[:, keep]
        p, t = compact(p, t)
    if local and rng.random() < 0.7:
        syms = local_symmetries(kind)
        t = t.copy()
        for e in range(t.shape[1]):
            s = syms[int(rng.integers(len(syms)))]
            t[:, e] = t[list(s), e]
        info['local'] = True
    if renumber and rng.random() < 0.7:
        nv = p.shape[1]
        perm = rng.permutation(nv)          # old vertex v becomes perm[v]
        p2 = np.empty_like(p)
        p2[:, perm] = p
        p, t = p2, perm[t]
        t = t[:, rng.permutation(t.shape[1])]
        info['renumbered'] = True
    return p, t, info


def build(kind, p, t, **kw):
    """the skfem mesh object (tri: keep the given local order unless sort_t is asked for)"""
    cls = mesh_class(kind)
    if kind == 'tri' and 'sort_t' not in kw:
        kw['sort_t'] = False
    return cls(np.ascontiguousarray(p, dtype=np.float64), np.ascontiguousarray(t, dtype=np.int32), **kw)


def gen_mesh(rng, kind, maxcells=40, **kw):
    p, t, info = gen_raw(rng, kind, maxcells, **kw)
    mk = {}
    if kind == 'tri' and rng.random() < 0.3:
        mk['sort_t'] = True
        info['sort_t'] = True
    return build(kind, p, t, **mk), info


def gen_abstract(rng, kind, maxcells=12):
    """a purely combinatorial 'mesh': random cells over a small vertex range (non-manifold, repeated
    facets, possibly repeated vertices inside a cell).  Only for table-level correspondence."""
    nn = {'line': 2, 'tri': 3, 'quad': 4, 'tet': 4, 'hex': 8, 'wedge': 6}[kind]
    nt = int(rng.integers(1, maxcells + 1))
    nv = int(rng.integers(nn, nn + 6))
    distinct = rng.random() < 0.7
    t = np.zeros((nn, nt), dtype=np.int64)
    for e in range(nt):
        t[:, e] = rng.permutation(nv)[:nn] if distinct else rng.integers(0, nv, size=nn)
    d = {'line': 1, 'tri': 2, 'quad': 2, 'tet': 3, 'hex': 3, 'wedge': 3}[kind]
    p = rng.integers(0, 9, size=(d, nv)).astype(float)
    p, t = compact(p, t)          # every vertex belongs to some cell (Mesh.is_valid demands it)
    return build(kind, p, t), {'kind': kind, 'style': 'abstract', 'distinct': bool(distinct)}
