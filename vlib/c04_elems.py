"""Elements for the C04 / C07 checks: every concrete class exported by skfem.element, by cell kind, plus the
vector / composite / DG wrappers."""
import inspect

REF2KIND = {'RefLine': 'line', 'RefTri': 'tri', 'RefQuad': 'quad', 'RefTet': 'tet', 'RefHex': 'hex', 'RefWedge': 'wedge'}


def exported():
    """{kind: [(name, factory)]} for all no-argument element classes plus the parametrised ones"""
    import skfem.element as E
    from skfem.element import Element
    out = {k: [] for k in REF2KIND.values()}
    for n in sorted(dir(E)):
        c = getattr(E, n)
        if not (inspect.isclass(c) and issubclass(c, Element)) or c is Element:
            continue
        try:
            e = c()
        except Exception:
            continue
        rd = getattr(e, 'refdom', None)
        if rd is None or rd.__name__ not in REF2KIND:
            continue
        out[REF2KIND[rd.__name__]].append((n, c))
    out['line'] += [('ElementLinePp(3)', lambda: E.ElementLinePp(3)), ('ElementLinePp(4)', lambda: E.ElementLinePp(4))]
    out['quad'] += [('ElementQuadP(2)', lambda: E.ElementQuadP(2)), ('ElementQuadP(3)', lambda: E.ElementQuadP(3))]
    return out


def wrappers(kind, base):
    """vector / composite / DG wrappers built from a few base elements of the kind"""
    import skfem.element as E
    d = dict(base)
    out = []

    def get(*names):
        return [d[n] for n in names if n in d]
    pick = {'line': ['ElementLineP1', 'ElementLineP2'], 'tri': ['ElementTriP1', 'ElementTriP2', 'ElementTriRT1'],
            'quad': ['ElementQuad1', 'ElementQuad2'], 'tet': ['ElementTetP1', 'ElementTetP2', 'ElementTetN1'],
            'hex': ['ElementHex1', 'ElementHex2'], 'wedge': ['ElementWedge1']}[kind]
    cs = get(*pick)
    for n, c in zip(pick, cs):
        if 'RT' in n or 'N1' in n:
            out.append((f'ElementDG({n})', (lambda c=c: E.ElementDG(c()))))
            continue
        out.append((f'ElementVector({n})', (lambda c=c: E.ElementVector(c()))))
        out.append((f'ElementDG({n})', (lambda c=c: E.ElementDG(c()))))
    # component count different from the spatial dimension
    ncomp = {'line': 2, 'tri': 3, 'quad': 3, 'tet': 2, 'hex': 2, 'wedge': 2}[kind]
    out.append((f'ElementVector({pick[-1] if kind == "wedge" else pick[1]},{ncomp})', (lambda c=cs[-1 if kind == 'wedge' else 1], n=ncomp: E.ElementVector(c(), n))))
    if len(cs) >= 2:
        out.append((f'{pick[1]}*{pick[0]}', (lambda a=cs[1], b=cs[0]: a() * b())))
        out.append((f'ElementVector({pick[1]})*{pick[0]}', (lambda a=cs[1], b=cs[0]: E.ElementVector(a()) * b())))
    if len(cs) >= 3:
        out.append((f'{pick[2]}*{pick[0]}', (lambda a=cs[2], b=cs[0]: a() * b())))
    # 3-D composites whose components differ in their edge / facet DOF pattern (the order of the groups matters)
    mixed = {'tet': [('ElementTetCCR', 'ElementTetP2'), ('ElementTetP2', 'ElementTetCR'), ('ElementTetN1', 'ElementTetCR'),
                     ('ElementTetRT1', 'ElementTetP2')],
             'hex': [('ElementHex2', 'ElementHexS2'), ('ElementHexS2', 'ElementHexRT1')]}.get(kind, [])
    for a, b in mixed:
        if a in d and b in d:
            out.append((f'{a}*{b}', (lambda a=d[a], b=d[b]: a() * b())))
    return out


def all_elements(kind):
    base = exported()[kind]
    return base + wrappers(kind, base)


def counts(e):
    return int(e.nodal_dofs), int(e.edge_dofs), int(e.facet_dofs), int(e.interior_dofs)
