"""C17/C18 — which public callables of the anchor files does a check run actually execute (sys.setprofile), and the table
`api_coverage` for the evidence."""
import ast
import os
import sys

from .core import REPO

ANCHORS = ['skfem/mesh/mesh.py', 'skfem/io/meshio.py', 'skfem/io/json.py', 'skfem/generic_utils.py', 'skfem/mesh/mesh_quad_1.py',
           'skfem/mesh/mesh_hex_1.py', 'skfem/mesh/mesh_wedge_1.py', 'skfem/mesh/mesh_tri_1.py', 'skfem/mesh/mesh_line_1.py',
           'skfem/mesh/mesh_simplex.py', 'skfem/mesh/mesh_tet_1.py', 'skfem/mesh/mesh_2d.py', 'skfem/mesh/mesh_3d.py',
           'skfem/mesh/mesh_tri_2.py', 'skfem/mesh/mesh_quad_2.py', 'skfem/mesh/mesh_tet_2.py', 'skfem/mesh/mesh_hex_2.py',
           'skfem/mesh/mesh_2d_2.py', 'skfem/mesh/mesh_dg.py', 'skfem/mesh/__init__.py']


def public_callables():
    """{(relative file, qualified name): first line}: functions / methods whose name does not start with '_' (plus the
    operators and constructors that are part of the API)"""
    keep = {'__add__', '__matmul__', '__rmatmul__', '__mul__', '__iter__', '__post_init__', '__call__'}
    out = {}
    for rel in ANCHORS:
        path = os.path.join(REPO, rel)
        if not os.path.exists(path):
            continue
        tree = ast.parse(open(path).read())

        def walk(node, prefix):
            for n in node.body:
                if isinstance(n, ast.ClassDef):
                    walk(n, prefix + n.name + '.')
                elif isinstance(n, (ast.FunctionDef, ast.AsyncFunctionDef)):
                    if not n.name.startswith('_') or n.name in keep:
                        out[(rel, prefix + n.name)] = n.lineno
        walk(tree, '')
    return out


class Recorder:
    """records which code objects of skfem start executing; sys.monitoring (3.12): every code object reports once and is
    then disabled, so the cost is negligible"""
    TOOL = 4

    def __init__(self):
        self.hit = set()

    def _start(self, code, offset):
        fn = code.co_filename
        if 'skfem' in fn:
            self.hit.add((os.path.realpath(fn), code.co_firstlineno))
        return sys.monitoring.DISABLE

    def __enter__(self):
        mon = sys.monitoring
        try:
            mon.use_tool_id(self.TOOL, 'verif-api-coverage')
        except ValueError:
            pass
        mon.register_callback(self.TOOL, mon.events.PY_START, self._start)
        mon.set_events(self.TOOL, mon.events.PY_START)
        mon.restart_events()
        return self

    def __exit__(self, *a):
        mon = sys.monitoring
        mon.set_events(self.TOOL, 0)
        mon.register_callback(self.TOOL, mon.events.PY_START, None)
        try:
            mon.free_tool_id(self.TOOL)
        except ValueError:
            pass

    def table(self, scope_notes):
        pub = public_callables()
        rows = []
        for (rel, name), line in sorted(pub.items()):
            path = os.path.realpath(os.path.join(REPO, rel))
            # decorated functions start at the decorator line: accept a small window
            covered = any((path, l) in self.hit for l in range(line - 3, line + 1))
            rows.append({'callable': f'{rel}:{name}', 'executed': covered,
                         'note': '' if covered else scope_notes.get(f'{rel}:{name}', scope_notes.get(name.split('.')[-1], ''))})
        return rows
