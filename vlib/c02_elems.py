"""C02: reference mass / stiffness matrices of the polynomial Lagrange elements as exact rationals.

The polynomials are those of the REAL ``lbasis`` (group F's symbolic executor, vlib/c09_sym / c09_gen.Translated, run on
every check).  The matrices are computed here with Fractions and written as Coq literals; Coq recomputes them from the
generated polynomials by Model.C02_PolyInt.mass_ref / stiff_ref (``mass_ref_<elem>_exact`` closed by vm_compute), so a
wrong literal or a changed basis breaks the lemma."""
from fractions import Fraction
from math import factorial

from . import c09_gen
from .core import TranslateError, cq

SHAPE = {'RefLine': [1], 'RefTri': [2], 'RefTet': [3], 'RefQuad': [1, 1], 'RefHex': [1, 1, 1], 'RefWedge': [2, 1]}
# (class name, stiffness literal too?)
ELEMENTS = [('ElementLineP0', False), ('ElementLineP1', True), ('ElementLineP2', True),
            ('ElementTriP0', False), ('ElementTriP1', True), ('ElementTriP2', True), ('ElementTriP3', False), ('ElementTriP4', False),
            ('ElementTetP0', False), ('ElementTetP1', True), ('ElementTetP2', True),
            ('ElementQuad0', False), ('ElementQuad1', True), ('ElementQuad2', True),
            ('ElementHex0', False), ('ElementHex1', True), ('ElementWedge1', False)]
THOROUGH_ONLY = [('ElementHex2', False), ('ElementQuadS2', False)]


def mono_int(shape, e):
    r = Fraction(1)
    k = 0
    for d in shape:
        blk = e[k:k + d]
        k += d
        num = 1
        for x in blk:
            num *= factorial(x)
        r *= Fraction(num, factorial(sum(blk) + d))
    return r


def terms(p):
    return {tuple(k): Fraction(v) for k, v in p.terms()}


def tmul(a, b):
    out = {}
    for ea, ca in a.items():
        for eb, cb in b.items():
            e = tuple(x + y for x, y in zip(ea, eb))
            out[e] = out.get(e, 0) + ca * cb
    return out


def tderiv(a, k):
    out = {}
    for e, c in a.items():
        if e[k] > 0:
            e2 = list(e)
            e2[k] -= 1
            out[tuple(e2)] = out.get(tuple(e2), 0) + c * e[k]
    return out


def tint(shape, a):
    return sum((c * mono_int(shape, e) for e, c in a.items()), Fraction(0))


class RefElem:
    def __init__(self, name, want_stiff):
        import skfem
        cls = getattr(skfem, name, None)
        if cls is None:
            raise TranslateError(f'{name} is not exported by skfem')
        self.name = name
        self.elem = cls()
        self.tr = c09_gen.Translated(name, self.elem)
        if self.tr.family != 'h1':
            raise TranslateError(f'{name}: not an H1 element')
        rd = self.elem.refdom.__name__
        if rd not in SHAPE:
            raise TranslateError(f'{name}: reference domain {rd}')
        self.shape = SHAPE[rd]
        self.dim = sum(self.shape)
        self.maxdeg = int(self.elem.maxdeg)
        self.vals = [terms(p) for p in self.tr.values()]
        n = len(self.vals)
        self.mass = [[tint(self.shape, tmul(self.vals[i], self.vals[j])) for j in range(n)] for i in range(n)]
        self.stiff = None
        if want_stiff:
            self.stiff = [[sum((tint(self.shape, tmul(tderiv(self.vals[i], k), tderiv(self.vals[j], k))) for k in range(self.dim)),
                               Fraction(0)) for j in range(n)] for i in range(n)]

    def coq_shape(self):
        return '[' + '; '.join(f'{d}%nat' for d in self.shape) + ']'

    def coq(self):
        n = self.name
        vals = '[' + ';\n    '.join(c09_gen.cpoly(p) for p in self.tr.values()) + ']'

        def mat(M):
            return '[' + ';\n    '.join('[' + '; '.join(cq(x) for x in row) + ']' for row in M) + ']'
        out = [f'Definition vals_{n} : list poly :=\n   {vals}.',
               f'Definition mass_{n} : list (list Q) :=\n   {mat(self.mass)}.',
               f'Definition ref_{n} : refelem := mkRef {self.coq_shape()} {self.maxdeg}%nat vals_{n} mass_{n}.',
               f'Lemma mass_ref_{n}_exact : qmat_eqb (mass_ref {self.coq_shape()} vals_{n}) mass_{n} = true.\n'
               f'Proof. vm_cast_no_check (eq_refl true). Qed.',
               f'Lemma products_{n}_covered : products_ok {self.coq_shape()} (gen_intorder None {self.maxdeg}%nat) vals_{n} = true.\n'
               f'Proof. vm_cast_no_check (eq_refl true). Qed.',
               f'Lemma ref_{n}_ok : refelem_ok (gen_intorder None) ref_{n} = true.\n'
               f'Proof. unfold refelem_ok. apply andb_true_iff. split; [exact mass_ref_{n}_exact|exact products_{n}_covered]. Qed.']
        if self.stiff is not None:
            out += [f'Definition stiff_{n} : list (list Q) :=\n   {mat(self.stiff)}.',
                    f'Lemma stiff_ref_{n}_exact : qmat_eqb (stiff_ref {self.coq_shape()} vals_{n}) stiff_{n} = true.\n'
                    f'Proof. vm_cast_no_check (eq_refl true). Qed.']
        return '\n'.join(out) + '\n'


def generate(tier):
    """returns (coq text, list of RefElem)"""
    names = ELEMENTS + (THOROUGH_ONLY if tier != 'quick' else [])
    elems = [RefElem(n, s) for n, s in names]
    txt = ('(* GENERATED by vlib/c02_elems.py: exact polynomials of the real lbasis (symbolic execution) and the exact\n'
           '   rational reference mass / stiffness matrices — do not edit *)\n'
           'From Coq Require Import List Arith ZArith QArith Bool.\n'
           'Require Import Base.Corr Base.C09_Poly Model.C08_Rules Model.C02_PolyInt Gen.C02Gen.\nImport ListNotations.\n')
    for e in elems:
        txt += e.coq()
    txt += ('\nDefinition ref_elements : list refelem := [' + '; '.join(f'ref_{e.name}' for e in elems) + '].\n'
            'Lemma ref_elements_ok : Forall (fun e => refelem_ok (gen_intorder None) e = true) ref_elements.\nProof.\n  unfold ref_elements.\n'
            + ''.join(f'  apply Forall_cons; [exact ref_{e.name}_ok|].\n' for e in elems) + '  apply Forall_nil.\nQed.\n')
    st = [e for e in elems if e.stiff is not None]
    txt += ('Definition stiff_elements : list (shape * list poly * list (list Q)) := ['
            + '; '.join(f'({e.coq_shape()}, vals_{e.name}, stiff_{e.name})' for e in st) + '].\n'
            'Lemma stiff_elements_ok : Forall (fun e => qmat_eqb (stiff_ref (fst (fst e)) (snd (fst e))) (snd e) = true) stiff_elements.\n'
            'Proof.\n  unfold stiff_elements.\n'
            + ''.join(f'  apply Forall_cons; [exact stiff_ref_{e.name}_exact|].\n' for e in st) + '  apply Forall_nil.\nQed.\n')
    return txt, elems
