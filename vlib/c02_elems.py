"""C02: reference mass / stiffness matrices of the polynomial Lagrange elements as exact rationals.

The polynomials are those of the REAL ``lbasis`` (group F's symbolic executor, vlib/c09_sym / c09_gen.Translated, run on
every check).  The matrices are computed here with Fractions and written as Coq literals; Coq recomputes them from the
generated polynomials by Model.C02_PolyInt.mass_ref / stiff_ref (``mass_ref_<elem>_exact`` closed by vm_compute), so a
wrong literal or a changed basis breaks the lemma."""
from fractions import Fraction
from math import factorial

from . import c09_gen
from .core import TranslateError, cq

SHAPE = {'RefLine': [1], 'RefTri': [2], 'RefTet': [3], 'RefQuad': [1, 1], 'RefHex': [1, 1, 1], 'RefWedge': [2, 1]}
# (class name, stiffness literal too?)
ELEMENTS = [('ElementLineP0', False), ('ElementLineP1', True), ('ElementLineP2', True),
            ('ElementTriP0', False), ('ElementTriP1', True), ('ElementTriP2', True), ('ElementTriP3', False), ('ElementTriP4', False),
            ('ElementTetP0', False), ('ElementTetP1', True), ('ElementTetP2', True),
            ('ElementQuad0', False), ('ElementQuad1', True), ('ElementQuad2', True),
            ('ElementHex0', False), ('ElementHex1', True), ('ElementWedge1', False)]
THOROUGH_ONLY = [('ElementHex2', False), ('ElementQuadS2', False)]
# reference stiffness tensors, load vectors (monomial data of degree <= LOADK) and facet mass matrices
TENSOR = ['ElementLineP1', 'ElementLineP2', 'ElementTriP1', 'ElementTriP2', 'ElementTetP1', 'ElementTetP2']
FACETS = ['ElementTriP1', 'ElementTriP2', 'ElementTetP1', 'ElementTetP2']
LOADK = 2


def monos_upto(d, k):
    import itertools
    return [e for e in itertools.product(range(k + 1), repeat=d) if sum(e) <= k]


def compose(a, origin, cols):
    """a (dict exps -> Fraction, variables x_i) with x = origin + sum_j cols[j] * s_j  ->  dict in the s_j"""
    m = len(cols)
    out = {}
    for e, c in a.items():
        term = {tuple([0] * m): Fraction(c)}
        for i, ei in enumerate(e):
            lin = {}
            if origin[i] != 0:
                lin[tuple([0] * m)] = Fraction(origin[i])
            for j in range(m):
                if cols[j][i] != 0:
                    k = [0] * m
                    k[j] = 1
                    lin[tuple(k)] = Fraction(cols[j][i])
            for _ in range(ei):
                term = tmul(term, lin)
        for k, v in term.items():
            out[k] = out.get(k, 0) + v
    return {k: v for k, v in out.items() if v != 0}


def mono_int(shape, e):
    r = Fraction(1)
    k = 0
    for d in shape:
        blk = e[k:k + d]
        k += d
        num = 1
        for x in blk:
            num *= factorial(x)
        r *= Fraction(num, factorial(sum(blk) + d))
    return r


def terms(p):
    return {tuple(k): Fraction(v) for k, v in p.terms()}


def tmul(a, b):
    out = {}
    for ea, ca in a.items():
        for eb, cb in b.items():
            e = tuple(x + y for x, y in zip(ea, eb))
            out[e] = out.get(e, 0) + ca * cb
    return out


def tderiv(a, k):
    out = {}
    for e, c in a.items():
        if e[k] > 0:
            e2 = list(e)
            e2[k] -= 1
            out[tuple(e2)] = out.get(tuple(e2), 0) + c * e[k]
    return out


def tint(shape, a):
    return sum((c * mono_int(shape, e) for e, c in a.items()), Fraction(0))


class RefElem:
    def __init__(self, name, want_stiff):
        import skfem
        cls = getattr(skfem, name, None)
        if cls is None:
            raise TranslateError(f'{name} is not exported by skfem')
        self.name = name
        self.elem = cls()
        self.tr = c09_gen.Translated(name, self.elem)
        if self.tr.family != 'h1':
            raise TranslateError(f'{name}: not an H1 element')
        rd = self.elem.refdom.__name__
        if rd not in SHAPE:
            raise TranslateError(f'{name}: reference domain {rd}')
        self.shape = SHAPE[rd]
        self.dim = sum(self.shape)
        self.maxdeg = int(self.elem.maxdeg)
        self.vals = [terms(p) for p in self.tr.values()]
        n = len(self.vals)
        self.mass = [[tint(self.shape, tmul(self.vals[i], self.vals[j])) for j in range(n)] for i in range(n)]
        self.tensor = self.loads = self.facets = None
        if name in TENSOR:
            d = self.dim
            self.tensor = [[[[tint(self.shape, tmul(tderiv(self.vals[i], k), tderiv(self.vals[j], l))) for j in range(n)]
                             for i in range(n)] for l in range(d)] for k in range(d)]
            self.loadmonos = monos_upto(d, LOADK)
            self.loads = [[tint(self.shape, tmul({tuple(m): Fraction(1)}, self.vals[i])) for i in range(n)] for m in self.loadmonos]
        if name in FACETS:
            import numpy as np
            P = np.asarray(self.elem.refdom.p)
            self.facetmaps, self.facets = [], []
            for fv in self.elem.refdom.facets:
                o = [Fraction(float(P[i, fv[0]])) for i in range(self.dim)]
                cols = [[Fraction(float(P[i, v])) - o[i] for i in range(self.dim)] for v in fv[1:]]
                self.facetmaps.append((o, cols))
                tv = [compose(a, o, cols) for a in self.vals]
                self.facets.append([[tint([self.dim - 1], tmul(tv[i], tv[j])) for j in range(n)] for i in range(n)])
        self.stiff = None
        if want_stiff:
            self.stiff = [[sum((tint(self.shape, tmul(tderiv(self.vals[i], k), tderiv(self.vals[j], k))) for k in range(self.dim)),
                               Fraction(0)) for j in range(n)] for i in range(n)]

    def coq_shape(self):
        return '[' + '; '.join(f'{d}%nat' for d in self.shape) + ']'

    def coq(self):
        n = self.name
        vals = '[' + ';\n    '.join(c09_gen.cpoly(p) for p in self.tr.values()) + ']'

        def mat(M):
            return '[' + ';\n    '.join('[' + '; '.join(cq(x) for x in row) + ']' for row in M) + ']'
        out = [f'Definition vals_{n} : list poly :=\n   {vals}.',
               f'Definition mass_{n} : list (list Q) :=\n   {mat(self.mass)}.',
               f'Definition ref_{n} : refelem := mkRef {self.coq_shape()} {self.maxdeg}%nat vals_{n} mass_{n}.',
               f'Lemma mass_ref_{n}_exact : qmat_eqb (mass_ref {self.coq_shape()} vals_{n}) mass_{n} = true.\n'
               f'Proof. vm_cast_no_check (eq_refl true). Qed.',
               f'Lemma products_{n}_covered : products_ok {self.coq_shape()} (gen_intorder None {self.maxdeg}%nat) vals_{n} = true.\n'
               f'Proof. vm_cast_no_check (eq_refl true). Qed.',
               f'Lemma ref_{n}_ok : refelem_ok (gen_intorder None) ref_{n} = true.\n'
               f'Proof. unfold refelem_ok. apply andb_true_iff. split; [exact mass_ref_{n}_exact|exact products_{n}_covered]. Qed.']
        if self.tensor is not None:
            tl = '[' + ';\n  '.join('[' + ';\n   '.join(mat(self.tensor[k][l]) for l in range(self.dim)) + ']' for k in range(self.dim)) + ']'
            ml = '[' + '; '.join('[' + '; '.join(f'{x}%nat' for x in m) + ']' for m in self.loadmonos) + ']'
            out += [f'Definition tensor_{n} : list (list (list (list Q))) :=\n  {tl}.',
                    f'Lemma tensor_ref_{n}_exact : tensors_eqb (tensors_ref {self.coq_shape()} vals_{n}) tensor_{n} = true.\n'
                    f'Proof. vm_cast_no_check (eq_refl true). Qed.',
                    f'Definition loadmonos_{n} : list mono := {ml}.',
                    f'Definition loads_{n} : list (list Q) :=\n   {mat(self.loads)}.',
                    f'Lemma load_ref_{n}_exact : loads_eqb (map (load_ref {self.coq_shape()} vals_{n}) loadmonos_{n}) loads_{n} = true.\n'
                    f'Proof. vm_cast_no_check (eq_refl true). Qed.',
                    f'Lemma load_products_{n}_covered : load_products_ok {self.coq_shape()} ({LOADK} + {self.maxdeg})%nat vals_{n} loadmonos_{n} = true.\n'
                    f'Proof. vm_cast_no_check (eq_refl true). Qed.']
        if self.facets is not None:
            def lin(o, cols):
                ps = []
                for i in range(self.dim):
                    terms_ = []
                    if o[i] != 0:
                        terms_.append(f'({cq(o[i])}, [])')
                    for j, c in enumerate(cols):
                        if c[i] != 0:
                            terms_.append(f'({cq(c[i])}, [' + '; '.join('1%nat' if jj == j else '0%nat' for jj in range(j + 1)) + '])')
                    ps.append('[' + '; '.join(terms_) + ']')
                return '[' + '; '.join(ps) + ']'
            fm = '[' + ';\n   '.join(lin(o, cols) for o, cols in self.facetmaps) + ']'
            out += [f'Definition facetmaps_{n} : list (list poly) :=\n   {fm}.',
                    f'Definition facetmass_{n} : list (list (list Q)) :=\n  [' + ';\n   '.join(mat(M) for M in self.facets) + '].',
                    f'Lemma facet_mass_{n}_exact : list_eqb qmat_eqb (map (fun F => facet_mass_ref [{self.dim - 1}%nat] F vals_{n}) facetmaps_{n}) facetmass_{n} = true.\n'
                    f'Proof. vm_cast_no_check (eq_refl true). Qed.']
        if self.stiff is not None:
            out += [f'Definition stiff_{n} : list (list Q) :=\n   {mat(self.stiff)}.',
                    f'Lemma stiff_ref_{n}_exact : qmat_eqb (stiff_ref {self.coq_shape()} vals_{n}) stiff_{n} = true.\n'
                    f'Proof. vm_cast_no_check (eq_refl true). Qed.']
        return '\n'.join(out) + '\n'


def generate(tier):
    """returns (coq text, list of RefElem)"""
    names = ELEMENTS + (THOROUGH_ONLY if tier != 'quick' else [])
    elems = [RefElem(n, s) for n, s in names]
    txt = ('(* GENERATED by vlib/c02_elems.py: exact polynomials of the real lbasis (symbolic execution) and the exact\n'
           '   rational reference mass / stiffness matrices — do not edit *)\n'
           'From Coq Require Import List Arith ZArith QArith Bool.\n'
           'Require Import Base.Corr Base.C09_Poly Model.C08_Rules Model.C02_PolyInt Gen.C02Gen.\nImport ListNotations.\n')
    for e in elems:
        txt += e.coq()
    txt += ('\nDefinition ref_elements : list refelem := [' + '; '.join(f'ref_{e.name}' for e in elems) + '].\n'
            'Lemma ref_elements_ok : Forall (fun e => refelem_ok (gen_intorder None) e = true) ref_elements.\nProof.\n  unfold ref_elements.\n'
            + ''.join(f'  apply Forall_cons; [exact ref_{e.name}_ok|].\n' for e in elems) + '  apply Forall_nil.\nQed.\n')
    st = [e for e in elems if e.stiff is not None]
    txt += ('Definition stiff_elements : list (shape * list poly * list (list Q)) := ['
            + '; '.join(f'({e.coq_shape()}, vals_{e.name}, stiff_{e.name})' for e in st) + '].\n'
            'Lemma stiff_elements_ok : Forall (fun e => qmat_eqb (stiff_ref (fst (fst e)) (snd (fst e))) (snd e) = true) stiff_elements.\n'
            'Proof.\n  unfold stiff_elements.\n'
            + ''.join(f'  apply Forall_cons; [exact stiff_ref_{e.name}_exact|].\n' for e in st) + '  apply Forall_nil.\nQed.\n')
    te = [e for e in elems if e.tensor is not None]
    txt += ('Definition tensor_elements : list (shape * list poly * list (list (list (list Q)))) := ['
            + '; '.join(f'({e.coq_shape()}, vals_{e.name}, tensor_{e.name})' for e in te) + '].\n'
            'Lemma tensor_elements_ok : Forall (fun e => tensors_eqb (tensors_ref (fst (fst e)) (snd (fst e))) (snd e) = true) tensor_elements.\n'
            'Proof.\n  unfold tensor_elements.\n'
            + ''.join(f'  apply Forall_cons; [exact tensor_ref_{e.name}_exact|].\n' for e in te) + '  apply Forall_nil.\nQed.\n')
    txt += ('(* (cell, order = LOADK + maxdeg, shape functions, data monomials, literal load vectors) *)\n'
            'Definition load_elements : list (shape * nat * list poly * list mono * list (list Q)) := ['
            + '; '.join(f'({e.coq_shape()}, ({LOADK} + {e.maxdeg})%nat, vals_{e.name}, loadmonos_{e.name}, loads_{e.name})' for e in te) + '].\n'
            'Definition load_elem_ok (e : shape * nat * list poly * list mono * list (list Q)) : bool :=\n'
            "  let '(s, n, vals, ms, lits) := e in loads_eqb (map (load_ref s vals) ms) lits && load_products_ok s n vals ms.\n"
            'Lemma load_elements_ok : Forall (fun e => load_elem_ok e = true) load_elements.\nProof.\n  unfold load_elements.\n'
            + ''.join(f'  apply Forall_cons; [unfold load_elem_ok; apply andb_true_iff; split; [exact load_ref_{e.name}_exact|exact load_products_{e.name}_covered]|].\n'
                      for e in te) + '  apply Forall_nil.\nQed.\n')
    fe = [e for e in elems if e.facets is not None]
    txt += ('(* (reference facet, parametrisations of the local facets, shape functions, literal facet mass matrices) *)\n'
            'Definition facet_elements : list (shape * list (list poly) * list poly * list (list (list Q))) := ['
            + '; '.join(f'([{e.dim - 1}%nat], facetmaps_{e.name}, vals_{e.name}, facetmass_{e.name})' for e in fe) + '].\n'
            'Lemma facet_elements_ok : Forall (fun e => list_eqb qmat_eqb (map (fun F => facet_mass_ref (fst (fst (fst e))) F (snd (fst e))) (snd (fst (fst e)))) (snd e) = true) facet_elements.\n'
            'Proof.\n  unfold facet_elements.\n'
            + ''.join(f'  apply Forall_cons; [exact facet_mass_{e.name}_exact|].\n' for e in fe) + '  apply Forall_nil.\nQed.\n')
    return txt, elems
