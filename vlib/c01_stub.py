"""Duck-typed stub bases with small-integer tables (C01, C19).

The stub IS an ``AbstractBasis`` (so the real ``interpolate`` and the real ``element_dofs`` property with
its ``[:, tind]`` restriction run on it) whose ``dofs`` object, basis arrays and ``dx`` are integer-valued
tables chosen by the harness: everything the real assemblers compute on it is an exact integer.
Each basis function carries two fields components: a value and a one-component "gradient".
"""
import types

import numpy as np

from .core import clist, cnat, cnats, cz


def _arr(t, shape):
    return np.array(t, dtype=float).reshape(shape)


def make_stub_class():
    from skfem.assembly.basis.abstract_basis import AbstractBasis
    from skfem.element import DiscreteField

    class Stub(AbstractBasis):
        """tables: edofs[i][e], bval[i][e][q], bgrad[i][e][q], dx[e][q] on ALL nt_full cells;
        ``tind`` optionally restricts to a list of cells (repeats allowed)"""

        def __init__(self, N, edofs, bval, bgrad, dx, nt_full, nq, tind=None):
            nb = len(bval)
            self.tables = dict(N=N, edofs=edofs, bval=bval, bgrad=bgrad, dx=dx, nt_full=nt_full, nq=nq,
                               tind=None if tind is None else list(tind))
            self.dofs = types.SimpleNamespace(
                element_dofs=np.array(edofs, dtype=np.int32).reshape(nb, nt_full), N=N)
            self.elem = None
            self.tind = None if tind is None else np.array(tind, dtype=np.int64)
            self.Nbfun = nb
            sel = slice(None) if tind is None else self.tind
            self.basis = [(DiscreteField(_arr(bval[i], (nt_full, nq))[sel],
                                         _arr(bgrad[i], (nt_full, nq))[sel][None]),) for i in range(nb)]
            self.dx = _arr(dx, (nt_full, nq))[sel]
            self.nelems = self.dx.shape[0]
            self.X = np.zeros((1, nq))
            self.W = np.ones(nq)

        def default_parameters(self):
            return dict(getattr(self, 'defaults', {}))

    return Stub


def random_tables(rng, N, nb, nt, nq, lo=-3, hi=4):
    edofs = [[rng.randrange(N) for _ in range(nt)] for _ in range(nb)]
    bval = [[[rng.randint(lo, hi) for _ in range(nq)] for _ in range(nt)] for _ in range(nb)]
    bgrad = [[[rng.randint(lo, hi) for _ in range(nq)] for _ in range(nt)] for _ in range(nb)]
    return edofs, bval, bgrad


def random_dx(rng, nt, nq):
    return [[rng.randint(1, 3) for _ in range(nq)] for _ in range(nt)]


# ---- Coq terms

def cz3(t):
    return clist([clist([clist([cz(x) for x in r]) for r in m]) for m in t])


def cz2(t):
    return clist([clist([cz(x) for x in r]) for r in t])


def coq_basis(tb):
    """Coq term of type basis Z (Z*Z) for a stub's tables (uses mkb / subset_basis of COQ_DEFS)"""
    full = (f'(mkb {cnat(tb["N"])} {cnat(len(tb["bval"]))} {cnat(tb["nt_full"])} {cnat(tb["nq"])} '
            f'{clist([cnats(r) for r in tb["edofs"]])} {cz3(tb["bval"])} {cz3(tb["bgrad"])} {cz2(tb["dx"])})')
    if tb['tind'] is None:
        return full
    return f'(subset_basis {full} {cnats(tb["tind"])})'


COQ_DEFS = '''
Local Open Scope Z_scope.
Definition VZ := (Z * Z)%type.
Definition vaddZ (a b : VZ) : VZ := (fst a + fst b, snd a + snd b).
Definition vscaleZ (s : Z) (a : VZ) : VZ := (s * fst a, s * snd a).
Definition tab3 (t : list (list (list Z))) (i e q : nat) : Z := nth q (nth e (nth i t []) []) 0.
Definition tab2 (t : list (list Z)) (e q : nat) : Z := nth q (nth e t []) 0.
Definition mkb (N Nb nt nq : nat) (ed : list (list nat)) (bv bg : list (list (list Z))) (dx : list (list Z)) : basis Z VZ :=
  mkBasis N Nb nt nq ed (fun i e q => (tab3 bv i e q, tab3 bg i e q)) (tab2 dx).
(* integrand families with integer coefficients: non-symmetric in (u, v) *)
Definition form2 (k : list Z) (u v : VZ) (w : Z) : Z :=
  nth 0 k 0 * w * (fst u * snd v) + nth 1 k 0 * (snd u * fst v) + nth 2 k 0 * (fst u * fst v) + nth 3 k 0 * w * (snd u * snd v).
Definition form3 (k : list Z) (u v w : VZ) (p : Z) : Z :=
  nth 0 k 0 * p * (fst u * fst v * fst w) + nth 1 k 0 * (snd u * fst v * snd w) + nth 2 k 0 * (fst u * snd v * fst w)
  + nth 3 k 0 * p * (snd u * snd v * snd w).
Definition form1 (k : list Z) (v : VZ) (w : Z) : Z := nth 0 k 0 * w * fst v + nth 1 k 0 * snd v + nth 2 k 0 * fst v.
Definition form0 (k : list Z) (w : Z) : Z := nth 0 k 0 * w + nth 1 k 0 * w * w + nth 2 k 0.
Definition coo_out (c : coo Z) := (c_indices c, c_data c, c_shape c).
Definition out_eqb (a b : list (list nat) * list Z * list nat) : bool :=
  natss_eqb (fst (fst a)) (fst (fst b)) && zs_eqb (snd (fst a)) (snd (fst b)) && nats_eqb (snd a) (snd b).
Definition vecZ (l : list Z) (k : nat) : Z := nth k l 0.
Local Close Scope Z_scope.
'''

COQ_IMPORTS = ('From Coq Require Import List Arith Bool ZArith.\n'
               'Require Import Base.C01_Sums Model.C01_Assembly Model.C01_Trilinear Gen.C01Gen.')


def py_form2(k, key='c'):
    def form(u, v, w):
        return (k[0] * w[key] * (u * v.grad[0]) + k[1] * (u.grad[0] * v) + k[2] * (u * v)
                + k[3] * w[key] * (u.grad[0] * v.grad[0]))
    return form


def py_form3(k):
    def form(u, v, w, p):
        return (k[0] * p['c'] * (u * v * w) + k[1] * (u.grad[0] * v * w.grad[0]) + k[2] * (u * v.grad[0] * w)
                + k[3] * p['c'] * (u.grad[0] * v.grad[0] * w.grad[0]))
    return form


def py_form1(k, key='c'):
    def form(v, w):
        return k[0] * w[key] * v + k[1] * v.grad[0] + k[2] * v
    return form


def py_form0(k, key='c'):
    def form(w):
        return k[0] * w[key] + k[1] * w[key] * w[key] + k[2]
    return form


def exact_ints(a):
    a = np.asarray(a)
    r = np.rint(a)
    if not np.array_equal(r, a):
        raise ValueError('non-integer value in a stub computation: %r' % (a,))
    return [int(x) for x in r.ravel()]
