"""C20 — failing-input search for NonlinearForm (autodiff Jacobian / residual) on real meshes and elements.

The same integrand expression is evaluated twice: by NonlinearForm with the JAX helpers (code under test) and by ordinary
LinearForm/BilinearForm assembly with the NumPy helpers (independent path).  Checks:
  residual   : rhs == -R(x) with R the LinearForm of the integrand at x (1e-10 relative)
  jacobian   : J d == central difference of R along random directions d, and entrywise (all unit vectors) on small
               problems; tolerance 2e-5 relative to the scale of the column (central differences with h ~ 1e-5: truncation
               ~1e-10, cancellation ~1e-11/h ~ 1e-6 in the worst case; generous so that it never alarms on correct code)
  hand-lin.  : J == BilinearForm of the hand-derived linearisation (1e-9 relative)
  linear     : integrand a(u,v) - l(v)  =>  J == BilinearForm(a), rhs == l - A x   (1e-12 relative)
  hessian    : NonlinearForm(hessian=True) of an energy == the form of its first variation
"""
import numpy as np


def _val(u):
    """the value array of a DiscreteField / JaxDiscreteField"""
    from skfem.autodiff import JaxDiscreteField
    return u.value if isinstance(u, JaxDiscreteField) else np.asarray(u)


# ---- scalar terms: (name, f(u, v, w, xp, H), hand linearisation g(u0, du, v, w, xp, H) or None)
def scalar_terms():
    def t_quasi(u, v, w, xp, H):
        return (1. + _val(u) ** 2) * H.dot(H.grad(u), H.grad(v))

    def l_quasi(u, du, v, w, xp, H):
        return 2. * _val(u) * _val(du) * H.dot(H.grad(u), H.grad(v)) + (1. + _val(u) ** 2) * H.dot(H.grad(du), H.grad(v))

    def t_exp(u, v, w, xp, H):
        return xp.exp(0.3 * _val(u)) * _val(v)

    def l_exp(u, du, v, w, xp, H):
        return 0.3 * xp.exp(0.3 * _val(u)) * _val(du) * _val(v)

    def t_sin(u, v, w, xp, H):
        return xp.sin(_val(u)) * _val(v)

    def l_sin(u, du, v, w, xp, H):
        return xp.cos(_val(u)) * _val(du) * _val(v)

    def t_cubic(u, v, w, xp, H):
        return _val(u) ** 3 * _val(v)

    def l_cubic(u, du, v, w, xp, H):
        return 3. * _val(u) ** 2 * _val(du) * _val(v)

    def t_minsurf(u, v, w, xp, H):
        return H.dot(H.grad(u), H.grad(v)) / xp.sqrt(1. + H.dot(H.grad(u), H.grad(u)))

    def l_minsurf(u, du, v, w, xp, H):
        s = xp.sqrt(1. + H.dot(H.grad(u), H.grad(u)))
        return H.dot(H.grad(du), H.grad(v)) / s - H.dot(H.grad(u), H.grad(du)) * H.dot(H.grad(u), H.grad(v)) / s ** 3

    def t_burgers(u, v, w, xp, H):
        return _val(u) * H.grad(u)[0] * _val(v)

    def l_burgers(u, du, v, w, xp, H):
        return (_val(du) * H.grad(u)[0] + _val(u) * H.grad(du)[0]) * _val(v)

    def t_coeff(u, v, w, xp, H):
        return (1. + _val(w.x)[0] ** 2) * _val(u) * _val(v) - xp.cos(_val(w.x)[0]) * _val(v)

    def l_coeff(u, du, v, w, xp, H):
        return (1. + _val(w.x)[0] ** 2) * _val(du) * _val(v)

    def t_plap(u, v, w, xp, H):
        return H.dot(H.grad(u), H.grad(u)) * _val(u) * _val(v)

    return [('quasilinear', t_quasi, l_quasi), ('exp', t_exp, l_exp), ('sin', t_sin, l_sin), ('cubic', t_cubic, l_cubic),
            ('minsurf', t_minsurf, l_minsurf), ('burgers', t_burgers, l_burgers), ('coeff', t_coeff, l_coeff),
            ('gradsq', t_plap, None)]


def operator_terms():
    """terms that use the arithmetic special methods of the field objects themselves (no .value / np.asarray): in the
    NonlinearForm path u, v, w.x are JaxDiscreteFields, in the independent NumPy path DiscreteFields (ndarray subclass).
    Require u > 0.  (name, f(u, v, w, xp, H), hand linearisation)"""
    def c_of(w):
        return 1. + w.x[0] * w.x[0]           # an array coefficient (field (op) field, then number + array)

    def rdiv_num(u, v, w, xp, H):
        return (2. / u) * v

    def l_rdiv_num(u, du, v, w, xp, H):
        return -2. / (u * u) * du * v

    def rdiv_arr(u, v, w, xp, H):
        return (c_of(w) / u) * v

    def l_rdiv_arr(u, du, v, w, xp, H):
        return -(c_of(w) / (u * u)) * du * v

    def rsub(u, v, w, xp, H):
        return (3. - u) * (c_of(w) - u) * v

    def l_rsub(u, du, v, w, xp, H):
        return (-(c_of(w) - u) - (3. - u)) * du * v

    def rmul(u, v, w, xp, H):
        return (2. * u) * (c_of(w) * u) * v

    def l_rmul(u, du, v, w, xp, H):
        return 4. * c_of(w) * (u * du) * v

    def div(u, v, w, xp, H):
        return (u / 4.) * (u / c_of(w)) * v

    def l_div(u, du, v, w, xp, H):
        return (u * du) / (2. * c_of(w)) * v

    def fieldfield(u, v, w, xp, H):
        return (u + u) * ((u * u) / u) * v + (u - u) * v + (u / u) * v

    def l_fieldfield(u, du, v, w, xp, H):
        return 4. * (u * du) * v

    def power(u, v, w, xp, H):
        return (u ** 2 + u ** 3) * v

    def l_power(u, du, v, w, xp, H):
        return (2. * (u * du) + 3. * (u * u) * du) * v

    def add(u, v, w, xp, H):
        return (u + 1.5) * (u + c_of(w)) * (v / 2.)

    def l_add(u, du, v, w, xp, H):
        return ((u + c_of(w)) + (u + 1.5)) * du * (v / 2.)

    from skfem.autodiff import JaxDiscreteField as _J
    extra = []
    if hasattr(_J, '__rpow__'):
        def rpow(u, v, w, xp, H):
            return (1.5 ** u) * v + (c_of(w) ** u) * v

        def l_rpow(u, du, v, w, xp, H):
            return (np.log(1.5) * 1.5 ** u + np.log(c_of(w)) * c_of(w) ** u) * du * v
        extra.append(('op:c**field', rpow, l_rpow))
    if hasattr(_J, '__neg__') and hasattr(_J, '__radd__'):
        def negadd(u, v, w, xp, H):
            return (-u) * (1.5 + u) * (c_of(w) + u) * v

        def l_negadd(u, du, v, w, xp, H):
            return (-(1.5 + u) * (c_of(w) + u) - u * (c_of(w) + u) - u * (1.5 + u)) * du * v
        extra.append(('op:-field,c+field', negadd, l_negadd))
    return extra + [('op:num/field', rdiv_num, l_rdiv_num), ('op:array/field', rdiv_arr, l_rdiv_arr), ('op:c-field', rsub, l_rsub),
            ('op:c*field', rmul, l_rmul), ('op:field/c', div, l_div), ('op:field(op)field', fieldfield, l_fieldfield),
            ('op:field**k', power, l_power), ('op:field+c', add, l_add)]


def vector_terms(dim):
    def t_elast(u, v, w, xp, H):
        return H.ddot(H.sym_grad(u), H.sym_grad(v)) + 0.5 * H.div(u) * H.div(v)

    def l_elast(u, du, v, w, xp, H):
        return H.ddot(H.sym_grad(du), H.sym_grad(v)) + 0.5 * H.div(du) * H.div(v)

    def t_quart(u, v, w, xp, H):
        return H.dot(u, u) * H.dot(u, v)

    def l_quart(u, du, v, w, xp, H):
        return 2. * H.dot(u, du) * H.dot(u, v) + H.dot(u, u) * H.dot(du, v)

    def t_conv(u, v, w, xp, H):
        return H.dot(H.mul(H.grad(u), _val(u)), v)

    def l_conv(u, du, v, w, xp, H):
        return H.dot(H.mul(H.grad(du), _val(u)), v) + H.dot(H.mul(H.grad(u), _val(du)), v)

    def t_det(u, v, w, xp, H):
        # volumetric term of a compressible hyperelastic energy: uses det (2x2 / 3x3) and eye
        F = H.grad(u) + H.eye(1. + 0. * _val(u)[0], dim)
        return H.det(F) * H.div(v) + H.trace(H.grad(u)) * H.ddot(H.grad(u), H.grad(v))

    def t_transp(u, v, w, xp, H):
        return H.ddot(H.transpose(H.grad(u)), H.grad(v)) * (1. + H.dot(u, u))

    return [('elasticity', t_elast, l_elast), ('quartic', t_quart, l_quart), ('convection', t_conv, l_conv),
            ('det', t_det, None), ('transpose', t_transp, None)]


def _configs(ctx, rng):
    import skfem as fe
    cfg = []

    def jig(m, amp=0.08):
        p = m.p.copy()
        ib = m.interior_nodes()
        p[:, ib] += amp * (rng.random((p.shape[0], len(ib))) - 0.5) / (m.p.shape[1] ** (1. / p.shape[0]))
        return type(m)(p, m.t)
    cfg.append(('tri-P1', jig(fe.MeshTri.init_sqsymmetric().refined(1)), fe.ElementTriP1(), 'scalar'))
    cfg.append(('tri-P2', jig(fe.MeshTri().refined(1)), fe.ElementTriP2(), 'scalar'))
    cfg.append(('quad-Q1', jig(fe.MeshQuad().refined(1)), fe.ElementQuad1(), 'scalar'))
    cfg.append(('line-P2', fe.MeshLine(np.sort(np.concatenate([[0., 1.], rng.random(3)]))), fe.ElementLineP2(), 'scalar'))
    cfg.append(('tri-vecP1', jig(fe.MeshTri().refined(1)), fe.ElementVector(fe.ElementTriP1()), 'vector'))
    cfg.append(('tet-vecP1', fe.MeshTet(), fe.ElementVector(fe.ElementTetP1()), 'vector'))
    if not ctx.quick():
        cfg.append(('tet-P1', jig(fe.MeshTet().refined(1)), fe.ElementTetP1(), 'scalar'))
        cfg.append(('quad-Q2', jig(fe.MeshQuad().refined(1)), fe.ElementQuad2(), 'scalar'))
        cfg.append(('tri-vecP2', jig(fe.MeshTri().refined(1)), fe.ElementVector(fe.ElementTriP2()), 'vector'))
        cfg.append(('hex-vecQ1', fe.MeshHex(), fe.ElementVector(fe.ElementHex1()), 'vector'))
    return cfg


def run(ctx, rng):
    import jax.numpy as jnp
    import skfem as fe
    import skfem.helpers as H
    import skfem.autodiff.helpers as JH
    from skfem.autodiff import NonlinearForm
    stats = {'residual': 0.0, 'fd_directional': 0.0, 'fd_entrywise': 0.0, 'hand_linearised': 0.0, 'linear_reduces': 0.0,
             'hessian_mode': 0.0}
    TOL = {'residual': 1e-10, 'fd_directional': 2e-5, 'fd_entrywise': 2e-5, 'hand_linearised': 1e-9, 'linear_reduces': 1e-12,
           'hessian_mode': 1e-10}

    def check(kind, key, err, scale, data):
        rel = float(err) / (1.0 + float(scale))
        stats[kind] = max(stats[kind], rel)
        if not rel <= TOL[kind]:
            ctx.fail(key, f'NonlinearForm {kind}: relative discrepancy {rel:.3e} > {TOL[kind]:g}', dict(data, kind=kind, rel=rel))

    for cname, m, elem, kind in _configs(ctx, rng):
        basis = fe.Basis(m, elem)
        terms = scalar_terms() if kind == 'scalar' else vector_terms(m.dim())
        if kind == 'scalar' and m.dim() == 1:
            terms = [t for t in terms if t[0] != 'minsurf'] + [t for t in terms if t[0] == 'minsurf']
        ncomb = ctx.n(2, 6)
        combos = []
        for c in range(ncomb):
            # a random combination of 2-3 terms with random weights
            k = int(rng.integers(2, 4))
            sel = [terms[i] for i in rng.choice(len(terms), size=min(k, len(terms)), replace=False)]
            wts = [float(rng.integers(1, 5)) / 2. for _ in sel]
            x0 = 0.6 * (rng.random(basis.N) - 0.5) if c else rng.integers(-2, 3, basis.N) / 4.
            combos.append((sel, wts, x0))
        if kind == 'scalar' and (not ctx.quick() or cname in ('tri-P1', 'line-P2')):
            # arithmetic written directly on the field objects (c / u, c - u, u ** 2, u / c, field (op) field ...), at a
            # positive linearisation point; the NumPy path evaluates the same expressions with ndarray operators
            ops = operator_terms()
            for c in range(ctx.n(1, 3)):
                sel = [ops[i] for i in rng.permutation(len(ops))[:ctx.n(len(ops), len(ops))]]
                combos.append((sel, [float(rng.integers(1, 5)) / 2. for _ in sel], 1. + 0.5 * rng.random(basis.N)))
        done_local = False
        for sel, wts, x0 in combos:
            names = [s[0] for s in sel]
            desc = {'config': cname, 'mesh_p': m.p.tolist(), 'mesh_t': m.t.tolist(), 'element': type(elem).__name__,
                    'terms': names, 'weights': wts, 'x': x0.tolist()}
            key = f'nonlinear:{cname}:{"+".join(names)}' if not names[0].startswith('op:') else f'nonlinear-field-operators:{cname}'

            def fj(u, v, w, sel=sel, wts=wts):
                return sum(a * t[1](u, v, w, jnp, JH) for a, t in zip(wts, sel))

            def fn(u, v, w, sel=sel, wts=wts):
                return sum(a * t[1](u, v, w, np, H) for a, t in zip(wts, sel))

            def R(x, fn=fn):
                return fe.LinearForm(lambda v, w: fn(w['u0'], v, w)).assemble(basis, u0=basis.interpolate(x))
            J, rhs = NonlinearForm(fj).assemble(basis, x=x0)
            Jd = J.toarray()
            ctx.count(('nl', cname, names, wts, x0.tolist()), nontrivial=m.t.shape[1] >= 2)
            ctx.hist('nonlinear_config', cname)
            for nm in names:
                ctx.hist('nonlinear_term', nm)
            r0 = R(x0)
            check('residual', key, np.abs(rhs + r0).max(), np.abs(r0).max(), desc)
            h = 1e-5
            for _ in range(ctx.n(3, 8)):
                d = rng.random(basis.N) - 0.5
                fd = (R(x0 + h * d) - R(x0 - h * d)) / (2 * h)
                check('fd_directional', key, np.abs(Jd @ d - fd).max(), np.abs(fd).max(), dict(desc, direction=d.tolist()))
            if basis.N <= ctx.n(20, 90):
                FD = np.zeros((basis.N, basis.N))
                for kcol in range(basis.N):
                    e = np.zeros(basis.N)
                    e[kcol] = 1.
                    FD[:, kcol] = (R(x0 + h * e) - R(x0 - h * e)) / (2 * h)
                check('fd_entrywise', key, np.abs(Jd - FD).max(), np.abs(FD).max(), desc)
            if all(t[2] is not None for t in sel):
                def lin(u, v, w, sel=sel, wts=wts):
                    return sum(a * t[2](w['u0'], u, v, w, np, H) for a, t in zip(wts, sel))
                A = fe.BilinearForm(lin).assemble(basis, u0=basis.interpolate(x0)).toarray()
                check('hand_linearised', key, np.abs(Jd - A).max(), np.abs(A).max(), desc)
                # cell matrices: elemental(...)[0].tolocal()[e, i, j] = contribution of cell e, TEST function i, TRIAL function j
                # (COOData.tolocal presumes the trial-major layout of the triplets), vs the hand-linearised form's cell matrices
                Ln = fe.BilinearForm(lin).elemental(basis, u0=basis.interpolate(x0)).tolocal() if not done_local else None
                if Ln is not None and float(np.abs(Ln - np.swapaxes(Ln, 1, 2)).max()) > 1e-6:      # a NON-symmetric linearisation
                    done_local = True
                    Lj = NonlinearForm(fj).elemental(basis, x=x0)[0].tolocal()
                    if Lj.shape != Ln.shape:
                        ctx.fail(f'nonlinear-tolocal:{cname}', f'cell Jacobians have shape {Lj.shape}, those of the hand-linearised form {Ln.shape}', desc)
                    else:
                        asym = float(np.abs(Ln - np.swapaxes(Ln, 1, 2)).max())
                        ctx.count(('nl-tolocal', cname, names, x0.tolist()), nontrivial=asym > 1e-8)
                        check('hand_linearised', f'nonlinear-tolocal:{cname}', np.abs(Lj - Ln).max(), np.abs(Ln).max(),
                              dict(desc, what='NonlinearForm.elemental(...)[0].tolocal() vs BilinearForm(hand-linearised).elemental(...).tolocal()',
                                   asymmetry_of_the_cell_matrices=asym))
        # linear integrand: reduces to ordinary assembly
        if kind == 'scalar':
            def a_np(u, v, w):
                return H.dot(H.grad(u), H.grad(v)) + (2. + _val(w.x)[0]) * _val(u) * _val(v)

            def l_np(v, w):
                return (1. + _val(w.x)[0]) * _val(v)

            def f_j(u, v, w):
                return JH.dot(JH.grad(u), JH.grad(v)) + (2. + _val(w.x)[0]) * _val(u) * _val(v) - (1. + _val(w.x)[0]) * _val(v)
        else:
            def a_np(u, v, w):
                return H.ddot(H.sym_grad(u), H.sym_grad(v)) + H.dot(u, v) + H.div(u) * H.div(v)

            def l_np(v, w):
                return _val(v)[0] * (1. + _val(w.x)[0])

            def f_j(u, v, w):
                return JH.ddot(JH.sym_grad(u), JH.sym_grad(v)) + JH.dot(u, v) + JH.div(u) * JH.div(v) - _val(v)[0] * (1. + _val(w.x)[0])
        A = fe.BilinearForm(a_np).assemble(basis)
        b = fe.LinearForm(l_np).assemble(basis)
        for x0 in (None, rng.integers(-3, 4, basis.N).astype(float)):
            J, rhs = NonlinearForm(f_j).assemble(basis, x=x0)
            xx = np.zeros(basis.N) if x0 is None else x0
            key = f'linear-reduces:{cname}'
            desc = {'config': cname, 'mesh_p': m.p.tolist(), 'mesh_t': m.t.tolist(), 'element': type(elem).__name__,
                    'x': None if x0 is None else x0.tolist()}
            ctx.count(('lin', cname, desc['x']), nontrivial=True)
            check('linear_reduces', key, abs(J - A).max(), abs(A).max(), desc)
            check('linear_reduces', key, np.abs(rhs - (b - A @ xx)).max(), np.abs(b - A @ xx).max(), desc)
        # hessian mode: energy functional
        if kind == 'scalar':
            def energy(u, w):
                return 0.5 * JH.dot(JH.grad(u), JH.grad(u)) + 0.25 * _val(u) ** 4 - (1. + _val(w.x)[0]) * _val(u)

            def first_var(u, v, w):
                return JH.dot(JH.grad(u), JH.grad(v)) + _val(u) ** 3 * _val(v) - (1. + _val(w.x)[0]) * _val(v)
            x0 = rng.random(basis.N) - 0.5
            J1, r1 = NonlinearForm(hessian=True)(energy).assemble(basis, x=x0)
            J2, r2 = NonlinearForm(first_var).assemble(basis, x=x0)
            desc = {'config': cname, 'mesh_p': m.p.tolist(), 'mesh_t': m.t.tolist(), 'element': type(elem).__name__, 'x': x0.tolist()}
            ctx.count(('hess', cname, x0.tolist()), nontrivial=True)
            check('hessian_mode', f'hessian-mode:{cname}', abs(J1 - J2).max(), abs(J2).max(), desc)
            check('hessian_mode', f'hessian-mode:{cname}', np.abs(r1 - r2).max(), np.abs(r2).max(), desc)
            # the option is a flag: hessian=False is the ordinary (u, v, w) form
            try:
                J3, r3 = NonlinearForm(hessian=False)(first_var).assemble(basis, x=x0)
                check('hessian_mode', f'hessian-false:{cname}', abs(J3 - J2).max(), abs(J2).max(), dict(desc, option='hessian=False'))
                check('hessian_mode', f'hessian-false:{cname}', np.abs(r3 - r2).max(), np.abs(r2).max(), dict(desc, option='hessian=False'))
            except Exception as e:  # noqa: BLE001 - an exception on a documented option value is a failing input
                ctx.fail(f'hessian-false:{cname}', f'NonlinearForm(hessian=False) raises {type(e).__name__}: {e}', dict(desc, option='hessian=False'))
    # composite basis (two unknowns, two test functions): Navier-Stokes-like residual
    _composite(ctx, rng, check)
    _derived_fields(ctx, rng, check)
    _api_forms(ctx, rng, check)
    ctx.extra['nonlinear_max_relative_discrepancy'] = stats
    ctx.extra['nonlinear_tolerances'] = TOL


def _derived_fields(ctx, rng, check):
    """elements whose fields carry div / curl / hess (H(div), H(curl), C1-type): the NonlinearForm path hands these attributes
    over through JaxDiscreteField(*c.astuple); linear and nonlinear integrands vs the independent NumPy assembly"""
    import jax.numpy as jnp
    import skfem as fe
    import skfem.helpers as H
    import skfem.autodiff.helpers as JH
    from skfem.autodiff import NonlinearForm

    def cdot(a, b, Hm):
        return a * b if len(a.shape) == 2 else Hm.dot(a, b)

    def hdiv(u, v, w, xp, Hm):
        return Hm.div(u) * Hm.div(v) + Hm.dot(u, v) + (1. + Hm.dot(u, u)) * Hm.div(u) * Hm.div(v)

    def l_hdiv(u, du, v, w, xp, Hm):
        return (Hm.div(du) * Hm.div(v) + Hm.dot(du, v) + 2. * Hm.dot(u, du) * Hm.div(u) * Hm.div(v)
                + (1. + Hm.dot(u, u)) * Hm.div(du) * Hm.div(v))

    def hcurl(u, v, w, xp, Hm):
        c2 = cdot(u.curl, u.curl, Hm)
        return cdot(u.curl, v.curl, Hm) + Hm.dot(u, v) + c2 * cdot(u.curl, v.curl, Hm)

    def l_hcurl(u, du, v, w, xp, Hm):
        return (cdot(du.curl, v.curl, Hm) + Hm.dot(du, v) + 2. * cdot(u.curl, du.curl, Hm) * cdot(u.curl, v.curl, Hm)
                + cdot(u.curl, u.curl, Hm) * cdot(du.curl, v.curl, Hm))

    def hess(u, v, w, xp, Hm):
        return Hm.ddot(Hm.dd(u), Hm.dd(v)) + _val(u) ** 3 * _val(v) + Hm.trace(Hm.dd(u)) ** 2 * Hm.trace(Hm.dd(v))

    def l_hess(u, du, v, w, xp, Hm):
        return (Hm.ddot(Hm.dd(du), Hm.dd(v)) + 3. * _val(u) ** 2 * _val(du) * _val(v)
                + 2. * Hm.trace(Hm.dd(u)) * Hm.trace(Hm.dd(du)) * Hm.trace(Hm.dd(v)))
    cfgs = [('div:tri-RT0', fe.MeshTri().refined(1), fe.ElementTriRT0(), hdiv, l_hdiv),
            ('curl:tri-N1', fe.MeshTri().refined(1), fe.ElementTriN1(), hcurl, l_hcurl),
            ('hess:tri-Morley', fe.MeshTri().refined(1), fe.ElementTriMorley(), hess, l_hess)]
    if not ctx.quick():
        cfgs += [('div:tet-RT0', fe.MeshTet(), fe.ElementTetRT0(), hdiv, l_hdiv), ('curl:tet-N1', fe.MeshTet(), fe.ElementTetN1(), hcurl, l_hcurl)]
    for cname, m, elem, f, lin in cfgs:
        basis = fe.Basis(m, elem)
        x0 = 0.5 * (rng.random(basis.N) - 0.5)
        desc = {'config': cname, 'mesh_p': m.p.tolist(), 'mesh_t': m.t.tolist(), 'element': type(elem).__name__, 'x': x0.tolist()}
        key = f'nonlinear-field-attributes:{cname}'
        ctx.count(('nl-derived', cname, x0.tolist()), nontrivial=True)
        ctx.hist('nonlinear_config', cname)

        def R(x):
            return fe.LinearForm(lambda v, w: f(w['u0'], v, w, np, H)).assemble(basis, u0=basis.interpolate(x))
        try:
            J, rhs = NonlinearForm(lambda u, v, w: f(u, v, w, jnp, JH)).assemble(basis, x=x0)
        except Exception as e:  # noqa: BLE001 - an exception of the code under test on a valid element is a failing input
            ctx.fail(key, f'NonlinearForm with {type(elem).__name__} (fields carrying {cname.split(":")[0]}) raises {type(e).__name__}: {e}', desc)
            continue
        Jd = J.toarray()
        r0 = R(x0)
        check('residual', key, np.abs(rhs + r0).max(), np.abs(r0).max(), desc)
        A = fe.BilinearForm(lambda u, v, w: lin(w['u0'], u, v, w, np, H)).assemble(basis, u0=basis.interpolate(x0)).toarray()
        check('hand_linearised', key, np.abs(Jd - A).max(), np.abs(A).max(), desc)
        h = 1e-5
        for _ in range(ctx.n(2, 6)):
            d = rng.random(basis.N) - 0.5
            fd = (R(x0 + h * d) - R(x0 - h * d)) / (2 * h)
            check('fd_directional', key, np.abs(Jd @ d - fd).max(), np.abs(fd).max(), dict(desc, direction=d.tolist()))


def _api_forms(ctx, rng, check):
    """public call forms of NonlinearForm / JaxDiscreteField that forward to _assemble (coverage audit), each compared with the
    independent NumPy assembly; call forms that fail on a valid input are reported under stable keys"""
    import jax.numpy as jnp
    import skfem as fe
    import skfem.helpers as H
    import skfem.autodiff.helpers as JH
    from skfem.autodiff import JaxDiscreteField, NonlinearForm
    cov = {}
    m = fe.MeshTri().refined(1)
    basis = fe.Basis(m, fe.ElementTriP1())
    x0 = 0.5 + 0.5 * rng.random(basis.N)
    cvec = 1. + rng.random(basis.N)
    desc = {'mesh': 'MeshTri().refined(1)', 'element': 'ElementTriP1', 'x': x0.tolist()}

    def ref_R(c, lead):
        return fe.LinearForm(lambda v, w: (w['c'] * w['u0'] * w['u0'] * v)).assemble(basis, u0=basis.interpolate(x0), c=c)

    def ref_J(c):
        return fe.BilinearForm(lambda u, v, w: 2. * w['c'] * w['u0'] * u * v).assemble(basis, u0=basis.interpolate(x0), c=c).toarray()
    params = [('scalar', 2.5), ('dof-vector', cvec), ('DiscreteField', basis.interpolate(cvec)),
              ('ndarray(nelems,nqp)', 1. + rng.random((m.t.shape[1], basis.X.shape[1])))]
    # extra form parameters (Form._normalize_asm_kwargs), the parameter to the RIGHT of the field objects
    for kind, c in params:
        key = f'api:nonlinear-kwargs:{kind}'
        ctx.count(('api', 'kwargs', kind), nontrivial=True)
        try:
            J, r = NonlinearForm(lambda u, v, w: u * u * v * w['c']).assemble(basis, x=x0, c=c)
        except Exception as e:  # noqa: BLE001
            ctx.fail(key, f'NonlinearForm.assemble(basis, x=x, c=<{kind}>) with the integrand u*u*v*w["c"] raises {type(e).__name__}: {e}', dict(desc, c=kind))
            continue
        check('hand_linearised', key, np.abs(J.toarray() - ref_J(c)).max(), np.abs(ref_J(c)).max(), dict(desc, c=kind))
        check('residual', key, np.abs(r + ref_R(c, False)).max(), np.abs(ref_R(c, False)).max(), dict(desc, c=kind))
    cov['NonlinearForm.assemble(**kwargs): scalar / DOF vector / DiscreteField / (nelems, nqp) array parameters'] = 'now: vs BilinearForm / LinearForm with the same kwargs'
    # ... and to the LEFT (array (op) field dispatches to NumPy first, which asks the field for __array__)
    for kind, c in params[1:]:
        ctx.count(('api', 'kwargs-left', kind), nontrivial=True)
        try:
            J, r = NonlinearForm(lambda u, v, w: w['c'] * u * u * v).assemble(basis, x=x0, c=c)
            check('hand_linearised', 'nonlinear-kwarg-array-times-field', np.abs(J.toarray() - ref_J(c)).max(), np.abs(ref_J(c)).max(), dict(desc, c=kind))
        except Exception as e:  # noqa: BLE001
            ctx.fail('nonlinear-kwarg-array-times-field',
                     f'NonlinearForm(lambda u, v, w: w["c"] * u * u * v).assemble(basis, x=x, c=<{kind}>) raises {type(e).__name__}: {e} '
                     '(a NumPy array / DiscreteField parameter as LEFT operand of a field; u * u * v * w["c"] works)', dict(desc, c=kind, c_value=np.asarray(c).tolist()))
    cov['NonlinearForm integrand: NumPy parameter (op) field (parameter on the left)'] = 'now: vs the hand-linearised NumPy form (key nonlinear-kwarg-array-times-field)'
    # the array protocol of the field wrapper
    u = JaxDiscreteField(value=jnp.asarray(np.array([[1., 2.], [3., 4.]])))
    ctx.count(('api', 'jdf-array-protocol'), nontrivial=True)
    for nm, fn in (('np.asarray(field)', lambda: np.asarray(u)), ('np.exp(field)', lambda: np.exp(u)), ('jnp.asarray(field)', lambda: jnp.asarray(u)),
                   ('jnp.exp(field)', lambda: jnp.exp(u))):
        try:
            got = np.asarray(fn(), dtype=float)
            exp = np.array([[1., 2.], [3., 4.]]) if 'exp' not in nm else np.exp(np.array([[1., 2.], [3., 4.]]))
            if not np.allclose(got, exp, rtol=1e-14):
                ctx.fail('jdf-array-protocol', f'{nm} is not the value array', {'call': nm, 'got': got.tolist()})
        except Exception as e:  # noqa: BLE001
            ctx.fail('jdf-array-protocol', f'{nm} raises {type(e).__name__}: {e} (JaxDiscreteField.__array__ returns a jax Array, not a numpy.ndarray)',
                     {'call': nm, 'field_value': [[1., 2.], [3., 4.]]})
    if tuple(u.shape) != (2, 2) or not np.array_equal(np.asarray(u[0]), [1., 2.]) or len(u.astuple) != 9:
        ctx.fail('api:jdf-shape-getitem', 'JaxDiscreteField.shape / __getitem__ / astuple', {})
    cov['JaxDiscreteField.__array__ / __jax_array__ (np.asarray / np.exp / jnp.asarray / jnp.exp of a field)'] = 'now: equal the value array (key jdf-array-protocol)'
    cov['JaxDiscreteField.shape / __getitem__ / astuple'] = 'now'
    # partial, decorator options, facet bases, x given as zeros / None
    JA, rA = NonlinearForm(lambda u, v, w: 3. * u * u * v).assemble(basis, x=x0)
    for nm, build in (('partial', lambda: NonlinearForm(lambda a, u, v, w: a * u * u * v).partial(3.)),
                      ('decorator(nthreads=2)', lambda: NonlinearForm(nthreads=2)(lambda u, v, w: 3. * u * u * v)),
                      ('NonlinearForm(NonlinearForm)', lambda: NonlinearForm(NonlinearForm(lambda u, v, w: 3. * u * u * v)))):
        ctx.count(('api', nm), nontrivial=True)
        try:
            J, r = build().assemble(basis, x=x0)
            check('hand_linearised', f'api:nonlinearform-{nm}', abs(J - JA).max(), abs(JA).max(), dict(desc, form=nm))
            check('residual', f'api:nonlinearform-{nm}', np.abs(r - rA).max(), np.abs(rA).max(), dict(desc, form=nm))
        except Exception as e:  # noqa: BLE001
            ctx.fail(f'api:nonlinearform-{nm}', f'{nm} raises {type(e).__name__}: {e}', dict(desc, form=nm))
    cov['Form.partial / decorator with options / Form(Form) on NonlinearForm'] = 'now: same (J, rhs) as the plain form'
    J0, r0 = NonlinearForm(lambda u, v, w: (1. + u) * u * v).assemble(basis)
    Jz, rz = NonlinearForm(lambda u, v, w: (1. + u) * u * v).assemble(basis, x=basis.zeros())
    check('hand_linearised', 'api:nonlinearform-x-none', abs(J0 - Jz).max(), abs(Jz).max(), desc)
    check('residual', 'api:nonlinearform-x-none', np.abs(r0 - rz).max(), 1., desc)
    cov['NonlinearForm.assemble(x=None) == x=basis.zeros()'] = 'now'
    fb = basis.boundary()
    Jf, rf = NonlinearForm(lambda u, v, w: u * u * v * (1. + w.n[0] * w.x[1])).assemble(fb, x=x0)
    Rf = fe.LinearForm(lambda v, w: w['u0'] * w['u0'] * v * (1. + w.n[0] * w.x[1])).assemble(fb, u0=fb.interpolate(x0))
    Af = fe.BilinearForm(lambda u, v, w: 2. * w['u0'] * u * v * (1. + w.n[0] * w.x[1])).assemble(fb, u0=fb.interpolate(x0)).toarray()
    ctx.count(('api', 'facet-basis'), nontrivial=True)
    check('residual', 'api:nonlinearform-facet-basis', np.abs(rf + Rf).max(), np.abs(Rf).max(), desc)
    check('hand_linearised', 'api:nonlinearform-facet-basis', np.abs(Jf.toarray() - Af).max(), np.abs(Af).max(), desc)
    cov['NonlinearForm on a FacetBasis (w.n, w.x)'] = 'now: vs LinearForm / BilinearForm on the same FacetBasis'
    # the deprecated alias inherited from Form
    ctx.count(('api', 'coo_data'), nontrivial=True)
    try:
        cd = NonlinearForm(lambda u, v, w: u * u * v).coo_data(basis, x=x0)
        el = NonlinearForm(lambda u, v, w: u * u * v).elemental(basis, x=x0)
        ok = (hasattr(cd, '__len__') and len(cd) == 2 and np.array_equal(cd[0].data, el[0].data) and np.array_equal(cd[0].indices, el[0].indices)
              and np.array_equal(cd[1].data, el[1].data))
        if not ok:
            ctx.fail('nonlinearform-coo_data', 'NonlinearForm.coo_data does not return the (matrix, vector) pair of elemental()', desc)
    except Exception as e:  # noqa: BLE001
        ctx.fail('nonlinearform-coo_data', f'NonlinearForm(form).coo_data(basis, x=x) (alias of elemental inherited from Form) raises {type(e).__name__}: {e}', desc)
    cov['NonlinearForm.coo_data (deprecated alias of elemental)'] = 'now: same COO data as elemental (key nonlinearform-coo_data)'
    cov.update({'NonlinearForm.assemble / _assemble / elemental (x vector, hessian option, composite, vector, H(div)/H(curl)/C1 elements)': 'covered before',
                'JaxDiscreteField arithmetic special methods': 'covered before (theorem + operator oracle + integrands)',
                'every function of skfem/helpers.py and skfem/autodiff/helpers.py (float, int64, complex, trailing shapes, fields)': 'covered before',
                'Form.block': 'out of scope for C20 (block selection of composite forms: C19)',
                'register_pytree_node flatten/unflatten of JaxDiscreteField': 'covered before implicitly (every linearize call)'})
    ctx.extra['api_coverage'] = cov


def _composite(ctx, rng, check):
    import skfem as fe
    import skfem.helpers as H
    import skfem.autodiff.helpers as JH
    from skfem.autodiff import NonlinearForm
    m = fe.MeshTri().refined(1)
    elem = fe.ElementVector(fe.ElementTriP2()) * fe.ElementTriP1()
    basis = fe.Basis(m, elem)

    def mk(Hm):
        def f(u, p, v, q, w):
            return (Hm.ddot(Hm.grad(u), Hm.grad(v)) + Hm.dot(Hm.mul(Hm.grad(u), _val(u)), v)
                    - _val(p) * Hm.div(v) + _val(q) * Hm.div(u) + 1e-2 * _val(p) ** 3 * _val(q))
        return f
    fj, fn = mk(JH), mk(H)
    x0 = 0.5 * (rng.random(basis.N) - 0.5)

    def R(x):
        u0, p0 = basis.interpolate(x)
        return fe.LinearForm(lambda v, q, w: fn(w['u0'], w['p0'], v, q, w)).assemble(basis, u0=u0, p0=p0)
    J, rhs = NonlinearForm(fj).assemble(basis, x=x0)
    Jd = J.toarray()
    desc = {'config': 'tri-P2xP1-composite', 'mesh_p': m.p.tolist(), 'mesh_t': m.t.tolist(), 'x': x0.tolist()}
    key = 'nonlinear:composite-navier-stokes'
    ctx.count(('nl-composite', x0.tolist()), nontrivial=True)
    ctx.hist('nonlinear_config', 'tri-P2xP1-composite')
    r0 = R(x0)
    check('residual', key, np.abs(rhs + r0).max(), np.abs(r0).max(), desc)
    h = 1e-5
    for _ in range(ctx.n(3, 10)):
        d = rng.random(basis.N) - 0.5
        fd = (R(x0 + h * d) - R(x0 - h * d)) / (2 * h)
        check('fd_directional', key, np.abs(Jd @ d - fd).max(), np.abs(fd).max(), dict(desc, direction=d.tolist()))
