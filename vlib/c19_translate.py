"""C19 — fail-closed translator (tie T2) for the block / vector / composite bookkeeping.

  skfem/assembly/form/coo_data.py     COOData.__add__, tolocal, fromlocal, inverse, dot
  skfem/element/element_vector.py     ElementVector.gbasis index decoding
  skfem/utils.py                      bmat: the block-offset loop
  skfem/assembly/__init__.py          asm / _sum: product over basis lists, python sum
  skfem/assembly/basis/abstract_basis.py   split_indices (both branches), split, split_bases (shape only)
  skfem/element/element_composite.py  _deduce_bfun (statement shapes)

writes Gen/C19Gen.v over the combinators of Model.C19_Blocks.  Where the repaired and the pinned tree differ
(tolocal / fromlocal) both source shapes are understood and mapped to DIFFERENT model functions, so that the
theorem about the local matrices is proved or fails on what the source says now.
"""
import ast

from . import t2
from .core import TranslateError

COO = 'skfem/assembly/form/coo_data.py'
VEC = 'skfem/element/element_vector.py'
UTL = 'skfem/utils.py'
ASM = 'skfem/assembly/__init__.py'
ABS = 'skfem/assembly/basis/abstract_basis.py'
CMP = 'skfem/element/element_composite.py'


def _nodoc(body):
    return [s for s in body if not (isinstance(s, ast.Expr) and isinstance(s.value, ast.Constant)
                                    and isinstance(s.value.value, str))]


def _norm(s):
    return ' '.join(s.split())


# ------------------------------------------------------------------------------------------ COOData

def coo_add():
    fn = t2.find_def(t2.parse(COO), '__add__', 'COOData')
    body = _nodoc(fn.body)
    if len(body) != 2 or t2.src(body[0]) != 'if isinstance(other, int):\n    return self':
        raise TranslateError('COOData.__add__: ' + repr([t2.src(s) for s in body])[:300])
    ret = body[1]
    if not (isinstance(ret, ast.Return) and isinstance(ret.value, ast.Call) and t2.src(ret.value.func) == 'replace'
            and [t2.src(a) for a in ret.value.args] == ['self']):
        raise TranslateError('COOData.__add__ return: ' + t2.src(ret)[:200])
    kw = {k.arg: k.value for k in ret.value.keywords}
    if sorted(kw) != ['data', 'indices', 'local_shape', 'shape']:
        raise TranslateError('COOData.__add__ keywords: ' + repr(sorted(kw)))

    def hstack(node, attr):
        if not (isinstance(node, ast.Call) and t2.src(node.func) == 'np.hstack' and len(node.args) == 1
                and isinstance(node.args[0], ast.Tuple) and len(node.args[0].elts) == 2):
            raise TranslateError('expected np.hstack((x, y)): ' + t2.src(node))
        out = []
        for e in node.args[0].elts:
            s = t2.src(e)
            if s not in (f'self.{attr}', f'other.{attr}'):
                raise TranslateError('hstack operand: ' + s)
            out.append('a' if s.startswith('self') else 'b')
        return out
    i1, i2 = hstack(kw['indices'], 'indices')
    d1, d2 = hstack(kw['data'], 'data')
    shp = _norm(t2.src(kw['shape']))
    if shp not in ('tuple((max(self.shape[i], other.shape[i]) for i in range(len(self.shape))))',
                   'tuple((max(other.shape[i], self.shape[i]) for i in range(len(self.shape))))'):
        raise TranslateError('COOData.__add__ shape: ' + shp)
    if t2.src(kw['local_shape']) != 'None':
        raise TranslateError('COOData.__add__ local_shape: ' + t2.src(kw['local_shape']))
    return (f'Definition gen_coo_add (a b : coo R) : coo R :=\n'
            f'  mkCoo (map2 (@app nat) (c_indices {i1}) (c_indices {i2})) (c_data {d1} ++ c_data {d2})\n'
            f'        (map2 Nat.max (c_shape a) (c_shape b)) [].')


TOLOCAL_F = "self.data.reshape((-1,) + self.local_shape, order='F')"
TOLOCAL_C = "np.moveaxis(self.data.reshape(self.local_shape + (-1,), order='C'), -1, 0)"
FROMLOCAL_F = "local.flatten('F')"
FROMLOCAL_C = "np.moveaxis(local, 0, -1).flatten('C')"


def coo_local():
    tree = t2.parse(COO)
    tl = t2.find_def(tree, 'tolocal', 'COOData')
    body = _nodoc(tl.body)
    want_head = 'if self.local_shape is None:'
    if not (len(body) == 4 and t2.src(body[0]).startswith(want_head) and isinstance(body[0].body[0], ast.Raise)):
        raise TranslateError('COOData.tolocal: ' + repr([t2.src(s)[:60] for s in body]))
    if not (isinstance(body[1], ast.Assign) and t2.src(body[1].targets[0]) == 'local'):
        raise TranslateError('COOData.tolocal: expected local = ...: ' + t2.src(body[1]))
    e = _norm(t2.src(body[1].value))
    if e == TOLOCAL_F:
        tol = 'tolocal_F'
    elif e == TOLOCAL_C:
        tol = 'tolocal_Cmove'
    else:
        raise TranslateError('COOData.tolocal: unknown reshape expression: ' + e)
    facet = [('if basis is not None:\n    out = np.zeros((basis.mesh.nfacets,) + local.shape[1:]' + dt + ')\n    out[basis.find] = local\n'
              '    local = np.sum(out[basis.mesh.t2f], axis=0)') for dt in ('', ', dtype=local.dtype')]
    if t2.src(body[2]) not in facet or t2.src(body[3]) != 'return local':
        raise TranslateError('COOData.tolocal tail: ' + t2.src(body[2])[:200])
    fl = t2.find_def(tree, 'fromlocal', 'COOData')
    ret = t2.only(_nodoc(fl.body), 'COOData.fromlocal body')
    if not (isinstance(ret, ast.Return) and isinstance(ret.value, ast.Call) and t2.src(ret.value.func) == 'replace'
            and [t2.src(a) for a in ret.value.args] == ['self'] and [k.arg for k in ret.value.keywords] == ['data']):
        raise TranslateError('COOData.fromlocal: ' + t2.src(ret)[:200])
    e = _norm(t2.src(ret.value.keywords[0].value))
    if e == FROMLOCAL_F:
        frl = 'fromlocal_F'
    elif e == FROMLOCAL_C:
        frl = 'fromlocal_Cmove'
    else:
        raise TranslateError('COOData.fromlocal: unknown flatten expression: ' + e)
    inv = t2.find_def(tree, 'inverse', 'COOData')
    if [t2.src(s) for s in _nodoc(inv.body)] != ['return self.fromlocal(np.linalg.inv(self.tolocal()))']:
        raise TranslateError('COOData.inverse: ' + repr([t2.src(s) for s in _nodoc(inv.body)]))
    return (f'Definition gen_tolocal (data : list R) (ls : list nat) := {tol} R rO data ls.\n'
            f'Definition gen_fromlocal (L : list (list (list R))) (nt n0 n1 : nat) := {frl} R rO L nt n0 n1.\n'
            f'(* tolocal(basis=facet basis): out[basis.find] = local; np.sum(out[basis.mesh.t2f], axis=0) *)\n'
            f'Definition gen_scatter_set (idx : list nat) (vals out : list (list (list R))) := scatter_set (list (list R)) idx vals out.\n'
            f'Definition gen_facet_sum (zero : list (list R)) (add : list (list R) -> list (list R) -> list (list R)) (nfacets ncells : nat)\n'
            f'    (find : list nat) (local : list (list (list R))) (t2f : list (list nat)) := facet_sum (list (list R)) zero add nfacets ncells find local t2f.\n'
            f'(* COOData.inverse = fromlocal (np.linalg.inv (tolocal ())) *)\n'
            f'Definition gen_inverse_with (inv : list (list R) -> list (list R)) (data : list R) (ls : list nat) : option (list R) :=\n'
            f'  match gen_tolocal data ls, ls with\n'
            f'  | Some L, [n0; n1] => Some (gen_fromlocal (map inv L) (length L) n0 n1)\n  | _, _ => None\n  end.')


def coo_dot():
    fn = t2.find_def(t2.parse(COO), 'dot', 'COOData')
    if [a.arg for a in fn.args.args] != ['self', 'x', 'D']:
        raise TranslateError('COOData.dot signature')
    srcs = [_norm(t2.src(s)) for s in _nodoc(fn.body)]
    if len(srcs) != 5 or srcs[0] != 'y = self.data * x[self.indices[1]]' or srcs[2] != 'np.add.at(z, self.indices[0], y)' \
            or srcs[3] != 'if D is not None: z[D] = x[D]' or srcs[4] != 'return z':
        raise TranslateError('COOData.dot: ' + repr(srcs))
    import re
    if srcs[1] == 'z = np.zeros_like(x)':
        rows = 'length x'                                  # square data only
    elif re.fullmatch(r'z = np\.zeros\(self\.shape\[0\](, dtype=[^()]*(\([^()]*\))?[^()]*)?\)', srcs[1]):
        rows = 'nth 0 (c_shape c) 0'                       # rectangular data
    else:
        raise TranslateError('COOData.dot: allocation of the result: ' + srcs[1])
    return (f'Definition gen_dot_rows (c : coo R) (x : list R) : nat := {rows}.\n'
            'Definition gen_coo_dot (c : coo R) (x : list R) (D : list nat) := coo_dot_n R rO radd rmul (gen_dot_rows c x) c x D.')


# ------------------------------------------------------------------------------------------ ElementVector

def vector_decode():
    fn = t2.find_def(t2.parse(VEC), 'gbasis', 'ElementVector')
    if [a.arg for a in fn.args.args] != ['self', 'mapping', 'X', 'i', 'tind']:
        raise TranslateError('ElementVector.gbasis signature')
    body = _nodoc(fn.body)
    env = {'i': 'i', 'self.dim': 'dim'}

    def tr(node):
        # int(np.floor(float(a) / float(b)))  ==  a // b  on non-negative integers
        if (isinstance(node, ast.Call) and t2.src(node.func) == 'int' and len(node.args) == 1 and isinstance(node.args[0], ast.Call)
                and t2.src(node.args[0].func) == 'np.floor' and len(node.args[0].args) == 1):
            q = node.args[0].args[0]
            if (isinstance(q, ast.BinOp) and isinstance(q.op, ast.Div)
                    and all(isinstance(s, ast.Call) and t2.src(s.func) == 'float' and len(s.args) == 1 for s in (q.left, q.right))):
                return f'({tr(q.left.args[0])} / {tr(q.right.args[0])})'
            raise TranslateError('floor expression: ' + t2.src(node))
        if isinstance(node, ast.BinOp) and isinstance(node.op, ast.Sub):
            return f'({tr(node.left)} - {tr(node.right)})'       # truncated; the tie lemma shows it never truncates
        if isinstance(node, ast.BinOp):
            return t2.Expr(env, 'nat', call=lambda ex, n: tr(n)).tr(node)
        return t2.Expr(env, 'nat').tr(node)
    ind = t2.only([s for s in body if isinstance(s, ast.Assign) and t2.src(s.targets[0]) == 'ind'], 'ind = ...')
    ind_t = tr(ind.value)
    env['ind'] = 'ind'
    n = t2.only([s for s in body if isinstance(s, ast.Assign) and t2.src(s.targets[0]) == 'n'], 'n = ...')
    n_t = tr(n.value)
    rest = '\n'.join(t2.src(s) for s in body)
    if 'self.elem.gbasis(mapping, X, ind, tind)[0].astuple' not in rest or 'tmp[n] = field' not in rest \
            or 'tmp = np.zeros((self.dim,) + field.shape)' not in rest:
        raise TranslateError('ElementVector.gbasis: use of ind / n changed')
    return (f'Definition gen_vector_decode (dim i : nat) : nat * nat :=\n'
            f'  let ind := {ind_t} in let n := {n_t} in (ind, n).')


# ------------------------------------------------------------------------------------------ bmat

def bmat():
    fn = t2.find_def(t2.parse(UTL), 'bmat')
    body = _nodoc(fn.body)
    srcs = [t2.src(s) for s in body]
    if 'sizes = []' not in srcs or 'diff = 0' not in srcs or 'mat.blocks = sizes' not in srcs:
        raise TranslateError('bmat: sizes/diff bookkeeping changed: ' + repr(srcs)[:300])
    loop = t2.only([s for s in body if isinstance(s, ast.For)], 'bmat outer loop')
    if t2.src(loop.iter) != 'range(n - 1)' or t2.src(loop.target) != 'j' or 'n = len(blocks[0])' not in srcs:
        raise TranslateError('bmat outer loop: ' + t2.src(loop.iter))
    inner = t2.only(loop.body, 'bmat inner loop')
    if not (isinstance(inner, ast.For) and t2.src(inner.iter) == 'range(m)' and t2.src(inner.target) == 'i' and len(inner.body) == 1
            and isinstance(inner.body[0], ast.If) and t2.src(inner.body[0].test) == 'blocks[i][j] is None'
            and [t2.src(s) for s in inner.body[0].body] == ['continue']):
        raise TranslateError('bmat inner loop: ' + t2.src(inner)[:200])
    el = inner.body[0].orelse
    if len(el) != 3 or t2.src(el[2]) != 'break':
        raise TranslateError('bmat else branch: ' + repr([t2.src(s) for s in el])[:300])
    want = ('if len(blocks[i][j].shape) == 1:\n    sizes.append(blocks[i][j].shape[0] + diff)\nelse:\n'
            '    sizes.append(blocks[i][j].shape[1] + diff)')
    if t2.src(el[0]) != want:
        raise TranslateError('bmat size computation: ' + t2.src(el[0])[:300])
    upd = t2.src(el[1])
    if upd == 'diff += sizes[-1]':
        u = 'diff + s'
    elif upd == 'diff = sizes[-1]':
        u = 's'
    elif upd in ('diff += blocks[i][j].shape[1]', ):
        raise TranslateError('bmat diff update (not understood): ' + upd)
    else:
        raise TranslateError('bmat diff update: ' + upd)
    return (f'(* for j in range(n - 1): sizes.append(width_j + diff); {upd} *)\n'
            f'Definition gen_bmat_blocks (widths : list nat) : list nat := bmat_blocks_with (fun diff s => {u}) widths.')


# ------------------------------------------------------------------------------------------ asm

def asm():
    tree = t2.parse(ASM)
    sm = t2.find_def(tree, '_sum')
    if [t2.src(s) for s in _nodoc(sm.body)] != ['out = sum(blocks)', 'assert not isinstance(out, int)', 'return out.todefault()']:
        raise TranslateError('assembly._sum: ' + repr([t2.src(s) for s in _nodoc(sm.body)]))
    fn = t2.find_def(tree, 'asm')
    srcs = [_norm(t2.src(s)) for s in _nodoc(fn.body)]
    want1 = 'nargs = [[arg] if not isinstance(arg, list) else arg for arg in args]'
    want2 = ('retval = to(map(lambda a: form.coo_data(*a[1], idx=a[0], **kwargs), '
             'zip(product(*(range(len(x)) for x in nargs)), product(*nargs))))')
    if want1 not in srcs or want2 not in srcs:
        raise TranslateError('assembly.asm: ' + repr(srcs)[-400:])
    rd = t2.find_def(t2.parse(COO), '__radd__', 'COOData')
    if [t2.src(s) for s in _nodoc(rd.body)] != ['return self.__add__(other)']:
        raise TranslateError('COOData.__radd__')
    return ('(* asm: sum over the product of the basis lists, python sum starting from the int 0 *)\n'
            'Definition gen_coo_sum (l : list (coo R)) : option (coo R) :=\n'
            '  match l with [] => None | c :: rest => Some (fold_left gen_coo_add rest c) end.')


HEADER = '''(* GENERATED by vlib/c19_translate.py from coo_data.py, element_vector.py, utils.py, assembly/__init__.py
   of the implementation under test — do not edit *)
From Coq Require Import List Arith Bool.
Import ListNotations.
Require Import Base.C01_Sums Model.C01_Assembly Model.C19_Blocks Model.C19_Scatter.

'''


def translate(known_bmat=False):
    sec = [coo_add(), coo_local(), coo_dot(), asm()]
    body = '\n\n'.join(sec)
    body = '\n'.join(('  ' + l if l else l) for l in body.split('\n'))
    dom = 'length widths <= 3' if known_bmat else 'True'
    return (HEADER + 'Section Gen.\n  Variable R : Type.\n  Variables (rO : R) (radd rmul : R -> R -> R).\n\n' + body + '\nEnd Gen.\n\n'
            + vector_decode() + '\n\n' + bmat() + '\n\n'
            + '(* the inputs on which the bmat offsets are claimed; restricted when known_findings.txt lists the defect *)\n'
            + f'Definition bmat_domain (widths : list nat) : Prop := {dom}.\n')


# ------------------------------------------------------------------------------------------ composite / vector DOF tables
ELM = 'skfem/element/element.py'
DOF = 'skfem/assembly/dofs.py'
KIND = {'nodal': 0, 'edge': 1, 'facet': 2, 'interior': 3}


def bfun_counts():
    fn = t2.find_def(t2.parse(ELM), '_bfun_counts', 'Element')
    ret = t2.only(_nodoc(fn.body), 'Element._bfun_counts body')
    want = ('return np.array([self.nodal_dofs * self.refdom.nnodes, self.edge_dofs * self.refdom.nedges, '
            'self.facet_dofs * self.refdom.nfacets, self.interior_dofs])')
    if _norm(t2.src(ret)) != want:
        raise TranslateError('Element._bfun_counts: ' + t2.src(ret))


def deduce_bfun():
    fn = t2.find_def(t2.parse(CMP), '_deduce_bfun', 'ElementComposite')
    body = _nodoc(fn.body)
    if _norm(t2.src(body[0])) != 'counts = np.sum(np.array([e._bfun_counts() for e in self.elems]), axis=0)':
        raise TranslateError('_deduce_bfun counts: ' + t2.src(body[0]))
    pos = 1
    while pos < len(body) and isinstance(body[pos], ast.AnnAssign):       # tmp: List[Any] = [] ; ns: List[Any] = []
        if t2.src(body[pos].value) != '[]' or t2.src(body[pos].target) not in ('tmp', 'ns'):
            raise TranslateError('_deduce_bfun initialisation: ' + t2.src(body[pos]))
        pos += 1
    kinds = []
    while pos < len(body) and isinstance(body[pos], ast.If):
        blk = body[pos]
        test = t2.src(blk.test)
        if not (test.startswith('counts[') and test.endswith('] > 0')) or blk.orelse or len(blk.body) != 2:
            raise TranslateError('_deduce_bfun block: ' + t2.src(blk)[:200])
        K = int(test[len('counts['):-len('] > 0')])
        s0, s1 = _norm(t2.src(blk.body[0])), _norm(t2.src(blk.body[1]))
        attr = None
        for a in KIND:
            if s0 == f'tmp = sum([[j] * self.elems[j].{a}_dofs for j in range(len(self.elems))], [])':
                attr = a
        if attr is None:
            raise TranslateError('_deduce_bfun pattern: ' + s0)
        if s1 != f'ns += sum([tmp for j in range(int(counts[{K}] / len(tmp)))], [])':
            raise TranslateError('_deduce_bfun repetition: ' + s1)
        kinds.append((K, KIND[attr]))
        pos += 1
    rest = [_norm(t2.src(s)) for s in body[pos:]]
    want = ['mask = np.array(ns)', 'inds = mask.copy()',
            'for j in range(len(self.elems)): maskj = mask == j total = np.sum(maskj) seq = np.arange(total, dtype=np.int_) inds[maskj] = seq',
            'return (ns[i], inds[i])']
    if rest != want:
        raise TranslateError('_deduce_bfun tail: ' + repr(rest))
    if len(kinds) != 4:
        raise TranslateError('_deduce_bfun: expected four entity kinds, got ' + repr(kinds))
    # gbasis uses the pair as (component, local index)
    gb = t2.find_def(t2.parse(CMP), 'gbasis', 'ElementComposite')
    gsrc = [_norm(t2.src(s)) for s in _nodoc(gb.body)]
    if 'n, ind = self._deduce_bfun(i)' not in gsrc or not any('if n == k: output.append(e.gbasis(mapping, X, ind, tind)[0]) else: output.append(e.gbasis(mapping, X, 0, tind)[0].zeros())' in g for g in gsrc):
        raise TranslateError('ElementComposite.gbasis: ' + repr(gsrc)[:400])
    klist = '; '.join(str(K) for K, _ in kinds)
    sel = ' '.join(f'| {K} => {A}' for K, A in kinds)
    return (f'(* counts index -> layout entry read in the block guarded by counts[K] > 0 *)\n'
            f'Definition gen_kind_attr (K : nat) : nat := match K with {sel} | _ => K end.\n'
            f'Definition gen_deduce_ns (ref : layout) (ls : list layout) : list nat :=\n'
            f'  flat_map (fun K => let cnt := nth K (total_counts ref ls) 0 in\n'
            f'                     if 0 <? cnt then let tmp := comp_pattern ls (gen_kind_attr K) in repeat_list tmp (cnt / length tmp) else [])\n'
            f'           [{klist}].\n'
            f'Definition gen_deduce_bfun (ref : layout) (ls : list layout) (i : nat) : nat * nat :=\n'
            f'  let ns := gen_deduce_ns ref ls in (nth i ns 0, nth i (deduce_inds ns) 0).')


def split_indices():
    fn = t2.find_def(t2.parse(ABS), 'split_indices', 'AbstractBasis')
    body = _nodoc(fn.body)
    ifs = [s for s in body if isinstance(s, ast.If)]
    top = t2.only(ifs, 'split_indices branches')
    if t2.src(top.test) != 'isinstance(self.elem, ElementComposite)' or len(top.orelse) != 1 or not isinstance(top.orelse[0], ast.If) \
            or t2.src(top.orelse[0].test) != 'isinstance(self.elem, ElementVector)':
        raise TranslateError('split_indices: branch structure')
    comp = '\n'.join(_norm(t2.src(s)) for s in top.body)
    order_c = []
    for a in ('nodal', 'edge', 'facet', 'interior'):
        k = KIND[a]
        pat = f"self.{a}_dofs[o[{k}]:o[{k}] + e.{a}_dofs].flatten('F')"
        if pat not in comp:
            raise TranslateError(f'split_indices (composite): slice of {a}_dofs not found')
        order_c.append((comp.index(pat), k))
    if [k for _, k in sorted(order_c)] != [0, 1, 2, 3]:
        raise TranslateError('split_indices (composite): concatenation order')
    if 'o += np.array([e.nodal_dofs, e.edge_dofs, e.facet_dofs, e.interior_dofs])' not in comp or 'o = np.zeros(4, dtype=np.int32)' not in comp \
            or 'for k in range(nelems):' not in comp or 'e = self.elem.elems[k]' not in comp:
        raise TranslateError('split_indices (composite): offset bookkeeping')
    vec = '\n'.join(_norm(t2.src(s)) for s in top.orelse[0].body)
    order_v = []
    for a in ('nodal', 'edge', 'facet', 'interior'):
        pat = f"self.{a}_dofs[k::ndims].flatten('F')"
        if pat not in vec:
            raise TranslateError(f'split_indices (vector): rows of {a}_dofs not found')
        order_v.append((vec.index(pat), KIND[a]))
    if [k for _, k in sorted(order_v)] != [0, 1, 2, 3] or 'ndims = self.elem.dim' not in vec or 'for k in range(ndims):' not in vec:
        raise TranslateError('split_indices (vector): order / loop')
    return ('(* rows o[K] : o[K] + e.K_dofs of each kind, flattened entity-major, kinds in the order nodal, edge, facet, interior *)\n'
            'Definition gen_composite_split (tp : topo) (ls : list layout) (n : nat) : list nat :=\n'
            '  split_list tp (D_of ls) (lay ls n) (fun K r => o_of ls n K + r).\n'
            '(* rows k :: ndims of each kind *)\n'
            'Definition gen_vector_split (tp : topo) (d : nat -> nat) (dim n : nat) : list nat :=\n'
            '  split_list tp (fun K => dim * d K) d (fun K r => n + r * dim).')


def dofs_init():
    fn = t2.find_def(t2.parse(DOF), '__init__', 'Dofs')
    src = '\n'.join(_norm(t2.src(s)) for s in _nodoc(fn.body))
    need = [
        "self.nodal_dofs = np.reshape(np.arange(element.nodal_dofs * topo.nvertices, dtype=np.int32), (element.nodal_dofs, topo.nvertices), order='F') + offset",
        'offset += element.nodal_dofs * topo.nvertices',
        "self.edge_dofs = np.reshape(np.arange(element.edge_dofs * topo.nedges, dtype=np.int32), (element.edge_dofs, topo.nedges), order='F') + offset",
        'offset += element.edge_dofs * topo.nedges',
        "self.facet_dofs = np.reshape(np.arange(element.facet_dofs * topo.nfacets, dtype=np.int32), (element.facet_dofs, topo.nfacets), order='F') + offset",
        'offset += element.facet_dofs * topo.nfacets',
        "self.interior_dofs = np.reshape(np.arange(element.interior_dofs * topo.nelements, dtype=np.int32), (element.interior_dofs, topo.nelements), order='F') + offset",
        'self.element_dofs = np.zeros((0, topo.nelements), dtype=np.int32)',
        'for itr in range(topo.t.shape[0]): self.element_dofs = np.vstack((self.element_dofs, self.nodal_dofs[:, topo.t[itr]]))',
        'for itr in range(topo.t2e.shape[0]): self.element_dofs = np.vstack((self.element_dofs, self.edge_dofs[:, topo.t2e[itr]]))',
        'for itr in range(topo.t2f.shape[0]): self.element_dofs = np.vstack((self.element_dofs, self.facet_dofs[:, topo.t2f[itr]]))',
        'self.element_dofs = np.vstack((self.element_dofs, self.interior_dofs))',
    ]
    posn = []
    for s in need:
        if s not in src:
            raise TranslateError('Dofs.__init__: statement not found: ' + s[:90])
        posn.append(src.index(s))
    if posn != sorted(posn):
        raise TranslateError('Dofs.__init__: statement order changed')
    guards = {}
    for node in ast.walk(fn):
        if isinstance(node, ast.If):
            inner = _norm(' '.join(t2.src(x) for x in node.body))
            for kind in ('edge', 'facet'):
                if f'self.{kind}_dofs' in inner and f'element.{kind}_dofs > 0' in t2.src(node.test):
                    guards.setdefault(kind, set()).add(_norm(t2.src(node.test)))
    want = {'edge': {'element.refdom.dim() == 3 and element.edge_dofs > 0'},
            'facet': {'element.facet_dofs > 0', 'element.refdom.dim() >= 2 and element.facet_dofs > 0'}}
    for kind in ('edge', 'facet'):
        if not guards.get(kind) or not guards[kind] <= want[kind]:
            raise TranslateError(f'Dofs.__init__: guard of the {kind} DOFs must test the spatial dimension of the reference '
                                 f'domain (model: edges only in 3-D): ' + repr(sorted(guards.get(kind, []))))
    return ('(* Dofs.__init__: kind tables reshape(arange, (d, G), order=F) + running offset; rows stacked kind by kind *)\n'
            'Definition gen_element_dofs (tp : topo) (d : nat -> nat) : list (list nat) := element_dofs_of tp d.')


HEADER2 = '''(* GENERATED by vlib/c19_translate.py from element_composite.py, abstract_basis.py (split_indices), dofs.py, element.py
   of the implementation under test — do not edit *)
From Coq Require Import List Arith Bool.
Import ListNotations.
Require Import Model.C01_Assembly Model.C19_Blocks Model.C19_Composite Model.C19_CompBasis.

'''


def vector_counts():
    """ElementVector.__init__: the four per-entity DOF counts as functions of the scalar element's counts d K, the
    component count dim (self.dim) and the spatial dimension edim (elem.dim)"""
    tree = t2.parse(VEC)
    fn = t2.find_def(tree, '__init__', 'ElementVector')
    if [a.arg for a in fn.args.args] != ['self', 'elem', 'dim'] or [t2.src(x) for x in fn.args.defaults] != ['None']:
        raise TranslateError('ElementVector.__init__ signature')
    body = _nodoc(fn.body)
    srcs = [_norm(t2.src(x)) for x in body]
    if 'self.elem = elem' not in srcs or 'self._dim = elem.dim if dim is None else dim' not in srcs:
        raise TranslateError('ElementVector.__init__: elem / _dim assignment: ' + repr(srcs[:3]))
    pr = t2.find_def(tree, 'dim', 'ElementVector')
    if [_norm(t2.src(x)) for x in _nodoc(pr.body)] != ['return self._dim']:
        raise TranslateError('ElementVector.dim property')
    env = {'self.dim': 'dim', 'self._dim': 'dim', 'self.elem.dim': 'edim', 'elem.dim': 'edim'}
    for a, k in KIND.items():
        env[f'self.elem.{a}_dofs'] = f'(d {k})'
        env[f'elem.{a}_dofs'] = f'(d {k})'
    ex = t2.Expr(env, 'nat')
    terms = {}
    for st in body:
        if isinstance(st, ast.Assign) and len(st.targets) == 1:
            tg = t2.src(st.targets[0])
            for a, k in KIND.items():
                if tg == f'self.{a}_dofs':
                    if k in terms:
                        raise TranslateError(f'ElementVector.__init__: {tg} assigned twice')
                    terms[k] = ex.tr(st.value)
    if sorted(terms) != [0, 1, 2, 3]:
        raise TranslateError('ElementVector.__init__: DOF counts not all assigned: ' + repr(sorted(terms)))
    return ('(* ElementVector.__init__: per-entity DOF counts; d K = counts of the scalar element, dim = number of components\n'
            '   (self.dim), edim = elem.dim *)\n'
            'Definition gen_vector_layout (d : nat -> nat) (dim edim : nat) (K : nat) : nat :=\n'
            f'  match K with 0 => {terms[0]} | 1 => {terms[1]} | 2 => {terms[2]} | _ => {terms[3]} end.\n'
            'Definition gen_vector_dim (given : option nat) (edim : nat) : nat := match given with None => edim | Some n => n end.')


def translate_comp():
    bfun_counts()
    return HEADER2 + deduce_bfun() + '\n\n' + split_indices() + '\n\n' + dofs_init() + '\n\n' + vector_counts() + '\n\n' + composite_basis() + '\n\n' + form_block() + '\n'


# ------------------------------------------------------------------------------------------ CompositeBasis
CBS = 'skfem/assembly/basis/composite_basis.py'


def composite_basis():
    tree = t2.parse(CBS)
    init = t2.find_def(tree, '__init__', 'CompositeBasis')
    body = [_norm(t2.src(x)) for x in _nodoc(init.body)]
    if 'nelem = bases[0].element_dofs.shape[1]' not in body or 'nqp = len(bases[0].W)' not in body:
        raise TranslateError('CompositeBasis.__init__: reference counts: ' + repr(body[:2]))
    loop = t2.only([x for x in _nodoc(init.body) if isinstance(x, ast.For)], 'CompositeBasis.__init__ loop')
    if t2.src(loop.target) != 'basis' or t2.src(loop.iter) != 'bases':
        raise TranslateError('CompositeBasis.__init__ loop header')
    cond = {}
    for st in loop.body:
        if not (isinstance(st, ast.If) and len(st.body) == 1 and isinstance(st.body[0], ast.Raise) and not st.orelse):
            raise TranslateError('CompositeBasis.__init__ check: ' + t2.src(st)[:100])
        test = _norm(t2.src(st.test))
        exc = t2.src(st.body[0].exc.func)
        if test.endswith('!= nqp') and exc == 'ValueError':
            who = {'len(basis.W) != nqp': 'basis', 'len(bases[0].W) != nqp': 'b0'}.get(test)
            cond['nq'] = who
        elif test.endswith('!= nelem') and exc == 'ValueError':
            who = {'basis.element_dofs.shape[1] != nelem': 'basis', 'bases[0].element_dofs.shape[1] != nelem': 'b0'}.get(test)
            cond['nt'] = who
        elif test == 'isinstance(basis.elem, ElementComposite)' and exc == 'NotImplementedError':
            continue
        else:
            raise TranslateError('CompositeBasis.__init__ check: ' + test)
    if cond.get('nq') is None or cond.get('nt') is None:
        raise TranslateError('CompositeBasis.__init__: quadrature / element-count checks: ' + repr(cond))

    def prop(name, want):
        fn = t2.find_def(tree, name, 'CompositeBasis')
        got = [_norm(t2.src(x)) for x in _nodoc(fn.body)]
        if got != want:
            raise TranslateError(f'CompositeBasis.{name}: ' + repr(got)[:400])
    prop('dx', ['return self.bases[0].dx'])
    prop('nelems', ['return self.bases[0].nelems'])
    prop('X', ['return self.bases[0].X'])
    prop('element_dofs', ['if self._element_dofs is None: dofs = [] offset = 0 for basis in self.bases: dofs.append(basis.element_dofs + offset) '
                          'if not self.equal_dofnum: offset += basis.N self._element_dofs = np.vstack(dofs)', 'return self._element_dofs'])
    prop('basis', ['if self._basis is None: bases = [] M = len(self.bases) for i in range(M): for j in range(len(self.bases[i].basis)): tmp = [] '
                   'for k in range(M): if k == i: tmp.append(self.bases[i].basis[j][0]) else: tmp.append(self.bases[k].basis[0][0].zeros()) '
                   'bases.append(tuple(tmp)) self._basis = bases', 'return self._basis'])
    prop('N', ['if self.equal_dofnum: return self.bases[0].N', 'N = 0', 'for basis in self.bases: N += basis.N', 'return N'])
    prop('Nbfun', ['Nbfun = 0', 'for basis in self.bases: Nbfun += basis.Nbfun', 'return Nbfun'])
    # shared DOFs (equal_dofnum): split / interpolate hand the whole vector to every component (N34)
    for nm, first in (('split', 'if self.equal_dofnum: return [(x, basis) for basis in self.bases]'),
                      ('interpolate', 'if self.equal_dofnum: return tuple((basis.interpolate(x) for basis in self.bases))')):
        got = [_norm(t2.src(x)) for x in _nodoc(t2.find_def(tree, nm, 'CompositeBasis').body)]
        if not got or got[0] != first:
            raise TranslateError(f'CompositeBasis.{nm}: shared-DOF branch: ' + repr(got[:1]))
    mm = t2.find_def(t2.parse(ABS), '__matmul__', 'AbstractBasis')
    if 'return CompositeBasis(self, other, equal_dofnum=True)' not in [_norm(t2.src(x)) for x in _nodoc(mm.body)]:
        raise TranslateError('AbstractBasis.__matmul__')
    return ('(* CompositeBasis: constructor checks as read from the source, tables as in Model.C19_CompBasis *)\n'
            'Section GenCB.\n  Variable R : Type.\n  Variables V VC : Type.\n  Variable inj : nat -> V -> VC.\n'
            '  Definition gen_composite_basis (b0 : basis R V) (rest : list (basis R V)) (eq : bool) : option (basis R VC) :=\n'
            '    let bs := b0 :: rest in\n'
            f'    if forallb (fun basis => (bnq {cond["nq"]} =? bnq b0) && (bnelems {cond["nt"]} =? bnelems b0)) bs then\n'
            '      Some (mkBasis (cb_N R V b0 bs eq) (cb_Nbfun R V bs) (bnelems b0) (bnq b0) (cb_edofs R V b0 bs eq)\n'
            "                    (fun i e q => let '(n, j) := nth i (cb_funs R V b0 bs) (0, 0) in inj n (bB (nth n bs b0) j e q))\n"
            '                    (bdx b0))\n    else None.\nEnd GenCB.')


# ------------------------------------------------------------------------------------------ Form.block
FRM = 'skfem/assembly/form/form.py'


def form_block():
    fn = t2.find_def(t2.parse(FRM), 'block', 'Form')
    if [a.arg for a in fn.args.args] != ['self'] or fn.args.vararg is None or fn.args.vararg.arg != 'args':
        raise TranslateError('Form.block signature')
    st = t2.only([x for x in _nodoc(fn.body) if isinstance(x, ast.Assign) and t2.src(x.targets[0]) == 'form.form'
                  and isinstance(x.value, ast.Lambda)], 'form.form = lambda ...')
    lam = st.value
    if lam.args.vararg is None or lam.args.vararg.arg != 'arg' or lam.args.args:
        raise TranslateError('Form.block lambda arguments')
    call = lam.body
    if not (isinstance(call, ast.Call) and t2.src(call.func) == 'self.form' and len(call.args) == 2 and not call.keywords
            and isinstance(call.args[0], ast.Starred) and isinstance(call.args[0].value, ast.ListComp) and t2.src(call.args[1]) == 'arg[-1]'):
        raise TranslateError('Form.block: call of the wrapped form: ' + t2.src(call)[:200])
    lc = call.args[0].value
    gens = [(t2.src(g.target), _norm(t2.src(g.iter))) for g in lc.generators]
    if gens != [('k', 'range(len(arg) - 1)'), ('j', 'range(int((self.nargs - 1) / (len(arg) - 1)))')] or any(g.ifs for g in lc.generators):
        raise TranslateError('Form.block comprehension generators: ' + repr(gens))
    e = lc.elt
    if not (isinstance(e, ast.IfExp) and t2.src(e.body) == 'arg[k]' and t2.src(e.orelse) == 'arg[k].zeros()'):
        raise TranslateError('Form.block element: ' + t2.src(e))
    test = t2.src(e.test)
    if test == 'args[k] == j':
        cond = 'nth k args 0 =? j'
    elif test == 'j == args[k]':
        cond = 'j =? nth k args 0'
    else:
        raise TranslateError('Form.block slot test: ' + test)
    return ('(* Form.block: flat argument list [ (arg[k] if args[k] == j else arg[k].zeros()) for k in (trial, test) for j in range(M) ], w *)\n'
            'Definition gen_form_block {V W R : Type} (vzero : V -> V) (form : list V -> list V -> W -> R) (M : nat) (args : list nat)\n'
            '    (u v : V) (w : W) : R :=\n'
            '  let arg := [u; v] in\n'
            f'  let flat := flat_map (fun k => map (fun j => if {cond} then nth k arg u else vzero (nth k arg u)) (seq 0 M)) (seq 0 2) in\n'
            '  form (firstn M flat) (skipn M flat) w.')
