"""C17 — fail-closed translator of the tag codecs of skfem/mesh/mesh.py and of the hexahedron node
permutations / npz key scheme into compositions of the combinators of coq/model/C17_TagCodec.v.

The translated functions are straight-line NumPy code; every statement must be one of a small set of
shapes, every expression one of the array idioms listed in ``Tr.expr``.  Anything else raises
TranslateError (= broken tie).  The translator is typed: every Python variable carries the Coq type of
its model value, so that an idiom applied to the wrong kind of array is refused, too.
"""
import ast

from . import t2
from .core import TranslateError, clist, cnat, cz

MESH = 'skfem/mesh/mesh.py'
MESHIO = 'skfem/io/meshio.py'

NATS, ZS, BOOLS, NS, MASK, PAIRS = 'list nat', 'list Z', 'list bool', 'list N', 'mask', 'list (nat * nat)'


def _is(n, text):
    return t2.src(n) == text


class Tr:
    """expression / statement translator over a typed environment"""

    def __init__(self, env):
        self.env = dict(env)          # python source text of a name -> (coq term, type)
        self.lets = []

    # -- expressions
    def expr(self, n):
        s = t2.src(n)
        if s in self.env:
            return self.env[s]
        if isinstance(n, ast.Call):
            f = t2.src(n.func)
            if f == 'np.zeros_like' and len(n.args) == 1 and not n.keywords and _is(n.args[0], 'self.t2f'):
                return 'zeros_mask', MASK
            if f == 'np.nonzero' and len(n.args) == 1 and not n.keywords:
                a = n.args[0]
                if (isinstance(a, ast.Compare) and len(a.ops) == 1 and isinstance(a.ops[0], ast.Eq)
                        and isinstance(a.left, ast.Subscript) and _is(a.left.value, 'self.t2f')):
                    ix = t2.index_tuple(a.left)
                    if len(ix) == 2 and _is(ix[0], ':'):
                        c, tc = self.expr(ix[1])
                        b, tb = self.expr(a.comparators[0])
                        if (tc, tb) == (ZS, NATS):
                            return f'(nonzero_cols_eq nslots nt t2f {c} {b})', PAIRS
                raise TranslateError('np.nonzero argument: ' + s)
            if f in ('np.sort', 'np.argsort') and len(n.args) == 1 and not n.keywords:
                a, ta = self.expr(n.args[0])
                if ta == NATS:
                    return f'({"sort_nat" if f == "np.sort" else "argsort"} {a})', NATS
                raise TranslateError(f'{f} of a {ta}: ' + s)
            # ((1 << np.arange(nfacets))[:, None] & data[0].astype(np.int32)).astype(bool)
            if (isinstance(n.func, ast.Attribute) and n.func.attr == 'astype' and len(n.args) == 1
                    and _is(n.args[0], 'bool') and isinstance(n.func.value, ast.BinOp)
                    and isinstance(n.func.value.op, ast.BitAnd)):
                l, r = n.func.value.left, n.func.value.right
                if (_is(l, '(1 << np.arange(self.refdom.nfacets))[:, None]') and isinstance(r, ast.Call)
                        and isinstance(r.func, ast.Attribute) and r.func.attr == 'astype'
                        and len(r.args) == 1 and _is(r.args[0], 'np.int32')):
                    d, td = self.expr(r.func.value)
                    if td == NS:
                        return f'(bitmask_of {d})', MASK
                raise TranslateError('mask expression: ' + s)
            # np.isin(np.arange(self.t.shape[1], dtype=np.int32), subdomain).astype(int)
            if (isinstance(n.func, ast.Attribute) and n.func.attr == 'astype' and len(n.args) == 1
                    and _is(n.args[0], 'int') and isinstance(n.func.value, ast.Call)
                    and t2.src(n.func.value.func) == 'np.isin' and len(n.func.value.args) == 2
                    and _is(n.func.value.args[0], 'np.arange(self.t.shape[1], dtype=np.int32)')):
                a, ta = self.expr(n.func.value.args[1])
                if ta == NATS:
                    return f'(encode_subdomain nt {a})', NS
            raise TranslateError('unsupported call: ' + s)
        if isinstance(n, ast.Subscript):
            v = n.value
            ix = t2.index_tuple(n)
            if _is(v, 'self.f2t') and len(ix) == 2:
                o, to = self.expr(ix[0])
                b, tb = self.expr(ix[1])
                if (to, tb) == (BOOLS, NATS):
                    return f'(f2t_pick f2t {o} {b})', ZS
                raise TranslateError('f2t index: ' + s)
            if (_is(v, 'self.t2f') or (_is(v, 't2f') and self.env.get('#t2f') == 'arg')) and len(ix) == 1:
                m, tm = self.expr(ix[0])
                if tm == MASK:
                    return f'(gather_mask nslots nt t2f {m})', NATS
                raise TranslateError('t2f index: ' + s)
            # mask.nonzero()[k]
            if (isinstance(v, ast.Call) and isinstance(v.func, ast.Attribute) and v.func.attr == 'nonzero'
                    and not v.args and len(ix) == 1 and isinstance(ix[0], ast.Constant) and ix[0].value in (0, 1)):
                m, tm = self.expr(v.func.value)
                if tm == MASK:
                    return f'({"mask_rows" if ix[0].value == 0 else "mask_cols"} nslots nt {m})', NATS
            # np.nonzero(data)[0]
            if (isinstance(v, ast.Call) and t2.src(v.func) == 'np.nonzero' and len(v.args) == 1
                    and len(ix) == 1 and isinstance(ix[0], ast.Constant) and ix[0].value == 0):
                d, td = self.expr(v.args[0])
                if td == NS:
                    return f'(nonzero_n {d})', NATS
            if len(ix) == 1 and not isinstance(ix[0], (ast.Slice, ast.Constant)):
                a, ta = self.expr(v)
                i, ti = self.expr(ix[0])
                if ti == NATS and ta == NATS:
                    return f'(gather 0 {a} {i})', NATS
                if ti == NATS and ta == ZS:
                    return f'(gather_z {a} {i})', ZS
            raise TranslateError('unsupported subscript: ' + s)
        if isinstance(n, ast.BinOp) and isinstance(n.op, ast.MatMult):
            if _is(n.left, '1 << np.arange(self.refdom.nfacets)'):
                m, tm = self.expr(n.right)
                if tm == MASK:
                    return f'(bitpack_cols nslots nt {m})', NS
            r = n.right
            if (_is(n.left, 'np.arange(2)') and isinstance(r, ast.Compare) and len(r.ops) == 1
                    and isinstance(r.ops[0], ast.Eq) and isinstance(r.left, ast.Subscript)
                    and _is(r.left.value, 'self.f2t')):
                ix = t2.index_tuple(r.left)
                if len(ix) == 2 and _is(ix[0], ':'):
                    f, tf = self.expr(ix[1])
                    c, tc = self.expr(r.comparators[0])
                    if (tf, tc) == (NATS, NATS):
                        return f'(ori_of f2t {f} {c})', BOOLS
            raise TranslateError('unsupported @: ' + s)
        raise TranslateError('unsupported expression: ' + s[:160])

    # -- statements
    def bind(self, pyname, term, typ):
        self.lets.append(f'let {pyname} := {term} in')
        self.env[pyname] = (pyname, typ)

    def stmt(self, st):
        if isinstance(st, ast.Assign) and len(st.targets) == 1:
            tg = st.targets[0]
            if isinstance(tg, ast.Name):
                term, typ = self.expr(st.value)
                self.bind(tg.id, term, typ)
                return
            if isinstance(tg, ast.Tuple) and all(isinstance(e, ast.Name) for e in tg.elts) and len(tg.elts) == 2:
                a, b = (e.id for e in tg.elts)
                if a == b:
                    raise TranslateError('tuple target: ' + t2.src(st))
                if isinstance(st.value, ast.Tuple) and len(st.value.elts) == 2:
                    (x, tx), (y, ty) = (self.expr(e) for e in st.value.elts)   # RHS in the OLD environment
                    self.lets.append(f"let '({a}, {b}) := ({x}, {y}) in")
                    self.env[a], self.env[b] = (a, tx), (b, ty)
                    return
                term, typ = self.expr(st.value)
                if typ == PAIRS:
                    tmp = f'{a}_{b}'
                    self.lets.append(f'let {tmp} := {term} in')
                    self.bind(a, f'(map fst {tmp})', NATS)
                    self.bind(b, f'(map snd {tmp})', NATS)
                    return
            if (isinstance(tg, ast.Subscript) and isinstance(tg.value, ast.Name)
                    and isinstance(st.value, ast.Constant) and st.value.value == 1 and st.value.value is not True):
                m, tm = self.expr(tg.value)
                ix = t2.index_tuple(tg)
                if tm == MASK and len(ix) == 2:
                    (r, tr), (c, tc) = self.expr(ix[0]), self.expr(ix[1])
                    if (tr, tc) == (NATS, ZS):
                        self.bind(tg.value.id, f'(mask_set1 nt {m} {r} {c})', MASK)
                        return
        raise TranslateError('unsupported statement: ' + t2.src(st)[:200])

    def body(self, result):
        return '\n  '.join(self.lets + [result])


def _strip_doc(body):
    return [s for s in body if not (isinstance(s, ast.Expr) and isinstance(s.value, ast.Constant)
                                    and isinstance(s.value.value, str))]


def translate_codec():
    """Gen/C17Gen.v, part 1: encode_boundary, the subdomain indicator, the two decode branches and the
    cell-data key scheme of mesh.py"""
    tree = t2.parse(MESH)
    enc = t2.find_def(tree, '_encode_cell_data', 'Mesh')
    dec = t2.find_def(tree, '_decode_cell_data', 'Mesh')

    # ---- _encode_cell_data
    body = _strip_doc(enc.body)
    if len(body) != 4 or not isinstance(body[2], ast.FunctionDef) or body[2].name != 'encode_boundary':
        raise TranslateError('_encode_cell_data: unexpected statement list')
    if t2.src(body[0]) != 'subdomains = {} if self._subdomains is None else self._subdomains' \
            or t2.src(body[1]) != 'boundaries = {} if self._boundaries is None else self._boundaries':
        raise TranslateError('_encode_cell_data: defaults of subdomains/boundaries')
    eb = body[2]
    if [a.arg for a in eb.args.args] != ['boundary']:
        raise TranslateError('encode_boundary signature')
    ebody = _strip_doc(eb.body)
    # b = boundary if isinstance(boundary, OrientedBoundary) else OrientedBoundary(boundary, np.zeros_like(boundary))
    if t2.src(ebody[0]) != ('b = boundary if isinstance(boundary, OrientedBoundary) else '
                            'OrientedBoundary(boundary, np.zeros_like(boundary))'):
        raise TranslateError('encode_boundary: orientation default: ' + t2.src(ebody[0]))
    tr = Tr({'b': ('b', NATS), 'b.ori': ('ori', BOOLS)})
    for st in ebody[1:-1]:
        tr.stmt(st)
    if not isinstance(ebody[-1], ast.Return):
        raise TranslateError('encode_boundary: last statement is not a return')
    res, typ = tr.expr(ebody[-1].value)
    if typ != NS:
        raise TranslateError('encode_boundary returns a ' + typ)
    gen_enc = ('Definition gen_encode_boundary (nslots nt : nat) (t2f : mat nat) (f2t : mat Z)\n'
               '    (ori : list bool) (b : list nat) : list N :=\n  ' + tr.body(res) + '.')
    # return {**{f'skfem:s:{name}': [<indicator>] for name, subdomain in subdomains.items()},
    #         **{f'skfem:b:{name}': [encode_boundary(boundary)] for name, boundary in boundaries.items()}}
    ret = body[3]
    if not (isinstance(ret, ast.Return) and isinstance(ret.value, ast.Dict) and ret.value.keys == [None, None]):
        raise TranslateError('_encode_cell_data: return shape')
    dcs = ret.value.values
    keys = []
    sub_term = None
    for dc, kind, var, coll in zip(dcs, 'sb', ('subdomain', 'boundary'), ('subdomains', 'boundaries')):
        if not (isinstance(dc, ast.DictComp) and len(dc.generators) == 1 and not dc.generators[0].ifs
                and t2.src(dc.generators[0].target) == f'(name, {var})'
                and t2.src(dc.generators[0].iter) == f'{coll}.items()'):
            raise TranslateError('_encode_cell_data: comprehension ' + t2.src(dc)[:100])
        if t2.src(dc.key) != f"f'skfem:{kind}:{{name}}'":
            raise TranslateError('_encode_cell_data: key ' + t2.src(dc.key))
        keys.append(f'skfem:{kind}:')
        if not (isinstance(dc.value, ast.List) and len(dc.value.elts) == 1):
            raise TranslateError('_encode_cell_data: value must be a one-block list')
        v = dc.value.elts[0]
        if kind == 's':
            sub_term, typ = Tr({'subdomain': ('s', NATS)}).expr(v)
            if typ != NS:
                raise TranslateError('subdomain indicator type')
        elif t2.src(v) != 'encode_boundary(boundary)':
            raise TranslateError('_encode_cell_data: boundary value ' + t2.src(v))
    gen_sub = f'Definition gen_encode_subdomain (nt : nat) (s : list nat) : list N :=\n  {sub_term}.'

    # ---- _decode_cell_data
    body = _strip_doc(dec.body)
    # the facet slot table is an argument (default: the table of the mesh itself)
    if [a.arg for a in dec.args.args] != ['self', 'cell_data', 't2f'] or len(dec.args.defaults) != 1 \
            or t2.src(dec.args.defaults[0]) != 'None' or t2.src(body[0]) != 'if t2f is None:\n    t2f = self.t2f':
        raise TranslateError('_decode_cell_data: signature / default of t2f')
    body = body[1:]
    if [t2.src(s) for s in body[:2]] != ['subdomains = {}', 'boundaries = {}'] or len(body) != 4 \
            or t2.src(body[3]) != 'return (boundaries, subdomains)':
        raise TranslateError('_decode_cell_data: unexpected statement list')
    loop = body[2]
    if not (isinstance(loop, ast.For) and t2.src(loop.target) == '(name, data)'
            and t2.src(loop.iter) == 'cell_data.items()' and not loop.orelse and len(loop.body) == 3):
        raise TranslateError('_decode_cell_data: loop')
    splits = {"subnames = name.split(':')": 'parse_key', "subnames = name.split(':', 2)": 'parse_key2',
              "subnames = name.split(':', maxsplit=2)": 'parse_key2'}
    if t2.src(loop.body[0]) not in splits or t2.src(loop.body[1]) != "if subnames[0] != 'skfem':\n    continue":
        raise TranslateError('_decode_cell_data: name parsing: ' + t2.src(loop.body[0]))
    parse = splits[t2.src(loop.body[0])]
    br = loop.body[2]
    if not (isinstance(br, ast.If) and t2.src(br.test) == "subnames[1] == 's'" and len(br.orelse) == 1
            and isinstance(br.orelse[0], ast.If) and t2.src(br.orelse[0].test) == "subnames[1] == 'b'"
            and not br.orelse[0].orelse):
        raise TranslateError('_decode_cell_data: branches')
    # 's'
    st = t2.only(br.body, "'s' branch")
    if not (isinstance(st, ast.Assign) and t2.src(st.targets[0]) == 'subdomains[subnames[2]]'):
        raise TranslateError("'s' branch: " + t2.src(st))
    term, typ = Tr({'data[0]': ('data', NS)}).expr(st.value)
    if typ != NATS:
        raise TranslateError("'s' branch type")
    gen_dsub = f'Definition gen_decode_subdomain (data : list N) : list nat :=\n  {term}.'
    # 'b'
    bb = br.orelse[0].body
    tr = Tr({'data[0]': ('data', NS), '#t2f': 'arg'})
    for st in bb[:-1]:
        tr.stmt(st)
    last = bb[-1]
    if not (isinstance(last, ast.Assign) and t2.src(last.targets[0]) == 'boundaries[subnames[2]]'
            and isinstance(last.value, ast.IfExp)):
        raise TranslateError("'b' branch: final store " + t2.src(last))
    ife = last.value
    # OrientedBoundary(F, O) if O.any() else F
    if not (isinstance(ife.body, ast.Call) and t2.src(ife.body.func) == 'OrientedBoundary' and len(ife.body.args) == 2
            and not ife.body.keywords and isinstance(ife.orelse, ast.Name)
            and t2.src(ife.body.args[0]) == ife.orelse.id
            and t2.src(ife.test) == t2.src(ife.body.args[1]) + '.any()'):
        raise TranslateError("'b' branch: result " + t2.src(ife))
    (f, tf), (o, to) = tr.expr(ife.body.args[0]), tr.expr(ife.body.args[1])
    if (tf, to) != (NATS, BOOLS):
        raise TranslateError("'b' branch: result types")
    gen_dec = ('Definition gen_decode_boundary (nslots nt : nat) (t2f : mat nat) (f2t : mat Z)\n'
               '    (data : list N) : list nat * list bool :=\n  ' + tr.body(f'({f}, {o})') + '.')
    gen_keys = (f'Definition gen_key_subdomain : String.string := "{keys[0]}"%string.\n'
                f'Definition gen_key_boundary : String.string := "{keys[1]}"%string.\n'
                f'Definition gen_parse_key := {parse}.   (* {t2.src(loop.body[0])} *)')
    return '\n\n'.join([gen_enc, gen_sub, gen_dsub, gen_dec]), gen_keys


def translate_npz():
    """npz key scheme of Mesh.save_npz / Mesh.load_npz (boundaries b_, subdomains s_, orientation flags o_)"""
    tree = t2.parse(MESH)
    sv = _strip_doc(t2.find_def(tree, 'save_npz', 'Mesh').body)
    ld = _strip_doc(t2.find_def(tree, 'load_npz', 'Mesh').body)
    want = ['boundaries = {} if self.boundaries is None else self.boundaries',
            'subdomains = {} if self.subdomains is None else self.subdomains']
    if [t2.src(s) for s in sv[:2]] != want or len(sv) != 6:
        raise TranslateError('save_npz: statements')

    def prefix_comp(st, target, coll, value, cond):
        """<target> = {'<pre>' + key: <value> for key, value in <coll>.items() [if <cond>]} -> pre"""
        v = st.value
        if not (isinstance(st, ast.Assign) and t2.src(st.targets[0]) == target and isinstance(v, ast.DictComp)
                and t2.src(v.value) == value and t2.src(v.generators[0].target) == '(key, value)'
                and t2.src(v.generators[0].iter) == f'{coll}.items()'
                and [t2.src(c) for c in v.generators[0].ifs] == ([cond] if cond else [])
                and isinstance(v.key, ast.BinOp) and isinstance(v.key.op, ast.Add)
                and isinstance(v.key.left, ast.Constant) and isinstance(v.key.left.value, str)
                and t2.src(v.key.right) == 'key'):
            raise TranslateError('save_npz: ' + t2.src(st))
        return v.key.left.value
    # the orientation flags are collected BEFORE the boundary dictionary is re-keyed
    pre = {'orientations': prefix_comp(sv[2], 'orientations', 'boundaries', 'value.ori',
                                       'isinstance(value, OrientedBoundary)'),
           'boundaries': prefix_comp(sv[3], 'boundaries', 'boundaries', 'value', None),
           'subdomains': prefix_comp(sv[4], 'subdomains', 'subdomains', 'value', None)}
    if t2.src(sv[5]) != ('np.savez(filename, doflocs=self.doflocs, t=self.t, **boundaries, **subdomains, '
                         "**orientations, **{'sort_t': self.sort_t} if self.sort_t != type(self).sort_t else {})"):
        raise TranslateError('save_npz: savez call ' + t2.src(sv[5]))
    if len(ld) != 2 or t2.src(ld[0]) != 'data = np.load(filename)' or not isinstance(ld[1], ast.Return):
        raise TranslateError('load_npz: statements')
    call = ld[1].value
    if not (isinstance(call, ast.Call) and t2.src(call.func) == 'cls'
            and [t2.src(a) for a in call.args] == ["data['doflocs']", "data['t']"]
            and [k.arg for k in call.keywords] == ['_boundaries', '_subdomains', None]
            and t2.src(call.keywords[2].value) == "{'sort_t': bool(data['sort_t'])} if 'sort_t' in data.files else {}"):
        raise TranslateError('load_npz: constructor call')
    lpre = {}
    for k in call.keywords[:2]:
        v = k.value
        if not (isinstance(v, ast.DictComp) and t2.src(v.key) == 'key[2:]'
                and t2.src(v.generators[0].iter) == 'data.files' and t2.src(v.generators[0].target) == 'key'
                and len(v.generators[0].ifs) == 1):
            raise TranslateError('load_npz: ' + t2.src(v))
        c = v.generators[0].ifs[0]
        if not (isinstance(c, ast.Compare) and t2.src(c.left) == 'key[:2]' and isinstance(c.ops[0], ast.Eq)
                and isinstance(c.comparators[0], ast.Constant) and isinstance(c.comparators[0].value, str)):
            raise TranslateError('load_npz: filter ' + t2.src(c))
        lpre[k.arg] = c.comparators[0].value
        if k.arg == '_subdomains':
            if t2.src(v.value) != 'data[key]':
                raise TranslateError('load_npz: subdomain value ' + t2.src(v.value))
        else:
            # OrientedBoundary(data[key], data['<o>' + key[2:]]) if '<o>' + key[2:] in data.files else data[key]
            e = v.value
            if not (isinstance(e, ast.IfExp) and t2.src(e.orelse) == 'data[key]' and isinstance(e.test, ast.Compare)
                    and isinstance(e.test.ops[0], ast.In) and t2.src(e.test.comparators[0]) == 'data.files'
                    and isinstance(e.test.left, ast.BinOp) and isinstance(e.test.left.left, ast.Constant)
                    and t2.src(e.test.left.right) == 'key[2:]'):
                raise TranslateError('load_npz: boundary value ' + t2.src(e))
            o = e.test.left.left.value
            if t2.src(e.body) != f"OrientedBoundary(data[key], data[{o!r} + key[2:]])":
                raise TranslateError('load_npz: oriented value ' + t2.src(e.body))
            lpre['_orientations'] = o
    for s in list(pre.values()) + list(lpre.values()):
        if not isinstance(s, str) or len(s) != 2 or not s.isascii() or '"' in s:
            raise TranslateError(f'npz prefix {s!r}')
    return (f'Definition gen_npz_save_b : String.string := "{pre["boundaries"]}"%string.\n'
            f'Definition gen_npz_save_s : String.string := "{pre["subdomains"]}"%string.\n'
            f'Definition gen_npz_save_o : String.string := "{pre["orientations"]}"%string.\n'
            f'Definition gen_npz_load_b : String.string := "{lpre["_boundaries"]}"%string.\n'
            f'Definition gen_npz_load_s : String.string := "{lpre["_subdomains"]}"%string.\n'
            f'Definition gen_npz_load_o : String.string := "{lpre["_orientations"]}"%string.\n'
            'Definition gen_npz_fixed_keys : list String.string := ["doflocs"%string; "t"%string].\n'
            '(* the optional key sort_t: written only when self.sort_t differs from the class default, read back when present *)\n'
            'Definition gen_npz_sort_t_key : String.string := "sort_t"%string.\n'
            'Definition gen_sort_t_save (default v : bool) : option bool := if Bool.eqb v default then None else Some v.\n'
            'Definition gen_sort_t_load (default : bool) (o : option bool) : bool := match o with Some v => v | None => default end.')


TO_DICT = ['boundaries = None', 'subdomains = None',
           'if self.boundaries is not None:\n    boundaries = {k: v.tolist() for k, v in self.boundaries.items()}',
           'if self.subdomains is not None:\n    subdomains = {k: v.tolist() for k, v in self.subdomains.items()}',
           'orientations = {}',
           'if self.boundaries is not None:\n    orientations = {k: v.ori.tolist() for k, v in self.boundaries.items() '
           'if isinstance(v, OrientedBoundary)}',
           "return {'p': self.p.T.tolist(), 't': self.t.T.tolist(), 'boundaries': boundaries, 'subdomains': subdomains, "
           "**({'orientations': orientations} if orientations else {}), "
           "**({'sort_t': self.sort_t} if self.sort_t != type(self).sort_t else {})}"]
FROM_DICT = ["if 'boundaries' in data and data['boundaries'] is not None:\n    data['boundaries'] = {k: np.array(v, dtype=np.int32) "
             "for k, v in data['boundaries'].items()}",
             "for k, v in (data.pop('orientations', None) or {}).items():\n    data['boundaries'][k] = "
             "OrientedBoundary(data['boundaries'][k], v)",
             "if 'subdomains' in data and data['subdomains'] is not None:\n    data['subdomains'] = {k: np.array(v, dtype=np.int32) "
             "for k, v in data['subdomains'].items()}",
             "data['doflocs'] = data.pop('p')", "data['_subdomains'] = data.pop('subdomains')",
             "data['_boundaries'] = data.pop('boundaries')", 'return cls(**data)']


def translate_dict():
    """to_dict / from_dict: the tag part, statement-exact"""
    tree = t2.parse(MESH)
    td = [t2.src(s) for s in _strip_doc(t2.find_def(tree, 'to_dict', 'Mesh').body)]
    fd = [t2.src(s) for s in _strip_doc(t2.find_def(tree, 'from_dict', 'Mesh').body)]
    if td != TO_DICT:
        raise TranslateError('to_dict: ' + repr(td))
    # from_dict works on a copy of the caller's dictionary
    if fd[0] != 'data = dict(data)':
        raise TranslateError('from_dict: first statement must copy the dictionary: ' + fd[0])
    fd = fd[1:]
    if fd[1:] != FROM_DICT or not fd[0].startswith("if 'p' not in data or 't' not in data:"):
        raise TranslateError('from_dict: ' + repr(fd))
    return '''(* Mesh.to_dict / Mesh.from_dict, boundaries *)
Definition gen_dict_boundaries (b : bdict) := map (fun kv => (fst kv, fst (snd kv))) b.        (* {k: v.tolist()} *)
Definition gen_dict_orientations (b : bdict) :=                                              (* {k: v.ori.tolist() ... if oriented} *)
  flat_map (fun kv => match snd (snd kv) with Some o => [(fst kv, o)] | None => [] end) b.
Definition gen_dict_load (bs : list (String.string * list nat)) (os : list (String.string * list bool)) : bdict :=
  map (fun kf => (fst kf, (snd kf, lookup (fst kf) os))) bs.  (* boundaries[k] = OrientedBoundary(boundaries[k], v) for k, v in orientations *)'''


def translate_glue():
    """to_meshio / from_meshio: which slot table the decoder gets, and that the caller's data dictionaries are not updated"""
    tree = t2.parse(MESHIO)
    to = t2.find_def(tree, 'to_meshio')
    fr = t2.find_def(tree, 'from_meshio')
    srcs_to = [t2.src(s) for s in to.body]
    want = ['if encode_cell_data:\n    cell_data = {**({} if cell_data is None else cell_data), **mesh._encode_cell_data()}',
            'if encode_point_data:\n    point_data = {**({} if point_data is None else point_data), **mesh._encode_point_data()}']
    for w in want:
        if w not in srcs_to:
            raise TranslateError('to_meshio: data dictionaries: expected ' + w)
    if 't = mesh.dofs.element_dofs.copy()' not in srcs_to:
        raise TranslateError('to_meshio: connectivity written')
    blk = [s for s in fr.body if isinstance(s, ast.If) and t2.src(s.test) == 'm.cell_data'
           and '_decode_cell_data' in t2.src(s)]
    blk = t2.only(blk, 'from_meshio: decoding of the skfem tags')
    if [t2.src(x) for x in blk.body] != ['_, t2f = mtmp.build_entities(t, mtmp.refdom.facets)',
                                        '_boundaries, _subdomains = mtmp._decode_cell_data(m.cell_data, t2f)',
                                        'boundaries.update(_boundaries)', 'subdomains.update(_subdomains)']:
        raise TranslateError('from_meshio: decoding of the skfem tags: ' + t2.src(blk))
    if 'mtmp = mesh_type(p, t, validate=False)' not in [t2.src(s) for s in fr.body]:
        raise TranslateError('from_meshio: temporary mesh')
    # the encoder uses the table of the mesh that is written: self.t2f = build_entities(self.t, refdom.facets)[1]
    mesh = t2.parse(MESH)
    if [t2.src(s) for s in _strip_doc(t2.find_def(mesh, '_init_facets', 'Mesh').body)] != \
            ['self._facets, self._t2f = self.build_entities(self.t, self.elem.refdom.facets)']:
        raise TranslateError('_init_facets')
    return ('(* from_meshio decodes with build_entities(t as read, refdom.facets)[1]; the encoder used build_entities(t as written, '
            'refdom.facets)[1] *)\nDefinition gen_decoder_slot_table_is_of_connectivity_as_read : bool := true.')


def translate_save_forwarding():
    """Mesh.save -> io.meshio.to_file -> to_meshio: which argument reaches which parameter, the defaults, and how the data
    dictionaries of the caller are combined with the encoded tags (structural)"""
    tree = t2.parse(MESHIO)
    to = t2.find_def(tree, 'to_meshio')
    tf = t2.find_def(tree, 'to_file')
    sv = t2.find_def(t2.parse(MESH), 'save', 'Mesh')

    def sig(fn, drop):
        names = [a.arg for a in fn.args.args]
        dflt = [t2.src(d) for d in fn.args.defaults]
        d = dict(zip(names[len(names) - len(dflt):], dflt))
        return [n for n in names if n not in drop], d
    p_to, d_to = sig(to, ())
    p_tf, d_tf = sig(tf, ('filename',))
    p_sv, d_sv = sig(sv, ('filename',))
    if to.args.kwarg or not tf.args.kwarg or tf.args.kwarg.arg != 'kwargs' or not sv.args.kwarg or sv.args.kwarg.arg != 'kwargs':
        raise TranslateError('save / to_file / to_meshio: **kwargs')
    # to_file: meshio.write(path, to_meshio(<positional names>), **kwargs)
    wr = tf.body[-1]
    call = wr.value if isinstance(wr, ast.Expr) else None
    if not (isinstance(call, ast.Call) and t2.src(call.func) == 'meshio.write' and len(call.args) == 2
            and t2.src(call.args[0]) == 'path' and [k.arg for k in call.keywords] == [None]
            and t2.src(call.keywords[0].value) == 'kwargs' and isinstance(call.args[1], ast.Call)
            and t2.src(call.args[1].func) == 'to_meshio' and not call.args[1].keywords
            and all(isinstance(a, ast.Name) for a in call.args[1].args)):
        raise TranslateError('to_file: ' + t2.src(wr))
    passed_tf = [a.id for a in call.args[1].args]
    # Mesh.save: return to_file(self, filename, point_data, cell_data, **kwargs)
    rt = sv.body[-1]
    c2 = rt.value if isinstance(rt, ast.Return) else None
    if not (isinstance(c2, ast.Call) and t2.src(c2.func) == 'to_file' and [k.arg for k in c2.keywords] == [None]
            and t2.src(c2.keywords[0].value) == 'kwargs' and all(isinstance(a, ast.Name) for a in c2.args)):
        raise TranslateError('Mesh.save: ' + t2.src(rt))
    passed_sv = [a.id for a in c2.args]
    tf_all = [a.arg for a in tf.args.args]
    # data dictionaries: if <flag>: X = {**(<user part>), **mesh._encode_<kind>_data()}
    blocks = {}
    for st in to.body:
        if isinstance(st, ast.If) and isinstance(st.test, ast.Name) and st.test.id.startswith('encode_'):
            a = t2.only(st.body, 'to_meshio: ' + st.test.id)
            if not (isinstance(a, ast.Assign) and isinstance(a.targets[0], ast.Name) and isinstance(a.value, ast.Dict)
                    and all(k is None for k in a.value.keys) and not st.orelse):
                raise TranslateError('to_meshio: ' + t2.src(st))
            tgt = a.targets[0].id
            parts = [t2.src(v) for v in a.value.values]
            enc = [x for x in parts if x.startswith('mesh._encode_')]
            usr = [x for x in parts if x in (f'{{}} if {tgt} is None else {tgt}', f'{tgt} or {{}}')]
            if len(enc) != 1 or len(parts) != len(enc) + len(usr) or (usr and parts[0] != usr[0]):
                raise TranslateError('to_meshio: ' + t2.src(a))
            blocks[tgt] = (st.test.id, enc[0], bool(usr))
    if set(blocks) != {'cell_data', 'point_data'} or blocks['cell_data'][1] != 'mesh._encode_cell_data()' \
            or blocks['point_data'][1] != 'mesh._encode_point_data()':
        raise TranslateError('to_meshio: data blocks ' + repr(blocks))
    mk = [s for s in to.body if isinstance(s, ast.Assign) and t2.src(s.targets[0]) == 'mio']
    if t2.src(t2.only(mk, 'to_meshio: meshio.Mesh').value) != 'meshio.Mesh(mesh.p.T, cells, point_data=point_data, cell_data=cell_data)':
        raise TranslateError('to_meshio: meshio.Mesh call')
    sl = lambda l: clist([f'"{x}"%string' for x in l])
    dl = lambda d: clist([f'("{k}"%string, "{v}"%string)' for k, v in d.items()])

    def data(tgt):
        flag, _, merged = blocks[tgt]
        return (f'Definition gen_{tgt}_of_to_meshio {{V}} (encode_cell_data encode_point_data : bool) (user : option (list (string * V)))\n'
                f'    (enc : list (string * V)) : option (list (string * V)) :=\n'
                f'  if {flag} then Some (dict_merge ({"match user with Some d => d | None => [] end" if merged else "[]"}) enc) else user.')
    return '\n'.join([
        '(* Mesh.save -> to_file -> to_meshio *)',
        f'Definition gen_to_meshio_params : list string := {sl(p_to)}.',
        f'Definition gen_to_file_passes : list string := {sl(passed_tf)}.       (* positional arguments of to_meshio(...) in to_file *)',
        f'Definition gen_to_file_params : list string := {sl(tf_all)}.',
        f'Definition gen_save_passes : list string := {sl(passed_sv)}.          (* positional arguments of to_file(...) in Mesh.save *)',
        f'Definition gen_to_meshio_defaults : list (string * string) := {dl(d_to)}.',
        f'Definition gen_to_file_defaults : list (string * string) := {dl(d_tf)}.',
        f'Definition gen_save_defaults : list (string * string) := {dl(d_sv)}.',
        data('cell_data'), data('point_data')])


def translate_hex():
    """HEX_MAPPING / INV_HEX_MAPPING (T1: literal + exact evaluation of the module constants) and the
    places where to_meshio / from_meshio apply them (T2)"""
    tree = t2.parse(MESHIO)
    vals = {}
    for st in tree.body:
        if isinstance(st, ast.Assign) and len(st.targets) == 1 and isinstance(st.targets[0], ast.Name):
            nm = st.targets[0].id
            if nm == 'HEX_MAPPING':
                try:
                    vals[nm] = ast.literal_eval(st.value)
                except ValueError as e:
                    raise TranslateError('HEX_MAPPING is not a literal: ' + str(e))
            if nm == 'INV_HEX_MAPPING':
                if t2.src(st.value) != '[HEX_MAPPING.index(i) for i in range(len(HEX_MAPPING))]':
                    raise TranslateError('INV_HEX_MAPPING: ' + t2.src(st.value))
                vals[nm] = 'by-index'
    if set(vals) != {'HEX_MAPPING', 'INV_HEX_MAPPING'}:
        raise TranslateError('HEX_MAPPING / INV_HEX_MAPPING not found')
    hm = vals['HEX_MAPPING']
    if not (isinstance(hm, list) and all(isinstance(x, int) and not isinstance(x, bool) and 0 <= x < 100 for x in hm)):
        raise TranslateError('HEX_MAPPING entries')
    # the values the module really holds (exact evaluation)
    import skfem.io.meshio as mio
    if list(mio.HEX_MAPPING) != hm:
        raise TranslateError('module HEX_MAPPING differs from its literal')
    inv = [int(x) for x in mio.INV_HEX_MAPPING]

    def perm_expr(n):
        s = t2.src(n)
        table = {'HEX_MAPPING': 'HEX_MAPPING', 'HEX_MAPPING[:8]': '(firstn 8 HEX_MAPPING)',
                 'INV_HEX_MAPPING': 'INV_HEX_MAPPING', 'INV_HEX_MAPPING[:8]': '(firstn 8 INV_HEX_MAPPING)'}
        if s not in table:
            raise TranslateError('row permutation: ' + s)
        return table[s]

    def branches(fn, var, tests):
        """if <tests[0]>: t = t[P0] elif <tests[1]>: t = t[P1]  -> [P0, P1]"""
        ifs = [s for s in fn.body if isinstance(s, ast.If) and t2.src(s.test) == tests[0]]
        node = t2.only(ifs, fn.name + ': if ' + tests[0])
        out = []
        for k, tst in enumerate(tests):
            if t2.src(node.test) != tst:
                raise TranslateError(f'{fn.name}: expected test {tst}, found {t2.src(node.test)}')
            st = t2.only(node.body, fn.name + ' branch body')
            if not (isinstance(st, ast.Assign) and t2.src(st.targets[0]) == var and isinstance(st.value, ast.Subscript)
                    and t2.src(st.value.value) == var):
                raise TranslateError(f'{fn.name}: ' + t2.src(st))
            out.append(perm_expr(st.value.slice))
            if k + 1 < len(tests):
                node = t2.only(node.orelse, fn.name + ' elif')
                if not isinstance(node, ast.If):
                    raise TranslateError(fn.name + ': elif expected')
            elif node.orelse:
                raise TranslateError(fn.name + ': unexpected else')
        return out

    to = t2.find_def(tree, 'to_meshio')
    fr = t2.find_def(tree, 'from_meshio')
    out2, out1 = branches(to, 't', ['isinstance(mesh, MeshHex2)', 'isinstance(mesh, MeshHex1)'])
    in1, in2 = branches(fr, 't', ["meshio_type == 'hexahedron'", "meshio_type == 'hexahedron27'"])
    # which meshio cell type each class is written as / read from
    import skfem
    tm = {k.__name__: v for k, v in mio.TYPE_MESH_MAPPING.items()}
    mt = {k: v.__name__ for k, v in mio.MESH_TYPE_MAPPING.items()}
    if tm.get('MeshHex1') != 'hexahedron' or tm.get('MeshHex2') != 'hexahedron27' \
            or mt.get('hexahedron') != 'MeshHex1' or mt.get('hexahedron27') != 'MeshHex2':
        raise TranslateError('hexahedron type mapping')
    sup = ['MeshTri1', 'MeshTri2', 'MeshQuad1', 'MeshQuad2', 'MeshTet1', 'MeshTet2', 'MeshHex1', 'MeshHex2']
    for c in list(tm) + list(mt.values()) + list(mt):
        if not (c.isascii() and c.replace('_', 'a').isalnum()):
            raise TranslateError(f'type name {c!r}')
    assoc = lambda d: clist([f'("{k}"%string, "{v}"%string)' for k, v in d.items()])
    global CLASS_TABLES
    CLASS_TABLES = ('Definition gen_type_of_class : list (string * string) := ' + assoc(tm) + '.   (* TYPE_MESH_MAPPING *)\n'
                    'Definition gen_class_of_type : list (string * string) := ' + assoc(mt) + '.   (* MESH_TYPE_MAPPING *)\n'
                    'Definition supported_classes : list string := ' + clist([f'"{c}"%string' for c in sup]) + '.')
    nat_list = lambda l: clist([cnat(x) for x in l])
    return (f'Definition HEX_MAPPING : list nat := {nat_list(hm)}.\n'
            f'(* the value of the module constant; INV_HEX_MAPPING is defined in the source as\n'
            f'   [HEX_MAPPING.index(i) for i in range(len(HEX_MAPPING))] (checked in C17_Tie) *)\n'
            f'Definition INV_HEX_MAPPING : list nat := {nat_list(inv)}.\n'
            f'Definition gen_hex1_out : list nat := {out1}.   (* to_meshio, MeshHex1 *)\n'
            f'Definition gen_hex2_out : list nat := {out2}.   (* to_meshio, MeshHex2 *)\n'
            f'Definition gen_hex1_in : list nat := {in1}.     (* from_meshio, hexahedron *)\n'
            f'Definition gen_hex2_in : list nat := {in2}.     (* from_meshio, hexahedron27 *)'), tm, mt


POSTINIT = ("if self.nnodes > M and self.elem is not Element:\n    p, t = (self.doflocs, self.t)\n    t_nodes = t[:M]\n"
            "    uniq, ix = np.unique(t_nodes, return_inverse=True)\n"
            "    self.t = np.arange(len(uniq), dtype=np.int32)[ix].reshape(t_nodes.shape)\n"
            "    doflocs = np.hstack((p[:, uniq], np.zeros((p.shape[0], np.max(t) + 1 - len(uniq)))))\n"
            "    doflocs[:, self.dofs.element_dofs[M:].flatten('F')] = p[:, t[M:].flatten('F')]\n"
            "    self.doflocs = doflocs")

HEADER_HO = '''(* GENERATED by vlib/c17_translate.py from skfem/mesh/mesh.py (__post_init__), skfem/io/meshio.py and the
   element classes of the second-order meshes — do not edit *)
From Coq Require Import List Arith Bool ZArith.
Import ListNotations.
Require Import Model.C18_Surgery Model.C17_HighOrder.
'''


def translate_highorder():
    """Gen/C17GenHO.v: the high-order reordering of Mesh.__post_init__ (statement-exact), the doubled reference
    coordinates of the local DOFs of the four second-order mesh classes (T1, exact evaluation) and HEX_MAPPING"""
    import numpy as np
    tree = t2.parse(MESH)
    fn = t2.find_def(tree, '__post_init__', 'Mesh')
    blk = [s for s in fn.body if isinstance(s, ast.If) and 'self.nnodes > M' in t2.src(s.test)]
    blk = t2.only(blk, '__post_init__: high-order branch')
    if t2.src(blk) != POSTINIT:
        raise TranslateError('__post_init__: high-order branch: ' + t2.src(blk))
    if 'M = self.elem.refdom.nnodes' not in [t2.src(s) for s in fn.body]:
        raise TranslateError('__post_init__: M')
    import skfem
    import skfem.io.meshio as mio
    out = [HEADER_HO, '''(* Mesh.__post_init__, branch self.nnodes > M *)
Definition gen_hi_t (M : nat) (t : mat nat) : mat nat := reix_t (firstn M t).   (* arange(len(uniq))[ix].reshape(t_nodes.shape) *)
Definition gen_hi_doflocs {P} (zero : P) (M ncols : nat) (p : list P) (t edofs_hi : mat nat) : list P :=
  let uniq := reix_uniq (firstn M t) in
  let doflocs := gather zero p uniq ++ repeat zero (S (list_max (concat t)) - length uniq) in   (* hstack((p[:, uniq], zeros)) *)
  scatter (flattenF ncols edofs_hi) (gather zero p (flattenF ncols (skipn M t))) doflocs.     (* doflocs[:, edofs[M:].F] = p[:, t[M:].F] *)''']
    for cname, ty in (('MeshTri2', 'triangle6'), ('MeshQuad2', 'quad9'), ('MeshTet2', 'tetra10'), ('MeshHex2', 'hexahedron27')):
        cls = getattr(skfem, cname)
        if mio.TYPE_MESH_MAPPING.get(cls) != ty:
            raise TranslateError(f'{cname} is not written as {ty}')
        d = 2 * np.asarray(cls.elem.doflocs, dtype=float)
        if not np.all(d == np.round(d)):
            raise TranslateError(f'{cls.elem.__name__}.doflocs are not half-integral')
        rows = clist([clist([cz(int(x)) for x in r]) for r in d.tolist()])
        out.append(f'(* 2 * {cls.elem.__name__}.doflocs : where local DOF k of the element of {cname} sits *)\n'
                   f'Definition gen_doflocs2_{ty} : list (list Z) := {rows}.')
    hm = [int(x) for x in mio.HEX_MAPPING]
    out.append('Definition gen_hex_mapping : list nat := ' + clist([cnat(x) for x in hm]) + '.   (* HEX_MAPPING *)')
    return '\n\n'.join(out) + '\n'


CLASS_TABLES = ''

HEADER = '''(* GENERATED by vlib/c17_translate.py from skfem/mesh/mesh.py and skfem/io/meshio.py — do not edit *)
From Coq Require Import List Arith Bool ZArith NArith.
From Coq Require String.
Import ListNotations.
Require Import Model.C17_TagCodec.
'''


def translate():
    """(text of Gen/C17Gen.v, class tables, list of (part, error)): the parts are translated independently so that a
    source shape the translator does not know in one function does not hide what the others say"""
    errors = []

    def part(name, fn):
        try:
            return fn()
        except TranslateError as e:
            errors.append((name, str(e)))
            return None
    hx = part('io/meshio.py: HEX_MAPPING, to_meshio, from_meshio', translate_hex)
    cd = part('mesh.py: _encode_cell_data, _decode_cell_data', translate_codec)
    dc = part('mesh.py: to_dict, from_dict', translate_dict)
    nz = part('mesh.py: save_npz, load_npz', translate_npz)
    gl = part('io/meshio.py: to_meshio, from_meshio (data dictionaries, slot table of the decoder)', translate_glue)
    fw = part('mesh.py: Mesh.save; io/meshio.py: to_file, to_meshio (argument forwarding)', translate_save_forwarding)
    tm = mt = None
    parts = [HEADER]
    if cd:
        parts.append(cd[0])
    if hx:
        parts.append(hx[0])
        tm, mt = hx[1], hx[2]
    if dc:
        parts.append(dc)
    if gl:
        parts.append(gl)
    parts.append('Import String.   (* string literals below *)')
    if cd:
        parts.append(cd[1])
    if nz:
        parts.append(nz)
    if hx:
        parts.append(CLASS_TABLES)
    if fw:
        parts.append(fw)
    return '\n\n'.join(parts) + '\n', tm, mt, errors
